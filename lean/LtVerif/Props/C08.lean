/-
  C08 — the response depends only on its request; same answer over HTTP/1.x and HTTP/2.
  Property theorems only; helper lemmas live in LtVerif/Proofs/Server.lean.

  Vocabulary (Model/Reset.lean, Model/Server.lean):
    ReqSt = ReqLive + ReqKept + ReqStale   the modelled fields of request_st, grouped by what
                                           request_reset() / request_reset_ex() do with them;
                                           ReqCore = ReqLive + ReqKept; `requestStClass` maps
                                           every C member to its group
    SlotsOk e slots                        every non-NULL r->plugin_ctx slot belongs to a module
                                           whose reset hook clears it
    h1Msg site e c head                    one request head on an HTTP/1.x connection `c`
                                           (h1_recv_headers .. connection_handle_response_end_state)
    h2Stream site e h2r swin obj fs es     one HTTP/2 stream on the pooled request object `obj`
    Out.core                               status, headers without Connection (names lower-cased), body
    expectedAnswer site e head             the answer as a function of (site, configuration, head) only
-/
import LtVerif.Proofs.Server
import LtVerif.Proofs.ErrHandler
namespace LtVerif.C08
open LtVerif LtVerif.B LtVerif.Req

/-! ## reset

The three reset theorems compare two hand-written things: the model of the reset functions
(`requestReset`, `requestResetEx`, `requestRelease`, written line by line after reqpool.c and
http-header-glue.c) and the model of request_init_data() (`ReqSt.init`).  What they add to the
definitions is that no field of `ReqLive` / `ReqKept` was forgotten by the reset code — for a C
struct member that is the statement "request_reset() restores it".  That the models are the C
functions is tested (stream `rst`); that `ReqLive`/`ReqKept`/`ReqStale` together with the notes
below account for EVERY member of the C structs is `c08_every_member_classified`. -/

/-- **request_reset() + request_reset_ex() restore every core field**, provided every module that
    left something in its r->plugin_ctx slot registered a reset hook that clears it (`SlotsOk`;
    `c08_slot_modules_clear` for the modules of the source tree).  Whatever else the state of
    the object is (any values in all modelled fields), afterwards every `ReqLive` and `ReqKept`
    field equals its value in a freshly initialised object. -/
theorem c08_reset_restores (e : SrvEnv) (s : ReqSt) (hs : SlotsOk e s.pluginCtx) :
    (requestResetEx (requestReset hdrIds e s)).toReqCore = (ReqSt.init e).toReqCore :=
  reset_core e s hs

/-- request_release() (HTTP/2 stream objects going back to the pool), same proviso. -/
theorem c08_release_restores (e : SrvEnv) (s : ReqSt) (hs : SlotsOk e s.pluginCtx) :
    (requestRelease hdrIds e s).toReqCore = (ReqSt.init e).toReqCore :=
  requestRelease_core e s hs

/-- The proviso is needed: the reset functions themselves do not touch r->plugin_ctx[]; what a
    module without a clearing hook leaves in its slot is still there for the next request. -/
theorem c08_reset_slot_without_hook_survives :
    ∃ (e : SrvEnv) (s : ReqSt),
      (requestResetEx (requestReset hdrIds e s)).toReqCore ≠ (ReqSt.init e).toReqCore :=
  ⟨{ nPlugins := 3, resetHooks := [1, 2] },
   { ReqSt.init { nPlugins := 3, resetHooks := [1, 2] } with pluginCtx := [(3, [])] }, by decide +kernel⟩

/-- **Every module of the source tree that stores into r->plugin_ctx[] registers a
    handle_request_reset hook, and that hook reaches code that clears the slot** (table extracted
    from src/*.c by tools/ltv/extractors_c08.py; the recogniser is textual and trusted). -/
theorem c08_slot_modules_clear :
    ∀ m ∈ Extracted.slotModules, m.2.1 = true ∧ m.2.2 = true := by decide +kernel

/-- **Every member of struct request_st and of struct connection is classified** (member lists
    from the clang AST): restored by request_reset() / by request_reset_ex() / carried but typed
    out of the response path / constant / scratch with a written-before-read note / connection
    level.  A member added to either struct fails this theorem until it is classified. -/
theorem c08_every_member_classified :
    sameNames Extracted.requestStMembers requestStClass = true ∧
    sameNames Extracted.connectionMembers connectionClass = true := by decide +kernel

/-! ## HTTP/1.x: keep-alive, pipelining, recycled connection objects

`P` is what arrived on the connection before, cut into the pieces the server handled one at a
time; each piece starts the way a request starts (`ReqStart`: first byte not a control byte — the
blank-line rules of h1_recv_headers() make the treatment of CR/LF depend on whether a blank line
was skipped before, which is a property of the byte stream, not of a request; they are in the
model and tested by stream `conn`, not covered here).  `1 ∈ e.resetHooks`: mod_setenv, the one
modelled module that uses its r->plugin_ctx slot, clears it in its reset hook. -/

/-- **The response is a function of the request (HTTP/1.x).**  After any history `P` of request
    heads on the connection — accepted or rejected, any methods, bodies read by a handler — if the
    connection is still open, the comparable part of the answer to the head `R` is
    `expectedAnswer site e R`, which mentions only the site, the configuration and `R`.
    (In the model a connection stays open after a rejected head or after a body no handler read
    only in the cases the server keeps it open; see the examples at the end for histories that do.) -/
theorem c08_history_free (site : Site) (e : SrvEnv) (h1h : 1 ∈ e.resetHooks) (P : List Bytes) (R : Bytes)
    (hP : ∀ h ∈ P, ReqStart h) (hR : ReqStart R)
    (hopen : (connAfter site e (Conn.fresh e) P).isOpen = true) :
    ((h1Msg site e (connAfter site e (Conn.fresh e) P) R).2).map Out.core = expectedAnswer site e R :=
  (h1Msg_answer site e h1h _ (connInv_after site e h1h P hP _ (ConnInv_fresh e)) hopen R hR).1

/-- Metamorphic form: `R` after `P` on the same connection is answered like `R` alone on a fresh
    connection. -/
theorem c08_history_free_vs_alone (site : Site) (e : SrvEnv) (h1h : 1 ∈ e.resetHooks) (P : List Bytes) (R : Bytes)
    (hP : ∀ h ∈ P, ReqStart h) (hR : ReqStart R)
    (hopen : (connAfter site e (Conn.fresh e) P).isOpen = true) :
    ((h1Msg site e (connAfter site e (Conn.fresh e) P) R).2).map Out.core =
      ((h1Msg site e (Conn.fresh e) R).2).map Out.core := by
  rw [c08_history_free site e h1h P R hP hR hopen]
  exact (h1Msg_answer site e h1h _ (ConnInv_fresh e) rfl R hR).1.symm

/-- Every element of a pipelined / keep-alive run is either unanswered (the connection was closed
    before, or the head is incomplete) or the function of its own head. -/
theorem c08_every_answer_from_own_request (site : Site) (e : SrvEnv) (h1h : 1 ∈ e.resetHooks) (msgs : List Bytes)
    (hm : ∀ h ∈ msgs, ReqStart h) :
    ∀ c, ConnInv e c →
      Forall2 (fun head o => o = none ∨ o.map Out.core = expectedAnswer site e head)
        msgs (h1Run site e c msgs) := by
  induction msgs with
  | nil => intro c _; exact Forall2.nil
  | cons head rest ih =>
    intro c h
    unfold h1Run
    simp only []
    have ih' := ih (fun x hx => hm x (by simp [hx]))
    by_cases ho : c.isOpen = true
    · have ha := h1Msg_answer site e h1h c h ho head (hm head (by simp))
      exact Forall2.cons (Or.inr ha.1) (ih' _ ha.2)
    · have hmm : h1Msg site e c head = (c, none) := by simp [h1Msg, ho]
      rw [hmm]
      exact Forall2.cons (Or.inl rfl) (ih' _ h)

/-- **Recycled connection objects.**  A connection object that went through any history, was
    closed and is accepted again answers like a brand-new one.  (Request object only: the
    connection-level members are `connOutside` in `connectionClass`; known finding KF1 lives there.) -/
theorem c08_recycled_connection (site : Site) (e : SrvEnv) (h1h : 1 ∈ e.resetHooks) (P : List Bytes) (R : Bytes)
    (hP : ∀ h ∈ P, ReqStart h) (hR : ReqStart R)
    (hclosed : (connAfter site e (Conn.fresh e) P).requestCount = 0) :
    ((h1Msg site e (connAfter site e (Conn.fresh e) P).reaccept R).2).map Out.core = expectedAnswer site e R := by
  have hinv := connInv_after site e h1h P hP _ (ConnInv_fresh e)
  have hre : ConnInv e (connAfter site e (Conn.fresh e) P).reaccept := ⟨hinv.1, fun _ => hinv.2 hclosed⟩
  exact (h1Msg_answer site e h1h _ hre rfl R hR).1

/-! ## HTTP/2: earlier streams, recycled stream objects

A stream is one step in the model (HEADERS in, response out, object released): there is no
interleaving of the processing of two streams to quantify over.  What the theorems give for
concurrently open streams is only that each is answered from its own pooled object, whatever that
object went through before; scheduling, flow control and the HPACK tables are C05–C07. -/

/-- **The response is a function of the request (HTTP/2 stream).**  Whatever pooled object a stream
    gets — brand new, or released by any earlier stream of this or another connection — the
    comparable part of its answer is `expectedAnswerH2`, which mentions only the site, the
    configuration, the connection-level request `h2r` and the stream's own header fields; and the
    object goes back to the pool with all core fields restored. -/
theorem c08_h2_stream_history_free (site : Site) (e : SrvEnv) (h1h : 1 ∈ e.resetHooks) (h2r prev : ReqSt)
    (hprev : SlotsOk e prev.pluginCtx) (swin : Nat) (fs : List (Bytes × Bytes)) (es : Bool) :
    ((h2Stream site e h2r swin (requestRelease hdrIds e prev) fs es).2).map Out.core
      = expectedAnswerH2 site e h2r swin fs es ∧
    ((h2Stream site e h2r swin (ReqSt.init e) fs es).2).map Out.core
      = expectedAnswerH2 site e h2r swin fs es :=
  ⟨(h2Stream_answer site e h1h h2r swin _ (requestRelease_core e prev hprev) fs es).1,
   (h2Stream_answer site e h1h h2r swin _ rfl fs es).1⟩

/-- a pool in which every object has its core fields restored -/
def PoolOk (e : SrvEnv) (pool : List ReqSt) : Prop := ∀ p ∈ pool, p.toReqCore = (ReqSt.init e).toReqCore

/-- Every stream of a connection (any number of earlier streams, any pool contents left behind by
    other connections) is answered by the function of its own header fields. -/
theorem c08_h2_every_stream_from_own_request (site : Site) (e : SrvEnv) (h1h : 1 ∈ e.resetHooks) (h2r : ReqSt)
    (swin : Nat) (streams : List (List (Bytes × Bytes) × Bool)) :
    ∀ pool, PoolOk e pool →
      Forall2 (fun st o => o.map Out.core = expectedAnswerH2 site e h2r swin st.1 st.2)
        streams (h2Run site e h2r swin pool streams) := by
  induction streams with
  | nil => intro pool _; exact Forall2.nil
  | cons st rest ih =>
    intro pool hpool
    obtain ⟨fs, es⟩ := st
    unfold h2Run
    cases pool with
    | nil =>
      simp only []
      have ha := h2Stream_answer site e h1h h2r swin (ReqSt.init e) rfl fs es
      refine Forall2.cons ha.1 (ih _ ?_)
      intro p hp
      simp only [List.mem_singleton] at hp
      rw [hp]; exact ha.2
    | cons p ps =>
      simp only []
      have hp0 : p.toReqCore = (ReqSt.init e).toReqCore := hpool p (by simp)
      have ha := h2Stream_answer site e h1h h2r swin p hp0 fs es
      refine Forall2.cons ha.1 (ih _ ?_)
      intro q hq
      simp only [List.mem_cons] at hq
      rcases hq with hq | hq
      · rw [hq]; exact ha.2
      · exact hpool q (by simp [hq])

/-- **The connection-level request `h2r` is not a channel.**  Of everything a stream inherits from
    `h2r` in h2_init_stream() (configuration, condition cache and validity bits, regex captures,
    server_name selector, send window) only the configuration and the server_name selector can
    reach the answer: two `h2r` that agree on these give the same answer to every stream.
    (No stream writes `h2r`; h2.c patches `h2r->conf` once, when the connection starts.) -/
theorem c08_h2_answer_depends_on_h2r_conf_only (site : Site) (e : SrvEnv) (a b : ReqSt) (swin swin' : Nat)
    (hconf : a.conf = b.conf) (hsn : a.serverName = b.serverName) (fs : List (Bytes × Bytes)) (es : Bool) :
    expectedAnswerH2 site e a swin fs es = expectedAnswerH2 site e b swin' fs es :=
  expectedAnswerH2_h2r site e a b swin swin' hconf hsn fs es

/-- **HTTP/2 on a recycled connection object.**  When the connection object that carries the HTTP/2
    connection (prior knowledge: no HTTP/1.x request on it since accept) went through any
    HTTP/1.x history before it was closed and accepted again, every stream is answered as on a
    brand-new connection object.  (HTTP/2 after `Upgrade: h2c`, where `h2r` is the object that just
    parsed the upgrade request, is covered by the end-to-end h2c streams only.) -/
theorem c08_h2_recycled_connection (site : Site) (e : SrvEnv) (h1h : 1 ∈ e.resetHooks) (P : List Bytes)
    (hP : ∀ h ∈ P, ReqStart h) (hclosed : (connAfter site e (Conn.fresh e) P).requestCount = 0)
    (swin swin' : Nat) (fs : List (Bytes × Bytes)) (es : Bool) :
    expectedAnswerH2 site e (connAfter site e (Conn.fresh e) P).reaccept.r swin fs es
      = expectedAnswerH2 site e (ReqSt.init e) swin' fs es := by
  have hinv := connInv_after site e h1h P hP _ (ConnInv_fresh e)
  have hre : ConnInv e (connAfter site e (Conn.fresh e) P).reaccept := ⟨hinv.1, fun _ => hinv.2 hclosed⟩
  exact expectedAnswerH2_conn site e _ hre rfl swin swin' fs es

/-! ## the same request over HTTP/1.1 and HTTP/2 -/

/- Full statement aimed at (DESIGN §6): for every semantic request q, `parseH1 (renderH1 v q)` and
   `parseH2 (fieldsH2 q)` yield the same request up to http_version, hence the same `respond` and the
   same CGI environment except SERVER_PROTOCOL.
   Proved below (`_partial`): the two *field loops and http_request_parse()* agree —
     HTTP/1.1:  request line `m t HTTP/1.1`, `Host: a`, fields fs   (`parseSemH1`, built from
                `applyFields`/`parsePostV`; C01's `parseHeaders_ok_iff` ties `applyFields` to the header bytes)
     HTTP/2:    `:method m  :scheme http  :path t  :authority a`, fields fs, END_STREAM (`parseSemH2`)
   give the same verdict, and on acceptance the same method, target (normalised target, path, query),
   host, header list and body length; only `version` (2) and the HTTP/1 keep-alive flag differ.
   What is missing for the full statement:
     * the fields are "plain" (`PlainField`): lower-case token names outside Host / Connection /
       Content-Length / Transfer-Encoding / TE (whose rules differ per version as the RFCs define), values
       non-empty, trimmed and free of characters a parser rejects; no Upgrade / HTTP2-Settings in the accepted
       record; method neither CONNECT nor POST, no request body;
     * the statement starts from tokenised fields, not from rendered bytes (no `renderH1`);
     * the response half (`respondC` reads `version` only when framing an unfinished body and when lower-casing a
       repeated response header name) is checked by the concrete instance at the end of this file and by the
       end-to-end cross-version stream, not proved in general. -/
theorem c08_h1_h2_same_request_partial (o : Opts) (mf : Nat) (m t a : Bytes) (fs : List (Bytes × Bytes))
    (hm : methodTable.contains m = true) (hmne : m ≠ []) (hnc : m ≠ ofString "CONNECT")
    (hnp : m ≠ ofString "POST") (htsl : t.head? = some slash)
    (htok : (if o.headerStrict then (if o.ctrlsReject then fragmentInvalidStrict t else t.any uriCharInvalidStrict)
             else t.any (fun b => b = 0 || b = cr || b = lf)) = false)
    (hane : a ≠ []) (halen : a.length < 1024) (haval : a.any lineCharInvalidStrict = false)
    (hpl : ∀ kv ∈ fs, PlainField o kv) (hsz : fieldsSize (pseudoFields m t a) + fieldsSize fs ≤ mf)
    (hup : ∀ r r', applyFields o (pre1 m t) ((ofString "host", a) :: fs) = .ok r →
      hostPolicy o 80 r = some (some r') →
      (hasTag r' (ofString "upgrade") || hasTag r' (ofString "http2-settings")) = false) :
    parseSemH2 o mf m t a fs = liftHeadRes (parseSemH1 o m t a fs) :=
  parseSem_same o mf m t a fs hm hmne hnc hnp htsl htok hane halen haval hpl hsz hup

/-- The HTTP/2 field loop alone: same record as the HTTP/1.x field loop (any outcome of the later
    host / target checks), or the same rejection status. -/
theorem c08_h2_field_loop_same_record (o : Opts) (mf : Nat) (m t a : Bytes) (fs : List (Bytes × Bytes))
    (hm : methodTable.contains m = true) (hmne : m ≠ []) (hnc : m ≠ ofString "CONNECT")
    (htsl : t.head? = some slash)
    (htok : (if o.headerStrict then (if o.ctrlsReject then fragmentInvalidStrict t else t.any uriCharInvalidStrict)
             else t.any (fun b => b = 0 || b = cr || b = lf)) = false)
    (hane : a ≠ []) (halen : a.length < 1024) (haval : a.any lineCharInvalidStrict = false)
    (hpl : ∀ kv ∈ fs, PlainField o kv) (hsz : fieldsSize (pseudoFields m t a) + fieldsSize fs ≤ mf) :
    match applyFields o (pre1 m t) ((ofString "host", a) :: fs) with
    | .error e => h2Fields o mf pre2 {} (pseudoFields m t a ++ fs) = .error e
    | .ok r1 => ∃ c, h2Fields o mf pre2 {} (pseudoFields m t a ++ fs) = .ok (asH2 r1, c) ∧ c.ext = false :=
  h2Fields_spec o mf m t a fs hm hmne hnc htsl htok hane halen haval hpl hsz

/-! ## non-vacuity: a concrete site, concrete histories -/

def demoSite : Site :=
  { nodes := [(ofString "/srv", .dir), (ofString "/srv/", .dir),
              (ofString "/srv/a.txt", .file (ofString "text/plain") (ofString "hello\n") (ofString "\"e1\"")),
              (ofString "/srv/s.cgi", .file (ofString "text/plain") (ofString "#!") (ofString "\"e3\"")),
              (ofString "/srv/index.html", .file (ofString "text/html") (ofString "<p>i</p>") (ofString "\"e2\""))],
    indexNames := [ofString "index.html"], denySuffix := [ofString "~"],
    sinkExt := [ofString ".cgi"], sinkBody := ofString "ok\n",
    scopes := [{ cond := .urlPrefix (ofString "/a"), extra := some [(ofString "X-A", ofString "1")] }] }

def demoEnv : SrvEnv :=
  { defaults := { parseopts := 9567, docRoot := ofString "/srv", maxKeepAliveRequests := 100 } }

def reqA : Bytes := ofString "GET /a.txt HTTP/1.1\r\nHost: h\r\n\r\n"
def reqMissing : Bytes := ofString "GET /nope HTTP/1.1\r\nHost: h\r\nCookie: c=1\r\n\r\n"
def reqPost : Bytes := ofString "POST /a.txt HTTP/1.1\r\nHost: h\r\nContent-Length: 3\r\n\r\n"
def reqPostSink : Bytes := ofString "POST /s.cgi HTTP/1.1\r\nHost: h\r\nContent-Length: 3\r\n\r\n"

example : 1 ∈ demoEnv.resetHooks := by decide
example : ReqStart reqA := ⟨71, by decide, by decide⟩
example : ∀ h ∈ [reqMissing, reqPostSink, reqPost], ReqStart h := by
  intro h hh
  simp only [List.mem_cons, List.not_mem_nil, or_false] at hh
  rcases hh with rfl | rfl | rfl
  · exact ⟨71, by decide, by decide⟩
  · exact ⟨80, by decide, by decide⟩
  · exact ⟨80, by decide, by decide⟩

/-- the connection survives a 404 and the probe is answered 200 with the file, the configured
    header of its own scope and nothing of the earlier request -/
example : (connAfter demoSite demoEnv (Conn.fresh demoEnv) [reqMissing]).isOpen = true := by decide +kernel
example : ((h1Msg demoSite demoEnv (connAfter demoSite demoEnv (Conn.fresh demoEnv) [reqMissing]) reqA).2).map Out.core
    = some (200, [(ofString "content-type", ofString "text/plain"), (ofString "etag", ofString "\"e1\""),
                  (ofString "content-length", ofString "6"), (ofString "x-a", ofString "1")], ofString "hello\n") := by
  decide +kernel
/-- a bodied history that meets the hypotheses of `c08_history_free`: the handler read the body, the
    connection stays open, the next request is answered -/
example : (connAfter demoSite demoEnv (Conn.fresh demoEnv) [reqPostSink, reqMissing]).isOpen = true := by decide +kernel
example : ((h1Msg demoSite demoEnv (Conn.fresh demoEnv) reqPostSink).2).map (fun o => (o.core.1, o.core.2.2))
    = some (200, ofString "ok\n") := by decide +kernel
/-- between two keep-alive requests the object is NOT equal to a fresh one: the read checkpoint
    carries the byte count of the history (`ReqStale`), unread by the response path -/
example : (connAfter demoSite demoEnv (Conn.fresh demoEnv) [reqA]).r.x1 = 32 ∧
          (connAfter demoSite demoEnv (Conn.fresh demoEnv) [reqA]).r.toReqLive = (ReqSt.init demoEnv).toReqLive := by
  decide +kernel
/-- a body nobody read closes the connection; the recycled object answers as new -/
example : (connAfter demoSite demoEnv (Conn.fresh demoEnv) [reqA, reqPost]).requestCount = 0 := by decide +kernel
example : (expectedAnswer demoSite demoEnv reqA).map (·.1) = some 200 := by decide +kernel
/-- blank lines (outside `ReqStart`): first on a connection: 400; one before a keep-alive request: skipped -/
example : ((h1Msg demoSite demoEnv (Conn.fresh demoEnv) (ofString "\r\n" ++ reqA)).2).map (·.core.1) = some 400 := by
  decide +kernel
example : ((h1Msg demoSite demoEnv (connAfter demoSite demoEnv (Conn.fresh demoEnv) [reqMissing])
            (ofString "\r\n" ++ reqA)).2).map (·.core.1) = some 200 := by decide +kernel
/-- a dirty object: reset really has something to restore -/
example : (respond demoSite { ReqSt.init demoEnv with method := 0, version := 1, uriPath := some (ofString "/nope") }).toReqCore
    ≠ (ReqSt.init demoEnv).toReqCore := by decide +kernel
/-- HTTP/2: the same resource on a recycled stream object -/
example : expectedAnswerH2 demoSite demoEnv (ReqSt.init demoEnv) 65535
      [(ofString ":method", ofString "GET"), (ofString ":scheme", ofString "http"),
       (ofString ":path", ofString "/a.txt"), (ofString ":authority", ofString "h")] true
    = expectedAnswer demoSite demoEnv reqA := by decide +kernel

/-! ### the same request over HTTP/1.0, HTTP/1.1 and HTTP/2: a bounded family

No general theorem covers the response half of "same answer over every version" (the parse half is
`c08_h1_h2_same_request_partial`).  What is checked here, by kernel evaluation, is a finite family
on `famSite`: 4 methods × 6 targets × 2 header sets, each rendered as an HTTP/1.0 head, an
HTTP/1.1 head and an HTTP/2 field list; the three answers (status, headers, body) are equal.
The family covers 200, 304, 301, 400 (at parse time), 403, 404, 501 and the body-reading handler. -/

def famSite : Site :=
  { demoSite with nodes := demoSite.nodes ++ [(ofString "/srv/d", .dir), (ofString "/srv/d/", .dir)] }

def famMethods : List String := ["GET", "HEAD", "OPTIONS", "DELETE"]
def famTargets : List String := ["/a.txt", "/nope", "/a.txt~", "/d", "/s.cgi", "*"]
def famExtras : List (List (String × String)) := [[], [("if-none-match", "\"e1\""), ("x-probe", "p")]]

def famH1 (v : String) (m t : String) (x : List (String × String)) : Bytes :=
  ofString (m ++ " " ++ t ++ " HTTP/1." ++ v ++ "\r\nHost: h\r\n" ++
            String.join (x.map fun kv => kv.1 ++ ": " ++ kv.2 ++ "\r\n") ++ "\r\n")

def famH2 (m t : String) (x : List (String × String)) : List (Bytes × Bytes) :=
  [(ofString ":method", ofString m), (ofString ":scheme", ofString "http"), (ofString ":path", ofString t),
   (ofString ":authority", ofString "h")] ++ x.map fun kv => (ofString kv.1, ofString kv.2)

def famOk (m t : String) (x : List (String × String)) : Bool :=
  let a1 := expectedAnswer famSite demoEnv (famH1 "1" m t x)
  a1.isSome && expectedAnswerH2 famSite demoEnv (ReqSt.init demoEnv) 65535 (famH2 m t x) true == a1 &&
  expectedAnswer famSite demoEnv (famH1 "0" m t x) == a1

/-- bounded: every request of the family gets the same answer over HTTP/1.0, HTTP/1.1 and HTTP/2 -/
theorem c08_same_answer_all_versions_family :
    ∀ m ∈ famMethods, ∀ t ∈ famTargets, ∀ x ∈ famExtras, famOk m t x = true := by decide +kernel

/-- the family is not all of one kind -/
example : (famMethods.flatMap fun m => famTargets.map fun t =>
             ((expectedAnswer famSite demoEnv (famH1 "1" m t [])).map (·.1)).getD 0).eraseDups.length ≥ 6 := by
  decide +kernel

/-- a plain field, and a semantic request both parsers accept alike -/
example : PlainField ⟨9567⟩ (ofString "x-probe", ofString "p1") :=
  ⟨by decide, by decide, Or.inl (by decide), by decide, by decide, by decide, by decide, by decide⟩
example : (match parseSemH1 ⟨9567⟩ (ofString "GET") (ofString "/a.txt?x=1") (ofString "h")
                   [(ofString "x-probe", ofString "p1"), (ofString "if-none-match", ofString "\"e\"")],
                 parseSemH2 ⟨9567⟩ 8192 (ofString "GET") (ofString "/a.txt?x=1") (ofString "h")
                   [(ofString "x-probe", ofString "p1"), (ofString "if-none-match", ofString "\"e\"")] with
           | .ok r1 t1, .ok r2 t2 =>
             decide (r1.version = 1 ∧ r2.version = 2 ∧ r2.method = r1.method ∧ r2.headers = r1.headers ∧
                     r2.host = r1.host ∧ r1.headers.length = 3 ∧ t1 = t2 ∧ t1.path = ofString "/a.txt" ∧
                     t1.query = ofString "x=1")
           | _, _ => false) = true := by decide +kernel

/-! ### error handlers (Model/ErrHandler.lean: http_response_has_error_handler(),
    http_response_call_error_handler(), the loop of http_response_handler()) -/

open LtVerif.ErrH in
/-- Once error_handler_saved_status is set (an error handler has been installed for this request, or
    has run), http_response_has_error_handler() never installs one again, for every configuration and
    every state: the error handler cannot recurse, and what an earlier pass saved is not overwritten. -/
theorem c08_error_handler_not_reinstalled (c : Cfg) (s : EhSt) (h : s.savedStatus ≠ 0) :
    (hasErrorHandler c s).2 = false := hasErrorHandler_saved c s h

open LtVerif.ErrH in
example : (hasErrorHandler ⟨true, true, false⟩
    { afterReset 3 1 5 5 false 7 with status := 404, savedStatus := 404, savedMethod := 3, method := 0 }).2 = false := by
  decide +kernel

open LtVerif.ErrH in
/-- The carried member error_handler_saved_method (NOT restored by request_reset(): reqpool.c:131) cannot
    leak from an earlier request: for every configuration, every pass function that neither touches
    that member nor writes error_handler_saved_status (`PrepOk`: modules, http_response_prepare(),
    http_response_comeback()), every number of passes, and every state with
    error_handler_saved_status = 0 (what request_reset() leaves), the outcome of the loop of
    http_response_handler() -- every other modelled member and the pass count -- is the same whatever
    stale value `m` the member holds. -/
theorem c08_error_handler_stale_method_unread (c : Cfg) (prep : Nat → EhSt → EhSt) (hp : PrepOk prep)
    (fuel k : Nat) (s : EhSt) (m : Int) (h : s.savedStatus = 0) :
    obsOf (handle c prep fuel k { s with savedMethod := m }) = obsOf (handle c prep fuel k s) := by
  apply handle_rel c hp
  exact ⟨by simp [EhSt.obs], fun hs => by simp [h] at hs⟩

open LtVerif.ErrH in
/-- The loop of http_response_handler() comes back for an error handler at most once: for every
    configuration, every `PrepOk` pass function and every start state, two passes always produce the
    answer, and more fuel never changes it (error handlers do not nest; the second pass is the last). -/
theorem c08_error_handler_at_most_one_comeback (c : Cfg) (prep : Nat → EhSt → EhSt) (hp : PrepOk prep)
    (n : Nat) (s : EhSt) :
    handle c prep (n + 2) 0 s = handle c prep 2 0 s ∧ (handle c prep 2 0 s).isSome = true :=
  handle_two_passes c hp n s

open LtVerif.ErrH in
example :
    let prep : Nat → EhSt → EhSt := fun _ s => { s with status := 404 }
    (handle ⟨true, true, false⟩ prep 2 0 (afterReset 0 1 0 0 false 0)).map (fun r => (r.1.status, r.2)) = some (404, 1) := by
  decide +kernel

open LtVerif.ErrH in
example :
    let prep : Nat → EhSt → EhSt := fun k s => if k = 0 then { s with status := 404 } else { s with status := 200 }
    let c : Cfg := ⟨true, false, false⟩
    obsOf (handle c prep 3 0 (afterReset 3 1 5 2 true 7)) = obsOf (handle c prep 3 0 (afterReset 3 1 5 2 true 1)) ∧
    (handle c prep 3 0 (afterReset 3 1 5 2 true 7)).map (fun r => (r.1.status, r.1.method, r.1.keepAlive, r.2)) =
      some (404, 3, 0, 1) := by
  decide +kernel

end LtVerif.C08
