/-
  C08 — the response depends only on its request; same answer over HTTP/1.x and HTTP/2.
  Property theorems only; helper lemmas live in LtVerif/Proofs/Server.lean.
-/
import LtVerif.Model.Server
namespace LtVerif.C08
open LtVerif LtVerif.B LtVerif.Req

theorem c08_placeholder : (1 : Nat) = 1 := rfl

end LtVerif.C08
