/-
  C09 — backends receive exactly the client's request (env, headers, body).
  Property theorems only (helper lemmas live in LtVerif/Proofs).

  Models: Model/Cgi.lean (http_cgi_headers, http_cgi_encode_varname, gw_check_extension
  path-info split, mod_cgi envp), Model/Fcgi.lean (fcgi_create_env, fcgi_env_add,
  fcgi_stdin_append + FastCGI receiver), Model/Scgi.lean (scgi_create_env: netstring, uwsgi
  packet + receivers), Model/ProxyReq.lean (proxy_create_env, proxy_stdin_append).

  Clause map (property statement -> theorem): header->variable mapping: c09_varname,
  c09_header_vars_sound/_complete, c09_no_override; meta-variables: c09_meta_rfc3875,
  c09_content_length_first, c09_script_name_path_info, c09_query_after_first_qmark_partial;
  well-formed + exact + length-delimited message: c09_fcgi_roundtrip/_e2e/_truncated_never_complete/
  _authorizer, c09_scgi_roundtrip/_e2e, c09_uwsgi_roundtrip/_e2e, c09_cgi_envp_roundtrip,
  c09_proxy_framing, c09_proxy_chunked_http11, c09_proxy_head_hop_by_hop, c09_proxy_fields_complete,
  c09_proxy_head_decodes(_partial), c09_proxy_request, c09_te_consumed_not_stored;
  HTTP/2 DATA: c09_h2_data_body, c09_h2_ready_iff_exact.  Correspondence-only: client framing
  (Content-Length / chunked) and network segmentation, temp-file spooling, stream-request-body
  modes, the mod_cgi stdin path, everything about timing.
-/
import LtVerif.Proofs.Cgi
import LtVerif.Proofs.FcgiRun
import LtVerif.Proofs.Scgi
import LtVerif.Proofs.ScgiBuf
import LtVerif.Proofs.Proxy
import LtVerif.Proofs.ProxyHead
import LtVerif.Proofs.ProxyWf
import LtVerif.Proofs.CgiE2E
import LtVerif.Extracted.H1Tables
import LtVerif.Model.H1Parse
namespace LtVerif.C09
open LtVerif B

/-! ## header names -> variable names -/

/-- http_cgi_encode_varname(): for EVERY field name the variable starts with "HTTP_", so it
    is never one of the server-defined meta-variables, and it is HTTP_PROXY exactly for the
    field "Proxy" (any letter case) -/
theorem c09_varname (n : Bytes) :
    httpPrefix <+: encodeVarname true n ∧
    encodeVarname true n ∉ metaNames ∧
    (encodeVarname true n = ofString "HTTP_PROXY" ↔ eqIcase n (ofString "Proxy") = true) ∧
    (∀ b ∈ encodeVarname true n, isUpper b = true ∨ isDigit b = true ∨ b = uscore) := by
  refine ⟨?_, encodeVarname_not_meta n, encodeVarname_proxy_iff n, ?_⟩
  · rw [encodeVarname_hdr]; exact List.prefix_append _ _
  · intro b hb
    rw [encodeVarname_hdr] at hb
    rcases List.mem_append.mp hb with h | h
    · have : ∀ x ∈ httpPrefix, isUpper x = true ∨ isDigit x = true ∨ x = uscore := by decide
      exact this b h
    · obtain ⟨c, _, rfl⟩ := List.mem_map.mp h
      exact enc_charset c

example : encodeVarname true (ofString "X-Forwarded_For.1") = ofString "HTTP_X_FORWARDED_FOR_1" := by decide
example : encodeVarname true (ofString "pRoXy") = ofString "HTTP_PROXY" := by decide
example : encodeVarname true (ofString "Remote-Addr") = ofString "HTTP_REMOTE_ADDR" := by decide

/-- what the client's fields become (the header loop of http_cgi_headers(), for every field
    list): never HTTP_PROXY; a server-defined name is impossible; CONTENT_TYPE only from a
    Content-Type field and with its value; every variable comes from a field of the request -/
theorem c09_header_vars_sound (hs : List (Bytes × Bytes)) :
    ∀ p ∈ headerVars hs,
      p.1 ≠ ofString "HTTP_PROXY" ∧ p.1 ∉ metaNames ∧
      ∃ k, (k, p.2) ∈ hs ∧ p.2 ≠ [] ∧ eqIcase k (ofString "Proxy") = false ∧
        ((eqIcase k (ofString "Content-Type") = true ∧ p.1 = ofString "CONTENT_TYPE") ∨
         (eqIcase k (ofString "Content-Type") = false ∧ p.1 = encodeVarname true k)) :=
  headerVars_sound hs

/-- ... and nothing is lost: every field with a value, other than Proxy, is passed with
    its value unchanged -/
theorem c09_header_vars_complete (hs : List (Bytes × Bytes)) (k v : Bytes)
    (hmem : (k, v) ∈ hs) (hv : v ≠ []) (hp : eqIcase k (ofString "Proxy") = false) :
    (if eqIcase k (ofString "Content-Type") then ofString "CONTENT_TYPE" else encodeVarname true k, v)
      ∈ headerVars hs := by
  simp only [headerVars, List.mem_filterMap]
  refine ⟨(k, v), hmem, ?_⟩
  have h1 : v.isEmpty = false := by cases v <;> simp_all
  simp only [headerVar, h1, Bool.false_eq_true, ↓reduceIte, hp]
  split <;> rfl

example : headerVars [(ofString "Proxy", ofString "evil"), (ofString "content-TYPE", ofString "a/b"),
                      (ofString "Content_Length", ofString "9"), (ofString "X-Empty", [])] =
    [(ofString "CONTENT_TYPE", ofString "a/b"), (ofString "HTTP_CONTENT_LENGTH", ofString "9")] := by decide

/-- the name -> id assumptions the models make hold for the http_headers[] table of the
    current source (regenerated each run): the fields the code special-cases by id are in
    the table, "Proxy" / "Proxy-Connection" are not (they are HTTP_HEADER_OTHER) -/
theorem c09_header_ids :
    (∀ n ∈ ["content-type", "content-length", "host", "connection", "te", "upgrade", "set-cookie",
            "transfer-encoding", "forwarded", "x-forwarded-for", "x-forwarded-proto"],
       n ∈ Extracted.headerNames) ∧
    "proxy" ∉ Extracted.headerNames ∧ "proxy-connection" ∉ Extracted.headerNames := by decide

/-! ## meta-variables (RFC 3875 4.1) -/

/-- http_cgi_headers(): in the WHOLE variable list handed to the backend (fixed part, client
    fields, module variables) the request-line, body-length and script variables occur with
    exactly one value: the corresponding component of the parsed request.  No client field can
    supply a second QUERY_STRING, SCRIPT_NAME, ...; `henv`: no module put a variable with a
    server-defined name into r->env (setenv.add-environment could — administrator's choice).
    (How query / path derive from the raw target: `c09_query_after_first_qmark_partial`, C01, C02.) -/
theorem c09_meta_rfc3875 (o : CgiOpts) (r : CgiReq) (v : Bytes)
    (henv : ∀ e ∈ r.env, encodeVarname false e.1 ∉ metaNames) :
    ((ofString "QUERY_STRING", v) ∈ cgiEnv o r ↔ v = r.query) ∧
    ((ofString "REQUEST_URI", v) ∈ cgiEnv o r ↔ v = requestUri o.stripRequestUri r.targetOrig) ∧
    ((ofString "CONTENT_LENGTH", v) ∈ cgiEnv o r ↔ o.authorizer = false ∧ v = intDec r.bodyLen) ∧
    ((ofString "SCRIPT_NAME", v) ∈ cgiEnv o r ↔ o.authorizer = false ∧ v = r.path) ∧
    ((ofString "PATH_INFO", v) ∈ cgiEnv o r ↔ o.authorizer = false ∧ r.pathinfo ≠ [] ∧ v = r.pathinfo) ∧
    ((ofString "REQUEST_METHOD", v) ∈ cgiEnv o r ↔
        v = if r.h2ConnectExt then ofString "GET" else r.method) ∧
    ((ofString "SERVER_PROTOCOL", v) ∈ cgiEnv o r ↔
        v = if r.h2ConnectExt then ofString "HTTP/1.1" else versionName r.version) ∧
    ((ofString "REMOTE_ADDR", v) ∈ cgiEnv o r ↔ v = r.remoteAddr) := by
  have he : ∀ n ∈ metaNamesS, ∀ e ∈ r.env, encodeVarname false e.1 ≠ ofString n := by
    intro n hn e hee heq
    exact henv e hee (by rw [heq]; exact List.mem_map.mpr ⟨n, hn, rfl⟩)
  have hv := cgiMetaS_values o r v
  refine ⟨?_, ?_, ?_, ?_, ?_, ?_, ?_, ?_⟩
  · rw [cgiEnv_meta_iff o r "QUERY_STRING" (by decide) v (he _ (by decide))]; exact hv.1
  · rw [cgiEnv_meta_iff o r "REQUEST_URI" (by decide) v (he _ (by decide))]; exact hv.2.1
  · rw [cgiEnv_meta_iff o r "CONTENT_LENGTH" (by decide) v (he _ (by decide))]; exact hv.2.2.1
  · rw [cgiEnv_meta_iff o r "SCRIPT_NAME" (by decide) v (he _ (by decide))]; exact hv.2.2.2.1
  · rw [cgiEnv_meta_iff o r "PATH_INFO" (by decide) v (he _ (by decide))]; exact hv.2.2.2.2.1
  · rw [cgiEnv_meta_iff o r "REQUEST_METHOD" (by decide) v (he _ (by decide))]; exact hv.2.2.2.2.2.1
  · rw [cgiEnv_meta_iff o r "SERVER_PROTOCOL" (by decide) v (he _ (by decide))]; exact hv.2.2.2.2.2.2.1
  · rw [cgiEnv_meta_iff o r "REMOTE_ADDR" (by decide) v (he _ (by decide))]; exact hv.2.2.2.2.2.2.2

/-- a client that sends fields named like meta-variables and a module variable: each
    server-defined name keeps its single server-given value -/
example :
    let r : CgiReq := { query := ofString "a", path := ofString "/x", method := ofString "GET",
                        headers := [(ofString "Query-String", ofString "evil"), (ofString "Script_Name", ofString "/evil")],
                        env := [(ofString "REMOTE_USER", ofString "bob")] }
    ((cgiEnv {} r).filter fun p => p.1 = ofString "QUERY_STRING" || p.1 = ofString "SCRIPT_NAME") =
      [(ofString "QUERY_STRING", ofString "a"), (ofString "SCRIPT_NAME", ofString "/x")] := by decide

/-- CONTENT_LENGTH is the first variable (SCGI requires it) -/
theorem c09_content_length_first (o : CgiOpts) (r : CgiReq) (h : o.authorizer = false) :
    (cgiEnv o r).head? = some (ofString "CONTENT_LENGTH", intDec r.bodyLen) := by
  simp [cgiEnv, cgiMeta, cgiMetaS, optE, h]

example : (cgiEnv {} { bodyLen := 7 }).head? = some (ofString "CONTENT_LENGTH", ofString "7") := by decide

/-- no client field can add or replace a server-defined variable: a variable made from a client
    field never has the name of a variable of the fixed part — except, for an HTTP/2 extended
    CONNECT, the three request-header look-alikes lighttpd synthesises itself (HTTP_UPGRADE,
    HTTP_CONNECTION, HTTP_SEC_WEBSOCKET_KEY; h2 forbids the first two as client fields) -/
theorem c09_no_override (o : CgiOpts) (r : CgiReq) :
    ∀ q ∈ cgiMeta o r, ∀ p ∈ headerVars r.headers, p.1 = q.1 →
      r.h2ConnectExt = true ∧ q.1 ∈ h2ExtNamesS.map ofString := by
  intro q hq p hp e
  simp only [cgiMeta, List.mem_map] at hq
  obtain ⟨s, hs, rfl⟩ := hq
  rcases cgiMetaS_names o r s hs with h | ⟨h1, h2⟩
  · have := (headerVars_sound r.headers p hp).2.1
    rw [e] at this
    exact absurd (List.mem_map.mpr ⟨s.1, h, rfl⟩) this
  · exact ⟨h1, List.mem_map.mpr ⟨s.1, h2, rfl⟩⟩

example :
    (cgiEnv {} { bodyLen := 3, query := ofString "a?b", targetOrig := ofString "/x/y?a?b",
                 target := ofString "/x/y?a?b", path := ofString "/x", pathinfo := ofString "/y",
                 method := ofString "POST",
                 headers := [(ofString "Script-Name", ofString "/evil")] }).filter
      (fun p => p.1 = ofString "SCRIPT_NAME" || p.1 = ofString "QUERY_STRING"
                || p.1 = ofString "HTTP_SCRIPT_NAME")
    = [(ofString "QUERY_STRING", ofString "a?b"), (ofString "SCRIPT_NAME", ofString "/x"),
       (ofString "HTTP_SCRIPT_NAME", ofString "/evil")] := by decide

/-- gw_check_extension(), the "/prefix" kind of extension with check-local off (the only place where
    the backend modules themselves split the path): SCRIPT_NAME ++ PATH_INFO is the request path, for
    every prefix and path; PATH_INFO is empty or starts with '/'.  (With check-local on the split is
    http_response_physical_pathinfo()'s — property C03 — and an input here.) -/
theorem c09_script_name_path_info (key : Bytes) (fixRoot : Bool) (path : Bytes)
    (hp : path.head? = some slash) :
    (gwPathinfoSplit key fixRoot path).1 ++ (gwPathinfoSplit key fixRoot path).2 = path ∧
    ((gwPathinfoSplit key fixRoot path).2 = [] ∨
     (gwPathinfoSplit key fixRoot path).2.head? = some slash) :=
  ⟨gwPathinfoSplit_concat key fixRoot path, gwPathinfoSplit_pathinfo key fixRoot path hp⟩

example : gwPathinfoSplit (ofString "/cgi-bin/") false (ofString "/cgi-bin/foo/bar") =
    (ofString "/cgi-bin/foo", ofString "/bar") := by decide
example : gwPathinfoSplit (ofString "/") true (ofString "/a/b") = ([], ofString "/a/b") := by decide

/-- http_request_parse_target() with URL normalisation off: the query is what follows the
    FIRST '?' of the target (fragment cut off), the path what precedes it.
    FULL STATEMENT (planned c09_meta_rfc3875, query part): the same for every parseopts set.
    `_partial`: the normalising variants (burl_normalize) are covered by the correspondence
    and the oracle of the url stream only (defect D4 lived there). -/
theorem c09_query_after_first_qmark_partial (o : Opts) (t : Bytes) (tg : Target)
    (hn : o.urlNormalize = false) (h : parseTarget o false t = .ok tg) :
    (qmark ∉ t.takeWhile (· ≠ hash) ∧ tg.query = [] ∧ tg.target = t.takeWhile (· ≠ hash)) ∨
    (∃ pre, qmark ∉ pre ∧ t.takeWhile (· ≠ hash) = pre ++ qmark :: tg.query) := by
  simp only [parseTarget, Bool.false_eq_true, ↓reduceIte, hn] at h
  obtain ⟨hsome, hnone⟩ := findIdx_spec (· = qmark) (t.takeWhile (· ≠ hash)) 0
  cases hq : findIdx (fun x => decide (x = qmark)) (t.takeWhile (· ≠ hash)) 0 with
  | none =>
    left
    rw [hq] at h
    simp only at h
    split at h
    · simp only [Except.ok.injEq] at h
      subst h
      refine ⟨?_, rfl, rfl⟩
      intro hm
      have := hnone hq qmark hm
      simp at this
    · simp at h
  | some i =>
    right
    rw [hq] at h
    simp only at h
    obtain ⟨_, x, hx1, hx2, hx3⟩ := hsome i hq
    have hxq : x = qmark := by simpa using hx2
    split at h
    · simp only [Except.ok.injEq] at h
      subst h
      refine ⟨(t.takeWhile (· ≠ hash)).take i, ?_, ?_⟩
      · intro hm
        have := hx3 qmark (by simpa using hm)
        simp at this
      · simp only [Nat.sub_zero] at hx1
        rw [hxq] at hx1
        exact hx1
    · simp at h

example : (match parseTarget ⟨0⟩ false (ofString "/x?a?b#f?c") with
           | .ok tg => tg.target == ofString "/x?a?b" && tg.path == ofString "/x" && tg.query == ofString "a?b"
           | .error _ => false) = true := by decide

/-! ## FastCGI -/

/-- fcgi_create_env() + fcgi_stdin_append() under EVERY arrival schedule of the body
    (`seg0` queued when the backend request is created, `segs` arriving later, any sizes,
    any number of refills): the request is refused (400) exactly when the variables do not fit
    one PARAMS record; otherwise the bytes queued for the backend decode — by the FastCGI
    specification's record/stream/name-value rules — to exactly (role, env, body): one
    BEGIN_REQUEST, PARAMS closed once, STDIN closed once with nothing after it (every record
    <= 65535 by construction of the 16-bit length field), nothing left in the request-body
    queue and the gateway's expected request length equal to what was queued. -/
theorem c09_fcgi_roundtrip (role : Nat) (hrole : role < 256) (hresp : role ≠ Extracted.C09.gwAuthorizer)
    (env : List (Bytes × Bytes)) (henv : env ≠ []) (seg0 : Bytes) (segs : List Bytes) :
    (Fcgi.run role false env (((seg0 :: segs).flatten.length : Nat) : Int) seg0 segs = none ↔
      Fcgi.maxLen < (Fcgi.nvPairs env).length) ∧
    ∀ st, Fcgi.run role false env (((seg0 :: segs).flatten.length : Nat) : Int) seg0 segs = some st →
      Fcgi.decode st.out =
        some { role := role, flags := 0, env := env, stdin := (seg0 :: segs).flatten } ∧
      st.pending = [] ∧ st.reqlen = (st.out.length : Int) := by
  rcases Fcgi.run_spec role hresp env seg0 segs with ⟨h1, h2⟩ | ⟨h1, st, cs, h2, h3, h4⟩
  · refine ⟨⟨fun _ => h1, fun _ => h2⟩, ?_⟩
    intro st hst; rw [h2] at hst; exact absurd hst (by simp)
  · refine ⟨⟨fun hn => ?_, fun hl => ?_⟩, ?_⟩
    · rw [h2] at hn; exact absurd hn (by simp)
    · exact absurd hl (by omega)
    · intro st' hst'
      rw [h2] at hst'
      simp only [Option.some.injEq] at hst'
      subst hst'
      obtain ⟨c1, c2, c3, c4⟩ := h4
      refine ⟨?_, c3, c4⟩
      rw [c1, Fcgi.decode_closed role hrole env henv h1 cs h3, c2]

/-- non-vacuity: a 3-byte body delivered as "a" then "bc" is framed as two STDIN records and the
    empty one; the stream decodes back; 76 bytes were queued and announced -/
example :
    (Fcgi.run 1 false [(ofString "CONTENT_LENGTH", ofString "3")] 3 (ofString "a") [ofString "bc"]).map
      (fun st => (Fcgi.decode st.out, st.pending, st.reqlen)) =
    some (some { role := 1, flags := 0, env := [(ofString "CONTENT_LENGTH", ofString "3")],
                 stdin := ofString "abc" }, [], 76) := by decide

/-- the variables of an actual request are never an empty list (the PARAMS stream has content) -/
theorem c09_env_nonempty (o : CgiOpts) (r : CgiReq) : cgiEnv o r ≠ [] := by
  simp [cgiEnv, cgiMeta, cgiMetaS, optE]

example : cgiEnv {} {} ≠ [] := c09_env_nonempty {} {}

/-- FastCGI end to end for the variables lighttpd actually builds (responder / any non-authorizer
    role): the first variable the backend decodes is CONTENT_LENGTH and its value is the decimal
    length of the STDIN stream it decodes — the declared and the delivered length agree -/
theorem c09_fcgi_e2e (role : Nat) (hrole : role < 256) (hresp : role ≠ Extracted.C09.gwAuthorizer)
    (o : CgiOpts) (ha : o.authorizer = false) (r : CgiReq) (seg0 : Bytes) (segs : List Bytes)
    (hb : r.bodyLen = (((seg0 :: segs).flatten.length : Nat) : Int)) :
    ∀ st, Fcgi.run role false (cgiEnv o r) r.bodyLen seg0 segs = some st →
      ∃ m, Fcgi.decode st.out = some m ∧ m.role = role ∧ m.env = cgiEnv o r ∧
        m.env.head? = some (ofString "CONTENT_LENGTH", natDec m.stdin.length) ∧
        m.stdin = (seg0 :: segs).flatten ∧ st.pending = [] ∧ st.reqlen = (st.out.length : Int) := by
  intro st hst
  rw [hb] at hst
  obtain ⟨h1, h2, h3⟩ :=
    (c09_fcgi_roundtrip role hrole hresp (cgiEnv o r) (c09_env_nonempty o r) seg0 segs).2 st hst
  refine ⟨_, h1, rfl, rfl, ?_, rfl, h2, h3⟩
  show (cgiEnv o r).head? = _
  rw [c09_content_length_first o r ha, hb, intDec_ofNat]

/-- a body that ends early (client abort, HTTP/2 stream ended short of Content-Length — see
    `c09_h2_content_length_bound`): whatever part arrived, under every arrival schedule the bytes
    queued for the backend never form a complete request — STDIN is never closed, and the gateway
    keeps expecting more than it queued — so the backend cannot mistake a truncated body for the
    whole one -/
theorem c09_fcgi_truncated_never_complete (role : Nat) (hresp : role ≠ Extracted.C09.gwAuthorizer)
    (env : List (Bytes × Bytes)) (henv : env ≠ []) (hfit : (Fcgi.nvPairs env).length ≤ Fcgi.maxLen)
    (seg0 : Bytes) (segs : List Bytes) (bodyLen : Nat)
    (hlt : (seg0 :: segs).flatten.length < bodyLen) :
    ∃ st, Fcgi.run role false env (bodyLen : Int) seg0 segs = some st ∧ Fcgi.decode st.out = none ∧
      st.reqlen ≠ (st.out.length : Int) ∧ st.pending = [] :=
  Fcgi.run_truncated role hresp env henv hfit seg0 segs bodyLen hlt

example : (Fcgi.run 1 false [(ofString "CONTENT_LENGTH", ofString "3")] 3 (ofString "a") [ofString "b"]).map
    (fun st => (Fcgi.decode st.out, decide (st.reqlen = (st.out.length : Int)))) = some (none, false) := by decide

/-- FastCGI authorizer: the backend gets the variables and an empty, closed STDIN; the request
    body — however it arrives — stays queued for the real handler, none of it is sent -/
theorem c09_fcgi_authorizer (env : List (Bytes × Bytes)) (henv : env ≠ [])
    (hfit : (Fcgi.nvPairs env).length ≤ Fcgi.maxLen) (bodyLen : Int) (seg0 : Bytes) (segs : List Bytes) :
    ∃ st, Fcgi.run Extracted.C09.gwAuthorizer false env bodyLen seg0 segs = some st ∧
      Fcgi.decode st.out =
        some { role := Extracted.C09.gwAuthorizer, flags := 0, env := env, stdin := [] } ∧
      st.pending = (seg0 :: segs).flatten :=
  Fcgi.run_authorizer env henv hfit bodyLen seg0 segs

example : (Fcgi.run Extracted.C09.gwAuthorizer false [(ofString "A", ofString "b")] 3 (ofString "a") [ofString "bc"]).map
    (fun st => (Fcgi.decode st.out, st.pending)) =
    some (some { role := Extracted.C09.gwAuthorizer, flags := 0, env := [(ofString "A", ofString "b")], stdin := [] },
          ofString "abc") := by decide

/-! ## SCGI, uwsgi, CGI -/

/-- scgi_create_env() (SCGI) + body hand-over under every arrival schedule: the backend reads a
    netstring holding exactly the variables (plus SCGI=1 last) and then exactly the body -/
theorem c09_scgi_roundtrip (env : List (Bytes × Bytes)) (h : EnvNulFree env) (seg0 : Bytes)
    (segs : List Bytes) (bodyLen : Int) :
    Scgi.decode (RawSt.run (Scgi.encodeHeader env) bodyLen seg0 segs).out =
      some (env ++ [(ofString "SCGI", ofString "1")], (seg0 :: segs).flatten) ∧
    (RawSt.run (Scgi.encodeHeader env) bodyLen seg0 segs).pending = [] := by
  rw [rawRun_out]
  exact ⟨scgi_decode_header env h _, rawRun_pending _ _ _ _⟩

example : Scgi.decode (RawSt.run (Scgi.encodeHeader [(ofString "CONTENT_LENGTH", ofString "2")]) 2
                         (ofString "h") [ofString "i"]).out =
    some ([(ofString "CONTENT_LENGTH", ofString "2"), (ofString "SCGI", ofString "1")], ofString "hi") := by
  decide

/-- SCGI end to end for the variables lighttpd actually builds from a request whose byte strings
    are NUL-free (what the request parser lets through): the backend reads the variables, SCGI=1, and the
    body; the FIRST variable is CONTENT_LENGTH (SCGI requires it) and its value is the decimal
    length of the body that follows the netstring; the gateway announced exactly what it queued -/
theorem c09_scgi_e2e (o : CgiOpts) (ha : o.authorizer = false) (r : CgiReq) (hn : ReqNulFree o r)
    (seg0 : Bytes) (segs : List Bytes)
    (hb : r.bodyLen = (((seg0 :: segs).flatten.length : Nat) : Int)) :
    ∃ env body, Scgi.decode (RawSt.run (Scgi.encodeHeader (cgiEnv o r)) r.bodyLen seg0 segs).out =
        some (env, body) ∧
      env = cgiEnv o r ++ [(ofString "SCGI", ofString "1")] ∧
      env.head? = some (ofString "CONTENT_LENGTH", natDec body.length) ∧
      body = (seg0 :: segs).flatten ∧
      (RawSt.run (Scgi.encodeHeader (cgiEnv o r)) r.bodyLen seg0 segs).pending = [] ∧
      (RawSt.run (Scgi.encodeHeader (cgiEnv o r)) r.bodyLen seg0 segs).reqlen =
        ((RawSt.run (Scgi.encodeHeader (cgiEnv o r)) r.bodyLen seg0 segs).out.length : Int) := by
  obtain ⟨h1, h2⟩ := c09_scgi_roundtrip (cgiEnv o r) (cgiEnv_nulFree o r hn) seg0 segs r.bodyLen
  refine ⟨_, _, h1, rfl, ?_, rfl, h2, ?_⟩
  · have hh := c09_content_length_first o r ha
    cases hc : cgiEnv o r with
    | nil => rw [hc] at hh; simp at hh
    | cons x tl =>
      rw [hc] at hh
      simp only [List.head?_cons, Option.some.injEq] at hh
      simp only [List.cons_append, List.head?_cons, hh, hb, intDec_ofNat]
  · rw [hb]; exact rawRun_reqlen _ seg0 segs

/-! ## scgi_create_env() as it is written: placeholder, in-place header, chunk offset -/

/-- mod_scgi.c:scgi_create_env(), LI_PROTOCOL_SCGI, step by step (`ScgiBuf.scgi`: ten blanks, the
    variables appended behind them, "<len>:" rendered afterwards and copied right-aligned INTO the
    blanks, ',' appended, the unused blanks hidden by the chunk offset, wb.bytes_in / bytes_out
    corrected by that offset): for EVERY variable list below 10^9 bytes, body length and queued
    body the queue a reader sees, wb_reqlen and the rest of reqbody_queue are exactly those of the
    front-to-back encoder `Scgi.createEnv` (so c09_scgi_roundtrip / c09_scgi_e2e speak about the
    bytes of the real buffer); the hidden bytes are the 9 - digits unused blanks, bytes_out is
    0 again and bytes_in counts exactly the visible bytes.
    (At 10^9 bytes or more the C code's `offset = 10 - len` wraps: `ScgiBuf.scgi` = none; not
    reachable while the request header is limited to 64 KiB - not a theorem here.) -/
theorem c09_scgi_buffer (env : List (Bytes × Bytes)) (bodyLen : Int) (pending : Bytes)
    (h : (Scgi.pairs (env ++ [(ofString "SCGI", ofString "1")])).length < 10 ^ 9) :
    let k := 9 - (natDec (Scgi.pairs (env ++ [(ofString "SCGI", ofString "1")])).length).length
    ScgiBuf.scgi env bodyLen pending =
      some { hidden := List.replicate k 32, offset := k,
             bytesIn := ((Scgi.createEnv env bodyLen pending).out.length : Int), bytesOut := 0,
             st := Scgi.createEnv env bodyLen pending } ∧
    k + (natDec (Scgi.pairs (env ++ [(ofString "SCGI", ofString "1")])).length).length + 1 = 10 := by
  intro k
  have hl := natDec_length_le _ 8 h
  have hne := (natDec_spec (Scgi.pairs (env ++ [(ofString "SCGI", ofString "1")])).length).1
  have hpos : 0 < (natDec (Scgi.pairs (env ++ [(ofString "SCGI", ofString "1")])).length).length :=
    List.length_pos_iff.mpr hne
  refine ⟨?_, by omega⟩
  unfold ScgiBuf.scgi
  have hb : (ScgiBuf.placeholder ++ Scgi.pairs (env ++ [(ofString "SCGI", ofString "1")])).length - 10
      = (Scgi.pairs (env ++ [(ofString "SCGI", ofString "1")])).length := by
    simp [ScgiBuf.placeholder]
  simp only [hb]
  have htl : (natDec (Scgi.pairs (env ++ [(ofString "SCGI", ofString "1")])).length ++ [colon]).length ≤ 10 := by
    simp only [List.length_append, List.length_singleton]; omega
  have hk : 10 - (natDec (Scgi.pairs (env ++ [(ofString "SCGI", ofString "1")])).length ++ [colon]).length = k := by
    simp only [List.length_append, List.length_singleton]; omega
  rw [if_neg (by omega), ScgiBuf.poke_placeholder _ _ htl, hk]
  have he : List.replicate k 32 ++ (natDec (Scgi.pairs (env ++ [(ofString "SCGI", ofString "1")])).length ++ [colon])
        ++ Scgi.pairs (env ++ [(ofString "SCGI", ofString "1")]) ++ [44]
      = List.replicate k 32 ++ Scgi.encodeHeader env := by
    simp [Scgi.encodeHeader, List.append_assoc]
  rw [he, ScgiBuf.commit_eq]
  rfl

example : ScgiBuf.scgi [(ofString "CONTENT_LENGTH", ofString "2")] 2 (ofString "hi") =
    some { hidden := List.replicate 7 32, offset := 7, bytesIn := 30, bytesOut := 0,
           st := { out := ofString "24:CONTENT_LENGTH\x002\x00SCGI\x001\x00,hi", reqlen := 30, pending := [] } } := by
  decide

/-- scgi_create_env(), LI_PROTOCOL_UWSGI, step by step (`ScgiBuf.uwsgi`: the variables are
    appended behind ten blanks, the 4-byte packet header is poked into b[6..9], the first 6
    blanks are hidden by the chunk offset): for EVERY variable list the outcome is that of
    `Uwsgi.createEnv` - the same refusal (400 / 431), otherwise the same visible queue, wb_reqlen
    and reqbody_queue, with exactly 6 hidden blanks, bytes_out 0, bytes_in = visible bytes -/
theorem c09_uwsgi_buffer (env : List (Bytes × Bytes)) (bodyLen : Int) (pending : Bytes) :
    ScgiBuf.uwsgi env bodyLen pending =
      match Uwsgi.createEnv env bodyLen pending with
      | .status c => .status c
      | .ok st => .ok { hidden := List.replicate 6 32, offset := 6, bytesIn := (st.out.length : Int),
                        bytesOut := 0, st := st } := by
  unfold ScgiBuf.uwsgi Uwsgi.createEnv
  have hp := uwsgi_addAll_prefix env ScgiBuf.placeholder []
  rw [List.append_nil] at hp
  rw [hp]
  cases ha : Uwsgi.addAll [] env with
  | none => simp
  | some vars =>
    have hlen : (ScgiBuf.placeholder ++ vars).length - 10 = vars.length := by simp [ScgiBuf.placeholder]
    simp only [Option.map_some, hlen]
    by_cases hfit : vars.length > Extracted.C09.ushrtMax
    · simp [hfit]
    · simp only [hfit, ↓reduceIte]
      have hpk := ScgiBuf.poke_placeholder vars
        [0, (vars.length % 256).toUInt8, (vars.length / 256 % 256).toUInt8, 0] (by simp)
      simp only [List.length_cons, List.length_nil] at hpk
      rw [hpk]
      have he : List.replicate (10 - (0 + 1 + 1 + 1 + 1)) (32 : UInt8) ++
            [0, (vars.length % 256).toUInt8, (vars.length / 256 % 256).toUInt8, 0] ++ vars
          = List.replicate 6 32 ++ Uwsgi.encodeHeader vars := by
        simp [Uwsgi.encodeHeader, Uwsgi.le16]
      rw [he, ScgiBuf.commit_eq]

example : ScgiBuf.uwsgi [(ofString "A", ofString "bc")] 0 [] =
    .ok { hidden := List.replicate 6 32, offset := 6, bytesIn := 11, bytesOut := 0,
          st := { out := [0, 7, 0, 0, 1, 0, 65, 2, 0, 98, 99], reqlen := 11, pending := [] } } := by
  decide

example : (Scgi.pairs ([(ofString "CONTENT_LENGTH", ofString "2")] ++ [(ofString "SCGI", ofString "1")])).length
    < 10 ^ 9 := by decide

/-- scgi_create_env() (uwsgi): when the request is accepted the packet decodes to exactly the
    variables and the body; it is refused (400 / 431) only when a name, a value or the whole
    block does not fit the 16-bit size fields -/
theorem c09_uwsgi_roundtrip (env : List (Bytes × Bytes)) (seg0 : Bytes) (segs : List Bytes)
    (bodyLen : Int) :
    (∀ st, Uwsgi.createEnv env bodyLen seg0 = .ok st →
      Uwsgi.decode ((segs.foldl RawSt.arrive st).moveAll).out = some (env, (seg0 :: segs).flatten)) ∧
    (∀ c, Uwsgi.createEnv env bodyLen seg0 = .status c →
      (∃ p ∈ env, p.1.length > 65535 ∨ p.2.length > 65535) ∨
      (env.flatMap fun p => Uwsgi.pair p.1 p.2).length > 65535) := by
  have hu : Extracted.C09.ushrtMax = 65535 := rfl
  constructor
  · intro st hst
    simp only [Uwsgi.createEnv] at hst
    cases ha : Uwsgi.addAll [] env with
    | none => rw [ha] at hst; simp at hst
    | some vars =>
      rw [ha] at hst
      simp only [hu] at hst
      by_cases hfit : vars.length > 65535
      · simp [hfit] at hst
      · simp only [hfit, ↓reduceIte, Uwsgi.Res.ok.injEq] at hst
        subst hst
        have := rawRun_out (Uwsgi.encodeHeader vars) bodyLen seg0 segs
        simp only [RawSt.run] at this
        rw [this]
        exact uwsgi_decode_header env vars _ ha (by omega)
  · intro c hst
    simp only [Uwsgi.createEnv] at hst
    cases ha : Uwsgi.addAll [] env with
    | none => left; exact uwsgi_addAll_none env [] ha
    | some vars =>
      right
      rw [ha] at hst
      simp only [hu] at hst
      by_cases hfit : vars.length > 65535
      · obtain ⟨h1, _⟩ := uwsgi_addAll_spec env [] vars ha
        simp only [List.nil_append] at h1
        rw [← h1]; exact hfit
      · simp [hfit] at hst

example : Uwsgi.decode (Uwsgi.encodeHeader (Uwsgi.pair (ofString "K") (ofString "v")) ++ ofString "body") =
    some ([(ofString "K", ofString "v")], ofString "body") := by decide

/-- uwsgi end to end, same reading: accepted requests decode to exactly lighttpd's variables and
    the body, with CONTENT_LENGTH first and equal to the length of that body -/
theorem c09_uwsgi_e2e (o : CgiOpts) (ha : o.authorizer = false) (r : CgiReq)
    (seg0 : Bytes) (segs : List Bytes)
    (hb : r.bodyLen = (((seg0 :: segs).flatten.length : Nat) : Int)) :
    ∀ st, Uwsgi.createEnv (cgiEnv o r) r.bodyLen seg0 = .ok st →
      ∃ env body, Uwsgi.decode ((segs.foldl RawSt.arrive st).moveAll).out = some (env, body) ∧
        env = cgiEnv o r ∧ env.head? = some (ofString "CONTENT_LENGTH", natDec body.length) ∧
        body = (seg0 :: segs).flatten := by
  intro st hst
  refine ⟨_, _, (c09_uwsgi_roundtrip (cgiEnv o r) seg0 segs r.bodyLen).1 st hst, rfl, ?_, rfl⟩
  rw [c09_content_length_first o r ha, hb, intDec_ofNat]

/-- mod_cgi: the envp block handed to execve() splits back into exactly the variables (names
    without '=' / NUL, values without NUL — what the request parser guarantees) -/
theorem c09_cgi_envp_roundtrip (env : List (Bytes × Bytes))
    (h : ∀ p ∈ env, (61 : UInt8) ∉ p.1 ∧ NulFree p.1 ∧ NulFree p.2) :
    envpDecode (envpEncode env) = some env :=
  envpDecode_encode env h

example : envpDecode (envpEncode [(ofString "QUERY_STRING", ofString "a=b"), (ofString "X", [])]) =
    some [(ofString "QUERY_STRING", ofString "a=b"), (ofString "X", [])] := by decide

/-! ## HTTP/2 request bodies -/

/-- h2_recv_data() / h2_recv_end_data() on frame BYTES: a request body sent as DATA frames — any
    number of frames, any data sizes, each frame with or without a Pad Length octet and that many
    padding octets, END_STREAM on the last, Content-Length absent or equal to the amount of data,
    total within server.max-request-size, backend side consuming or not — arrives as exactly the
    concatenated data: no Pad Length octet, no padding, nothing lost, no RST_STREAM / GOAWAY /
    status, reqbody_length = the amount of data, and the backend side is told "complete".
    (Independence of the segmentation of the frame bytes into network reads: correspondence,
    stream 4, against h2_parse_frames().) -/
theorem c09_h2_data_body (c : H2Cfg) (streaming : Bool) (cl : Int)
    (ds : List (Bytes × Option Nat)) (dl : Bytes) (pl : Option Nat)
    (hp : ∀ x ∈ ds, ∀ n, x.2 = some n → n < 256) (hpl : ∀ n, pl = some n → n < 256)
    (hcl : cl = -1 ∨ cl = ((((ds.map (·.1)).flatten ++ dl).length : Nat) : Int))
    (hmax : c.maxSize = 0 ∨ ((ds.map (·.1)).flatten ++ dl).length ≤ c.maxSize * 1024) :
    h2Body c cl ((ds.map fun x => DataFrame.mk' x.1 x.2 false) ++ [DataFrame.mk' dl pl true]) =
      { out := (ds.map (·.1)).flatten ++ dl,
        bodyLen := ((((ds.map (·.1)).flatten ++ dl).length : Nat) : Int),
        state := .halfClosedRemote } ∧
    h2ReqbodyRead streaming
      (h2Body c cl ((ds.map fun x => DataFrame.mk' x.1 x.2 false) ++ [DataFrame.mk' dl pl true])) = .ready := by
  have hne : ∀ f ∈ ds.map (fun x => DataFrame.mk' x.1 x.2 false),
      f.endStream = false ∧ f.data.isSome = true := by
    intro f hf
    obtain ⟨x, hx, rfl⟩ := List.mem_map.mp hf
    exact ⟨mk'_endStream _ _ _, by rw [data_mk' x.1 x.2 false (hp x hx)]; rfl⟩
  have hfd := framesData_mk' ds hp
  generalize hB : (ds.map (·.1)).flatten = B at *
  have hlen : (B ++ dl).length = B.length + dl.length := List.length_append
  have hbody : h2Body c cl ((ds.map fun x => DataFrame.mk' x.1 x.2 false) ++ [DataFrame.mk' dl pl true]) =
      { out := B ++ dl, bodyLen := (((B ++ dl).length : Nat) : Int), state := .halfClosedRemote } := by
    unfold h2Body
    rw [List.foldl_append,
      h2_fold_open c _ hne { bodyLen := cl } rfl rfl
        (by rcases hcl with h | h
            · left; exact h
            · right
              show ((([] : Bytes).length + _ : Nat) : Int) ≤ cl
              rw [hfd, h, hlen]; simp only [List.length_nil]; omega)
        (by rcases hmax with h | h
            · left; exact h
            · right
              show ([] : Bytes).length + _ ≤ _
              rw [hfd]; simp only [List.length_nil]; omega),
      hfd]
    simp only [List.foldl_cons, List.foldl_nil, List.nil_append]
    unfold h2RecvData
    simp only [data_mk' dl pl true hpl, mk'_endStream, Bool.false_eq_true, ↓reduceIte, ne_eq,
      not_true_eq_false]
    rcases hcl with h | h
    · subst h
      simp
    · have h2 : ¬ (cl ≥ 0 ∧ cl < ((B.length + dl.length : Nat) : Int)) := by rw [h, hlen]; omega
      have h3 : ¬ (cl = -1) := by rw [h]; omega
      have h4 : ¬ (cl ≠ ((B.length + dl.length : Nat) : Int) ∧
          (if c.consumer = true then B.length else 0) = 0) := by
        rw [h, hlen]; simp
      simp only [h2, h3, h4, ↓reduceIte]
      rw [h, hlen]
  refine ⟨hbody, ?_⟩
  rw [hbody]
  simp [h2ReqbodyRead]

example : h2Body {} (-1) [DataFrame.mk' (ofString "he") none false, DataFrame.mk' (ofString "llo") (some 3) true] =
    { out := ofString "hello", bodyLen := 5, state := .halfClosedRemote } := by decide

/-- the frame bytes of the example: Pad Length 3, "llo", three padding octets -/
example : (DataFrame.mk' (ofString "llo") (some 3) true).raw = 3 :: ofString "llo" ++ [0, 0, 0] := by decide

/-- with a Content-Length, for ARBITRARY frames (malformed padding, frames after END_STREAM,
    too much, too little, over max-request-size, consuming backend or not): never more than
    Content-Length bytes are passed on, the announced length is never changed, and the backend
    side is told "complete" only when exactly Content-Length bytes were passed; when the stream
    has ended with less it is told "error" (the request is aborted; for the backend that is
    `c09_fcgi_truncated_never_complete`) -/
theorem c09_h2_content_length_bound (c : H2Cfg) (streaming : Bool) (cl : Int) (hcl : cl ≥ 0)
    (fs : List DataFrame) :
    ((h2Body c cl fs).out.length : Int) ≤ cl ∧ (h2Body c cl fs).bodyLen = cl ∧
    (h2ReqbodyRead streaming (h2Body c cl fs) = .ready ↔ ((h2Body c cl fs).out.length : Int) = cl) ∧
    (((h2Body c cl fs).out.length : Int) < cl → (h2Body c cl fs).state ≠ .open →
      h2ReqbodyRead streaming (h2Body c cl fs) = .error) := by
  obtain ⟨h1, h2⟩ := h2_bounded c cl hcl fs { bodyLen := cl } ⟨rfl, by simpa using hcl⟩
  have e : h2Body c cl fs = fs.foldl (h2RecvData c) { bodyLen := cl } := rfl
  rw [e]
  refine ⟨h2, h1, ?_, ?_⟩
  · unfold h2ReqbodyRead
    rw [h1]
    constructor
    · intro h
      by_cases hx : ((fs.foldl (h2RecvData c) { bodyLen := cl }).out.length : Int) = cl
      · exact hx
      · simp only [hx, ↓reduceIte] at h
        split at h
        · exact absurd h (by decide)
        · split at h <;> exact absurd h (by decide)
    · intro h; simp [h]
  · intro hlt hst
    unfold h2ReqbodyRead
    rw [h1]
    have hx : ¬ ((fs.foldl (h2RecvData c) { bodyLen := cl }).out.length : Int) = cl := by omega
    simp [hx, hst]

/-- a streamed body that ends two bytes short, consuming backend: accepted by h2_recv_end_data(),
    reported as an error to the backend side -/
example : let st := h2Body { consumer := true } 5 [DataFrame.mk' (ofString "he") none false, DataFrame.mk' (ofString "l") none true]
    (st.out, st.rst, st.state, h2ReqbodyRead true st) = (ofString "hel", 0, .halfClosedRemote, .error) := by decide

/-! ## reverse proxy -/

/-- proxy_create_env(): for every configuration and field, a field that is forwarded is not a
    connection-management field (Connection, Proxy-Connection, Proxy; also Host and Set-Cookie,
    which are regenerated / response-only), it has a name and a value, and TE is forwarded only
    as "trailers" to an HTTP/1.1 backend.  (Transfer-Encoding is consumed by the request parser
    and never stored: C01.) -/
theorem c09_hop_by_hop (c : Proxy.Cfg) (version : Nat) (k v : Bytes)
    (h : Proxy.fieldAct c version k v = .emit) :
    Proxy.nameIs k "Connection" = false ∧ Proxy.nameIs k "Proxy-Connection" = false ∧
    Proxy.nameIs k "Proxy" = false ∧ Proxy.nameIs k "Host" = false ∧
    Proxy.nameIs k "Set-Cookie" = false ∧ k ≠ [] ∧ v ≠ [] ∧
    (Proxy.nameIs k "TE" = true →
      eqIcase v (ofString "trailers") = true ∧ version ≠ 0 ∧ c.forceHttp10 = false) :=
  Proxy.fieldAct_emit c version k v h

example : Proxy.emitFields {} 1 [(ofString "Connection", ofString "keep-alive, X"),
    (ofString "X", ofString "1"), (ofString "Proxy-Connection", ofString "keep-alive"),
    (ofString "TE", ofString "gzip"), (ofString "proxy", ofString "evil")] =
    ofString "\r\nX: 1" := by decide

/-- proxy_create_env(), framing of the request sent to the backend (RFC 9112 6.1 / 6.2; request
    smuggling surface).  `WfReq`: what the request parser guarantees (Transfer-Encoding is consumed,
    never stored; with a chunked client body no Content-Length survives).  Then
    * a Transfer-Encoding field is sent exactly when the body is re-chunked, it is the single
      value "chunked", and no client-supplied Transfer-Encoding is ever forwarded;
    * a chunked request carries no Content-Length field at all;
    * a request with a body of known length (or a bodiless non-GET/HEAD) is not chunked and carries
      a Content-Length — lighttpd's own decimal when the client sent none (HTTP/2 without
      content-length, HTTP/1.1 chunked and fully buffered). -/
theorem c09_proxy_framing (c : Proxy.Cfg) (r : Proxy.Req) (hw : Proxy.WfReq r)
    (line : Bytes) (fs : Proxy.Hdrs) (ch : Bool) (h : Proxy.headFields c r = some (line, fs, ch)) :
    (ch = true → (ofString "Transfer-Encoding", ofString "chunked") ∈ fs) ∧
    (∀ p ∈ fs, Proxy.nameIs p.1 "Transfer-Encoding" = true →
      ch = true ∧ p = (ofString "Transfer-Encoding", ofString "chunked")) ∧
    (ch = true → ∀ p ∈ fs, Proxy.nameIs p.1 "Content-Length" = false) ∧
    (c.authorizer = false → (r.bodyLen > 0 ∨ (r.bodyLen = 0 ∧ r.isGetOrHead = false)) →
      ch = false ∧ ∃ p ∈ fs, Proxy.nameIs p.1 "Content-Length" = true ∧ p.2 ≠ [] ∧
        (Proxy.getHdr r.headers "Content-Length" = none → p.2 = intDec r.bodyLen)) := by
  obtain ⟨h1, h2⟩ := Proxy.head_te c r hw line fs ch h
  refine ⟨h1, h2, ?_, ?_⟩
  · intro hch; subst hch
    exact Proxy.head_no_cl_when_chunked c r hw line fs h
  · intro ha hneed
    exact Proxy.head_cl c r ha hneed line fs ch h

/-- a streamed upload of unknown length to an HTTP/1.1 backend: chunked, no Content-Length;
    the client's "Connection: X" option is replaced -/
example : (Proxy.headFields { streaming := true }
      { method := ofString "POST", isGetOrHead := false, target := ofString "/u", host := some (ofString "h"),
        bodyLen := -1, scheme := ofString "http", remoteAddr := ofString "10.0.0.9",
        headers := [(ofString "X", ofString "1"), (ofString "Connection", ofString "X")] }) =
    some (ofString "POST /u HTTP/1.1",
      [(ofString "Host", ofString "h"), (ofString "Transfer-Encoding", ofString "chunked"),
       (ofString "X", ofString "1"), (ofString "X-Forwarded-For", ofString "10.0.0.9"),
       (ofString "X-Host", ofString "h"), (ofString "X-Forwarded-Host", ofString "h"),
       (ofString "X-Forwarded-Proto", ofString "http"), (ofString "Connection", ofString "close")],
      true) := by decide

/-- where `WfReq.noTE` comes from — C01's model of http_request_parse_single_header(), checked
    against the C parser there: a Transfer-Encoding field line is consumed by the request parser
    (HTTP/1.1 only, value "chunked" only, once only): it sets reqbody_length = -1 and is NOT stored
    among the request fields, so no backend module ever sees it.  (HTTP/2: the field is refused
    with 400, C05/C07.) -/
theorem c09_te_consumed_not_stored (r r' : PReq) (v : Bytes)
    (h : singleHeader r (ofString "transfer-encoding") v = .ok r') :
    r'.headers = r.headers ∧ r'.bodyLen = -1 ∧ r.version = 1 ∧
    eqIcase v (ofString "chunked") = true ∧ r.bodyLen ≠ -1 := by
  have hc : classifyHeader (ofString "transfer-encoding") = .transferEncoding := by decide
  unfold singleHeader at h
  rw [hc] at h
  simp only at h
  split at h
  · exact absurd h (by simp)
  · rename_i hv
    split at h
    · exact absurd h (by simp)
    · rename_i hch
      split at h
      · exact absurd h (by simp)
      · rename_i hb
        simp only [Except.ok.injEq] at h
        subst h
        exact ⟨rfl, rfl, by simpa using hv, by simpa using hch, hb⟩

example : (match singleHeader { version := 1, headers := [(ofString "x", ofString "1")] }
             (ofString "transfer-encoding") (ofString "chunked") with
           | .ok r' => decide (r'.headers = [(ofString "x", ofString "1")] ∧ r'.bodyLen = -1)
           | .error _ => false) = true := by decide

/-- Transfer-Encoding is only ever sent in an HTTP/1.1 request that names a Host (RFC 9112 6.1: a
    client must not send Transfer-Encoding to a recipient it speaks HTTP/1.0 to).  `hhost`: a
    request without Host is an HTTP/1.0 request (HTTP/1.1 and HTTP/2 requests without Host /
    :authority are refused with 400), and an HTTP/1.0 request cannot have a body of unknown length
    (Transfer-Encoding in HTTP/1.0 is refused with 400) — C01. -/
theorem c09_proxy_chunked_http11 (c : Proxy.Cfg) (r : Proxy.Req) (hhost : r.host = none → r.bodyLen ≥ 0)
    (line : Bytes) (fs : Proxy.Hdrs) (h : Proxy.headFields c r = some (line, fs, true)) :
    ofString " HTTP/1.1" <:+ line ∧ ∃ hv, (ofString "Host", hv) ∈ fs := by
  rw [Proxy.headFields_eq] at h
  cases hf : Proxy.framing c r with
  | none => rw [hf] at h; exact absurd h (by simp)
  | some x =>
    obtain ⟨ff, hs0, ch⟩ := x
    rw [hf] at h
    simp only [Option.some.injEq, Prod.mk.injEq] at h
    obtain ⟨hl, hfs, hch⟩ := h
    subst hch
    have h10 : c.forceHttp10 = false ∧ r.bodyLen < 0 := by
      unfold Proxy.framing at hf
      split at hf
      · simp at hf
      · split at hf
        · split at hf <;> simp at hf
        · split at hf
          · simp at hf
          · split at hf
            · rename_i hs
              split at hf
              · split at hf <;> simp at hf
              · rename_i h10
                exact ⟨by simpa using h10, hs.1⟩
            · simp at hf
    have hh : r.host ≠ none := fun hn => by have := hhost hn; omega
    obtain ⟨hv, hhv⟩ := Option.ne_none_iff_exists'.mp hh
    have hrl : Proxy.reqLine c r =
        ((if r.h2ConnectExt then ofString "GET" else r.method) ++ [sp] ++ r.target ++ ofString " HTTP/1.1",
         some (ofString "Host", match c.replaceHost with | some x => x | none => hv)) := by
      unfold Proxy.reqLine
      simp only [h10.1, hhv, Bool.false_eq_true, ↓reduceIte]
      cases c.replaceHost <;> rfl
    rw [hrl] at hl hfs
    refine ⟨?_, (match c.replaceHost with | some x => x | none => hv), ?_⟩
    · rw [← hl]; exact List.suffix_append _ _
    · rw [← hfs]; simp

/-- proxy_create_env(), connection management of the request sent to the backend: no Proxy /
    Proxy-Connection field, and exactly one Connection field, written by lighttpd, whose value
    starts with "close" (followed only by ", upgrade" / ", te" when lighttpd itself forwards
    Upgrade / TE) — nothing the client listed in its own Connection field survives -/
theorem c09_proxy_head_hop_by_hop (c : Proxy.Cfg) (r : Proxy.Req) (line : Bytes) (fs : Proxy.Hdrs)
    (ch : Bool) (h : Proxy.headFields c r = some (line, fs, ch)) :
    (∀ p ∈ fs, Proxy.nameIs p.1 "Proxy" = false ∧ Proxy.nameIs p.1 "Proxy-Connection" = false) ∧
    ∃ v, fs.filter (fun p => Proxy.nameIs p.1 "Connection") = [(ofString "Connection", v)] ∧
      ofString "close" <+: v :=
  Proxy.head_hop_by_hop c r line fs ch h

/-- proxy_create_env(), completeness: every client field that the per-field filter lets through
    (`c09_hop_by_hop` says which are not), that is not one of the forwarding fields lighttpd
    rewrites (Forwarded, X-Forwarded-For, X-Forwarded-Proto, X-Forwarded-Host, X-Host) and not Content-Length (regenerated
    by the framing), is in the request sent to the backend, name and value unchanged -/
theorem c09_proxy_fields_complete (c : Proxy.Cfg) (r : Proxy.Req) (line : Bytes) (fs : Proxy.Hdrs)
    (ch : Bool) (h : Proxy.headFields c r = some (line, fs, ch)) (p : Bytes × Bytes)
    (hp : p ∈ r.headers) (hem : Proxy.fieldAct c r.version p.1 p.2 = .emit)
    (hf : Proxy.isFwdName p.1 = false) (hcl : Proxy.nameIs p.1 "Content-Length" = false) : p ∈ fs :=
  Proxy.head_complete c r line fs ch h p hp hem hf hcl

/-- the serialisation of the request head is faithful: a receiver following RFC 9112 (request
    line up to CRLF, field lines "name:" OWS value CRLF, empty line) reads back exactly the
    request line, exactly the fields in order, and finds the body right after the empty line.
    `_partial`: CR-freeness / token names of the fields are hypotheses here; they are discharged
    from the request in `c09_proxy_head_decodes` when proxy.forwarded is off; for a generated
    "Forwarded" value (proxy.forwarded options) they are checked by the correspondence oracle only. -/
theorem c09_proxy_head_decodes_partial (line : Bytes) (fs : Proxy.Hdrs) (body : Bytes)
    (hl : cr ∉ line) (hf : ∀ f ∈ fs, Proxy.WfField f) :
    Proxy.decodeHead (Proxy.renderHead line fs ++ body) = some (line, fs, body) :=
  Proxy.decodeHead_render line fs body hl hf

example : Proxy.decodeHead (ofString "POST /u HTTP/1.1\r\nHost: h\r\nX: 1\r\n\r\nbody") =
    some (ofString "POST /u HTTP/1.1", [(ofString "Host", ofString "h"), (ofString "X", ofString "1")],
          ofString "body") := by decide

/-- ... and with proxy.forwarded off (the default: no "Forwarded" field is generated) the
    hypotheses are discharged from the request: if the stored fields are token-named and CR-free
    and host, proxy host id, peer address, scheme, method and target are CR-free (`HeadWf`, what the
    request parser and the configuration guarantee), then the head lighttpd builds — Host, framing
    field, forwarded client fields, X-Forwarded-For / X-Host / X-Forwarded-Host / X-Forwarded-Proto,
    Connection — re-parses to exactly that request line and those fields, and the receiver finds
    the body right after it -/
theorem c09_proxy_head_decodes (c : Proxy.Cfg) (r : Proxy.Req) (hw : Proxy.HeadWf c r)
    (h0 : c.forwarded = 0) (line : Bytes) (fs : Proxy.Hdrs) (ch : Bool)
    (h : Proxy.headFields c r = some (line, fs, ch)) (rest : Bytes) :
    Proxy.decodeHead (Proxy.renderHead line fs ++ rest) = some (line, fs, rest) := by
  obtain ⟨hl, hf⟩ := Proxy.headFields_wf c r hw h0 line fs ch h
  exact Proxy.decodeHead_render line fs rest hl hf

set_option maxRecDepth 100000 in
example : (Proxy.headFields {}
      { method := ofString "POST", isGetOrHead := false, target := ofString "/u", host := some (ofString "h"),
        bodyLen := 4, scheme := ofString "http", remoteAddr := ofString "10.0.0.9",
        headers := [(ofString "X", ofString "1"), (ofString "Content-Length", ofString "4")] }).bind
      (fun x => Proxy.decodeHead (Proxy.renderHead x.1 x.2.1 ++ ofString "body")) =
    some (ofString "POST /u HTTP/1.1",
      [(ofString "Host", ofString "h"), (ofString "X", ofString "1"), (ofString "Content-Length", ofString "4"),
       (ofString "X-Forwarded-For", ofString "10.0.0.9"), (ofString "X-Host", ofString "h"),
       (ofString "X-Forwarded-Host", ofString "h"), (ofString "X-Forwarded-Proto", ofString "http"),
       (ofString "Connection", ofString "close")],
      ofString "body") := by decide

/-- the whole proxied request under EVERY arrival schedule of the body: what is queued for the
    backend is the serialised head (the one `c09_proxy_framing` / `_hop_by_hop` /
    `_fields_complete` speak about) followed by
    * Content-Length framing: exactly the body bytes, and the gateway announced exactly what it
      queued (the body has the length the request announced);
    * chunked framing (proxy_stdin_append()): a chunked coding that decodes to exactly the body,
      one last-chunk, nothing after it;
    and nothing is left in the request-body queue. -/
theorem c09_proxy_request (c : Proxy.Cfg) (r : Proxy.Req) (ha : c.authorizer = false)
    (line : Bytes) (fs : Proxy.Hdrs) (ch : Bool) (h : Proxy.headFields c r = some (line, fs, ch))
    (seg0 : Bytes) (segs : List Bytes)
    (hlen : ch = false → r.bodyLen = (((seg0 :: segs).flatten.length : Nat) : Int)) :
    ∃ st, Proxy.run c r seg0 segs = some (st, ch) ∧ st.pending = [] ∧
      (ch = false → st.out = Proxy.renderHead line fs ++ (seg0 :: segs).flatten ∧
                    st.reqlen = (st.out.length : Int)) ∧
      (ch = true → ∃ stream, st.out = Proxy.renderHead line fs ++ stream ∧
                    Proxy.dechunk (stream.length + 1) stream = some ((seg0 :: segs).flatten, [])) :=
  Proxy.run_spec c r ha line fs ch h seg0 segs hlen

set_option maxRecDepth 100000 in
example : (Proxy.run { streaming := true }
      { method := ofString "POST", isGetOrHead := false, target := ofString "/", host := some (ofString "h"),
        bodyLen := -1 }
      (ofString "ab") [[], ofString "c"]).map (fun x => (x.1.out, x.1.pending, x.2)) =
    some (ofString "POST / HTTP/1.1\r\nHost: h\r\nTransfer-Encoding: chunked\r\nX-Host: h\r\nX-Forwarded-Host: h\r\nConnection: close\r\n\r\n02\r\nab\r\n01\r\nc\r\n0\r\n\r\n",
          [], true) := by decide

end LtVerif.C09
