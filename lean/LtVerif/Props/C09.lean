/-
  C09 — backends receive exactly the client's request.
  (property theorems; helper lemmas live in LtVerif/Proofs)
-/
import LtVerif.Model.ProxyReq
namespace LtVerif.C09
open LtVerif B

end LtVerif.C09
