/-
  C09 — backends receive exactly the client's request (env, headers, body).
  Property theorems only (helper lemmas live in LtVerif/Proofs).

  Models: Model/Cgi.lean (http_cgi_headers, http_cgi_encode_varname, gw_check_extension
  path-info split, mod_cgi envp), Model/Fcgi.lean (fcgi_create_env, fcgi_env_add,
  fcgi_stdin_append + FastCGI receiver), Model/Scgi.lean (scgi_create_env: netstring, uwsgi
  packet + receivers), Model/ProxyReq.lean (proxy_create_env, proxy_stdin_append).
-/
import LtVerif.Proofs.Cgi
import LtVerif.Proofs.FcgiRun
import LtVerif.Proofs.Scgi
import LtVerif.Proofs.Proxy
import LtVerif.Extracted.H1Tables
namespace LtVerif.C09
open LtVerif B

/-! ## header names -> variable names -/

/-- http_cgi_encode_varname(): for EVERY field name the variable starts with "HTTP_", so it
    is never one of the server-defined meta-variables, and it is HTTP_PROXY exactly for the
    field "Proxy" (any letter case) -/
theorem c09_varname (n : Bytes) :
    httpPrefix <+: encodeVarname true n ∧
    encodeVarname true n ∉ metaNames ∧
    (encodeVarname true n = ofString "HTTP_PROXY" ↔ eqIcase n (ofString "Proxy") = true) ∧
    (∀ b ∈ encodeVarname true n, isUpper b = true ∨ isDigit b = true ∨ b = uscore) := by
  refine ⟨?_, encodeVarname_not_meta n, encodeVarname_proxy_iff n, ?_⟩
  · rw [encodeVarname_hdr]; exact List.prefix_append _ _
  · intro b hb
    rw [encodeVarname_hdr] at hb
    rcases List.mem_append.mp hb with h | h
    · have : ∀ x ∈ httpPrefix, isUpper x = true ∨ isDigit x = true ∨ x = uscore := by decide
      exact this b h
    · obtain ⟨c, _, rfl⟩ := List.mem_map.mp h
      exact enc_charset c

example : encodeVarname true (ofString "X-Forwarded_For.1") = ofString "HTTP_X_FORWARDED_FOR_1" := by decide
example : encodeVarname true (ofString "pRoXy") = ofString "HTTP_PROXY" := by decide
example : encodeVarname true (ofString "Remote-Addr") = ofString "HTTP_REMOTE_ADDR" := by decide

/-- what the client's fields become (the header loop of http_cgi_headers(), for every field
    list): never HTTP_PROXY; a server-defined name is impossible; CONTENT_TYPE only from a
    Content-Type field and with its value; every variable comes from a field of the request -/
theorem c09_header_vars_sound (hs : List (Bytes × Bytes)) :
    ∀ p ∈ headerVars hs,
      p.1 ≠ ofString "HTTP_PROXY" ∧ p.1 ∉ metaNames ∧
      ∃ k, (k, p.2) ∈ hs ∧ p.2 ≠ [] ∧ eqIcase k (ofString "Proxy") = false ∧
        ((eqIcase k (ofString "Content-Type") = true ∧ p.1 = ofString "CONTENT_TYPE") ∨
         (eqIcase k (ofString "Content-Type") = false ∧ p.1 = encodeVarname true k)) := by
  intro p hp
  simp only [headerVars, List.mem_filterMap] at hp
  obtain ⟨⟨k, v⟩, hmem, hv⟩ := hp
  simp only [headerVar] at hv
  by_cases h1 : v.isEmpty = true
  · simp [h1] at hv
  · by_cases h2 : eqIcase k (ofString "Proxy") = true
    · simp [h1, h2] at hv
    · have hvne : v ≠ [] := by intro e; apply h1; rw [e]; rfl
      have h2' : eqIcase k (ofString "Proxy") = false := by simpa using h2
      by_cases h3 : eqIcase k (ofString "Content-Type") = true
      · simp only [h1, Bool.false_eq_true, ↓reduceIte, h2, h3, Option.some.injEq] at hv
        subst hv
        exact ⟨by show ofString "CONTENT_TYPE" ≠ ofString "HTTP_PROXY"; decide,
               contentType_not_meta, k, hmem, hvne, h2', Or.inl ⟨h3, rfl⟩⟩
      · simp only [h1, Bool.false_eq_true, ↓reduceIte, h2, h3, Option.some.injEq] at hv
        subst hv
        refine ⟨?_, encodeVarname_not_meta k, k, hmem, hvne, h2', Or.inr ⟨by simpa using h3, rfl⟩⟩
        intro e
        exact h2 ((encodeVarname_proxy_iff k).mp e)

/-- ... and nothing is lost: every field with a value, other than Proxy, is passed with
    its value unchanged -/
theorem c09_header_vars_complete (hs : List (Bytes × Bytes)) (k v : Bytes)
    (hmem : (k, v) ∈ hs) (hv : v ≠ []) (hp : eqIcase k (ofString "Proxy") = false) :
    (if eqIcase k (ofString "Content-Type") then ofString "CONTENT_TYPE" else encodeVarname true k, v)
      ∈ headerVars hs := by
  simp only [headerVars, List.mem_filterMap]
  refine ⟨(k, v), hmem, ?_⟩
  have h1 : v.isEmpty = false := by cases v <;> simp_all
  simp only [headerVar, h1, Bool.false_eq_true, ↓reduceIte, hp]
  split <;> rfl

example : headerVars [(ofString "Proxy", ofString "evil"), (ofString "content-TYPE", ofString "a/b"),
                      (ofString "Content_Length", ofString "9"), (ofString "X-Empty", [])] =
    [(ofString "CONTENT_TYPE", ofString "a/b"), (ofString "HTTP_CONTENT_LENGTH", ofString "9")] := by decide

/-- the name -> id assumptions the models make hold for the http_headers[] table of the
    current source (regenerated each run): the fields the code special-cases by id are in
    the table, "Proxy" / "Proxy-Connection" are not (they are HTTP_HEADER_OTHER) -/
theorem c09_header_ids :
    (∀ n ∈ ["content-type", "content-length", "host", "connection", "te", "upgrade", "set-cookie",
            "transfer-encoding", "forwarded", "x-forwarded-for", "x-forwarded-proto"],
       n ∈ Extracted.headerNames) ∧
    "proxy" ∉ Extracted.headerNames ∧ "proxy-connection" ∉ Extracted.headerNames := by decide

/-! ## meta-variables (RFC 3875 4.1) -/

/-- http_cgi_headers(): the request-line, body-length and script variables carry exactly the
    request's values, each at most once, for every request and option set -/
theorem c09_meta_rfc3875 (o : CgiOpts) (r : CgiReq) (v : Bytes) :
    (("QUERY_STRING", v) ∈ cgiMetaS o r ↔ v = r.query) ∧
    (("REQUEST_URI", v) ∈ cgiMetaS o r ↔ v = requestUri o.stripRequestUri r.targetOrig) ∧
    (("CONTENT_LENGTH", v) ∈ cgiMetaS o r ↔ o.authorizer = false ∧ v = intDec r.bodyLen) ∧
    (("SCRIPT_NAME", v) ∈ cgiMetaS o r ↔ o.authorizer = false ∧ v = r.path) ∧
    (("PATH_INFO", v) ∈ cgiMetaS o r ↔ o.authorizer = false ∧ r.pathinfo ≠ [] ∧ v = r.pathinfo) ∧
    (("REQUEST_METHOD", v) ∈ cgiMetaS o r ↔
        v = if r.h2ConnectExt then ofString "GET" else r.method) ∧
    (("SERVER_PROTOCOL", v) ∈ cgiMetaS o r ↔
        v = if r.h2ConnectExt then ofString "HTTP/1.1" else versionName r.version) ∧
    (("REMOTE_ADDR", v) ∈ cgiMetaS o r ↔ v = r.remoteAddr) := by
  have hne : ∀ l : Bytes, (!l.isEmpty) = true ↔ l ≠ [] := by intro l; cases l <;> simp
  refine ⟨?_, ?_, ?_, ?_, ?_, ?_, ?_, ?_⟩ <;>
    simp [cgiMetaS, List.mem_filterMap, optE, eq_comm (a := v), hne, and_assoc]

/-- CONTENT_LENGTH is the first variable (SCGI requires it) -/
theorem c09_content_length_first (o : CgiOpts) (r : CgiReq) (h : o.authorizer = false) :
    (cgiEnv o r).head? = some (ofString "CONTENT_LENGTH", intDec r.bodyLen) := by
  simp [cgiEnv, cgiMeta, cgiMetaS, optE, h]

/-- no client field can add or replace a server-defined variable: the names produced by the
    fixed part are server names (plus the three synthesised HTTP/2 extended-CONNECT fields), the
    names produced from the client's fields are never among them -/
theorem c09_no_override (o : CgiOpts) (r : CgiReq) (hext : r.h2ConnectExt = false) :
    ∀ q ∈ cgiMeta o r, ∀ p ∈ headerVars r.headers, p.1 ≠ q.1 := by
  intro q hq p hp e
  simp only [cgiMeta, List.mem_map] at hq
  obtain ⟨s, hs, rfl⟩ := hq
  have hname : ofString s.1 ∈ metaNames := by
    rcases cgiMetaS_names o r s hs with h | ⟨h, _⟩
    · exact List.mem_map.mpr ⟨s.1, h, rfl⟩
    · rw [hext] at h; exact absurd h (by simp)
  have := (c09_header_vars_sound r.headers p hp).2.1
  rw [e] at this
  exact this hname

example :
    (cgiEnv {} { bodyLen := 3, query := ofString "a?b", targetOrig := ofString "/x/y?a?b",
                 target := ofString "/x/y?a?b", path := ofString "/x", pathinfo := ofString "/y",
                 method := ofString "POST",
                 headers := [(ofString "Script-Name", ofString "/evil")] }).filter
      (fun p => p.1 = ofString "SCRIPT_NAME" || p.1 = ofString "QUERY_STRING"
                || p.1 = ofString "HTTP_SCRIPT_NAME")
    = [(ofString "QUERY_STRING", ofString "a?b"), (ofString "SCRIPT_NAME", ofString "/x"),
       (ofString "HTTP_SCRIPT_NAME", ofString "/evil")] := by decide

/-- gw_check_extension(): SCRIPT_NAME ++ PATH_INFO is the request path, for every
    extension prefix and path; PATH_INFO is empty or starts with '/' -/
theorem c09_script_name_path_info (key : Bytes) (fixRoot : Bool) (path : Bytes)
    (hp : path.head? = some slash) :
    (gwPathinfoSplit key fixRoot path).1 ++ (gwPathinfoSplit key fixRoot path).2 = path ∧
    ((gwPathinfoSplit key fixRoot path).2 = [] ∨
     (gwPathinfoSplit key fixRoot path).2.head? = some slash) :=
  ⟨gwPathinfoSplit_concat key fixRoot path, gwPathinfoSplit_pathinfo key fixRoot path hp⟩

example : gwPathinfoSplit (ofString "/cgi-bin/") false (ofString "/cgi-bin/foo/bar") =
    (ofString "/cgi-bin/foo", ofString "/bar") := by decide
example : gwPathinfoSplit (ofString "/") true (ofString "/a/b") = ([], ofString "/a/b") := by decide

/-- http_request_parse_target() with URL normalisation off: the query is what follows the
    FIRST '?' of the target (fragment cut off), the path what precedes it.
    FULL STATEMENT (planned c09_meta_rfc3875, query part): the same for every parseopts set.
    `_partial`: the normalising variants (burl_normalize) are covered by the correspondence
    and the oracle of the url stream only (defect D4 lived there). -/
theorem c09_query_after_first_qmark_partial (o : Opts) (t : Bytes) (tg : Target)
    (hn : o.urlNormalize = false) (h : parseTarget o false t = .ok tg) :
    (qmark ∉ t.takeWhile (· ≠ hash) ∧ tg.query = [] ∧ tg.target = t.takeWhile (· ≠ hash)) ∨
    (∃ pre, qmark ∉ pre ∧ t.takeWhile (· ≠ hash) = pre ++ qmark :: tg.query) := by
  simp only [parseTarget, Bool.false_eq_true, ↓reduceIte, hn] at h
  obtain ⟨hsome, hnone⟩ := findIdx_spec (· = qmark) (t.takeWhile (· ≠ hash)) 0
  cases hq : findIdx (fun x => decide (x = qmark)) (t.takeWhile (· ≠ hash)) 0 with
  | none =>
    left
    rw [hq] at h
    simp only at h
    split at h
    · simp only [Except.ok.injEq] at h
      subst h
      refine ⟨?_, rfl, rfl⟩
      intro hm
      have := hnone hq qmark hm
      simp at this
    · simp at h
  | some i =>
    right
    rw [hq] at h
    simp only at h
    obtain ⟨_, x, hx1, hx2, hx3⟩ := hsome i hq
    have hxq : x = qmark := by simpa using hx2
    split at h
    · simp only [Except.ok.injEq] at h
      subst h
      refine ⟨(t.takeWhile (· ≠ hash)).take i, ?_, ?_⟩
      · intro hm
        have := hx3 qmark (by simpa using hm)
        simp at this
      · simp only [Nat.sub_zero] at hx1
        rw [hxq] at hx1
        exact hx1
    · simp at h

example : (match parseTarget ⟨0⟩ false (ofString "/x?a?b#f?c") with
           | .ok tg => tg.target == ofString "/x?a?b" && tg.path == ofString "/x" && tg.query == ofString "a?b"
           | .error _ => false) = true := by decide

/-! ## FastCGI -/

/-- fcgi_create_env() + fcgi_stdin_append() under EVERY arrival schedule of the body
    (`seg0` queued when the backend request is created, `segs` arriving later, any sizes,
    any number of refills): the request is refused (400) exactly when the variables do not fit
    one PARAMS record; otherwise the bytes queued for the backend decode — by the FastCGI
    specification's record/stream/name-value rules — to exactly (role, env, body): one
    BEGIN_REQUEST, PARAMS closed once, STDIN closed once with nothing after it (every record
    <= 65535 by construction of the 16-bit length field), nothing left in the request-body
    queue and the gateway's expected request length equal to what was queued. -/
theorem c09_fcgi_roundtrip (role : Nat) (hrole : role < 256) (hresp : role ≠ Extracted.C09.gwAuthorizer)
    (env : List (Bytes × Bytes)) (henv : env ≠ []) (seg0 : Bytes) (segs : List Bytes) :
    (Fcgi.run role false env (((seg0 :: segs).flatten.length : Nat) : Int) seg0 segs = none ↔
      Fcgi.maxLen < (Fcgi.nvPairs env).length) ∧
    ∀ st, Fcgi.run role false env (((seg0 :: segs).flatten.length : Nat) : Int) seg0 segs = some st →
      Fcgi.decode st.out =
        some { role := role, flags := 0, env := env, stdin := (seg0 :: segs).flatten } ∧
      st.pending = [] ∧ st.reqlen = (st.out.length : Int) := by
  rcases Fcgi.run_spec role hresp env seg0 segs with ⟨h1, h2⟩ | ⟨h1, st, cs, h2, h3, h4⟩
  · refine ⟨⟨fun _ => h1, fun _ => h2⟩, ?_⟩
    intro st hst; rw [h2] at hst; exact absurd hst (by simp)
  · refine ⟨⟨fun hn => ?_, fun hl => ?_⟩, ?_⟩
    · rw [h2] at hn; exact absurd hn (by simp)
    · exact absurd hl (by omega)
    · intro st' hst'
      rw [h2] at hst'
      simp only [Option.some.injEq] at hst'
      subst hst'
      obtain ⟨c1, c2, c3, c4⟩ := h4
      refine ⟨?_, c3, c4⟩
      rw [c1, Fcgi.decode_closed role hrole env henv h1 cs h3, c2]

/-- non-vacuity: a 70000-byte body delivered as 1 + 69999 bytes is framed as 1, 65535 and 4464
    bytes; the stream decodes back -/
example :
    (Fcgi.run 1 false [(ofString "CONTENT_LENGTH", ofString "3")] 3 (ofString "a") [ofString "bc"]).map
      (fun st => (Fcgi.decode st.out, st.pending, st.reqlen)) =
    some (some { role := 1, flags := 0, env := [(ofString "CONTENT_LENGTH", ofString "3")],
                 stdin := ofString "abc" }, [], 76) := by decide

/-- the variables of an actual request are never an empty list (the PARAMS stream has content) -/
theorem c09_env_nonempty (o : CgiOpts) (r : CgiReq) : cgiEnv o r ≠ [] := by
  simp [cgiEnv, cgiMeta, cgiMetaS, optE]

/-! ## SCGI, uwsgi, CGI -/

/-- scgi_create_env() (SCGI) + body hand-over under every arrival schedule: the backend reads a
    netstring holding exactly the variables (plus SCGI=1 last) and then exactly the body -/
theorem c09_scgi_roundtrip (env : List (Bytes × Bytes)) (h : EnvNulFree env) (seg0 : Bytes)
    (segs : List Bytes) (bodyLen : Int) :
    Scgi.decode (RawSt.run (Scgi.encodeHeader env) bodyLen seg0 segs).out =
      some (env ++ [(ofString "SCGI", ofString "1")], (seg0 :: segs).flatten) ∧
    (RawSt.run (Scgi.encodeHeader env) bodyLen seg0 segs).pending = [] := by
  rw [rawRun_out]
  exact ⟨scgi_decode_header env h _, rawRun_pending _ _ _ _⟩

example : Scgi.decode (RawSt.run (Scgi.encodeHeader [(ofString "CONTENT_LENGTH", ofString "2")]) 2
                         (ofString "h") [ofString "i"]).out =
    some ([(ofString "CONTENT_LENGTH", ofString "2"), (ofString "SCGI", ofString "1")], ofString "hi") := by
  decide

/-- scgi_create_env() (uwsgi): when the request is accepted the packet decodes to exactly the
    variables and the body; it is refused (400 / 431) only when a name, a value or the whole
    block does not fit the 16-bit size fields -/
theorem c09_uwsgi_roundtrip (env : List (Bytes × Bytes)) (seg0 : Bytes) (segs : List Bytes)
    (bodyLen : Int) :
    (∀ st, Uwsgi.createEnv env bodyLen seg0 = .ok st →
      Uwsgi.decode ((segs.foldl RawSt.arrive st).moveAll).out = some (env, (seg0 :: segs).flatten)) ∧
    (∀ c, Uwsgi.createEnv env bodyLen seg0 = .status c →
      (∃ p ∈ env, p.1.length > 65535 ∨ p.2.length > 65535) ∨
      (env.flatMap fun p => Uwsgi.pair p.1 p.2).length > 65535) := by
  have hu : Extracted.C09.ushrtMax = 65535 := rfl
  constructor
  · intro st hst
    simp only [Uwsgi.createEnv] at hst
    cases ha : Uwsgi.addAll [] env with
    | none => rw [ha] at hst; simp at hst
    | some vars =>
      rw [ha] at hst
      simp only [hu] at hst
      by_cases hfit : vars.length > 65535
      · simp [hfit] at hst
      · simp only [hfit, ↓reduceIte, Uwsgi.Res.ok.injEq] at hst
        subst hst
        have := rawRun_out (Uwsgi.encodeHeader vars) bodyLen seg0 segs
        simp only [RawSt.run] at this
        rw [this]
        exact uwsgi_decode_header env vars _ ha (by omega)
  · intro c hst
    simp only [Uwsgi.createEnv] at hst
    cases ha : Uwsgi.addAll [] env with
    | none => left; exact uwsgi_addAll_none env [] ha
    | some vars =>
      right
      rw [ha] at hst
      simp only [hu] at hst
      by_cases hfit : vars.length > 65535
      · obtain ⟨h1, _⟩ := uwsgi_addAll_spec env [] vars ha
        simp only [List.nil_append] at h1
        rw [← h1]; exact hfit
      · simp [hfit] at hst

example : Uwsgi.decode (Uwsgi.encodeHeader (Uwsgi.pair (ofString "K") (ofString "v")) ++ ofString "body") =
    some ([(ofString "K", ofString "v")], ofString "body") := by decide

/-- mod_cgi: the envp block handed to execve() splits back into exactly the variables (names
    without '=' / NUL, values without NUL — what the request parser guarantees) -/
theorem c09_cgi_envp_roundtrip (env : List (Bytes × Bytes))
    (h : ∀ p ∈ env, (61 : UInt8) ∉ p.1 ∧ NulFree p.1 ∧ NulFree p.2) :
    envpDecode (envpEncode env) = some env :=
  envpDecode_encode env h

example : envpDecode (envpEncode [(ofString "QUERY_STRING", ofString "a=b"), (ofString "X", [])]) =
    some [(ofString "QUERY_STRING", ofString "a=b"), (ofString "X", [])] := by decide

/-- mod_cgi: what the script reads on its standard input is the body received so far, and its
    input ends exactly when Content-Length bytes were passed (for every arrival schedule) -/
theorem c09_cgi_stdin (bodyLen : Int) (segs : List Bytes) :
    (cgiStdin bodyLen segs).out = segs.flatten ∧
    ((cgiStdin bodyLen segs).eof = true ↔ (segs.flatten.length : Int) = bodyLen) := by
  simp [cgiStdin]

example : cgiStdin 3 [ofString "a", [], ofString "bc"] = { out := ofString "abc", eof := true } := by decide

/-- h2_recv_data() / h2_recv_end_data(): a request body sent as DATA frames — any number of
    frames, any sizes, any padding, END_STREAM on the last, Content-Length absent or equal to the
    amount of data — arrives as exactly the concatenated frame data: no padding, nothing lost, no
    RST_STREAM, reqbody_length = the amount of data.  (Independence of the segmentation of the
    frame bytes into network reads is what the correspondence checks against h2_parse_frames().) -/
theorem c09_h2_data_body (cl : Int) (fs : List DataFrame) (last : DataFrame)
    (hne : ∀ f ∈ fs, f.endStream = false) (hlast : last.endStream = true)
    (hcl : cl = -1 ∨ cl = (((framesData (fs ++ [last])).length : Nat) : Int)) :
    h2Body cl (fs ++ [last]) =
      { out := framesData (fs ++ [last]), bodyLen := (((framesData (fs ++ [last])).length : Nat) : Int),
        state := .halfClosedRemote, rst := 0 } := by
  have hdata : framesData (fs ++ [last]) = framesData fs ++ last.payload := by simp [framesData]
  unfold h2Body
  rw [List.foldl_append]
  rw [h2_fold_open fs hne { bodyLen := cl } rfl (by
    rcases hcl with h | h
    · left; exact h
    · right
      show ((([] : Bytes).length + (framesData fs).length : Nat) : Int) ≤ cl
      rw [h, hdata, List.length_append]
      simp only [List.length_nil]
      push_cast
      omega)]
  simp only [List.foldl_cons, List.foldl_nil, List.nil_append]
  unfold h2RecvData
  simp only [ne_eq, not_true_eq_false, ↓reduceIte, hlast]
  rw [hdata]
  rcases hcl with h | h
  · subst h
    simp
  · have h2 : ¬ (cl ≥ 0 ∧ cl < (((framesData fs).length + last.payload.length : Nat) : Int)) := by
      rw [h, hdata, List.length_append]; omega
    have h3 : ¬ (cl = -1) := by rw [h]; omega
    have h4 : ¬ (cl ≠ (((framesData fs).length + last.payload.length : Nat) : Int)) := by
      rw [h, hdata, List.length_append]; simp
    simp only [h2, h3, h4, ↓reduceIte]
    rw [h, hdata]

example : h2Body (-1) [{ payload := ofString "he" }, { payload := ofString "llo", pad := some 3, endStream := true }] =
    { out := ofString "hello", bodyLen := 5, state := .halfClosedRemote, rst := 0 } := by decide

/-! ## reverse proxy -/

/-- proxy_create_env(): for every configuration and field, a field that is forwarded is not a
    connection-management field (Connection, Proxy-Connection, Proxy; also Host and Set-Cookie,
    which are regenerated / response-only), it has a name and a value, and TE is forwarded only
    as "trailers" to an HTTP/1.1 backend.  (Transfer-Encoding is consumed by the request parser
    and never stored: C01.) -/
theorem c09_hop_by_hop (c : Proxy.Cfg) (version : Nat) (k v : Bytes)
    (h : Proxy.fieldAct c version k v = .emit) :
    Proxy.nameIs k "Connection" = false ∧ Proxy.nameIs k "Proxy-Connection" = false ∧
    Proxy.nameIs k "Proxy" = false ∧ Proxy.nameIs k "Host" = false ∧
    Proxy.nameIs k "Set-Cookie" = false ∧ k ≠ [] ∧ v ≠ [] ∧
    (Proxy.nameIs k "TE" = true →
      eqIcase v (ofString "trailers") = true ∧ version ≠ 0 ∧ c.forceHttp10 = false) :=
  Proxy.fieldAct_emit c version k v h

example : Proxy.emitFields {} 1 [(ofString "Connection", ofString "keep-alive, X"),
    (ofString "X", ofString "1"), (ofString "Proxy-Connection", ofString "keep-alive"),
    (ofString "TE", ofString "gzip"), (ofString "proxy", ofString "evil")] =
    ofString "\r\nX: 1" := by decide

/-- proxy_stdin_append() under every arrival schedule (chunked upload of a streamed request
    body): the chunked transfer coding sent to the backend decodes to exactly the body, with
    one last-chunk and nothing after it -/
theorem c09_proxy_chunked_roundtrip (hdr : Bytes) (hh : 1 < hdr.length) (seg0 : Bytes)
    (segs : List Bytes) :
    ∃ stream, (Proxy.runChunked hdr seg0 segs).out = hdr ++ stream ∧
      Proxy.dechunk (stream.length + 1) stream = some ((seg0 :: segs).flatten, []) ∧
      (Proxy.runChunked hdr seg0 segs).pending = [] :=
  Proxy.runChunked_spec' hdr hh seg0 segs

example : (Proxy.runChunked (ofString "GET / HTTP/1.1\r\n\r\n") (ofString "ab") [[], ofString "c"]).out =
    ofString "GET / HTTP/1.1\r\n\r\n02\r\nab\r\n01\r\nc\r\n0\r\n\r\n" := by decide

end LtVerif.C09
