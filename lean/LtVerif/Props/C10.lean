/-
  C10 — Backend responses are relayed faithfully; broken ones never look complete.
  Property theorems only; helper lemmas live in LtVerif/Proofs/BackendResp.lean.

  The models describe the property-conforming behaviour where the pinned C deviates from it
  (defects reported by the check, see tools/ltv/props/c10.py): the CR check of the backend
  chunked decoder, the CR left in merged trailer values, `gw_dechunk->done = 0` for a response
  without Status, and the missing keep-alive reset for a truncated Content-Length body.
-/
import LtVerif.Proofs.BackendResp
namespace LtVerif.C10
open LtVerif B LtVerif.BeResp

/-! ## backend chunked decoder (http_chunk_decode_append_data) -/

/-- segmentation independence: feeding the backend stream in two pieces is the same as feeding
    it at once (hence the same for every composition into reads / FastCGI records) -/
theorem c10_dechunk_segmentation (s : DcSt) (a b : Bytes) :
    dcFeed (dcFeed s a) b = dcFeed s (a ++ b) := (dcFeed_append s a b).symm

/-- wire form of a chunked body: chunks with arbitrary accepted size lines, the last-chunk line,
    the trailer section including the final empty line -/
def dwire (cs : List (Bytes × Bytes)) (last t : Bytes) : Bytes :=
  cs.flatMap (fun c => c.1 ++ c.2 ++ [cr, lf]) ++ (last ++ t)

/-- Round trip: every chunked body (any number of non-empty chunks, any accepted spelling of the
    size lines incl. extensions, any trailer section) decodes to exactly the concatenation of the
    chunk data and is complete exactly at its end; the last-chunk line and the trailers are kept. -/
theorem c10_dechunk_roundtrip (cs : List (Bytes × Bytes)) (last t : Bytes)
    (hcs : ∀ c ∈ cs, DcGoodLine c.1 c.2.length ∧ c.2 ≠ []) (hlast : DcGoodLine last 0)
    (ht : DcTrailerEnd last t) :
    dcFeed {} (dwire cs last t) = { mode := .done (last ++ t), out := cs.flatMap (·.2) } := by
  suffices h : ∀ (out : Bytes), dcFeed { mode := .hdr [], out := out } (dwire cs last t)
      = { mode := .done (last ++ t), out := out ++ cs.flatMap (·.2) } by simpa using h []
  induction cs with
  | nil => intro out; simpa [dwire] using dcFeed_final hlast ht out
  | cons c rest ih =>
    intro out
    have hc := hcs c (by simp)
    have hrest : ∀ c ∈ rest, DcGoodLine c.1 c.2.length ∧ c.2 ≠ [] := fun x hx => hcs x (by simp [hx])
    have : dwire (c :: rest) last t = (c.1 ++ c.2 ++ [cr, lf]) ++ dwire rest last t := by simp [dwire]
    rw [this, dcFeed_append, dcFeed_chunk hc.1 hc.2, ih hrest]
    simp

/-- decoded output only ever grows: what has been handed on is never taken back or altered -/
theorem c10_dechunk_output_monotone (bs : Bytes) : ∀ (s : DcSt), ∃ x, (dcFeed s bs).out = s.out ++ x := by
  induction bs with
  | nil => intro s; exact ⟨[], by simp [dcFeed_nil]⟩
  | cons b rest ih =>
    intro s
    rw [dcFeed_cons]
    obtain ⟨x, hx⟩ := ih (dcStep s b)
    have hstep : ∃ y, (dcStep s b).out = s.out ++ y := by
      obtain ⟨mode, out⟩ := s
      cases mode with
      | data n => simp only [dcStep]; split <;> exact ⟨[b], by simp⟩
      | hdr acc => simp only [dcStep]; (repeat' split) <;> exact ⟨[], by simp⟩
      | cr => simp only [dcStep]; split <;> exact ⟨[], by simp⟩
      | lf => simp only [dcStep]; split <;> exact ⟨[], by simp⟩
      | trailer acc => simp only [dcStep]; split <;> exact ⟨[], by simp⟩
      | done acc => exact ⟨[], by simp [dcStep]⟩
      | err => exact ⟨[], by simp [dcStep]⟩
    obtain ⟨y, hy⟩ := hstep
    exact ⟨y ++ x, by rw [hx, hy]; simp⟩

/-- **A truncated chunked body is never complete.**  For every proper prefix of a well-formed
    chunked body the decoder is neither done nor in error (it waits for more), and what it has
    decoded so far is a prefix of the body: backend EOF there is recognisable as truncation. -/
theorem c10_dechunk_truncated_never_complete (cs : List (Bytes × Bytes)) (last t p q : Bytes)
    (hcs : ∀ c ∈ cs, DcGoodLine c.1 c.2.length ∧ c.2 ≠ []) (hlast : DcGoodLine last 0)
    (ht : DcTrailerEnd last t) (hpq : dwire cs last t = p ++ q) (hq : q ≠ []) :
    (dcFeed {} p).mode.isDone = false ∧ (dcFeed {} p).mode.isErr = false ∧
    ∃ x, cs.flatMap (·.2) = (dcFeed {} p).out ++ x := by
  have hfull := c10_dechunk_roundtrip cs last t hcs hlast ht
  rw [hpq, dcFeed_append] at hfull
  obtain ⟨x, hx⟩ := c10_dechunk_output_monotone q (dcFeed {} p)
  rw [hfull] at hx
  refine ⟨?_, ?_, ⟨x, by simpa using hx⟩⟩
  · cases hm : (dcFeed {} p).mode <;> simp [DcMode.isDone]
    rename_i acc
    have : dcFeed (dcFeed {} p) q = { mode := .err, out := (dcFeed {} p).out } := by
      have h0 := dcFeed_done_excess acc (dcFeed {} p).out q hq
      have e0 : dcFeed {} p = { mode := .done acc, out := (dcFeed {} p).out } := by
        cases hd : dcFeed {} p; simp_all
      rw [e0]; simpa using h0
    rw [this] at hfull
    simp at hfull
  · cases hm : (dcFeed {} p).mode <;> simp [DcMode.isErr]
    have : dcFeed (dcFeed {} p) q = { mode := .err, out := (dcFeed {} p).out } := by
      have h0 := dcFeed_err q (dcFeed {} p).out
      have e0 : dcFeed {} p = { mode := .err, out := (dcFeed {} p).out } := by
        cases hd : dcFeed {} p; simp_all
      rw [e0]; simpa using h0
    rw [this] at hfull
    simp at hfull

/-- bytes after the end of the body are an error (never silently taken as body) -/
theorem c10_dechunk_excess_rejected (acc out bs : Bytes) (h : bs ≠ []) :
    dcFeed { mode := .done acc, out := out } bs = { mode := .err, out := out } :=
  dcFeed_done_excess acc out bs h

/-- a framing error is final: nothing fed afterwards makes the body complete -/
theorem c10_dechunk_error_absorbing (out bs : Bytes) :
    dcFeed { mode := .err, out := out } bs = { mode := .err, out := out } := dcFeed_err bs out

/-- chunk data that is not followed by CRLF is a framing error -/
theorem c10_dechunk_missing_crlf_rejected (out d : Bytes) (x y : UInt8) (hd : d ≠ [])
    (hxy : ¬ (x = cr ∧ y = lf)) :
    (dcFeed { mode := .data d.length, out := out } (d ++ [x, y])).mode = .err := by
  rw [dcFeed_append, dcFeed_data d d.length out hd rfl]
  simp only [dcFeed_cons, dcFeed_nil, dcStep]
  by_cases h1 : x = cr <;> by_cases h2 : y = lf <;> simp_all

/-- a chunk-size line the validator does not accept is a framing error -/
theorem c10_dechunk_bad_size_line_rejected (p out : Bytes) (hlf : lf ∉ p) (hlen : p.length < 1024)
    (hbad : dcParseLine (p ++ [lf]) = none) :
    (dcFeed { mode := .hdr [], out := out } (p ++ [lf])).mode = .err := by
  rw [dcFeed_append, dcFeed_hdr_pre p [] out hlf (by simpa using hlen)]
  simp [dcFeed_cons, dcFeed_nil, dcStep, hbad]

/-- what the validator rejects: no hex digit at the start of the line -/
theorem c10_dechunk_line_needs_hex (l : Bytes) (h : (l.head?.bind hexVal) = none) : dcParseLine l = none := by
  unfold dcParseLine
  cases l with
  | nil => simp [ckHex]
  | cons b rest =>
    simp only [List.head?_cons, Option.bind_some] at h
    simp [ckHex, h]

/-- the chunk-size overflow guard of the model is the one of the C (1 << (8*sizeof(off_t)-5)) -/
theorem c10_dechunk_guard_is_extracted : ckSizeLimit = 2 ^ Extracted.dechunkGuardShift - 1 - 2 := by decide

/-! non-vacuity: accepted size lines (extension, leading zeros, BWS), a trailer section, a body -/
example : DcGoodLine (ofString "5;x=y\r\n") 5 := ⟨by rfl, ⟨ofString "5;x=y\r", by decide, by decide⟩, by decide⟩
example : DcGoodLine (ofString "00a \r\n") 10 := ⟨by rfl, ⟨ofString "00a \r", by decide, by decide⟩, by decide⟩
example : DcGoodLine (ofString "0\r\n") 0 := ⟨by rfl, ⟨ofString "0\r", by decide, by decide⟩, by decide⟩
example : dcFeed {} (ofString "5\r\nhello\r\n0\r\nX-T: v\r\n\r\n") =
    { mode := .done (ofString "0\r\nX-T: v\r\n\r\n"), out := ofString "hello" } := by decide
example : (dcFeed {} (ofString "5\r\nhello\r\n0\r\n\r")).mode = .trailer (ofString "0\r\n\r") := by decide
example : (dcFeed {} (ofString "5\r\nhello\rX")).mode = .err := by decide
example : dcParseLine (ofString "5 x\r\n") = none := by rfl
example : dcParseLine (ofString "5\n") = none := by rfl

/-! ## FastCGI record reassembly (fastcgi_get_packet / fcgi_recv_parse_loop) -/

/-- segmentation independence of record reassembly -/
theorem c10_fcgi_segmentation (s : FrSt) (a b : Bytes) :
    frFeed (frFeed s a) b = frFeed s (a ++ b) := (frFeed_append s a b).symm

/-- **Reassembly.**  Any sequence of records (any types other than END_REQUEST, any request id,
    content up to 65535 bytes, padding up to 255 bytes) followed by an END_REQUEST record yields
    exactly one event per record, in order, with exactly the record's content — padding never
    leaks — and ends the request; whatever follows END_REQUEST is not parsed. -/
theorem c10_fcgi_reassembly (rs : List FrRec) (fin : FrRec) (junk : Bytes)
    (hrs : ∀ r ∈ rs, r.ok ∧ r.ev ≠ .endRequest) (hfin : fin.ok ∧ fin.typ = fcgiEndRequest) :
    (frFeed {} (rs.flatMap FrRec.enc ++ fin.enc ++ junk)).ended = true ∧
    (frFeed {} (rs.flatMap FrRec.enc ++ fin.enc ++ junk)).evs = rs.map FrRec.ev ++ [.endRequest] := by
  obtain ⟨h1, h2, h3, h4⟩ := frFeed_records rs {} rfl rfl rfl hrs
  rw [frFeed_append, frFeed_append]
  have hrec := frFeed_record (frFeed {} (rs.flatMap FrRec.enc)) fin.typ fin.rid fin.content fin.pad h1 h2 h3
    hfin.1.1 hfin.1.2
  have hev : frEvent fin.typ fin.content = .endRequest := by simp [frEvent, hfin.2, fcgiEndRequest, fcgiStdout, fcgiStderr]
  have hended : (frAfter (frFeed {} (rs.flatMap FrRec.enc)) fin.typ fin.content).ended = true := by
    simp [frAfter, hev]
  show (frFeed (frFeed (frFeed {} (rs.flatMap FrRec.enc)) fin.enc) junk).ended = true ∧ _
  rw [show fin.enc = frEncode fin.typ fin.rid fin.content fin.pad from rfl, hrec, frFeed_ended junk _ hended]
  refine ⟨hended, ?_⟩
  simp [frAfter, h4, hev]

/-- the STDOUT stream handed to the response parser is the concatenation of the STDOUT contents -/
theorem c10_fcgi_stdout_exact (rs : List FrRec) :
    frStdout (rs.map FrRec.ev) = (rs.filter (·.typ = fcgiStdout)).flatMap (·.content) := by
  induction rs with
  | nil => rfl
  | cons r rest ih =>
    by_cases h : r.typ = fcgiStdout
    · simp [FrRec.ev, frEvent, h, frStdout, ih]
    · have hev : frStdout (FrRec.ev r :: rest.map FrRec.ev) = frStdout (rest.map FrRec.ev) := by
        simp only [FrRec.ev, frEvent, h, if_false]
        (repeat' split) <;> rfl
      simp only [List.map_cons, hev, ih]
      simp [h]

/-- **A truncated record stream never ends the request.**  After any number of complete records
    none of which is END_REQUEST, plus any proper prefix of a further record (END_REQUEST
    included), the request is not ended and the partial record has produced nothing: backend EOF
    there is an error, not a complete response. -/
theorem c10_fcgi_truncated_not_ended (rs : List FrRec) (nxt : FrRec) (k : Nat)
    (hrs : ∀ r ∈ rs, r.ok ∧ r.ev ≠ .endRequest) (hn : nxt.ok) (hk : k < nxt.enc.length) :
    (frFeed {} (rs.flatMap FrRec.enc ++ nxt.enc.take k)).ended = false ∧
    (frFeed {} (rs.flatMap FrRec.enc ++ nxt.enc.take k)).evs = rs.map FrRec.ev := by
  obtain ⟨h1, h2, h3, h4⟩ := frFeed_records rs {} rfl rfl rfl hrs
  rw [frFeed_append]
  have := frFeed_partial_record (frFeed {} (rs.flatMap FrRec.enc)) nxt.typ nxt.rid nxt.content nxt.pad k
    h1 h2 h3 hn.1 hn.2 hk
  refine ⟨this.1, ?_⟩
  rw [show nxt.enc = frEncode nxt.typ nxt.rid nxt.content nxt.pad from rfl, this.2, h4]
  simp

/-- record constants of the model are those of fastcgi.h -/
theorem c10_fcgi_constants_extracted :
    fcgiStdout.toNat = Extracted.fcgiTypeStdout ∧ fcgiStderr.toNat = Extracted.fcgiTypeStderr ∧
    fcgiEndRequest.toNat = Extracted.fcgiTypeEndRequest ∧ Extracted.fcgiHeaderLen = 8 ∧
    Extracted.fcgiMaxLength = 65535 := by decide

/-! non-vacuity -/
example : (⟨6, 1, ofString "abc", [0, 0, 0]⟩ : FrRec).ok ∧ (⟨6, 1, ofString "abc", [0, 0, 0]⟩ : FrRec).ev ≠ .endRequest := by
  refine ⟨⟨by decide, by decide⟩, by decide⟩
example : (frFeed {} (frEncode 6 1 (ofString "ab") [0, 0, 0] ++ frEncode 7 1 (ofString "x") [] ++
      frEncode 6 1 (ofString "c") [0] ++ frEncode 3 1 [0, 0, 0, 0, 0, 0, 0, 0] [])).evs =
    [.stdout (ofString "ab"), .stderr (ofString "x"), .stdout (ofString "c"), .endRequest] := by decide

end LtVerif.C10
