/-
  C10 — Backend responses are relayed faithfully; broken ones never look complete.
  Property theorems only; helper lemmas live in LtVerif/Proofs/BackendResp.lean.

  The models describe the code with the C10 repairs applied (seeded/C10-fixes; the reverse patches
  are seeds C10-D*): the CR check of the backend chunked decoder, the CR left in merged trailer
  values, `gw_dechunk->done = 0` for a response without Status, the missing keep-alive reset for
  a truncated Content-Length body, an invalid Content-Length relayed verbatim, a partial body
  presented under a computed Content-Length while the client-side head is still unsent (now 502),
  and END_STREAM instead of RST_STREAM on HTTP/2 after a backend failure.
-/
import LtVerif.Proofs.BackendResp
namespace LtVerif.C10
open LtVerif B LtVerif.BeResp

/-! ## backend chunked decoder (http_chunk_decode_append_data) -/

/-- segmentation independence: feeding the backend stream in two pieces is the same as feeding
    it at once (hence the same for every composition into reads / FastCGI records) -/
theorem c10_dechunk_segmentation (s : DcSt) (a b : Bytes) :
    dcFeed (dcFeed s a) b = dcFeed s (a ++ b) := (dcFeed_append s a b).symm

/-- wire form of a chunked body: chunks with arbitrary accepted size lines, the last-chunk line,
    the trailer section including the final empty line -/
def dwire (cs : List (Bytes × Bytes)) (last t : Bytes) : Bytes :=
  cs.flatMap (fun c => c.1 ++ c.2 ++ [cr, lf]) ++ (last ++ t)

/-- Round trip: every chunked body (any number of non-empty chunks, any accepted spelling of the
    size lines incl. extensions, any trailer section) decodes to exactly the concatenation of the
    chunk data and is complete exactly at its end; the last-chunk line and the trailers are kept. -/
theorem c10_dechunk_roundtrip (cs : List (Bytes × Bytes)) (last t : Bytes)
    (hcs : ∀ c ∈ cs, DcGoodLine c.1 c.2.length ∧ c.2 ≠ []) (hlast : DcGoodLine last 0)
    (ht : DcTrailerEnd last t) :
    dcFeed {} (dwire cs last t) = { mode := .done (last ++ t), out := cs.flatMap (·.2) } := by
  suffices h : ∀ (out : Bytes), dcFeed { mode := .hdr [], out := out } (dwire cs last t)
      = { mode := .done (last ++ t), out := out ++ cs.flatMap (·.2) } by simpa using h []
  induction cs with
  | nil => intro out; simpa [dwire] using dcFeed_final hlast ht out
  | cons c rest ih =>
    intro out
    have hc := hcs c (by simp)
    have hrest : ∀ c ∈ rest, DcGoodLine c.1 c.2.length ∧ c.2 ≠ [] := fun x hx => hcs x (by simp [hx])
    have : dwire (c :: rest) last t = (c.1 ++ c.2 ++ [cr, lf]) ++ dwire rest last t := by simp [dwire]
    rw [this, dcFeed_append, dcFeed_chunk hc.1 hc.2, ih hrest]
    simp

/-- decoded output only ever grows: what has been handed on is never taken back or altered -/
theorem c10_dechunk_output_monotone (bs : Bytes) : ∀ (s : DcSt), ∃ x, (dcFeed s bs).out = s.out ++ x := by
  induction bs with
  | nil => intro s; exact ⟨[], by simp [dcFeed_nil]⟩
  | cons b rest ih =>
    intro s
    rw [dcFeed_cons]
    obtain ⟨x, hx⟩ := ih (dcStep s b)
    have hstep : ∃ y, (dcStep s b).out = s.out ++ y := by
      obtain ⟨mode, out⟩ := s
      cases mode with
      | data n => simp only [dcStep]; split <;> exact ⟨[b], by simp⟩
      | hdr acc => simp only [dcStep]; (repeat' split) <;> exact ⟨[], by simp⟩
      | cr => simp only [dcStep]; split <;> exact ⟨[], by simp⟩
      | lf => simp only [dcStep]; split <;> exact ⟨[], by simp⟩
      | trailer acc => simp only [dcStep]; split <;> exact ⟨[], by simp⟩
      | done acc => exact ⟨[], by simp [dcStep]⟩
      | err => exact ⟨[], by simp [dcStep]⟩
    obtain ⟨y, hy⟩ := hstep
    exact ⟨y ++ x, by rw [hx, hy]; simp⟩

/-- **A truncated chunked body is never complete.**  For every proper prefix of a well-formed
    chunked body the decoder is neither done nor in error (it waits for more), and what it has
    decoded so far is a prefix of the body: backend EOF there is recognisable as truncation. -/
theorem c10_dechunk_truncated_never_complete (cs : List (Bytes × Bytes)) (last t p q : Bytes)
    (hcs : ∀ c ∈ cs, DcGoodLine c.1 c.2.length ∧ c.2 ≠ []) (hlast : DcGoodLine last 0)
    (ht : DcTrailerEnd last t) (hpq : dwire cs last t = p ++ q) (hq : q ≠ []) :
    (dcFeed {} p).mode.isDone = false ∧ (dcFeed {} p).mode.isErr = false ∧
    ∃ x, cs.flatMap (·.2) = (dcFeed {} p).out ++ x := by
  have hfull := c10_dechunk_roundtrip cs last t hcs hlast ht
  rw [hpq, dcFeed_append] at hfull
  obtain ⟨x, hx⟩ := c10_dechunk_output_monotone q (dcFeed {} p)
  rw [hfull] at hx
  refine ⟨?_, ?_, ⟨x, by simpa using hx⟩⟩
  · cases hm : (dcFeed {} p).mode <;> simp [DcMode.isDone]
    rename_i acc
    have : dcFeed (dcFeed {} p) q = { mode := .err, out := (dcFeed {} p).out } := by
      have h0 := dcFeed_done_excess acc (dcFeed {} p).out q hq
      have e0 : dcFeed {} p = { mode := .done acc, out := (dcFeed {} p).out } := by
        cases hd : dcFeed {} p; simp_all
      rw [e0]; simpa using h0
    rw [this] at hfull
    simp at hfull
  · cases hm : (dcFeed {} p).mode <;> simp [DcMode.isErr]
    have : dcFeed (dcFeed {} p) q = { mode := .err, out := (dcFeed {} p).out } := by
      have h0 := dcFeed_err q (dcFeed {} p).out
      have e0 : dcFeed {} p = { mode := .err, out := (dcFeed {} p).out } := by
        cases hd : dcFeed {} p; simp_all
      rw [e0]; simpa using h0
    rw [this] at hfull
    simp at hfull

/-- bytes after the end of the body are an error (never silently taken as body) -/
theorem c10_dechunk_excess_rejected (acc out bs : Bytes) (h : bs ≠ []) :
    dcFeed { mode := .done acc, out := out } bs = { mode := .err, out := out } :=
  dcFeed_done_excess acc out bs h

/-- a framing error is final: nothing fed afterwards makes the body complete -/
theorem c10_dechunk_error_absorbing (out bs : Bytes) :
    dcFeed { mode := .err, out := out } bs = { mode := .err, out := out } := dcFeed_err bs out

/-- chunk data that is not followed by CRLF is a framing error -/
theorem c10_dechunk_missing_crlf_rejected (out d : Bytes) (x y : UInt8) (hd : d ≠ [])
    (hxy : ¬ (x = cr ∧ y = lf)) :
    (dcFeed { mode := .data d.length, out := out } (d ++ [x, y])).mode = .err := by
  rw [dcFeed_append, dcFeed_data d d.length out hd rfl]
  simp only [dcFeed_cons, dcFeed_nil, dcStep]
  by_cases h1 : x = cr <;> by_cases h2 : y = lf <;> simp_all

/-- a chunk-size line the validator does not accept is a framing error -/
theorem c10_dechunk_bad_size_line_rejected (p out : Bytes) (hlf : lf ∉ p) (hlen : p.length < 1024)
    (hbad : dcParseLine (p ++ [lf]) = none) :
    (dcFeed { mode := .hdr [], out := out } (p ++ [lf])).mode = .err := by
  rw [dcFeed_append, dcFeed_hdr_pre p [] out hlf (by simpa using hlen)]
  simp [dcFeed_cons, dcFeed_nil, dcStep, hbad]

/-- what the validator rejects: no hex digit at the start of the line -/
theorem c10_dechunk_line_needs_hex (l : Bytes) (h : (l.head?.bind hexVal) = none) : dcParseLine l = none := by
  unfold dcParseLine
  cases l with
  | nil => simp [ckHex]
  | cons b rest =>
    simp only [List.head?_cons, Option.bind_some] at h
    simp [ckHex, h]

/-- the chunk-size overflow guard of the model is the one of the C (1 << (8*sizeof(off_t)-5)) -/
theorem c10_dechunk_guard_is_extracted : ckSizeLimit = 2 ^ Extracted.dechunkGuardShift - 1 - 2 := by decide

/-! non-vacuity: accepted size lines (extension, leading zeros, BWS), a trailer section, a body -/
example : DcGoodLine (ofString "5;x=y\r\n") 5 := ⟨by rfl, ⟨ofString "5;x=y\r", by decide, by decide⟩, by decide⟩
example : DcGoodLine (ofString "00a \r\n") 10 := ⟨by rfl, ⟨ofString "00a \r", by decide, by decide⟩, by decide⟩
example : DcGoodLine (ofString "0\r\n") 0 := ⟨by rfl, ⟨ofString "0\r", by decide, by decide⟩, by decide⟩
example : DcTrailerEnd (ofString "0\r\n") [cr, lf] := by
  refine ⟨by decide, by decide, by decide, ?_⟩
  intro q r h hr hq
  match q, r, h, hr, hq with
  | [], _, _, _, hq => exact absurd rfl hq
  | [a], [b], h, _, _ =>
    simp only [List.cons_append, List.nil_append, List.cons.injEq, and_true] at h
    rw [← h.1]; decide
  | [_], [], _, hr, _ => exact absurd rfl hr
  | [_], _ :: _ :: _, h, _, _ => simp at h
  | [_, _], [], _, hr, _ => exact absurd rfl hr
  | [_, _], _ :: _, h, _, _ => simp at h
  | _ :: _ :: _ :: _, _, h, _, _ => simp at h
example : dcFeed {} (ofString "5\r\nhello\r\n0\r\nX-T: v\r\n\r\n") =
    { mode := .done (ofString "0\r\nX-T: v\r\n\r\n"), out := ofString "hello" } := by decide
example : (dcFeed {} (ofString "5\r\nhello\r\n0\r\n\r")).mode = .trailer (ofString "0\r\n\r") := by decide
example : (dcFeed {} (ofString "5\r\nhello\rX")).mode = .err := by decide
example : dcParseLine (ofString "5 x\r\n") = none := by rfl
example : dcParseLine (ofString "5\n") = none := by rfl

/-! ## FastCGI record reassembly (fastcgi_get_packet / fcgi_recv_parse_loop) -/

/-- segmentation independence of record reassembly -/
theorem c10_fcgi_segmentation (s : FrSt) (a b : Bytes) :
    frFeed (frFeed s a) b = frFeed s (a ++ b) := (frFeed_append s a b).symm

/-- **Reassembly.**  Any sequence of records (any types other than END_REQUEST, any request id,
    content up to 65535 bytes, padding up to 255 bytes) followed by an END_REQUEST record yields
    exactly one event per record, in order, with exactly the record's content — padding never
    leaks — and ends the request; whatever follows END_REQUEST is not parsed. -/
theorem c10_fcgi_reassembly (rs : List FrRec) (fin : FrRec) (junk : Bytes)
    (hrs : ∀ r ∈ rs, r.ok ∧ r.ev ≠ .endRequest) (hfin : fin.ok ∧ fin.typ = fcgiEndRequest) :
    (frFeed {} (rs.flatMap FrRec.enc ++ fin.enc ++ junk)).ended = true ∧
    (frFeed {} (rs.flatMap FrRec.enc ++ fin.enc ++ junk)).evs = rs.map FrRec.ev ++ [.endRequest] := by
  obtain ⟨h1, h2, h3, h4⟩ := frFeed_records rs {} rfl rfl rfl hrs
  rw [frFeed_append, frFeed_append]
  have hrec := frFeed_record (frFeed {} (rs.flatMap FrRec.enc)) fin.typ fin.rid fin.content fin.pad h1 h2 h3
    hfin.1.1 hfin.1.2
  have hev : frEvent fin.typ fin.content = .endRequest := by simp [frEvent, hfin.2, fcgiEndRequest, fcgiStdout, fcgiStderr]
  have hended : (frAfter (frFeed {} (rs.flatMap FrRec.enc)) fin.typ fin.content).ended = true := by
    simp [frAfter, hev]
  show (frFeed (frFeed (frFeed {} (rs.flatMap FrRec.enc)) fin.enc) junk).ended = true ∧ _
  rw [show fin.enc = frEncode fin.typ fin.rid fin.content fin.pad from rfl, hrec, frFeed_ended junk _ hended]
  refine ⟨hended, ?_⟩
  simp [frAfter, h4, hev]

/-- the STDOUT stream handed to the response parser is the concatenation of the STDOUT contents -/
theorem c10_fcgi_stdout_exact (rs : List FrRec) :
    frStdout (rs.map FrRec.ev) = (rs.filter (·.typ = fcgiStdout)).flatMap (·.content) := by
  induction rs with
  | nil => rfl
  | cons r rest ih =>
    by_cases h : r.typ = fcgiStdout
    · simp [FrRec.ev, frEvent, h, frStdout, ih]
    · have hev : frStdout (FrRec.ev r :: rest.map FrRec.ev) = frStdout (rest.map FrRec.ev) := by
        simp only [FrRec.ev, frEvent, h, if_false]
        (repeat' split) <;> rfl
      simp only [List.map_cons, hev, ih]
      simp [h]

/-- **A truncated record stream never ends the request.**  After any number of complete records
    none of which is END_REQUEST, plus any proper prefix of a further record (END_REQUEST
    included), the request is not ended and the partial record has produced nothing: backend EOF
    there is an error, not a complete response. -/
theorem c10_fcgi_truncated_not_ended (rs : List FrRec) (nxt : FrRec) (k : Nat)
    (hrs : ∀ r ∈ rs, r.ok ∧ r.ev ≠ .endRequest) (hn : nxt.ok) (hk : k < nxt.enc.length) :
    (frFeed {} (rs.flatMap FrRec.enc ++ nxt.enc.take k)).ended = false ∧
    (frFeed {} (rs.flatMap FrRec.enc ++ nxt.enc.take k)).evs = rs.map FrRec.ev := by
  obtain ⟨h1, h2, h3, h4⟩ := frFeed_records rs {} rfl rfl rfl hrs
  rw [frFeed_append]
  have := frFeed_partial_record (frFeed {} (rs.flatMap FrRec.enc)) nxt.typ nxt.rid nxt.content nxt.pad k
    h1 h2 h3 hn.1 hn.2 hk
  refine ⟨this.1, ?_⟩
  rw [show nxt.enc = frEncode nxt.typ nxt.rid nxt.content nxt.pad from rfl, this.2, h4]
  simp

/-- record constants of the model are those of fastcgi.h -/
theorem c10_fcgi_constants_extracted :
    fcgiStdout.toNat = Extracted.fcgiTypeStdout ∧ fcgiStderr.toNat = Extracted.fcgiTypeStderr ∧
    fcgiEndRequest.toNat = Extracted.fcgiTypeEndRequest ∧ Extracted.fcgiHeaderLen = 8 ∧
    Extracted.fcgiMaxLength = 65535 := by decide

/-! non-vacuity -/
example : (⟨6, 1, ofString "abc", [0, 0, 0]⟩ : FrRec).ok ∧ (⟨6, 1, ofString "abc", [0, 0, 0]⟩ : FrRec).ev ≠ .endRequest := by
  refine ⟨⟨by decide, by decide⟩, by decide⟩
example : (frFeed {} (frEncode 6 1 (ofString "ab") [0, 0, 0] ++ frEncode 7 1 (ofString "x") [] ++
      frEncode 6 1 (ofString "c") [0] ++ frEncode 3 1 [0, 0, 0, 0, 0, 0, 0, 0] [])).evs =
    [.stdout (ofString "ab"), .stderr (ofString "x"), .stdout (ofString "c"), .endRequest] := by decide

/-! ## the relay composite (Model/BackendResp.lean) -/

/-- **Segmentation of the response head is irrelevant.**  While the head received so far is
    incomplete and undecided (parsing the accumulated bytes changes nothing and asks for more),
    receiving `a` and then `b` is the same as receiving `a ++ b` in one read — so, by induction,
    every composition of the head into reads gives the same result. -/
theorem c10_head_segmentation (cfg : Cfg) (st : St) (a b : Bytes) (hbe : cfg.be ≠ .fcgi)
    (hc : st.cstate = .handle) (ho : st.open_ = true) (hs : st.started = false) (hf : st.finished = false)
    (hh : st.handler = true) (ha : a ≠ []) (hb : b ≠ [])
    (hinc : headerStep cfg st a = ({ st with hbuf := st.hbuf ++ a }, .goOn)) :
    onData cfg (onData cfg st a) b = onData cfg st (a ++ b) := by
  rw [onData_incomplete cfg st { st with hbuf := st.hbuf ++ a } a hbe hc ho hs hh ha hinc hs hf hc ho]
  have hb' : b.isEmpty = false := by cases b <;> simp_all
  have hab' : (a ++ b).isEmpty = false := by cases a <;> simp_all
  have hl : lostHandler st = false := by simp [lostHandler, hh]
  have hl2 : lostHandler ({ st with hbuf := st.hbuf ++ a } : St) = false := by simp [lostHandler, hh]
  have hr : gwRecvData cfg { st with hbuf := st.hbuf ++ a } b = gwRecvData cfg st (a ++ b) := by
    unfold gwRecvData
    rw [if_neg hbe, if_neg hbe]
    unfold readPlain
    rw [if_pos (by simp [hs]), if_pos (by simp [hs]), headerStep_append]
  unfold onData
  rw [if_neg (by simp [hc, ho, hb']), if_neg (by simp [hl2]), if_neg (by simp [hc, ho, hab']), if_neg (by simp [hl]), hr]


/-- **Segmentation of a Content-Length / EOF-delimited body is irrelevant** as long as lighttpd
    does not itself chunk-encode: body accounting (remaining Content-Length, silent truncation of
    excess bytes, completion) and the bytes queued for the client are the same for `a` then `b`
    as for `a ++ b`. -/
theorem c10_body_segmentation_plain (st : St) (a b : Bytes)
    (hd : st.decodeChunked = false) (hsc : st.sendChunked = false) :
    (appendMem (appendMem st a).1 b).1 = (appendMem st (a ++ b)).1 := by
  rw [appendMem_plain st a hd hsc, appendMem_plain st (a ++ b) hd hsc]
  by_cases h1 : st.scratch > 0
  · simp only [h1, if_true]
    by_cases h2 : st.scratch - (a.length : Int) ≤ 0
    · have h3 : st.scratch - ((a ++ b).length : Int) ≤ 0 := by simp; omega
      have ht : (a ++ b).take st.scratch.toNat = a.take st.scratch.toNat := by
        rw [List.take_append_of_le_length (by omega)]
      simp only [h2, h3, if_true, ht]
      rw [appendMem_plain _ b (by simpa using hd) (by simpa using hsc)]
      simp
    · have hlen : ((a ++ b).length : Int) = a.length + b.length := by simp
      simp only [h2, if_false]
      rw [appendMem_plain _ b (by simpa using hd) (by simpa using hsc)]
      have hpos : st.scratch - (a.length : Int) > 0 := by omega
      simp only [hpos, if_true]
      by_cases h4 : st.scratch - (a.length : Int) - (b.length : Int) ≤ 0
      · have h5 : st.scratch - ((a ++ b).length : Int) ≤ 0 := by omega
        have ht : (a ++ b).take st.scratch.toNat = a ++ b.take (st.scratch - a.length).toNat := by
          rw [List.take_append]
          have : a.take st.scratch.toNat = a := List.take_of_length_le (by omega)
          rw [this]
          congr 2
          omega
        rw [if_pos (by simpa using h4), if_pos h5, ht]
        simp
      · have h5 : ¬ (st.scratch - ((a ++ b).length : Int) ≤ 0) := by omega
        rw [if_neg (by simpa using h4), if_neg h5]
        simp [Int.sub_sub]
  · simp only [h1, if_false]
    by_cases h2 : st.scratch = 0
    · simp only [h2, if_true]
      rw [appendMem_plain _ b hd hsc]
      simp [h2]
    · simp only [h2, if_false]
      rw [appendMem_plain _ b (by simpa using hd) (by simpa using hsc)]
      simp [h1, h2]



/-- **End-to-end fields are relayed verbatim.**  Ordinary response fields (`name ": " value CRLF`,
    name not one of the fields lighttpd interprets itself, no whitespace before the colon) whose
    names differ from each other and from what is already stored are handed to the client-side
    response head in the order received, name spelling and value bytes untouched. -/
theorem c10_fields_relayed (cfg : Cfg) (st : St) (fs : List (Bytes × Bytes))
    (hp : ∀ f ∈ fs, PlainField f.1 f.2)
    (hnd : ((st.headers ++ fs).map fun kv => lower kv.1).Nodup) :
    (fs.map fun f => fieldLine f.1 f.2).foldl (applyLine cfg) st = { st with headers := st.headers ++ fs } := by
  rw [foldl_applyLine_plain cfg fs st hp,
      foldl_hdrInsert_fresh _ fs st.headers (fun f hf => (hp f hf).vne) hnd]

/-- **Hop-by-hop fields of the backend connection are not relayed**: Upgrade (upgrade not
    enabled) and HTTP2-Settings from any backend, Connection from a proxy backend or towards an
    HTTP/2 client never reach the client-side field list; Transfer-Encoding is consumed (it turns
    on the chunked decoder and removes a Content-Length received before it). -/
theorem c10_hop_by_hop_not_relayed (cfg : Cfg) (st : St) (k v : Bytes) :
    (lower k = nUpgrade → applyField cfg st k v = st) ∧
    (lower k = nHttp2Settings → applyField cfg st k v = st) ∧
    (lower k = nConnection → (cfg.be = .proxy ∨ cfg.ver ≥ 2) → applyField cfg st k v = st) ∧
    (lower k = nTransferEncoding → (applyField cfg st k v).decodeChunked = true ∧
       (applyField cfg st k v).headers =
         (if hasHdr st.headers nContentLength then hdrUnset st.headers nContentLength else st.headers) ∧
       (applyField cfg st k v).scratch = (if hasHdr st.headers nContentLength then -1 else st.scratch)) := by
  refine ⟨?_, ?_, ?_, ?_⟩
  · intro h
    have : ¬ (nUpgrade = nStatus) := by decide
    simp [applyField, h, this]
  · intro h
    have h1 : ¬ (nHttp2Settings = nStatus) := by decide
    have h2 : ¬ (nHttp2Settings = nUpgrade) := by decide
    have h3 : ¬ (nHttp2Settings = nConnection) := by decide
    have h4 : ¬ (nHttp2Settings = nContentType) := by decide
    have h5 : ¬ (nHttp2Settings = nContentLength) := by decide
    have h6 : ¬ (nHttp2Settings = nTransferEncoding) := by decide
    simp [applyField, h, h1, h2, h3, h4, h5, h6]
  · intro h hc
    have h1 : ¬ (nConnection = nStatus) := by decide
    have h2 : ¬ (nConnection = nUpgrade) := by decide
    rcases hc with hc | hc
    · simp [applyField, h, h1, h2, hc]
    · by_cases hp : cfg.be = .proxy
      · simp [applyField, h, h1, h2, hp]
      · simp [applyField, h, h1, h2, hp, hc]
  · intro h
    have h1 : ¬ (nTransferEncoding = nStatus) := by decide
    have h2 : ¬ (nTransferEncoding = nUpgrade) := by decide
    have h3 : ¬ (nTransferEncoding = nConnection) := by decide
    have h4 : ¬ (nTransferEncoding = nContentType) := by decide
    have h5 : ¬ (nTransferEncoding = nContentLength) := by decide
    unfold applyField
    simp only [h, h1, h2, h3, h4, h5, if_false, if_true]
    by_cases hcl : hasHdr st.headers nContentLength = true <;> simp [hcl]


/-- **Failure before the response head is complete ⇒ 5xx.**  Whatever the backend has sent so far,
    as long as its response head is not complete (nothing relayed yet), every way the backend
    stream can end — EOF, reset, socket error, hang-up, for FastCGI also EOF without
    END_REQUEST — makes lighttpd answer with its own complete `500` response (error document,
    keep-alive as negotiated): HTTP/1.0 and HTTP/1.1 clients. -/
theorem c10_failure_before_head_is_5xx (cfg : Cfg) (st : St) (e : End)
    (hv : cfg.ver ≤ 1) (hc : st.cstate = .handle) (ho : st.open_ = true) (hs : st.started = false)
    (hh : st.handler = true) (hst : st.status = 0) (he : e ≠ .none) (hfe : st.fcgi.ended = false) :
    (onEnd cfg st e).status = 500 ∧ (onEnd cfg st e).cstate = .done ∧
    (onEnd cfg st e).keepAlive = st.keepAlive ∧
    ∃ fields, (onEnd cfg st e).evs = pushW st.evs
      (h1StatusLine cfg 500 ++ fields ++ crlf ++ crlf ++ (if cfg.head then [] else errorPage 500)) := by
  rw [onEnd_active cfg st e (Or.inl hc) ho he (by simp [lostHandler, hh]),
      gwRecvEnd_pre cfg st e hc hs hh hst he hfe]
  generalize hst1 : ({ st with open_ := false, status := 500, handler := false } : St) = st1
  have s1 : st1.status = 500 := by rw [← hst1]
  have s2 : st1.handler = false := by rw [← hst1]
  have s3 : st1.cstate = .handle := by rw [← hst1]; exact hc
  have s4 : st1.open_ = false := by rw [← hst1]
  have s5 : st1.keepAlive = st.keepAlive := by rw [← hst1]
  have s6 : st1.evs = st.evs := by rw [← hst1]
  obtain ⟨w1, w2, w3, w4, w5, w6, w7⟩ := writePrepare_errdoc cfg st1 s2 (by omega) (by omega)
  have hstart : conStep cfg st1 = startResponse cfg st1 := by
    unfold conStep
    simp [s3, handlerStarts, subrequestWaits, s4]
  rw [hstart]
  obtain ⟨r1, r2, r3, r4⟩ := startResponse_h1_finished cfg st1 hv (by omega) w7
  refine ⟨by rw [r2, w1, s1], r1, by rw [r3, w2, s5], ⟨h1FieldLines (h1HeaderSet cfg (writePrepare cfg st1)), ?_⟩⟩
  rw [r4, w1, w3, w4, s1, s6]


/-- **Backend failure after the response head was sent ⇒ the message is visibly aborted**
    (HTTP/1.x).  In the write state (response head already on the wire, body not finished) a
    reset / socket error of the backend connection — for FastCGI also EOF or hang-up before
    END_REQUEST — never completes the message: nothing is appended to what was queued (in
    particular no last-chunk), keep-alive is cleared and the response ends, i.e. the connection
    is closed after an incomplete message.  Holds for every backend kind, every body framing and
    every history that led to the state. -/
theorem c10_failure_after_head_aborts (cfg : Cfg) (st : St) (e : End)
    (hv : cfg.ver ≤ 1) (hc : st.cstate = .write) (ho : st.open_ = true) (hs : st.started = true)
    (hsent : st.hdrSent = true) (hbl : bodiless cfg st = false) (he : FailEnd cfg st e) :
    (onEnd cfg st e).keepAlive = false ∧ (onEnd cfg st e).cstate = .done ∧
    (onEnd cfg st e).handler = false ∧ (onEnd cfg st e).evs = pushW st.evs st.wq := by
  have hv2 : ¬ (cfg.ver ≥ 2) := by omega
  rw [onEnd_active cfg st e (Or.inr hc) ho he.ne_none (by simp [lostHandler, hc]),
      gwRecvEnd_fail cfg st e hs he, gwBackendError_sent cfg st hs hsent hbl]
  simp [conStep, hc, hv2, h1Progress, flush]

/-- **Backend failure after the backend's head was parsed but before the client-side head was
    written ⇒ 502** (HTTP/1.x; stream-response-body = 0, or the failure arrives together with the
    head).  Whatever part of the body was buffered is discarded, the backend's fields are
    dropped, and the client gets lighttpd's own complete `502` error response — never the
    partial body under a computed Content-Length. -/
theorem c10_failure_before_client_head_is_502 (cfg : Cfg) (st : St) (e : End)
    (hv : cfg.ver ≤ 1) (hc : st.cstate = .handle) (ho : st.open_ = true) (hs : st.started = true)
    (hh : st.handler = true) (hsent : st.hdrSent = false) (hbl : bodiless cfg st = false) (he : FailEnd cfg st e) :
    (onEnd cfg st e).status = 502 ∧ (onEnd cfg st e).cstate = .done ∧
    (onEnd cfg st e).keepAlive = st.keepAlive ∧
    ∃ fields, (onEnd cfg st e).evs = pushW st.evs
      (h1StatusLine cfg 502 ++ fields ++ crlf ++ crlf ++ (if cfg.head then [] else errorPage 502)) := by
  rw [onEnd_active cfg st e (Or.inl hc) ho he.ne_none (by simp [lostHandler, hh]),
      gwRecvEnd_fail cfg st e hs he, gwBackendError_unsent cfg st hs hsent hbl]
  obtain ⟨b1, b2, b3, b4, b5, _⟩ := backendIncomplete_proj st
  generalize hst1 : ({ (backendIncomplete st) with open_ := false } : St) = st1
  have s1 : st1.status = 502 := by rw [← hst1]; exact b1
  have s2 : st1.handler = false := by rw [← hst1]; exact b2
  have s3 : st1.cstate = .handle := by rw [← hst1]; simp [b3, hc]
  have s4 : st1.open_ = false := by rw [← hst1]
  have s5 : st1.keepAlive = st.keepAlive := by rw [← hst1]; exact b4
  have s6 : st1.evs = st.evs := by rw [← hst1]; exact b5
  obtain ⟨c1, c2, c3, ⟨f, c4⟩⟩ := conStep_errdoc cfg st1 hv s3 s4 s2 (by omega) (by omega)
  refine ⟨by rw [c1, s1], c2, by rw [c3, s5], ⟨f, ?_⟩⟩
  rw [c4, s1, s6]

/-- **A body cut short by backend EOF before the client-side head was written ⇒ 502**
    (HTTP/1.x): fewer bytes than the announced Content-Length (`scratch > 0`) or a chunked body
    whose decoder is not done (`bodyTruncated`) when the backend closes. -/
theorem c10_truncated_before_client_head_is_502 (cfg : Cfg) (st : St)
    (hv : cfg.ver ≤ 1) (hbe : cfg.be ≠ .fcgi) (hc : st.cstate = .handle) (ho : st.open_ = true)
    (hs : st.started = true) (hh : st.handler = true) (hf : st.finished = false)
    (hsent : st.hdrSent = false) (ht : bodyTruncated cfg st = true) :
    (onEnd cfg st .eof).status = 502 ∧ (onEnd cfg st .eof).cstate = .done ∧
    (onEnd cfg st .eof).keepAlive = st.keepAlive ∧
    ∃ fields, (onEnd cfg st .eof).evs = pushW st.evs
      (h1StatusLine cfg 502 ++ fields ++ crlf ++ crlf ++ (if cfg.head then [] else errorPage 502)) := by
  rw [onEnd_active cfg st .eof (Or.inl hc) ho (by simp) (by simp [lostHandler, hh])]
  have hg : gwRecvEnd cfg st .eof = { (backendIncomplete st) with open_ := false } := by
    have h0 : gwRecvEnd cfg st .eof = gwClose cfg st := by simp [gwRecvEnd, hbe]
    rw [h0, gwClose_handler cfg st hh,
        backendDone_truncated_unsent cfg { st with open_ := false } hc hs hf hsent ht]
    simp [backendIncomplete, bodyClear]
  rw [hg]
  obtain ⟨b1, b2, b3, b4, b5, _⟩ := backendIncomplete_proj st
  generalize hst1 : ({ (backendIncomplete st) with open_ := false } : St) = st1
  have s1 : st1.status = 502 := by rw [← hst1]; exact b1
  have s2 : st1.handler = false := by rw [← hst1]; exact b2
  have s3 : st1.cstate = .handle := by rw [← hst1]; simp [b3, hc]
  have s4 : st1.open_ = false := by rw [← hst1]
  have s5 : st1.keepAlive = st.keepAlive := by rw [← hst1]; exact b4
  have s6 : st1.evs = st.evs := by rw [← hst1]; exact b5
  obtain ⟨c1, c2, c3, ⟨f, c4⟩⟩ := conStep_errdoc cfg st1 hv s3 s4 s2 (by omega) (by omega)
  refine ⟨by rw [c1, s1], c2, by rw [c3, s5], ⟨f, ?_⟩⟩
  rw [c4, s1, s6]

/-- **A body cut short by backend EOF after the client-side head was written closes the
    connection** (HTTP/1.x): a Content-Length body with fewer bytes than announced, or a chunked
    backend body whose decoder is not done, is never terminated towards the client — no
    last-chunk, nothing appended, keep-alive cleared: the client sees an incomplete message
    followed by connection close.  (`hpt`: lighttpd sends chunked on its own only when no
    Content-Length is known, i.e. a truncated body that is sent chunked is a chunked backend body.) -/
theorem c10_truncated_after_head_closes (cfg : Cfg) (st : St)
    (hv : cfg.ver ≤ 1) (hbe : cfg.be ≠ .fcgi) (hc : st.cstate = .write) (ho : st.open_ = true)
    (hh : st.handler = true) (hf : st.finished = false)
    (hsent : st.hdrSent = true) (ht : bodyTruncated cfg st = true)
    (hpt : st.sendChunked = true → st.dc.isSome = true) :
    (onEnd cfg st .eof).keepAlive = false ∧ (onEnd cfg st .eof).cstate = .done ∧
    (onEnd cfg st .eof).evs = pushW st.evs st.wq := by
  have hv2 : ¬ (cfg.ver ≥ 2) := by omega
  rw [onEnd_active cfg st .eof (Or.inr hc) ho (by simp) (by simp [lostHandler, hc])]
  have h0 : gwRecvEnd cfg st .eof = gwClose cfg st := by simp [gwRecvEnd, hbe]
  rw [h0, gwClose_handler cfg st hh,
      backendDone_truncated_sent cfg { st with open_ := false } hc hf hsent ht]
  generalize hst2 : ({ st with open_ := false } : St) = st2
  have hpt2 : (backendAbort cfg st2).sendChunked = true → (backendAbort cfg st2).dc.isSome = true := by
    rw [← hst2]; simpa [backendAbort] using hpt
  obtain ⟨k1, k2, k3, _, _, k6⟩ := chunkClose_noappend (backendAbort cfg st2) hpt2
  have hka : (chunkClose (backendAbort cfg st2)).keepAlive = false := by
    cases hk : (chunkClose (backendAbort cfg st2)).keepAlive
    · rfl
    · have := k6 hk; simp [backendAbort] at this
  have e1 : st2.cstate = .write := by rw [← hst2]; exact hc
  have e2 : st2.wq = st.wq := by rw [← hst2]
  have e3 : st2.evs = st.evs := by rw [← hst2]
  by_cases h1 : cfg.ver = 1
  · simp only [h1, if_true]
    have c1 : (chunkClose (backendAbort cfg st2)).cstate = .write := by rw [k3]; simp [backendAbort, e1]
    have c2 : (chunkClose (backendAbort cfg st2)).wq = st.wq := by rw [k1]; simp [backendAbort, e2]
    have c3 : (chunkClose (backendAbort cfg st2)).evs = st.evs := by rw [k2]; simp [backendAbort, e3]
    simp [conStep, c1, h1Progress, flush, c2, c3, hka, h1]
  · simp [h1, conStep, e1, e2, e3, backendAbort, hv2, h1Progress, flush]

/-- **Clean EOF completes an EOF-delimited body** (HTTP/1.1, lighttpd chunk-encodes): the
    last-chunk is written exactly then, keep-alive stays as it was. -/
theorem c10_clean_eof_terminates_chunked (cfg : Cfg) (st : St)
    (hbe : cfg.be ≠ .fcgi) (hv : cfg.ver = 1) (hc : st.cstate = .write) (ho : st.open_ = true)
    (hh : st.handler = true) (hf : st.finished = false)
    (hsc : st.sendChunked = true) (hd : st.dc = none) (hsp : st.scratch < 0) :
    (onEnd cfg st .eof).keepAlive = st.keepAlive ∧ (onEnd cfg st .eof).cstate = .done ∧
    (onEnd cfg st .eof).evs = pushW st.evs (st.wq ++ ofString "0\r\n\r\n") := by
  have hv2 : ¬ (cfg.ver ≥ 2) := by omega
  have hsp2 : ¬ (st.scratch > 0) := by omega
  rw [onEnd_active cfg st .eof (Or.inr hc) ho (by simp) (by simp [lostHandler, hc])]
  have hg : gwRecvEnd cfg st .eof =
      { st with open_ := false, finished := true, wq := st.wq ++ ofString "0\r\n\r\n" } := by
    simp [gwRecvEnd, hbe, gwClose, hh, backendDone, hc, hf, chunkClose, hsc, hd, hv, hsp2, bodyTruncated]
  rw [hg]
  simp [conStep, hc, hv2, h1Progress, flush]

/-- **HTTP/2: a response cut off after HEADERS resets the stream.**  After the response head
    went out on an HTTP/2 stream, a backend failure flags the stream, and the stream ends with
    RST_STREAM instead of END_STREAM; what was queued but not yet framed is dropped.  (Model of
    the repaired http-header-glue.c / h2.c lines; h2.c itself is exercised end to end by the
    check's real-server stream.) -/
theorem c10_h2_failure_resets_stream (cfg : Cfg) (st : St) (e : End)
    (hv : cfg.ver ≥ 2) (hc : st.cstate = .write) (ho : st.open_ = true) (hs : st.started = true)
    (hsent : st.hdrSent = true) (hbl : bodiless cfg st = false) (he : FailEnd cfg st e) :
    (onEnd cfg st e).cstate = .done ∧ (onEnd cfg st e).evs = st.evs ++ [.rst] := by
  rw [onEnd_active cfg st e (Or.inr hc) ho he.ne_none (by simp [lostHandler, hc]),
      gwRecvEnd_fail cfg st e hs he, gwBackendError_sent cfg st hs hsent hbl]
  simp [conStep, hc, hv, h2Progress]

/-- ... and so does a body cut short by backend EOF (short of Content-Length / inside a chunked body). -/
theorem c10_h2_truncated_resets_stream (cfg : Cfg) (st : St)
    (hv : cfg.ver ≥ 2) (hbe : cfg.be ≠ .fcgi) (hc : st.cstate = .write) (ho : st.open_ = true)
    (hh : st.handler = true) (hf : st.finished = false)
    (hsent : st.hdrSent = true) (ht : bodyTruncated cfg st = true) :
    (onEnd cfg st .eof).cstate = .done ∧ (onEnd cfg st .eof).evs = st.evs ++ [.rst] := by
  have hv1 : ¬ (cfg.ver = 1) := by omega
  rw [onEnd_active cfg st .eof (Or.inr hc) ho (by simp) (by simp [lostHandler, hc])]
  have h0 : gwRecvEnd cfg st .eof = gwClose cfg st := by simp [gwRecvEnd, hbe]
  rw [h0, gwClose_handler cfg st hh,
      backendDone_truncated_sent cfg { st with open_ := false } hc hf hsent ht]
  simp [hv1, conStep, hc, hv, h2Progress, backendAbort]


/-- **A kept-alive HTTP/1.x response always announces its length** (failure isolation): after
    http_response_write_prepare(), for a response that may carry a body (not HEAD, not 204/304),
    keep-alive survives only if Content-Length, Transfer-Encoding or Upgrade is set — a response
    whose end the client could only recognise by connection close never leaves the connection
    open for the next request. -/
theorem c10_keepalive_requires_framing (cfg : Cfg) (st : St) (hv : cfg.ver ≤ 1) (hh : cfg.head = false)
    (hk : (writePrepare cfg st).keepAlive = true) :
    (writePrepare cfg st).status = 204 ∨ (writePrepare cfg st).status = 304 ∨
    hasHdr (writePrepare cfg st).headers nContentLength = true ∨
    hasHdr (writePrepare cfg st).headers nTransferEncoding = true ∨
    hasHdr (writePrepare cfg st).headers nUpgrade = true :=
  writePrepare_keepalive_framed cfg st hv hh hk

/-- `c10_relay_exact` of DESIGN §6 for the case the proof covers end to end: a complete response
    of an HTTP backend — status line `HTTP/1.1 ddd reason` with any status ≥ 200 other than
    204/205/304, any list of ordinary end-to-end fields with pairwise different names, a
    Content-Length field (any accepted spelling `clv` of the body length), a non-empty body —
    received in one read reaches the HTTP/1.1 client as exactly: the status line of that status,
    the same fields in the same order with the same bytes, the same Content-Length value, the
    empty line and the same body bytes; the connection stays alive and the response ends,
    whatever the backend does afterwards (`e`) and whatever stream-response-body is.
    Every other composition of the same bytes into reads gives the same result by
    `c10_head_segmentation` and `c10_body_segmentation_plain`.
    MISSING for the full statement: chunked / EOF-delimited bodies, CGI-style heads, interim
    responses and trailers as universally quantified theorems (they are covered by the
    correspondence and by the decoder / reassembly theorems above, and as worked examples below). -/
theorem c10_relay_exact_partial (cfg : Cfg) (d1 d2 d3 : UInt8) (reason : Bytes)
    (fs : List (Bytes × Bytes)) (clv body : Bytes) (e : End)
    (hbe : cfg.be = .proxy) (hv : cfg.ver = 1) (hh : cfg.head = false)
    (hd : isDigit d1 ∧ isDigit d2 ∧ isDigit d3) (hc : codeOf d1 d2 d3 ≥ 200) (hr : lf ∉ reason)
    (hcode : codeOf d1 d2 d3 ≠ 204 ∧ codeOf d1 d2 d3 ≠ 205 ∧ codeOf d1 d2 d3 ≠ 304)
    (hfs : ∀ f ∈ fs, LineField f.1 f.2) (hnd : (fs.map fun kv => lower kv.1).Nodup)
    (hne : clv ≠ []) (hhead : isWs (clv.headD 0) = false) (hplus : clv.head? ≠ some 43)
    (htrim : trimRightWs clv = clv) (hclv : lf ∉ clv) (hnum : strtoI64 clv = some body.length)
    (hbody : body ≠ []) (hsize : (clHead d1 d2 d3 reason fs clv).length ≤ 65535) (hcount : fs.length + 2 < 8190) :
    (relay cfg [clHead d1 d2 d3 reason fs clv ++ body] e).evs =
      [.w (h1StatusLine cfg (codeOf d1 d2 d3) ++ h1FieldLines (fs ++ [(ofString "Content-Length", clv)]) ++
           crlf ++ crlf ++ body)] ∧
    (relay cfg [clHead d1 d2 d3 reason fs clv ++ body] e).keepAlive = true ∧
    (relay cfg [clHead d1 d2 d3 reason fs clv ++ body] e).cstate = .done ∧
    (relay cfg [clHead d1 d2 d3 reason fs clv ++ body] e).status = codeOf d1 d2 d3 :=
  relay_cl_exact cfg d1 d2 d3 reason fs clv body e hbe hv hh hd hc hr hcode hfs hnd hne hhead hplus htrim hclv hnum
    hbody hsize hcount

/-- the field lines of the client-side head are the stored fields verbatim (`CRLF name ": " value`),
    plus a Date line when the backend sent none -/
theorem c10_field_lines_verbatim (hs : List (Bytes × Bytes))
    (h : ∀ kv ∈ hs, kv.1 ≠ [] ∧ kv.2 ≠ [] ∧ omitHeader kv.1 = false) :
    h1FieldLines hs = (hs.flatMap fun kv => crlf ++ kv.1 ++ [colon, sp] ++ kv.2) ++
      (if hasHdr hs nDate then [] else dateLine) := by
  unfold h1FieldLines
  congr 1
  induction hs with
  | nil => rfl
  | cons kv rest ih =>
    have hk := h kv (by simp)
    have e1 : kv.1.isEmpty = false := by cases hkv : kv.1 <;> simp_all
    have e2 : kv.2.isEmpty = false := by cases hkv : kv.2 <;> simp_all
    simp only [List.flatMap_cons, e1, e2, hk.2.2, Bool.or_self, Bool.false_eq_true, if_false]
    rw [ih (fun x hx => h x (by simp [hx]))]

/-! non-vacuity of `c10_relay_exact_partial`: a concrete instance of every hypothesis -/
example : LineField (ofString "X-Foo") (ofString "bar baz") :=
  { toPlainField := ⟨by decide, by decide, by decide, by decide, by decide, by decide⟩, klf := by decide, vlf := by decide }
example : strtoI64 (ofString "005") = some (ofString "hello").length ∧ trimRightWs (ofString "005") = ofString "005" ∧
    isWs ((ofString "005").headD 0) = false ∧ (ofString "005").head? ≠ some 43 := by decide
example : clHead 50 48 48 (ofString "OK") [(ofString "X-Foo", ofString "bar")] (ofString "5") =
    ofString "HTTP/1.1 200 OK\r\nX-Foo: bar\r\nContent-Length: 5\r\n\r\n" := by decide
example : codeOf 50 48 48 = 200 := by decide

/-! ## the planned top-level statements, assembled from the parts above -/

/-- `c10_segmentation` of DESIGN §6: the three automata (chunked decoder, FastCGI reassembly, plain
    body accounting) give the same result for one piece `a ++ b` as for `a` followed by `b`;
    the response head is covered by `c10_head_segmentation`. -/
theorem c10_segmentation (d : DcSt) (f : FrSt) (st : St) (a b : Bytes)
    (hd : st.decodeChunked = false) (hsc : st.sendChunked = false) :
    dcFeed (dcFeed d a) b = dcFeed d (a ++ b) ∧ frFeed (frFeed f a) b = frFeed f (a ++ b) ∧
    (appendMem (appendMem st a).1 b).1 = (appendMem st (a ++ b)).1 :=
  ⟨c10_dechunk_segmentation d a b, c10_fcgi_segmentation f a b, c10_body_segmentation_plain st a b hd hsc⟩

/-- the client-side state machine and the "response head sent" flag agree (holds in every state
    the relay reaches: the head is written exactly at the handle → write transition, which needs
    the backend's head) -/
def HeadConsistent (st : St) : Prop :=
  (st.cstate = .handle ∧ st.hdrSent = false) ∨ (st.cstate = .write ∧ st.hdrSent = true ∧ st.started = true)

/-- how the backend stream can break while a response is being relayed -/
inductive Broken (cfg : Cfg) (st : St) : End → Prop
  /-- the backend goes away (any way) before its response head is complete -/
  | noHead (e : End) : st.started = false → st.status = 0 → st.fcgi.ended = false → e ≠ .none → Broken cfg st e
  /-- connection reset / socket error / FastCGI end of stream without END_REQUEST, body not finished -/
  | failed (e : End) : st.started = true → bodiless cfg st = false → FailEnd cfg st e → Broken cfg st e
  /-- backend EOF short of the announced Content-Length or inside a chunked body -/
  | truncated : st.started = true → cfg.be ≠ .fcgi → bodyTruncated cfg st = true →
      (st.sendChunked = true → st.dc.isSome = true) → Broken cfg st .eof

/-- `c10_broken_never_complete` of DESIGN §6 (HTTP/1.x): a backend response that is cut off — no
    complete head, connection failure, FastCGI stream without END_REQUEST, EOF short of
    Content-Length or inside a chunked body — is never presented as a complete successful
    response, whatever was relayed before (any state `st` with an unfinished response): as long
    as the client-side response head has not been written the client gets lighttpd's own complete
    `500`/`502` error response; afterwards nothing more is written (no last-chunk, no further
    body), keep-alive is cleared and the response ends, i.e. the connection is closed after a
    visibly incomplete message.  HTTP/2: `c10_h2_failure_resets_stream`,
    `c10_h2_truncated_resets_stream`. -/
theorem c10_broken_never_complete (cfg : Cfg) (st : St) (e : End) (hv : cfg.ver ≤ 1)
    (ho : st.open_ = true) (hh : st.handler = true) (hf : st.finished = false)
    (hcons : HeadConsistent st) (hb : Broken cfg st e) :
    (((onEnd cfg st e).status = 500 ∨ (onEnd cfg st e).status = 502) ∧ (onEnd cfg st e).cstate = .done ∧
      ∃ fields, (onEnd cfg st e).evs = pushW st.evs
        (h1StatusLine cfg (onEnd cfg st e).status ++ fields ++ crlf ++ crlf ++
          (if cfg.head then [] else errorPage (onEnd cfg st e).status))) ∨
    ((onEnd cfg st e).keepAlive = false ∧ (onEnd cfg st e).cstate = .done ∧
     (onEnd cfg st e).evs = pushW st.evs st.wq) := by
  cases hb with
  | noHead e hs h0 hfe hne =>
    rcases hcons with ⟨hc, _⟩ | ⟨_, _, hs'⟩
    · left
      obtain ⟨a, b, _, ⟨f, d⟩⟩ := c10_failure_before_head_is_5xx cfg st e hv hc ho hs hh h0 hne hfe
      exact ⟨Or.inl a, b, ⟨f, by rw [a]; exact d⟩⟩
    · rw [hs] at hs'; cases hs'
  | failed e hs hbl hfail =>
    rcases hcons with ⟨hc, hsent⟩ | ⟨hc, hsent, _⟩
    · left
      obtain ⟨a, b, _, ⟨f, d⟩⟩ := c10_failure_before_client_head_is_502 cfg st e hv hc ho hs hh hsent hbl hfail
      exact ⟨Or.inr a, b, ⟨f, by rw [a]; exact d⟩⟩
    · right
      obtain ⟨a, b, _, d⟩ := c10_failure_after_head_aborts cfg st e hv hc ho hs hsent hbl hfail
      exact ⟨a, b, d⟩
  | truncated hs hbe ht hpt =>
    rcases hcons with ⟨hc, hsent⟩ | ⟨hc, hsent, _⟩
    · left
      obtain ⟨a, b, _, ⟨f, d⟩⟩ := c10_truncated_before_client_head_is_502 cfg st hv hbe hc ho hs hh hf hsent ht
      exact ⟨Or.inr a, b, ⟨f, by rw [a]; exact d⟩⟩
    · right
      exact c10_truncated_after_head_closes cfg st hv hbe hc ho hh hf hsent ht hpt

/-- `c10_failure_isolated` of DESIGN §6 for HTTP/1.x: a broken backend response never leaves the
    client connection open in a state where the next request's response could be mistaken for
    the rest of this one — once the head is on the wire the failed relay clears keep-alive (the
    connection is closed after the aborted message), and whenever keep-alive does survive
    write-prepare the message announces its own length.
    MISSING: HTTP/2 multiplexing (other streams untouched) — the model has one stream (it gets
    RST_STREAM: `c10_h2_failure_resets_stream`); other streams are observed end to end. -/
theorem c10_failure_isolated_partial (cfg : Cfg) (st : St) (e : End) (hv : cfg.ver ≤ 1) (hh : cfg.head = false)
    (hc : st.cstate = .write) (ho : st.open_ = true) (hhd : st.handler = true) (hf : st.finished = false)
    (hsent : st.hdrSent = true) (hst : st.started = true) (hb : Broken cfg st e) :
    (onEnd cfg st e).keepAlive = false ∧
    ((writePrepare cfg st).keepAlive = true →
      (writePrepare cfg st).status = 204 ∨ (writePrepare cfg st).status = 304 ∨
      hasHdr (writePrepare cfg st).headers nContentLength = true ∨
      hasHdr (writePrepare cfg st).headers nTransferEncoding = true ∨
      hasHdr (writePrepare cfg st).headers nUpgrade = true) := by
  refine ⟨?_, fun hk => c10_keepalive_requires_framing cfg st hv hh hk⟩
  cases hb with
  | noHead e hs _ _ _ => rw [hst] at hs; cases hs
  | failed e hs hbl hfail => exact (c10_failure_after_head_aborts cfg st e hv hc ho hs hsent hbl hfail).1
  | truncated hs hbe ht hpt => exact (c10_truncated_after_head_closes cfg st hv hbe hc ho hhd hf hsent ht hpt).1

/-! non-vacuity of the composite theorems: concrete reachable states / complete runs -/

/-- the state after the backend sent part of a response head -/
example : let st := onData { be := .proxy, ver := 1, stream := 1 } {} (ofString "HTTP/1.1 200 OK\r\nConte")
    st.cstate = .handle ∧ st.open_ = true ∧ st.started = false ∧ st.handler = true ∧ st.status = 0 ∧
    st.fcgi.ended = false ∧ st.finished = false := by decide
set_option maxRecDepth 100000 in
example : (relay { be := .proxy, ver := 1, stream := 1 } [ofString "HTTP/1.1 200 OK\r\nConte"] .rst).status = 500 := by
  decide
/-- `c10_head_segmentation`: the hypothesis "still incomplete, nothing decided" -/
example : headerStep { be := .proxy, ver := 1 } {} (ofString "HTTP/1.1 2") =
    ({ hbuf := ofString "HTTP/1.1 2" }, .goOn) := by decide
/-- the state after head and part of a Content-Length body were relayed in streaming mode -/
example : let st := onData { be := .proxy, ver := 1, stream := 1 } {}
                      (ofString "HTTP/1.1 200 OK\r\nContent-Length: 5\r\n\r\nhel")
    st.cstate = .write ∧ st.open_ = true ∧ st.started = true ∧ st.finished = false ∧ st.handler = true ∧
    st.scratch > 0 ∧ st.sendChunked = false ∧ st.decodeChunked = false ∧ st.hdrSent = true ∧
    bodyTruncated { be := .proxy, ver := 1, stream := 1 } st = true := by decide
/-- ... of a chunked body passed through (decoder not done), and of an EOF-delimited body -/
example : let st := onData { be := .proxy, ver := 1, stream := 1 } {}
                      (ofString "HTTP/1.1 200 OK\r\nTransfer-Encoding: chunked\r\n\r\n5\r\nhel")
    st.cstate = .write ∧ st.open_ = true ∧ st.started = true ∧ st.finished = false ∧ st.handler = true ∧
    st.sendChunked = true ∧ st.dc.isSome = true ∧ st.dcDone = 0 ∧ st.hdrSent = true ∧
    bodyTruncated { be := .proxy, ver := 1, stream := 1 } st = true := by decide
example : let st := onData { be := .scgi, ver := 1, stream := 1 } {} (ofString "Status: 200\r\n\r\nhel")
    st.cstate = .write ∧ st.open_ = true ∧ st.started = true ∧ st.finished = false ∧ st.handler = true ∧
    st.sendChunked = true ∧ st.dc = none ∧ st.scratch < 0 := by decide
/-- the state after the head and part of the body were buffered (stream-response-body = 0): the
    client-side head is not written yet; `Broken` / `HeadConsistent` are inhabited -/
example : let st := onData { be := .proxy, ver := 1, stream := 0 } {}
                      (ofString "HTTP/1.1 200 OK\r\nTransfer-Encoding: chunked\r\n\r\n5\r\nhello\r\n")
    st.cstate = .handle ∧ st.open_ = true ∧ st.started = true ∧ st.finished = false ∧ st.handler = true ∧
    st.hdrSent = false ∧ bodyTruncated { be := .proxy, ver := 1, stream := 0 } st = true ∧ (st.sendChunked = true → st.dc.isSome = true) := by decide
example : Broken { be := .proxy, ver := 1, stream := 0 }
    (onData { be := .proxy, ver := 1, stream := 0 } {}
      (ofString "HTTP/1.1 200 OK\r\nTransfer-Encoding: chunked\r\n\r\n5\r\nhello\r\n")) .eof :=
  .truncated (by decide) (by decide) (by decide) (by decide)
example : HeadConsistent (onData { be := .proxy, ver := 1, stream := 0 } {}
      (ofString "HTTP/1.1 200 OK\r\nTransfer-Encoding: chunked\r\n\r\n5\r\nhello\r\n")) := Or.inl (by decide)
example : HeadConsistent (onData { be := .proxy, ver := 1, stream := 1 } {}
      (ofString "HTTP/1.1 200 OK\r\nContent-Length: 5\r\n\r\nhel")) := Or.inr (by decide)
example : FailEnd { be := .fcgi, ver := 1 } {} .eof := Or.inr (Or.inr ⟨rfl, Or.inl rfl, rfl⟩)
/-! the runs the pinned code presented as complete `200`s are `502`s now -/
set_option maxRecDepth 100000 in
example : (relay { be := .proxy, ver := 1, stream := 0 }
       [ofString "HTTP/1.1 200 OK\r\nTransfer-Encoding: chunked\r\n\r\n5\r\nhello\r\n"] .eof).status = 502 ∧
    (relay { be := .scgi, ver := 1, stream := 0 } [ofString "Status: 200\r\n\r\nhel"] .rst).status = 502 := by
  refine ⟨by decide, by decide⟩
/-! HTTP/2: HEADERS, DATA, then RST_STREAM -/
set_option maxRecDepth 100000 in
example : ((relay { be := .proxy, ver := 2, stream := 1 }
       [ofString "HTTP/1.1 200 OK\r\nContent-Length: 5\r\n\r\nhel"] .rst).evs.getLast?) = some .rst := by decide
/-- complete runs: a Content-Length response, a chunked response with a trailer (buffered: merged into
    the head, without CR), an interim response, a truncated Content-Length body (connection closed) -/
example : (relay { be := .proxy, ver := 1, stream := 0 }
      [ofString "HTTP/1.1 200 OK\r\nX-A: b\r\nContent-Le", ofString "ngth: 2\r\n\r\nok"] .eof).evs =
    [.w (ofString "HTTP/1.1 200 OK\r\nX-A: b\r\nContent-Length: 2\r\nDate: Sun, 09 Sep 2001 01:46:40 GMT\r\n\r\nok")] := by
  decide
example : (relay { be := .proxy, ver := 1, stream := 0 }
      [ofString "HTTP/1.1 200 OK\r\nTransfer-Encoding: chunked\r\nTrailer: X-T\r\n\r\n2\r\nok\r\n0\r\nX-",
       ofString "T: v\r\n\r\n"] .eof).evs =
    [.w (ofString "HTTP/1.1 200 OK\r\nX-T: v\r\nContent-Length: 2\r\nDate: Sun, 09 Sep 2001 01:46:40 GMT\r\n\r\nok")] := by
  decide
set_option maxRecDepth 100000 in
example : (relay { be := .proxy, ver := 1, stream := 1 }
      [ofString "HTTP/1.1 103 Early Hints\r\nLink: </a>\r\n\r\nHTTP/1.1 200 OK\r\nContent-Length: 2\r\n\r\nok"] .eof).evs =
    [.w (ofString ("HTTP/1.1 103 Early Hints\r\nLink: </a>\r\n\r\nHTTP/1.1 200 OK\r\nContent-Length: 2\r\n" ++
                   "Date: Sun, 09 Sep 2001 01:46:40 GMT\r\n\r\nok"))] := by decide
example : (relay { be := .proxy, ver := 1, stream := 1 }
      [ofString "HTTP/1.1 200 OK\r\nContent-Length: 5\r\n\r\nhel"] .eof).keepAlive = false := by decide
example : PlainField (ofString "X-Foo") (ofString "bar baz") :=
  ⟨by decide, by decide, by decide, by decide, by decide, by decide⟩
example : ((([] : List (Bytes × Bytes)) ++ [(ofString "X-Foo", ofString "a"), (ofString "ETag", ofString "\"x\"")]).map
    fun kv => lower kv.1).Nodup := by decide

end LtVerif.C10
