/-
  C10 — Backend responses are relayed faithfully; broken ones never look complete.
  Property theorems only; helper lemmas live in LtVerif/Proofs/BackendResp.lean.
-/
import LtVerif.Model.BackendResp
namespace LtVerif.C10
open LtVerif B LtVerif.BeResp

/-- segmentation independence of the backend chunked decoder -/
theorem c10_dechunk_segmentation (s : DcSt) (a b : Bytes) :
    dcFeed (dcFeed s a) b = dcFeed s (a ++ b) := by
  simp [dcFeed, List.foldl_append]

end LtVerif.C10
