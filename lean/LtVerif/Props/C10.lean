/-
  C10 — Backend responses are relayed faithfully; broken ones never look complete.
  Property theorems only; helper lemmas live in LtVerif/Proofs/BackendResp.lean.

  The models describe the code with the C10 repairs applied (seeded/C10-fixes 0001–0012 = D53–D60,
  D62, D69–D72 in /repo; the reverse patches are the seeds C10-D*).
  Proved here: per-layer automaton facts (decoder, FastCGI reassembly), storage/relay of fields
  for the one-read Content-Length case, and what lighttpd DOES when the backend stream breaks
  (own 500/502, or abort + close / RST_STREAM), over all runs of the relay (reachability
  invariant `Inv`).  NOT proved (correspondence only): that every split of a whole response
  gives the client the same message (only per layer), CGI/NPH status mapping, 1xx, trailers,
  re-chunking, and that an abort is visible to the client (false for HTTP/1.0, witness below).
-/
import LtVerif.Proofs.BackendResp
import LtVerif.Proofs.HttpChunkEnc
namespace LtVerif.C10
open LtVerif B LtVerif.BeResp

/-! ## backend chunked decoder (http_chunk_decode_append_data) -/

/-- segmentation independence of the decoder LAYER: feeding the backend stream in two pieces is
    the same as feeding it at once.  The automaton is a byte fold, so this is `List.foldl_append`;
    the content of the clause "every split" is that the C equals this fold, which the
    correspondence (all splits of short bodies, long size lines in one read and split) validates. -/
theorem c10_dechunk_segmentation (s : DcSt) (a b : Bytes) :
    dcFeed (dcFeed s a) b = dcFeed s (a ++ b) := (dcFeed_append s a b).symm

/-- wire form of a chunked body: chunks with arbitrary accepted size lines, the last-chunk line,
    the trailer section including the final empty line -/
def dwire (cs : List (Bytes × Bytes)) (last t : Bytes) : Bytes :=
  cs.flatMap (fun c => c.1 ++ c.2 ++ [cr, lf]) ++ (last ++ t)

/-- Round trip: every chunked body (any number of non-empty chunks, any accepted spelling of the
    size lines incl. extensions, any trailer section) decodes to exactly the concatenation of the
    chunk data and is complete exactly at its end; the last-chunk line and the trailers are kept. -/
theorem c10_dechunk_roundtrip (cs : List (Bytes × Bytes)) (last t : Bytes)
    (hcs : ∀ c ∈ cs, DcGoodLine c.1 c.2.length ∧ c.2 ≠ []) (hlast : DcGoodLine last 0)
    (ht : DcTrailerEnd last t) :
    dcFeed {} (dwire cs last t) = { mode := .done (last ++ t), out := cs.flatMap (·.2) } := by
  suffices h : ∀ (out : Bytes), dcFeed { mode := .hdr [], out := out } (dwire cs last t)
      = { mode := .done (last ++ t), out := out ++ cs.flatMap (·.2) } by simpa using h []
  induction cs with
  | nil => intro out; simpa [dwire] using dcFeed_final hlast ht out
  | cons c rest ih =>
    intro out
    have hc := hcs c (by simp)
    have hrest : ∀ c ∈ rest, DcGoodLine c.1 c.2.length ∧ c.2 ≠ [] := fun x hx => hcs x (by simp [hx])
    have : dwire (c :: rest) last t = (c.1 ++ c.2 ++ [cr, lf]) ++ dwire rest last t := by simp [dwire]
    rw [this, dcFeed_append, dcFeed_chunk hc.1 hc.2, ih hrest]
    simp

/-- **The accepted chunk-size lines include what an encoder writes, with the value it means.**
    The hexadecimal rendering of any size below 2^62 (`encHex`, the reference encoder of
    Model/H1Chunked.lean, independent of the decoder), optionally followed by a chunk extension
    (`;` ...), then CRLF, is a `DcGoodLine` for exactly that size: the value the decoder computes
    is tied to an independent rendering, not just to its own scanner. -/
theorem c10_dechunk_size_line_rendered (n : Nat) (ext : Bytes) (hn : chunkSizeOk n)
    (hext : ext = [] ∨ ext.head? = some 59) (hlf : lf ∉ ext) (hlen : ext.length ≤ 900) :
    DcGoodLine (encHex n ++ ext ++ [cr, lf]) n := by
  have hlt : n < 16 ^ 64 := by
    unfold chunkSizeOk at hn
    calc n < 2 ^ 62 := hn
      _ ≤ 16 ^ 64 := by decide
  obtain ⟨ds, h1, h2, h3, h4, h5⟩ := hexDigits_spec 64 n (by decide) hlt
  have hl : (renderHex ds).length = ds.length := by simp [renderHex]
  have hpos : 0 < ds.length := List.length_pos_iff.mpr h4
  have hrest : (ext ++ [cr, lf]).head?.bind hexVal = none := by
    rcases hext with h | h
    · subst h; decide
    · cases ext with
      | nil => simp at h
      | cons b r =>
        simp at h; subst h
        simp only [List.cons_append, List.head?_cons, Option.bind_some]
        decide
  have hck := ckHex_render (ext ++ [cr, lf]) hrest ds 0 0 h2 (by rw [h3]; exact chunkSizeOk_div hn)
  unfold encHex
  rw [h1]
  refine ⟨?_, ⟨renderHex ds ++ ext ++ [cr], by simp, ?_⟩, by simp [hl]; omega⟩
  · unfold dcParseLine
    rw [List.append_assoc, hck, h3]
    have hget : (renderHex ds ++ (ext ++ [cr, lf])).getD ((renderHex ds ++ (ext ++ [cr, lf])).length - 2) 0 = cr := by
      have e : (renderHex ds ++ (ext ++ [cr, lf])) = (renderHex ds ++ ext) ++ [cr, lf] := by simp
      rw [e, List.getD_eq_getElem?_getD]
      have e2 : ((renderHex ds ++ ext) ++ [cr, lf]).length - 2 = (renderHex ds ++ ext).length := by simp; omega
      rw [e2, List.getElem?_append_right (Nat.le_refl _)]
      simp
    have h0 : ¬ (0 + ds.length = 0) := by omega
    simp only [h0, if_false, hget, ne_eq, not_true_eq_false]
    have hdrop : (renderHex ds ++ (ext ++ [cr, lf])).drop (0 + ds.length) = ext ++ [cr, lf] := by
      rw [Nat.zero_add, ← hl]; simp
    rw [hdrop]
    rcases hext with h | h
    · subst h; simp [cr, sp, ht]
    · cases ext with
      | nil => simp at h
      | cons b r => simp at h; subst h; simp [sp, ht]
  · intro hmem
    rcases List.mem_append.mp hmem with h | h
    · rcases List.mem_append.mp h with h | h
      · simp only [renderHex, List.mem_map] at h
        obtain ⟨d, hdm, he⟩ := h
        exact (hexDigit_facts d (h2 d hdm)).2.2.1 he
      · exact hlf h
    · simp [cr, lf] at h

/-- decoded output only ever grows: what has been handed on is never taken back or altered -/
theorem c10_dechunk_output_monotone (bs : Bytes) : ∀ (s : DcSt), ∃ x, (dcFeed s bs).out = s.out ++ x := by
  induction bs with
  | nil => intro s; exact ⟨[], by simp [dcFeed_nil]⟩
  | cons b rest ih =>
    intro s
    rw [dcFeed_cons]
    obtain ⟨x, hx⟩ := ih (dcStep s b)
    have hstep : ∃ y, (dcStep s b).out = s.out ++ y := by
      obtain ⟨mode, out⟩ := s
      cases mode with
      | data n => simp only [dcStep]; split <;> exact ⟨[b], by simp⟩
      | hdr acc => simp only [dcStep]; (repeat' split) <;> exact ⟨[], by simp⟩
      | cr => simp only [dcStep]; split <;> exact ⟨[], by simp⟩
      | lf => simp only [dcStep]; split <;> exact ⟨[], by simp⟩
      | trailer acc => simp only [dcStep]; split <;> exact ⟨[], by simp⟩
      | done acc => exact ⟨[], by simp [dcStep]⟩
      | err => exact ⟨[], by simp [dcStep]⟩
    obtain ⟨y, hy⟩ := hstep
    exact ⟨y ++ x, by rw [hx, hy]; simp⟩

/-- **A truncated chunked body is never complete.**  For every proper prefix of a well-formed
    chunked body the decoder is neither done nor in error (it waits for more), and what it has
    decoded so far is a prefix of the body: backend EOF there is recognisable as truncation. -/
theorem c10_dechunk_truncated_never_complete (cs : List (Bytes × Bytes)) (last t p q : Bytes)
    (hcs : ∀ c ∈ cs, DcGoodLine c.1 c.2.length ∧ c.2 ≠ []) (hlast : DcGoodLine last 0)
    (ht : DcTrailerEnd last t) (hpq : dwire cs last t = p ++ q) (hq : q ≠ []) :
    (dcFeed {} p).mode.isDone = false ∧ (dcFeed {} p).mode.isErr = false ∧
    ∃ x, cs.flatMap (·.2) = (dcFeed {} p).out ++ x := by
  have hfull := c10_dechunk_roundtrip cs last t hcs hlast ht
  rw [hpq, dcFeed_append] at hfull
  obtain ⟨x, hx⟩ := c10_dechunk_output_monotone q (dcFeed {} p)
  rw [hfull] at hx
  refine ⟨?_, ?_, ⟨x, by simpa using hx⟩⟩
  · cases hm : (dcFeed {} p).mode <;> simp [DcMode.isDone]
    rename_i acc
    have : dcFeed (dcFeed {} p) q = { mode := .err, out := (dcFeed {} p).out } := by
      have h0 := dcFeed_done_excess acc (dcFeed {} p).out q hq
      have e0 : dcFeed {} p = { mode := .done acc, out := (dcFeed {} p).out } := by
        cases hd : dcFeed {} p; simp_all
      rw [e0]; simpa using h0
    rw [this] at hfull
    simp at hfull
  · cases hm : (dcFeed {} p).mode <;> simp [DcMode.isErr]
    have : dcFeed (dcFeed {} p) q = { mode := .err, out := (dcFeed {} p).out } := by
      have h0 := dcFeed_err q (dcFeed {} p).out
      have e0 : dcFeed {} p = { mode := .err, out := (dcFeed {} p).out } := by
        cases hd : dcFeed {} p; simp_all
      rw [e0]; simpa using h0
    rw [this] at hfull
    simp at hfull

/-- bytes after the end of the body are an error (never silently taken as body) -/
theorem c10_dechunk_excess_rejected (acc out bs : Bytes) (h : bs ≠ []) :
    dcFeed { mode := .done acc, out := out } bs = { mode := .err, out := out } :=
  dcFeed_done_excess acc out bs h

/-- a framing error is final: nothing fed afterwards makes the body complete -/
theorem c10_dechunk_error_absorbing (out bs : Bytes) :
    dcFeed { mode := .err, out := out } bs = { mode := .err, out := out } := dcFeed_err bs out

/-- chunk data that is not followed by CRLF is a framing error -/
theorem c10_dechunk_missing_crlf_rejected (out d : Bytes) (x y : UInt8) (hd : d ≠ [])
    (hxy : ¬ (x = cr ∧ y = lf)) :
    (dcFeed { mode := .data d.length, out := out } (d ++ [x, y])).mode = .err := by
  rw [dcFeed_append, dcFeed_data d d.length out hd rfl]
  simp only [dcFeed_cons, dcFeed_nil, dcStep]
  by_cases h1 : x = cr <;> by_cases h2 : y = lf <;> simp_all

/-- a chunk-size line the validator does not accept is a framing error -/
theorem c10_dechunk_bad_size_line_rejected (p out : Bytes) (hlf : lf ∉ p) (hlen : p.length < 1024)
    (hbad : dcParseLine (p ++ [lf]) = none) :
    (dcFeed { mode := .hdr [], out := out } (p ++ [lf])).mode = .err := by
  rw [dcFeed_append, dcFeed_hdr_pre p [] out hlf (by simpa using hlen)]
  simp [dcFeed_cons, dcFeed_nil, dcStep, hbad]

/-- the chunk-size overflow guard of the model is the one of the C (1 << (8*sizeof(off_t)-5)) -/
theorem c10_dechunk_guard_is_extracted : ckSizeLimit = 2 ^ Extracted.dechunkGuardShift - 1 - 2 := by decide

/-! non-vacuity: accepted size lines (extension, leading zeros, BWS), a trailer section, a body -/
example : DcGoodLine (ofString "5;x=y\r\n") 5 := ⟨by rfl, ⟨ofString "5;x=y\r", by decide, by decide⟩, by decide⟩
example : DcGoodLine (ofString "00a \r\n") 10 := ⟨by rfl, ⟨ofString "00a \r", by decide, by decide⟩, by decide⟩
example : DcGoodLine (ofString "0\r\n") 0 := ⟨by rfl, ⟨ofString "0\r", by decide, by decide⟩, by decide⟩
example : DcTrailerEnd (ofString "0\r\n") [cr, lf] := by
  refine ⟨by decide, by decide, by decide, ?_⟩
  intro q r h hr hq
  match q, r, h, hr, hq with
  | [], _, _, _, hq => exact absurd rfl hq
  | [a], [b], h, _, _ =>
    simp only [List.cons_append, List.nil_append, List.cons.injEq, and_true] at h
    rw [← h.1]; decide
  | [_], [], _, hr, _ => exact absurd rfl hr
  | [_], _ :: _ :: _, h, _, _ => simp at h
  | [_, _], [], _, hr, _ => exact absurd rfl hr
  | [_, _], _ :: _, h, _, _ => simp at h
  | _ :: _ :: _ :: _, _, h, _, _ => simp at h
example : dcFeed {} (ofString "5\r\nhello\r\n0\r\nX-T: v\r\n\r\n") =
    { mode := .done (ofString "0\r\nX-T: v\r\n\r\n"), out := ofString "hello" } := by decide
example : (dcFeed {} (ofString "5\r\nhello\r\n0\r\n\r")).mode = .trailer (ofString "0\r\n\r") := by decide
example : (dcFeed {} (ofString "5\r\nhello\rX")).mode = .err := by decide
example : dcParseLine (ofString "5 x\r\n") = none := by rfl
example : dcParseLine (ofString "5\n") = none := by rfl

/-! ## FastCGI record reassembly (fastcgi_get_packet / fcgi_recv_parse_loop) -/

/-- segmentation independence of the record reassembly LAYER (a byte fold, as above: the C's
    equality to it is what the correspondence validates) -/
theorem c10_fcgi_segmentation (s : FrSt) (a b : Bytes) :
    frFeed (frFeed s a) b = frFeed s (a ++ b) := (frFeed_append s a b).symm

/-- **Reassembly.**  Any sequence of records (any types other than END_REQUEST, any request id,
    content up to 65535 bytes, padding up to 255 bytes) followed by an END_REQUEST record yields
    exactly one event per record, in order, with exactly the record's content — padding never
    leaks — and ends the request; whatever follows END_REQUEST is not parsed. -/
theorem c10_fcgi_reassembly (rs : List FrRec) (fin : FrRec) (junk : Bytes)
    (hrs : ∀ r ∈ rs, r.ok ∧ r.ev ≠ .endRequest) (hfin : fin.ok ∧ fin.typ = fcgiEndRequest) :
    (frFeed {} (rs.flatMap FrRec.enc ++ fin.enc ++ junk)).ended = true ∧
    (frFeed {} (rs.flatMap FrRec.enc ++ fin.enc ++ junk)).evs = rs.map FrRec.ev ++ [.endRequest] := by
  obtain ⟨h1, h2, h3, h4⟩ := frFeed_records rs {} rfl rfl rfl hrs
  rw [frFeed_append, frFeed_append]
  have hrec := frFeed_record (frFeed {} (rs.flatMap FrRec.enc)) fin.typ fin.rid fin.content fin.pad h1 h2 h3
    hfin.1.1 hfin.1.2
  have hev : frEvent fin.typ fin.content = .endRequest := by simp [frEvent, hfin.2, fcgiEndRequest, fcgiStdout, fcgiStderr]
  have hended : (frAfter (frFeed {} (rs.flatMap FrRec.enc)) fin.typ fin.content).ended = true := by
    simp [frAfter, hev]
  show (frFeed (frFeed (frFeed {} (rs.flatMap FrRec.enc)) fin.enc) junk).ended = true ∧ _
  rw [show fin.enc = frEncode fin.typ fin.rid fin.content fin.pad from rfl, hrec, frFeed_ended junk _ hended]
  refine ⟨hended, ?_⟩
  simp [frAfter, h4, hev]

/-- the concatenation of the STDOUT contents of a record sequence (`frStdout`, a free-standing
    specification: that `readFcgi`/`fcgiDispatch` hand exactly these bytes to the response parser
    is validated by the correspondence, not proved) -/
theorem c10_fcgi_stdout_exact (rs : List FrRec) :
    frStdout (rs.map FrRec.ev) = (rs.filter (·.typ = fcgiStdout)).flatMap (·.content) := by
  induction rs with
  | nil => rfl
  | cons r rest ih =>
    by_cases h : r.typ = fcgiStdout
    · simp [FrRec.ev, frEvent, h, frStdout, ih]
    · have hev : frStdout (FrRec.ev r :: rest.map FrRec.ev) = frStdout (rest.map FrRec.ev) := by
        simp only [FrRec.ev, frEvent, h, if_false]
        (repeat' split) <;> rfl
      simp only [List.map_cons, hev, ih]
      simp [h]

/-- **A truncated record stream never ends the request.**  After any number of complete records
    none of which is END_REQUEST, plus any proper prefix of a further record (END_REQUEST
    included), the request is not ended and the partial record has produced nothing: backend EOF
    there is an error, not a complete response. -/
theorem c10_fcgi_truncated_not_ended (rs : List FrRec) (nxt : FrRec) (k : Nat)
    (hrs : ∀ r ∈ rs, r.ok ∧ r.ev ≠ .endRequest) (hn : nxt.ok) (hk : k < nxt.enc.length) :
    (frFeed {} (rs.flatMap FrRec.enc ++ nxt.enc.take k)).ended = false ∧
    (frFeed {} (rs.flatMap FrRec.enc ++ nxt.enc.take k)).evs = rs.map FrRec.ev := by
  obtain ⟨h1, h2, h3, h4⟩ := frFeed_records rs {} rfl rfl rfl hrs
  rw [frFeed_append]
  have := frFeed_partial_record (frFeed {} (rs.flatMap FrRec.enc)) nxt.typ nxt.rid nxt.content nxt.pad k
    h1 h2 h3 hn.1 hn.2 hk
  refine ⟨this.1, ?_⟩
  rw [show nxt.enc = frEncode nxt.typ nxt.rid nxt.content nxt.pad from rfl, this.2, h4]
  simp

/-- record constants of the model are those of fastcgi.h -/
theorem c10_fcgi_constants_extracted :
    fcgiStdout.toNat = Extracted.fcgiTypeStdout ∧ fcgiStderr.toNat = Extracted.fcgiTypeStderr ∧
    fcgiEndRequest.toNat = Extracted.fcgiTypeEndRequest ∧ Extracted.fcgiHeaderLen = 8 ∧
    Extracted.fcgiMaxLength = 65535 := by decide

/-! non-vacuity -/
example : (⟨6, 1, ofString "abc", [0, 0, 0]⟩ : FrRec).ok ∧ (⟨6, 1, ofString "abc", [0, 0, 0]⟩ : FrRec).ev ≠ .endRequest := by
  refine ⟨⟨by decide, by decide⟩, by decide⟩
example : (frFeed {} (frEncode 6 1 (ofString "ab") [0, 0, 0] ++ frEncode 7 1 (ofString "x") [] ++
      frEncode 6 1 (ofString "c") [0] ++ frEncode 3 1 [0, 0, 0, 0, 0, 0, 0, 0] [])).evs =
    [.stdout (ofString "ab"), .stderr (ofString "x"), .stdout (ofString "c"), .endRequest] := by decide

/-! ## the relay composite (Model/BackendResp.lean) -/

/-- **Segmentation of the response head is irrelevant.**  While the head received so far is
    incomplete and undecided (parsing the accumulated bytes changes nothing and asks for more),
    receiving `a` and then `b` is the same as receiving `a ++ b` in one read.  (`hinc` has to be
    established for the prefix at hand — no lemma here says that every proper prefix of a head
    satisfies it, and it fails once a 1xx block completes inside `a`; cuts at / after the end of
    the head and FastCGI are not covered: "every split of a whole response" is carried by the
    correspondence and the segmentation oracle only.) -/
theorem c10_head_segmentation (cfg : Cfg) (st : St) (a b : Bytes) (hbe : cfg.be ≠ .fcgi)
    (hc : st.cstate = .handle) (ho : st.open_ = true) (hs : st.started = false) (hf : st.finished = false)
    (hh : st.handler = true) (ha : a ≠ []) (hb : b ≠ [])
    (hinc : headerStep cfg st a = ({ st with hbuf := st.hbuf ++ a }, .goOn)) :
    onData cfg (onData cfg st a) b = onData cfg st (a ++ b) := by
  rw [onData_incomplete cfg st { st with hbuf := st.hbuf ++ a } a hbe hc ho hs hh ha hinc hs hf hc ho]
  have hb' : b.isEmpty = false := by cases b <;> simp_all
  have hab' : (a ++ b).isEmpty = false := by cases a <;> simp_all
  have hl : lostHandler st = false := by simp [lostHandler, hh]
  have hl2 : lostHandler ({ st with hbuf := st.hbuf ++ a } : St) = false := by simp [lostHandler, hh]
  have hr : gwRecvData cfg { st with hbuf := st.hbuf ++ a } b = gwRecvData cfg st (a ++ b) := by
    unfold gwRecvData
    rw [if_neg hbe, if_neg hbe]
    unfold readPlain
    rw [if_pos (by simp [hs]), if_pos (by simp [hs]), headerStep_append]
  unfold onData
  rw [if_neg (by simp [hc, ho, hb']), if_neg (by simp [hl2]), if_neg (by simp [hc, ho, hab']), if_neg (by simp [hl]), hr]


/-- **Segmentation of a Content-Length / EOF-delimited body is irrelevant** as long as lighttpd
    does not itself chunk-encode: body accounting (remaining Content-Length, silent truncation of
    excess bytes, completion) and the bytes queued for the client are the same for `a` then `b`
    as for `a ++ b`. -/
theorem c10_body_segmentation_plain (st : St) (a b : Bytes)
    (hd : st.decodeChunked = false) (hsc : st.sendChunked = false) :
    (appendMem (appendMem st a).1 b).1 = (appendMem st (a ++ b)).1 := by
  rw [appendMem_plain st a hd hsc, appendMem_plain st (a ++ b) hd hsc]
  by_cases h1 : st.scratch > 0
  · simp only [h1, if_true]
    by_cases h2 : st.scratch - (a.length : Int) ≤ 0
    · have h3 : st.scratch - ((a ++ b).length : Int) ≤ 0 := by simp; omega
      have ht : (a ++ b).take st.scratch.toNat = a.take st.scratch.toNat := by
        rw [List.take_append_of_le_length (by omega)]
      simp only [h2, h3, if_true, ht]
      rw [appendMem_plain _ b (by simpa using hd) (by simpa using hsc)]
      simp
    · have hlen : ((a ++ b).length : Int) = a.length + b.length := by simp
      simp only [h2, if_false]
      rw [appendMem_plain _ b (by simpa using hd) (by simpa using hsc)]
      have hpos : st.scratch - (a.length : Int) > 0 := by omega
      simp only [hpos, if_true]
      by_cases h4 : st.scratch - (a.length : Int) - (b.length : Int) ≤ 0
      · have h5 : st.scratch - ((a ++ b).length : Int) ≤ 0 := by omega
        have ht : (a ++ b).take st.scratch.toNat = a ++ b.take (st.scratch - a.length).toNat := by
          rw [List.take_append]
          have : a.take st.scratch.toNat = a := List.take_of_length_le (by omega)
          rw [this]
          congr 2
          omega
        rw [if_pos (by simpa using h4), if_pos h5, ht]
        simp
      · have h5 : ¬ (st.scratch - ((a ++ b).length : Int) ≤ 0) := by omega
        rw [if_neg (by simpa using h4), if_neg h5]
        simp [Int.sub_sub]
  · simp only [h1, if_false]
    by_cases h2 : st.scratch = 0
    · simp only [h2, if_true]
      rw [appendMem_plain _ b hd hsc]
      simp [h2]
    · simp only [h2, if_false]
      rw [appendMem_plain _ b (by simpa using hd) (by simpa using hsc)]
      simp [h1, h2]



/-- **End-to-end fields are relayed verbatim.**  Ordinary response fields (`name ": " value CRLF`,
    name not one of the fields lighttpd interprets itself, no whitespace before the colon) whose
    names differ from each other and from what is already stored are handed to the client-side
    response head in the order received, name spelling and value bytes untouched. -/
theorem c10_fields_relayed (cfg : Cfg) (st : St) (fs : List (Bytes × Bytes))
    (hp : ∀ f ∈ fs, PlainField f.1 f.2)
    (hnd : ((st.headers ++ fs).map fun kv => lower kv.1).Nodup) :
    (fs.map fun f => fieldLine f.1 f.2).foldl (applyLine cfg) st = { st with headers := st.headers ++ fs } := by
  rw [foldl_applyLine_plain cfg fs st hp,
      foldl_hdrInsert_fresh _ fs st.headers (fun f hf => (hp f hf).vne) hnd]

/-- **Failure before the response head is complete ⇒ 5xx.**  Whatever the backend has sent so far,
    as long as its response head is not complete (nothing relayed yet), every way the backend
    stream can end — EOF, reset, socket error, hang-up, for FastCGI also EOF without
    END_REQUEST — makes lighttpd answer with its own complete `500` response (`OwnError`: error
    document with its exact Content-Length, keep-alive as negotiated): HTTP/1.0 and HTTP/1.1.
    (Modulo gw_recv_response_error()'s reconnect while nothing was written to the backend yet —
    C11's territory; the harness pins `wb.bytes_out`.) -/
theorem c10_failure_before_head_is_5xx (cfg : Cfg) (st : St) (e : End)
    (hv : cfg.ver ≤ 1) (hc : st.cstate = .handle) (ho : st.open_ = true) (hs : st.started = false)
    (hh : st.handler = true) (hst : st.status = 0) (he : e ≠ .none) (hfe : st.fcgi.ended = false) :
    OwnError cfg st (onEnd cfg st e) 500 := by
  rw [onEnd_active cfg st e (Or.inl hc) ho he (by simp [lostHandler, hh]),
      gwRecvEnd_pre cfg st e hc hs hh hst he hfe]
  exact ownError_conStep cfg st _ 500 hv hc rfl rfl rfl (Or.inl rfl) rfl rfl

/-- **HTTP/2: failure before the response head is complete ⇒ 5xx on the stream** — the twin of
    `c10_failure_before_head_is_5xx`: HEADERS with status 500, the error page as DATA, END_STREAM
    (`st.cerr = false`: every reachable state in the handle state, `Inv.cerrSent`). -/
theorem c10_h2_failure_before_head_is_5xx (cfg : Cfg) (st : St) (e : End)
    (hv : cfg.ver ≥ 2) (hc : st.cstate = .handle) (ho : st.open_ = true) (hs : st.started = false)
    (hh : st.handler = true) (hst : st.status = 0) (he : e ≠ .none) (hfe : st.fcgi.ended = false)
    (hce : st.cerr = false) :
    (onEnd cfg st e).status = 500 ∧ (onEnd cfg st e).cstate = .done ∧
    ∃ fields, (onEnd cfg st e).evs =
      pushW (st.evs ++ [.hdrs 500 fields]) (if cfg.head then [] else errorPage 500) ++ [.endStream] := by
  rw [onEnd_active cfg st e (Or.inl hc) ho he (by simp [lostHandler, hh]),
      gwRecvEnd_pre cfg st e hc hs hh hst he hfe]
  generalize hst1 : ({ st with open_ := false, status := 500, handler := false } : St) = st1
  have s1 : st1.status = 500 := by rw [← hst1]
  have s2 : st1.handler = false := by rw [← hst1]
  have s3 : st1.cstate = .handle := by rw [← hst1]; exact hc
  have s4 : st1.open_ = false := by rw [← hst1]
  have s6 : st1.evs = st.evs := by rw [← hst1]
  have s7 : st1.cerr = false := by rw [← hst1]; exact hce
  obtain ⟨w1, _, w3, w4, _, _, w7⟩ := writePrepare_errdoc cfg st1 s2 (by omega) (by omega)
  have hdc := writePrepare_errdoc_dc cfg st1 s2 (by omega) (by omega)
  have hce2 : (writePrepare cfg st1).cerr = false := by rw [(wprel_writePrepare cfg st1).2.2.2.1, s7]
  have hstart : conStep cfg st1 = startResponse cfg st1 := by
    unfold conStep
    simp [s3, handlerStarts, subrequestWaits, s4]
  rw [hstart]
  unfold startResponse
  have hs0 : ¬ st1.status = 0 := by omega
  simp only [hs0, if_false, hv, if_true]
  unfold h2Progress
  simp [hce2, w7, flush, endStreamEv, hdc, w1, w3, w4, s1, s6]
  exact ⟨_, rfl⟩

/-- **Backend failure after the backend's head was parsed but before the client-side head was
    written ⇒ 502** (HTTP/1.x; stream-response-body = 0, or the failure arrives together with the
    head).  Whatever part of the body was buffered is discarded, the backend's fields are
    dropped, and the client gets lighttpd's own complete `502` error response — never the
    partial body under a computed Content-Length.  (Not for a response without body, `bodiless`:
    that one is complete with its head, `c10_bodiless_failure_is_clean_end`.) -/
theorem c10_failure_before_client_head_is_502 (cfg : Cfg) (st : St) (e : End)
    (hv : cfg.ver ≤ 1) (hc : st.cstate = .handle) (ho : st.open_ = true) (hs : st.started = true)
    (hh : st.handler = true) (hsent : st.hdrSent = false) (hbl : bodiless cfg st = false) (he : FailEnd cfg st e) :
    OwnError cfg st (onEnd cfg st e) 502 := by
  rw [onEnd_active cfg st e (Or.inl hc) ho he.ne_none (by simp [lostHandler, hh]),
      gwRecvEnd_fail cfg st e hs he, gwBackendError_unsent cfg st hs hsent hbl]
  obtain ⟨b1, b2, b3, b4, b5, _⟩ := backendIncomplete_proj st
  exact ownError_conStep cfg st _ 502 hv (by simp [b3, hc]) rfl b2 b1 (Or.inr rfl) b4 b5

/-- **A body cut short by backend EOF / hang-up before the client-side head was written ⇒ 502**
    (HTTP/1.x): fewer bytes than the announced Content-Length (`scratch > 0`) or a chunked body
    whose decoder is not done (`bodyTruncated`) when the backend closes. -/
theorem c10_truncated_before_client_head_is_502 (cfg : Cfg) (st : St) (e : End)
    (hv : cfg.ver ≤ 1) (hbe : cfg.be ≠ .fcgi) (hc : st.cstate = .handle) (ho : st.open_ = true)
    (hs : st.started = true) (hh : st.handler = true) (hf : st.finished = false)
    (hsent : st.hdrSent = false) (ht : bodyTruncated cfg st = true) (he : e = .eof ∨ e = .hup) :
    OwnError cfg st (onEnd cfg st e) 502 := by
  have hne : e ≠ .none := by rcases he with h | h <;> simp [h]
  rw [onEnd_active cfg st e (Or.inl hc) ho hne (by simp [lostHandler, hh]),
      gwRecvEnd_eofHup cfg st e hbe hs he, gwClose_handler cfg st hh,
      backendDone_truncated_unsent cfg { st with open_ := false } hc hs hf hsent ht]
  obtain ⟨b1, b2, b3, b4, b5, _⟩ := backendIncomplete_proj { st with open_ := false }
  exact ownError_conStep cfg st _ 502 hv (by rw [b3]; exact hc) (by simp [backendIncomplete, bodyClear]) b2 b1
    (Or.inr rfl) b4 b5

/-- **Backend failure after the response head was sent ⇒ lighttpd aborts the message** (HTTP/1.x).
    In the write state (response head already on the wire, body not finished) a reset / socket
    error of the backend connection — for FastCGI also EOF or hang-up before END_REQUEST —
    never completes the message: nothing is appended to what was queued (in particular no
    last-chunk), keep-alive is cleared and the response ends, i.e. the connection is closed.
    Holds for every backend kind, every body framing and every history that led to the state.
    What the CLIENT can tell from it depends on the framing: a Content-Length or chunked
    (HTTP/1.1) message is left short of its announced end; a close-delimited message to an
    HTTP/1.0 client is NOT (`c10_http10_abort_invisible_witness`). -/
theorem c10_failure_after_head_aborts (cfg : Cfg) (st : St) (e : End)
    (hv : cfg.ver ≤ 1) (hc : st.cstate = .write) (ho : st.open_ = true) (hs : st.started = true)
    (hsent : st.hdrSent = true) (hbl : bodiless cfg st = false) (he : FailEnd cfg st e) :
    (onEnd cfg st e).keepAlive = false ∧ (onEnd cfg st e).cstate = .done ∧
    (onEnd cfg st e).handler = false ∧ (onEnd cfg st e).evs = pushW st.evs st.wq := by
  have hv2 : ¬ (cfg.ver ≥ 2) := by omega
  rw [onEnd_active cfg st e (Or.inr hc) ho he.ne_none (by simp [lostHandler, hc]),
      gwRecvEnd_fail cfg st e hs he, gwBackendError_sent cfg st hs hsent hbl]
  simp [conStep, hc, hv2, h1Progress, flush]

/-- **A body cut short by backend EOF / hang-up after the client-side head was written closes the
    connection** (HTTP/1.x): a Content-Length body with fewer bytes than announced, or a chunked
    backend body whose decoder is not done, is not completed towards the client — keep-alive is
    cleared, the response ends, and nothing is appended to what was queued except `ownLastChunk st`:
    the last-chunk http_chunk_close() writes for a body that lighttpd chunk-encodes ITSELF
    (`sendChunked` without a backend decoder).  For a truncated body that would need a known
    positive remaining length on a self-chunked response; lighttpd chunk-encodes itself only when
    no length is known, so `ownLastChunk st = []` in every state the relay reaches
    (`ownLastChunk_nil`) — an invariant that is NOT proved here; the model driver checks it on the
    state every correspondence run ends in (`HPT-VIOLATED`). -/
theorem c10_truncated_after_head_closes (cfg : Cfg) (st : St) (e : End)
    (hv : cfg.ver ≤ 1) (hbe : cfg.be ≠ .fcgi) (hc : st.cstate = .write) (ho : st.open_ = true)
    (hs : st.started = true) (hh : st.handler = true) (hf : st.finished = false)
    (hsent : st.hdrSent = true) (ht : bodyTruncated cfg st = true) (he : e = .eof ∨ e = .hup) :
    (onEnd cfg st e).keepAlive = false ∧ (onEnd cfg st e).cstate = .done ∧
    (onEnd cfg st e).evs = pushW st.evs (st.wq ++ (if cfg.ver = 1 then ownLastChunk st else [])) := by
  have hne : e ≠ .none := by rcases he with h | h <;> simp [h]
  rw [onEnd_active cfg st e (Or.inr hc) ho hne (by simp [lostHandler, hc]), gwRecvEnd_eofHup cfg st e hbe hs he]
  exact abort_of_gwClose_truncated cfg st hv hc hh hf hsent ht

/-- **Clean EOF completes an EOF-delimited body** (HTTP/1.1, lighttpd chunk-encodes): the
    last-chunk is written then, keep-alive stays as it was. -/
theorem c10_clean_eof_terminates_chunked (cfg : Cfg) (st : St) (e : End)
    (hbe : cfg.be ≠ .fcgi) (hv : cfg.ver = 1) (hc : st.cstate = .write) (ho : st.open_ = true)
    (hs : st.started = true) (hh : st.handler = true) (hf : st.finished = false)
    (hsc : st.sendChunked = true) (hd : st.dc = none) (hsp : st.scratch < 0) (he : e = .eof ∨ e = .hup) :
    (onEnd cfg st e).keepAlive = st.keepAlive ∧ (onEnd cfg st e).cstate = .done ∧
    (onEnd cfg st e).evs = pushW st.evs (st.wq ++ ofString "0\r\n\r\n") := by
  have hv2 : ¬ (cfg.ver ≥ 2) := by omega
  have hsp2 : ¬ (st.scratch > 0) := by omega
  have hne : e ≠ .none := by rcases he with h | h <;> simp [h]
  rw [onEnd_active cfg st e (Or.inr hc) ho hne (by simp [lostHandler, hc]), gwRecvEnd_eofHup cfg st e hbe hs he]
  have hg : gwClose cfg st =
      { st with open_ := false, finished := true, wq := st.wq ++ ofString "0\r\n\r\n" } := by
    simp [gwClose, hh, backendDone, hc, hf, BeResp.chunkClose, hsc, hd, hv, hsp2, bodyTruncated]
  rw [hg]
  simp [conStep, hc, hv2, h1Progress, flush]

/-- **HTTP/2: a response cut off after HEADERS resets the stream.**  After the response head
    went out on an HTTP/2 stream, a backend failure flags the stream, and the stream ends with
    RST_STREAM instead of END_STREAM; what was queued but not yet framed is dropped.  (Model of
    the repaired http-header-glue.c / h2.c lines; h2.c itself is exercised end to end by the
    check's real-server stream.) -/
theorem c10_h2_failure_resets_stream (cfg : Cfg) (st : St) (e : End)
    (hv : cfg.ver ≥ 2) (hc : st.cstate = .write) (ho : st.open_ = true) (hs : st.started = true)
    (hsent : st.hdrSent = true) (hbl : bodiless cfg st = false) (he : FailEnd cfg st e) :
    (onEnd cfg st e).cstate = .done ∧ (onEnd cfg st e).evs = st.evs ++ [.rst] := by
  rw [onEnd_active cfg st e (Or.inr hc) ho he.ne_none (by simp [lostHandler, hc]),
      gwRecvEnd_fail cfg st e hs he, gwBackendError_sent cfg st hs hsent hbl]
  simp [conStep, hc, hv, h2Progress]

/-- ... and so does a body cut short by backend EOF / hang-up (short of Content-Length / inside a chunked body). -/
theorem c10_h2_truncated_resets_stream (cfg : Cfg) (st : St) (e : End)
    (hv : cfg.ver ≥ 2) (hbe : cfg.be ≠ .fcgi) (hc : st.cstate = .write) (ho : st.open_ = true)
    (hs : st.started = true) (hh : st.handler = true) (hf : st.finished = false)
    (hsent : st.hdrSent = true) (ht : bodyTruncated cfg st = true) (he : e = .eof ∨ e = .hup) :
    (onEnd cfg st e).cstate = .done ∧ (onEnd cfg st e).evs = st.evs ++ [.rst] := by
  have hv1 : ¬ (cfg.ver = 1) := by omega
  have hne : e ≠ .none := by rcases he with h | h <;> simp [h]
  rw [onEnd_active cfg st e (Or.inr hc) ho hne (by simp [lostHandler, hc]),
      gwRecvEnd_eofHup cfg st e hbe hs he, gwClose_handler cfg st hh,
      backendDone_truncated_sent cfg { st with open_ := false } hc hf hsent ht]
  simp [hv1, conStep, hc, hv, h2Progress, backendAbort]

/-- **A response without body is complete with its head** (answer to HEAD, 304): whatever way the
    backend stream ends afterwards — reset, socket error, FastCGI end of stream without
    END_REQUEST — is handled exactly like an orderly close of the backend connection; no 502, no
    abort, whatever Content-Length or Transfer-Encoding the head carries. -/
theorem c10_bodiless_failure_is_clean_end (cfg : Cfg) (st : St) (e : End)
    (hs : st.started = true) (hb : bodiless cfg st = true) (he : FailEnd cfg st e) :
    gwRecvEnd cfg st e = gwClose cfg st ∧ bodyTruncated cfg st = false := by
  refine ⟨?_, by simp [bodyTruncated, hb]⟩
  rw [gwRecvEnd_fail cfg st e hs he, backendError_bodiless cfg st hs hb]

/-- **A kept-alive HTTP/1.x response always announces its length** (failure isolation): after
    http_response_write_prepare(), for a response that may carry a body (not HEAD, not 204/304),
    keep-alive survives only if Content-Length, Transfer-Encoding or Upgrade is set — a response
    whose end the client could only recognise by connection close never leaves the connection
    open for the next request. -/
theorem c10_keepalive_requires_framing (cfg : Cfg) (st : St) (hv : cfg.ver ≤ 1) (hh : cfg.head = false)
    (hk : (writePrepare cfg st).keepAlive = true) :
    (writePrepare cfg st).status = 204 ∨ (writePrepare cfg st).status = 304 ∨
    hasHdr (writePrepare cfg st).headers nContentLength = true ∨
    hasHdr (writePrepare cfg st).headers nTransferEncoding = true ∨
    hasHdr (writePrepare cfg st).headers nUpgrade = true :=
  writePrepare_keepalive_framed cfg st hv hh hk

/-- `c10_relay_exact` of DESIGN §6 for the case the proof covers end to end: a complete response
    of an HTTP backend — status line `HTTP/1.1 ddd reason` with any status ≥ 200 other than
    204/205/304, any list of ordinary end-to-end fields with pairwise different names, a
    Content-Length field (any accepted spelling `clv` of the body length), a non-empty body —
    received in one read reaches the HTTP/1.1 client as exactly: the status line of that status,
    the same fields in the same order with the same bytes, the same Content-Length value, the
    empty line and the same body bytes; the connection stays alive and the response ends,
    whatever the backend does afterwards (`e`) and whatever stream-response-body is.
    Every other composition of the same bytes into reads gives the same result by
    `c10_head_segmentation` and `c10_body_segmentation_plain`.
    MISSING for the full statement: chunked / EOF-delimited bodies, CGI-style heads, interim
    responses and trailers as universally quantified theorems (they are covered by the
    correspondence and by the decoder / reassembly theorems above, and as worked examples below). -/
theorem c10_relay_exact_partial (cfg : Cfg) (d1 d2 d3 : UInt8) (reason : Bytes)
    (fs : List (Bytes × Bytes)) (clv body : Bytes) (e : End)
    (hbe : cfg.be = .proxy) (hv : cfg.ver = 1) (hh : cfg.head = false)
    (hd : isDigit d1 ∧ isDigit d2 ∧ isDigit d3) (hc : codeOf d1 d2 d3 ≥ 200) (hr : lf ∉ reason)
    (hcode : codeOf d1 d2 d3 ≠ 204 ∧ codeOf d1 d2 d3 ≠ 205 ∧ codeOf d1 d2 d3 ≠ 304)
    (hfs : ∀ f ∈ fs, LineField f.1 f.2) (hnd : (fs.map fun kv => lower kv.1).Nodup)
    (hne : clv ≠ []) (hhead : isWs (clv.headD 0) = false) (hplus : clv.head? ≠ some 43)
    (htrim : trimRightWs clv = clv) (hclv : lf ∉ clv) (hnum : strtoI64 clv = some body.length)
    (hbody : body ≠ []) (hsize : (clHead d1 d2 d3 reason fs clv).length ≤ 65535) (hcount : fs.length + 2 < 8190) :
    (relay cfg [clHead d1 d2 d3 reason fs clv ++ body] e).evs =
      [.w (h1StatusLine cfg (codeOf d1 d2 d3) ++ h1FieldLines (fs ++ [(ofString "Content-Length", clv)]) ++
           crlf ++ crlf ++ body)] ∧
    (relay cfg [clHead d1 d2 d3 reason fs clv ++ body] e).keepAlive = true ∧
    (relay cfg [clHead d1 d2 d3 reason fs clv ++ body] e).cstate = .done ∧
    (relay cfg [clHead d1 d2 d3 reason fs clv ++ body] e).status = codeOf d1 d2 d3 :=
  relay_cl_exact cfg d1 d2 d3 reason fs clv body e hbe hv hh hd hc hr hcode hfs hnd hne hhead hplus htrim hclv hnum
    hbody hsize hcount

/-! non-vacuity of `c10_relay_exact_partial`: a concrete instance of every hypothesis -/
example : LineField (ofString "X-Foo") (ofString "bar baz") :=
  { toPlainField := ⟨by decide, by decide, by decide, by decide, by decide, by decide⟩, klf := by decide, vlf := by decide }
example : strtoI64 (ofString "005") = some (ofString "hello").length ∧ trimRightWs (ofString "005") = ofString "005" ∧
    isWs ((ofString "005").headD 0) = false ∧ (ofString "005").head? ≠ some 43 := by decide
example : clHead 50 48 48 (ofString "OK") [(ofString "X-Foo", ofString "bar")] (ofString "5") =
    ofString "HTTP/1.1 200 OK\r\nX-Foo: bar\r\nContent-Length: 5\r\n\r\n" := by decide
example : codeOf 50 48 48 = 200 := by decide

/-! ## the planned top-level statements, assembled from the parts above -/

/-! failures that lighttpd detects while reading (`onData`), not at the end of the stream -/

/-- **A chunked framing error of the backend after the response head was sent ⇒ abort** (HTTP/1.x):
    the read in which lighttpd's decoder meets malformed chunk framing (`dcFeed … = .err`, e.g.
    `c10_dechunk_missing_crlf_rejected`, `c10_dechunk_bad_size_line_rejected`) ends the response like
    a connection failure: what was decoded before the error is written, no last-chunk, keep-alive
    cleared, connection closed. -/
theorem c10_malformed_chunked_after_head_aborts (cfg : Cfg) (st : St) (d : DcSt) (data : Bytes)
    (hv : cfg.ver ≤ 1) (hbe : cfg.be ≠ .fcgi) (hc : st.cstate = .write) (ho : st.open_ = true)
    (hs : st.started = true) (hsent : st.hdrSent = true) (hbl : bodiless cfg st = false)
    (hdec : st.decodeChunked = true) (hd : st.dc = some d) (hdd : st.dcDone = 0) (hne : data ≠ [])
    (herr : (dcFeed { d with out := [] } data).mode = .err) :
    (onData cfg st data).keepAlive = false ∧ (onData cfg st data).cstate = .done ∧
    (onData cfg st data).evs = pushW st.evs
      (st.wq ++ (if st.sendChunked then [] else (dcFeed { d with out := [] } data).out)) := by
  have hv2 : ¬ (cfg.ver ≥ 2) := by omega
  have hact : onData cfg st data = conStep cfg (gwRecvData cfg st data) := by
    unfold onData
    have he : data.isEmpty = false := by cases data <;> simp_all
    simp [hc, ho, he, lostHandler]
  rw [hact, gwRecvData_dechunk_err cfg st d data hbe hs hdec hd hdd herr]
  generalize hx : dechunkErrSt st d data = x
  have xs : x.started = true := by rw [← hx]; exact hs
  have xw0 : (dechunkErrSt st d data).wq = st.wq ++ (if st.sendChunked then [] else (dcFeed { d with out := [] } data).out) := rfl
  have xh : x.hdrSent = true := by rw [← hx]; exact hsent
  have xb : bodiless cfg x = false := by rw [← hx]; exact hbl
  have xc : x.cstate = .write := by rw [← hx]; exact hc
  have xw : x.wq = st.wq ++ (if st.sendChunked then [] else (dcFeed { d with out := [] } data).out) := by rw [← hx, xw0]
  have xe : x.evs = st.evs := by rw [← hx]; rfl
  rw [gwBackendError_sent cfg x xs xh xb]
  simp [conStep, xc, hv2, h1Progress, flush, xw, xe]

/-- ... before the client-side head was written ⇒ lighttpd's own 502. -/
theorem c10_malformed_chunked_before_client_head_is_502 (cfg : Cfg) (st : St) (d : DcSt) (data : Bytes)
    (hv : cfg.ver ≤ 1) (hbe : cfg.be ≠ .fcgi) (hc : st.cstate = .handle) (ho : st.open_ = true)
    (hs : st.started = true) (hh : st.handler = true) (hsent : st.hdrSent = false) (hbl : bodiless cfg st = false)
    (hdec : st.decodeChunked = true) (hd : st.dc = some d) (hdd : st.dcDone = 0) (hne : data ≠ [])
    (herr : (dcFeed { d with out := [] } data).mode = .err) :
    OwnError cfg st (onData cfg st data) 502 := by
  have hact : onData cfg st data = conStep cfg (gwRecvData cfg st data) := by
    unfold onData
    have he : data.isEmpty = false := by cases data <;> simp_all
    simp [hc, ho, he, lostHandler, hh]
  rw [hact, gwRecvData_dechunk_err cfg st d data hbe hs hdec hd hdd herr]
  generalize hx : dechunkErrSt st d data = x
  have xs : x.started = true := by rw [← hx]; exact hs
  have xw0 : (dechunkErrSt st d data).wq = st.wq ++ (if st.sendChunked then [] else (dcFeed { d with out := [] } data).out) := rfl
  have xh : x.hdrSent = false := by rw [← hx]; exact hsent
  have xb : bodiless cfg x = false := by rw [← hx]; exact hbl
  have xc : x.cstate = .handle := by rw [← hx]; exact hc
  have xk : x.keepAlive = st.keepAlive := by rw [← hx]; rfl
  have xe : x.evs = st.evs := by rw [← hx]; rfl
  rw [gwBackendError_unsent cfg x xs xh xb]
  obtain ⟨b1, b2, b3, b4, b5, _⟩ := backendIncomplete_proj x
  exact ownError_conStep cfg st _ 502 hv (by simp [b3, xc]) rfl b2 b1 (Or.inr rfl) (by rw [← xk]; exact b4)
    (by rw [← xe]; exact b5)

/-- **FastCGI: END_REQUEST before the announced end of the body is a truncation** (HTTP/1.x, head
    already sent): when the read that delivers END_REQUEST (`readFcgi … = (st1, .finished)`)
    leaves the body short of its Content-Length or inside a chunked body, the response is aborted —
    nothing appended to what that read queued (but `ownLastChunk`, see
    `c10_truncated_after_head_closes`), keep-alive cleared, connection closed.  (A failure
    delivered through `onData`, not through the end of the stream.) -/
theorem c10_fcgi_early_end_request_aborts (cfg : Cfg) (st st1 : St) (seg : Bytes)
    (hv : cfg.ver ≤ 1) (hbe : cfg.be = .fcgi) (hc : st.cstate = .write) (ho : st.open_ = true)
    (hsent : st.hdrSent = true) (hne : seg ≠ [])
    (hr : readFcgi cfg st seg = (st1, .finished))
    (hh : st1.handler = true) (hf : st1.finished = false) (ht : bodyTruncated cfg st1 = true) :
    (onData cfg st seg).keepAlive = false ∧ (onData cfg st seg).cstate = .done ∧
    (onData cfg st seg).evs = pushW st1.evs (st1.wq ++ (if cfg.ver = 1 then ownLastChunk st1 else [])) := by
  have hact : onData cfg st seg = conStep cfg (gwRecvData cfg st seg) := by
    unfold onData
    have he : seg.isEmpty = false := by cases seg <;> simp_all
    simp [hc, ho, he, lostHandler]
  have hfr := fr1_readFcgi cfg st seg
  rw [hr] at hfr
  have hg : gwRecvData cfg st seg = gwClose cfg st1 := by
    unfold gwRecvData
    simp [hbe, hr]
  rw [hact, hg]
  exact abort_of_gwClose_truncated cfg st1 hv (hfr.1.trans hc) hh hf (hfr.2.1.trans hsent) ht

/-- how the backend stream can break while a response is being relayed -/
inductive Broken (cfg : Cfg) (st : St) : End → Prop
  /-- the backend goes away (any way) before its response head is complete -/
  | noHead (e : End) : st.started = false → st.status = 0 → st.fcgi.ended = false → e ≠ .none → Broken cfg st e
  /-- connection reset / socket error / FastCGI end of stream without END_REQUEST, while the body
      of a response that has one is unfinished -/
  | failed (e : End) : st.started = true → bodiless cfg st = false → FailEnd cfg st e → Broken cfg st e
  /-- backend EOF / hang-up short of the announced Content-Length or inside a chunked body -/
  | truncated (e : End) : st.started = true → cfg.be ≠ .fcgi → bodyTruncated cfg st = true →
      (e = .eof ∨ e = .hup) → Broken cfg st e

/-- `c10_broken_never_complete` of DESIGN §6 for HTTP/1.x, over RUNS of the relay: after any
    sequence of backend reads (`segs`, starting from the initial state — the reachability
    invariant `Inv` of Proofs/BackendResp.lean supplies that the client-side state machine, the
    "head sent" flag, `started` and `finished` are consistent), while the response is unfinished,
    a backend stream that breaks — no complete head, connection failure, FastCGI stream without
    END_REQUEST, EOF or hang-up short of Content-Length or inside a chunked body — is never
    completed by lighttpd: as long as the client-side response head has not been written the
    client gets lighttpd's own complete `500`/`502` error response (`OwnError`); afterwards
    keep-alive is cleared, the response ends, and nothing more is written than what was queued —
    except, for an EOF truncation, `ownLastChunk` (empty in every reachable state, but that
    invariant is not proved: see `c10_truncated_after_head_closes`).
    `hh`: the handler is still attached (false only after an unusable Status field inside a 1xx
    block, the behaviour reported as-is).
    `_partial`, MISSING: (1) that the abort is VISIBLE to the client — true by framing for
    Content-Length and HTTP/1.1 chunked messages (not proved: needs the accounting between
    `scratch` and the bytes written), FALSE for a close-delimited message to an HTTP/1.0 client
    (`c10_http10_abort_invisible_witness`, known finding); (2) failures that lighttpd detects
    while reading (`onData`) are separate theorems over any state, not part of `Broken`:
    `c10_malformed_chunked_*`, `c10_fcgi_early_end_request_aborts`; (3) `ownLastChunk st = []`.
    HTTP/2: `c10_h2_*`. -/
theorem c10_broken_never_complete_partial (cfg : Cfg) (segs : List Bytes) (e : End) (hv : cfg.ver ≤ 1)
    (ho : (segs.foldl (onData cfg) {}).open_ = true)
    (hact : (segs.foldl (onData cfg) {}).cstate = .handle ∨ (segs.foldl (onData cfg) {}).cstate = .write)
    (hh : (segs.foldl (onData cfg) {}).handler = true)
    (hb : Broken cfg (segs.foldl (onData cfg) {}) e) :
    (OwnError cfg (segs.foldl (onData cfg) {}) (relay cfg segs e) 500 ∨
     OwnError cfg (segs.foldl (onData cfg) {}) (relay cfg segs e) 502) ∨
    ((relay cfg segs e).keepAlive = false ∧ (relay cfg segs e).cstate = .done ∧
     ((relay cfg segs e).evs = pushW (segs.foldl (onData cfg) {}).evs (segs.foldl (onData cfg) {}).wq ∨
      (relay cfg segs e).evs = pushW (segs.foldl (onData cfg) {}).evs
        ((segs.foldl (onData cfg) {}).wq ++ ownLastChunk (segs.foldl (onData cfg) {})))) := by
  have hi : Inv (segs.foldl (onData cfg) {}) := inv_reach cfg segs {} inv_init
  unfold relay
  generalize segs.foldl (onData cfg) {} = st at *
  have hf : st.finished = false := hi.unfinished ho hact
  cases hb with
  | noHead hs h0 hfe hne =>
    rcases hact with hc | hc
    · exact Or.inl (Or.inl (c10_failure_before_head_is_5xx cfg st e hv hc ho hs hh h0 hne hfe))
    · have := hi.wstarted hc ho; rw [hs] at this; cases this
  | failed hs hbl hfail =>
    rcases hact with hc | hc
    · exact Or.inl (Or.inr (c10_failure_before_client_head_is_502 cfg st e hv hc ho hs hh (hi.handle hc) hbl hfail))
    · right
      obtain ⟨a, b, _, d⟩ := c10_failure_after_head_aborts cfg st e hv hc ho hs (hi.write hc) hbl hfail
      exact ⟨a, b, Or.inl d⟩
  | truncated hs hbe ht he =>
    rcases hact with hc | hc
    · exact Or.inl (Or.inr (c10_truncated_before_client_head_is_502 cfg st e hv hbe hc ho hs hh hf (hi.handle hc) ht he))
    · right
      obtain ⟨a, b, d⟩ := c10_truncated_after_head_closes cfg st e hv hbe hc ho hs hh hf (hi.write hc) ht he
      refine ⟨a, b, ?_⟩
      by_cases h1 : cfg.ver = 1
      · exact Or.inr (by simpa [h1] using d)
      · exact Or.inl (by simpa [h1] using d)

/-- "Visibly aborted" is FALSE for an HTTP/1.0 client with a streamed body that is delimited by
    connection close: a backend reset after part of the body gives exactly the same bytes, and
    the same orderly close, as a backend that finished (known finding; nothing short of a TCP
    reset could tell the client, and the C that would is under `#if 0`). -/
theorem c10_http10_abort_invisible_witness :
    (relay { be := .proxy, ver := 0, stream := 1 } [ofString "HTTP/1.1 200 OK\r\n\r\nhel"] .rst).evs =
      (relay { be := .proxy, ver := 0, stream := 1 } [ofString "HTTP/1.1 200 OK\r\n\r\nhel"] .eof).evs ∧
    (relay { be := .proxy, ver := 0, stream := 1 } [ofString "HTTP/1.1 200 OK\r\n\r\nhel"] .rst).keepAlive = false ∧
    (relay { be := .proxy, ver := 0, stream := 1 } [ofString "HTTP/1.1 200 OK\r\n\r\nhel"] .eof).keepAlive = false ∧
    Broken { be := .proxy, ver := 0, stream := 1 }
      (onData { be := .proxy, ver := 0, stream := 1 } {} (ofString "HTTP/1.1 200 OK\r\n\r\nhel")) .rst := by
  refine ⟨by decide, by decide, by decide, .failed _ (by decide) (by decide) (Or.inl rfl)⟩

/-- `c10_failure_isolated` of DESIGN §6 for HTTP/1.x, over runs: keep-alive survives a broken
    backend response only together with lighttpd's own complete error response, whose
    Content-Length is that of the error page (`OwnError`) — in every other case the connection is
    closed, so no later response on the connection can be mistaken for the rest of this one.
    `_partial`, MISSING: HTTP/2 multiplexing (other streams untouched) — the model has one stream
    (it gets RST_STREAM: `c10_h2_failure_resets_stream`); other streams are observed end to end
    (probe stream of `e2e-beresp`). -/
theorem c10_failure_isolated_partial (cfg : Cfg) (segs : List Bytes) (e : End) (hv : cfg.ver ≤ 1)
    (ho : (segs.foldl (onData cfg) {}).open_ = true)
    (hact : (segs.foldl (onData cfg) {}).cstate = .handle ∨ (segs.foldl (onData cfg) {}).cstate = .write)
    (hh : (segs.foldl (onData cfg) {}).handler = true)
    (hb : Broken cfg (segs.foldl (onData cfg) {}) e)
    (hk : (relay cfg segs e).keepAlive = true) :
    OwnError cfg (segs.foldl (onData cfg) {}) (relay cfg segs e) 500 ∨
    OwnError cfg (segs.foldl (onData cfg) {}) (relay cfg segs e) 502 := by
  rcases c10_broken_never_complete_partial cfg segs e hv ho hact hh hb with h | ⟨a, _, _⟩
  · exact h
  · rw [a] at hk; cases hk

/-! non-vacuity of the composite theorems: concrete reachable states / complete runs -/

/-- the state after the backend sent part of a response head -/
example : let st := onData { be := .proxy, ver := 1, stream := 1 } {} (ofString "HTTP/1.1 200 OK\r\nConte")
    st.cstate = .handle ∧ st.open_ = true ∧ st.started = false ∧ st.handler = true ∧ st.status = 0 ∧
    st.fcgi.ended = false ∧ st.finished = false := by decide
set_option maxRecDepth 100000 in
example : (relay { be := .proxy, ver := 1, stream := 1 } [ofString "HTTP/1.1 200 OK\r\nConte"] .rst).status = 500 := by
  decide
/-- `c10_head_segmentation`: the hypothesis "still incomplete, nothing decided" -/
example : headerStep { be := .proxy, ver := 1 } {} (ofString "HTTP/1.1 2") =
    ({ hbuf := ofString "HTTP/1.1 2" }, .goOn) := by decide
/-- the state after head and part of a Content-Length body were relayed in streaming mode -/
example : let st := onData { be := .proxy, ver := 1, stream := 1 } {}
                      (ofString "HTTP/1.1 200 OK\r\nContent-Length: 5\r\n\r\nhel")
    st.cstate = .write ∧ st.open_ = true ∧ st.started = true ∧ st.finished = false ∧ st.handler = true ∧
    st.scratch > 0 ∧ st.sendChunked = false ∧ st.decodeChunked = false ∧ st.hdrSent = true ∧
    bodyTruncated { be := .proxy, ver := 1, stream := 1 } st = true := by decide
/-- ... of a chunked body passed through (decoder not done), and of an EOF-delimited body -/
example : let st := onData { be := .proxy, ver := 1, stream := 1 } {}
                      (ofString "HTTP/1.1 200 OK\r\nTransfer-Encoding: chunked\r\n\r\n5\r\nhel")
    st.cstate = .write ∧ st.open_ = true ∧ st.started = true ∧ st.finished = false ∧ st.handler = true ∧
    st.sendChunked = true ∧ st.dc.isSome = true ∧ st.dcDone = 0 ∧ st.hdrSent = true ∧
    bodyTruncated { be := .proxy, ver := 1, stream := 1 } st = true := by decide
example : let st := onData { be := .scgi, ver := 1, stream := 1 } {} (ofString "Status: 200\r\n\r\nhel")
    st.cstate = .write ∧ st.open_ = true ∧ st.started = true ∧ st.finished = false ∧ st.handler = true ∧
    st.sendChunked = true ∧ st.dc = none ∧ st.scratch < 0 := by decide
/-- the state after the head and part of the body were buffered (stream-response-body = 0): the
    client-side head is not written yet; `Broken` is inhabited -/
example : let st := onData { be := .proxy, ver := 1, stream := 0 } {}
                      (ofString "HTTP/1.1 200 OK\r\nTransfer-Encoding: chunked\r\n\r\n5\r\nhello\r\n")
    st.cstate = .handle ∧ st.open_ = true ∧ st.started = true ∧ st.finished = false ∧ st.handler = true ∧
    st.hdrSent = false ∧ bodyTruncated { be := .proxy, ver := 1, stream := 0 } st = true ∧ (st.sendChunked = true → st.dc.isSome = true) := by decide
example : Broken { be := .proxy, ver := 1, stream := 0 }
    (onData { be := .proxy, ver := 1, stream := 0 } {}
      (ofString "HTTP/1.1 200 OK\r\nTransfer-Encoding: chunked\r\n\r\n5\r\nhello\r\n")) .hup :=
  .truncated _ (by decide) (by decide) (by decide) (Or.inr rfl)
/-- the invariant at work: these two states are reachable, so `Inv` holds of them -/
example : Inv (onData { be := .proxy, ver := 1, stream := 0 } {}
      (ofString "HTTP/1.1 200 OK\r\nTransfer-Encoding: chunked\r\n\r\n5\r\nhello\r\n")) := inv_onData _ _ _ inv_init
example : Inv (onData { be := .proxy, ver := 1, stream := 1 } {}
      (ofString "HTTP/1.1 200 OK\r\nContent-Length: 5\r\n\r\nhel")) := inv_onData _ _ _ inv_init
example : FailEnd { be := .fcgi, ver := 1 } {} .eof := Or.inr (Or.inr ⟨rfl, Or.inl rfl, rfl⟩)
/-! non-vacuity of the `onData` failure theorems -/
example : let cfg : Cfg := { be := .proxy, ver := 1, stream := 1 }
    let st := onData cfg {} (ofString "HTTP/1.1 200 OK\r\nTransfer-Encoding: chunked\r\n\r\n5\r\nhel")
    st.cstate = .write ∧ st.decodeChunked = true ∧ st.dcDone = 0 ∧ bodiless cfg st = false ∧
    (st.dc.map fun d => (dcFeed { d with out := [] } (ofString "loXX")).mode.isErr) = some true := by decide
example : let cfg : Cfg := { be := .fcgi, ver := 1, stream := 1 }
    let st := onData cfg {} (frEncode 6 1 (ofString "Content-Length: 5\r\n\r\nhel") [])
    let r := readFcgi cfg st (frEncode 3 1 [0, 0, 0, 0, 0, 0, 0, 0] [])
    st.cstate = .write ∧ st.hdrSent = true ∧ r.2 = .finished ∧ r.1.handler = true ∧ r.1.finished = false ∧
    bodyTruncated cfg r.1 = true ∧ r.1.sendChunked = false := by decide
/-! the fields of lighttpd's own 502 (HTTP/1.1, keep-alive): Content-Type, the page's Content-Length, Date -/
set_option maxRecDepth 100000 in
example : errFields { be := .proxy, ver := 1 } 502 true =
    ofString "\r\nContent-Type: text/html\r\nContent-Length: 162\r\nDate: Sun, 09 Sep 2001 01:46:40 GMT" := by decide
/-! a complete answer to HEAD (or a 304) followed by a backend reset is relayed -/
set_option maxRecDepth 100000 in
example : (relay { be := .proxy, ver := 1, stream := 0, head := true }
      [ofString "HTTP/1.1 200 OK\r\nContent-Length: 5\r\n\r\n"] .rst).status = 200 ∧
    (relay { be := .scgi, ver := 1, stream := 0 } [ofString "Status: 304\r\nContent-Length: 5\r\n\r\n"] .rst).status = 304 ∧
    bodiless { be := .proxy, ver := 1, head := true } {} = true := by
  refine ⟨by decide, by decide, by decide⟩
/-- the encoder's rendering of a size with an extension is an accepted size line -/
example : encHex 26 ++ ofString ";x=y" ++ [cr, lf] = ofString "1a;x=y\r\n" := by decide
/-! the runs the pinned code presented as complete `200`s are `502`s now -/
set_option maxRecDepth 100000 in
example : (relay { be := .proxy, ver := 1, stream := 0 }
       [ofString "HTTP/1.1 200 OK\r\nTransfer-Encoding: chunked\r\n\r\n5\r\nhello\r\n"] .eof).status = 502 ∧
    (relay { be := .scgi, ver := 1, stream := 0 } [ofString "Status: 200\r\n\r\nhel"] .rst).status = 502 := by
  refine ⟨by decide, by decide⟩
/-! HTTP/2: HEADERS, DATA, then RST_STREAM -/
set_option maxRecDepth 100000 in
example : ((relay { be := .proxy, ver := 2, stream := 1 }
       [ofString "HTTP/1.1 200 OK\r\nContent-Length: 5\r\n\r\nhel"] .rst).evs.getLast?) = some .rst := by decide
/-- complete runs: a Content-Length response, a chunked response with a trailer (buffered: merged into
    the head, without CR), an interim response, a truncated Content-Length body (connection closed) -/
example : (relay { be := .proxy, ver := 1, stream := 0 }
      [ofString "HTTP/1.1 200 OK\r\nX-A: b\r\nContent-Le", ofString "ngth: 2\r\n\r\nok"] .eof).evs =
    [.w (ofString "HTTP/1.1 200 OK\r\nX-A: b\r\nContent-Length: 2\r\nDate: Sun, 09 Sep 2001 01:46:40 GMT\r\n\r\nok")] := by
  decide
example : (relay { be := .proxy, ver := 1, stream := 0 }
      [ofString "HTTP/1.1 200 OK\r\nTransfer-Encoding: chunked\r\nTrailer: X-T\r\n\r\n2\r\nok\r\n0\r\nX-",
       ofString "T: v\r\n\r\n"] .eof).evs =
    [.w (ofString "HTTP/1.1 200 OK\r\nX-T: v\r\nContent-Length: 2\r\nDate: Sun, 09 Sep 2001 01:46:40 GMT\r\n\r\nok")] := by
  decide
set_option maxRecDepth 100000 in
example : (relay { be := .proxy, ver := 1, stream := 1 }
      [ofString "HTTP/1.1 103 Early Hints\r\nLink: </a>\r\n\r\nHTTP/1.1 200 OK\r\nContent-Length: 2\r\n\r\nok"] .eof).evs =
    [.w (ofString ("HTTP/1.1 103 Early Hints\r\nLink: </a>\r\n\r\nHTTP/1.1 200 OK\r\nContent-Length: 2\r\n" ++
                   "Date: Sun, 09 Sep 2001 01:46:40 GMT\r\n\r\nok"))] := by decide
example : (relay { be := .proxy, ver := 1, stream := 1 }
      [ofString "HTTP/1.1 200 OK\r\nContent-Length: 5\r\n\r\nhel"] .eof).keepAlive = false := by decide
example : PlainField (ofString "X-Foo") (ofString "bar baz") :=
  ⟨by decide, by decide, by decide, by decide, by decide, by decide⟩
example : ((([] : List (Bytes × Bytes)) ++ [(ofString "X-Foo", ofString "a"), (ofString "ETag", ofString "\"x\"")]).map
    fun kv => lower kv.1).Nodup := by decide

end LtVerif.C10
