/-
  C11 — backend pool: only live backends are used, failures fail over, load is accounted.

  Property theorems only (helper lemmas: LtVerif/Proofs/Gw.lean, Proofs/GwReach.lean).
  The model (LtVerif/Model/Gw.lean) runs the gw_backend.c bookkeeping on a world of
  hosts × procs × request slots; `run w ops` folds `step` over an arbitrary list of
  operations (request arrives, socket event, spurious wake-up, client abort, clock
  tick + trigger), each carrying an arbitrary *script* of kernel / response-reader
  answers.  Quantifying over `ops` therefore quantifies over every interleaving of
  arrivals, completions and aborts with every backend behaviour (refuse,
  accept-then-close, hang, reset, come back), for every pool shape and balance mode.
-/
import LtVerif.Proofs.GwRetry
namespace LtVerif.C11
open LtVerif LtVerif.Gw

/-! ## load figures = requests in flight -/

/-- **c11_load_exact** (invariant form): the accounting invariant is preserved by every
    operation, whatever the kernel and the backends answer. -/
theorem c11_load_exact_step (w : World) (op : Op) (h : Acct none w) : Acct none (step w op) :=
  acct_step op h

/-- **c11_load_exact**: after every history, from every configuration, the per-host
    load, the per-proc load and the global "gw.active-requests" figure — both the
    struct fields the balancer reads and the statistics values mod_status prints —
    equal the number of request contexts holding that host / that proc / any proc. -/
theorem c11_load_exact (balance : Nat) (wkr : Bool) (nslots : Nat) (specs : List HostSpec) (ops : List Op) :
    let w := run (initWorld balance wkr nslots specs) ops
    (∀ h, (w.host h).load = hostCnt w h ∧ (w.host h).statLoad = hostCnt w h) ∧
    (∀ h p, (w.proc h p).load = procCnt w h p ∧ (w.proc h p).statLoad = procCnt w h p) ∧
    w.globalActive = anyProcCnt w := by
  intro w
  have hA : Acct none w := acct_run ops (acct_init balance wkr nslots specs)
  exact ⟨fun h => ⟨hA.hostLoad h, by rw [hA.hostStat, hA.hostLoad]⟩,
         fun h p => ⟨hA.procLoad h p, by rw [hA.procStat, hA.procLoad]⟩, hA.global⟩

/-- never negative; zero when idle (no request context left) -/
theorem c11_load_nonneg_zero_idle (balance : Nat) (wkr : Bool) (nslots : Nat) (specs : List HostSpec)
    (ops : List Op) :
    let w := run (initWorld balance wkr nslots specs) ops
    (∀ h, 0 ≤ (w.host h).load ∧ 0 ≤ (w.host h).statLoad) ∧
    (∀ h p, 0 ≤ (w.proc h p).load ∧ 0 ≤ (w.proc h p).statLoad) ∧ 0 ≤ w.globalActive ∧
    ((∀ s, w.slot s = none) →
      (∀ h, (w.host h).load = 0 ∧ (w.host h).statLoad = 0) ∧
      (∀ h p, (w.proc h p).load = 0 ∧ (w.proc h p).statLoad = 0) ∧ w.globalActive = 0 ∧ w.curFds = 0) := by
  intro w
  have hA : Acct none w := acct_run ops (acct_init balance wkr nslots specs)
  have hpc : w.pendClose = 0 := run_pendClose _ ops rfl
  clear_value w
  have hh : ∀ h, (w.host h).load = hostCnt w h ∧ (w.host h).statLoad = hostCnt w h :=
    fun h => ⟨hA.hostLoad h, by rw [hA.hostStat, hA.hostLoad]⟩
  have hp : ∀ h p, (w.proc h p).load = procCnt w h p ∧ (w.proc h p).statLoad = procCnt w h p :=
    fun h p => ⟨hA.procLoad h p, by rw [hA.procStat, hA.procLoad]⟩
  have hg := hA.global
  refine ⟨?_, ?_, ?_, ?_⟩
  · intro h
    rw [(hh h).1, (hh h).2]
    exact ⟨sumTo_nonneg _ _ (fun _ _ => hostC_nonneg _ _), sumTo_nonneg _ _ (fun _ _ => hostC_nonneg _ _)⟩
  · intro h p
    rw [(hp h p).1, (hp h p).2]
    exact ⟨sumTo_nonneg _ _ (fun _ _ => procC_nonneg _ _ _), sumTo_nonneg _ _ (fun _ _ => procC_nonneg _ _ _)⟩
  · rw [hg]; exact sumTo_nonneg _ _ (fun _ _ => anyProcC_nonneg _)
  · intro hidle
    refine ⟨?_, ?_, ?_, ?_⟩
    · intro h
      rw [(hh h).1, (hh h).2]
      have : hostCnt w h = 0 := sumTo_eq_zero _ _ (fun i _ => by simp [hidle i, hostC])
      exact ⟨this, this⟩
    · intro h p
      rw [(hp h p).1, (hp h p).2]
      have : procCnt w h p = 0 := sumTo_eq_zero _ _ (fun i _ => by simp [hidle i, procC])
      exact ⟨this, this⟩
    · rw [hg]; exact sumTo_eq_zero _ _ (fun i _ => by simp [hidle i, anyProcC])
    · have hf := hA.fds
      have : fdCnt w = 0 := sumTo_eq_zero _ _ (fun i _ => by simp [hidle i, fdC])
      rw [hf, this, hpc]; rfl

/-- **c11_no_ctx_leak**: after every history no descriptor is waiting to be closed,
    srv->cur_fds equals the number of contexts holding a backend socket, and every
    socket ever opened is either still held by a context or was closed exactly once
    (`opened`/`closed` are ghost counters of socket() and close()). -/
theorem c11_no_ctx_leak (balance : Nat) (wkr : Bool) (nslots : Nat) (specs : List HostSpec) (ops : List Op) :
    let w := run (initWorld balance wkr nslots specs) ops
    w.pendClose = 0 ∧ w.curFds = fdCnt w ∧ (w.opened : Int) = w.closed + fdCnt w := by
  intro w
  have hA : Acct none w := acct_run ops (acct_init balance wkr nslots specs)
  have hpc : w.pendClose = 0 := run_pendClose _ ops rfl
  have h1 := hA.fds
  have h2 := hA.ghost
  rw [hpc] at h1 h2
  exact ⟨hpc, by simpa using h1, by simpa using h2⟩

/-! ## only available backends are used -/

/-- **c11_active_exact**: host->active_procs always equals the number of RUNNING procs,
    so "active_procs > 0" means "some proc of the host is RUNNING". -/
theorem c11_active_exact (balance : Nat) (wkr : Bool) (nslots : Nat) (specs : List HostSpec) (ops : List Op) :
    let w := run (initWorld balance wkr nslots specs) ops
    (∀ h, (w.host h).active = runningCnt w h) ∧
    (∀ h, (w.host h).active ≠ 0 ↔ ∃ p, p < (w.host h).nprocs ∧ (w.proc h p).state = .running) := by
  intro w
  have hA : Avail w := avail_reach (reach_run _ ops) (avail_init balance wkr nslots specs)
  exact ⟨hA, fun h => avail_pos_iff hA h⟩

/-- **c11_only_available** (host choice): in every balance mode gw_host_get() returns a
    configured host with active_procs ≠ 0 — or none, and none only if no host is
    available (⇒ 503 instead of a dead backend). -/
theorem c11_only_available (w : World) (key : Nat) :
    (∀ h, (hostPick w key).1 = some h → h < w.nhosts ∧ (w.host h).active ≠ 0) ∧
    (w.balance ≤ 3 → (∃ j, j < w.nhosts ∧ (w.host j).active ≠ 0 ∧ (w.host j).load < intMax) →
      ∃ h, (hostPick w key).1 = some h) :=
  ⟨fun h hh => hostPick_available w key h hh, fun hb hex => hostPick_complete w key hb hex⟩

/-- **c11_only_available** (proc choice): GW_STATE_INIT connects only to a RUNNING proc of
    the host, and (availability being exact) finds one on every host gw_host_get() returned. -/
theorem c11_dispatch_running (w : World) (h : Nat) :
    (∀ p, pickProc w h = some p → p < (w.host h).nprocs ∧ (w.proc h p).state = .running) ∧
    (Avail w → (w.host h).active ≠ 0 → ∃ p, pickProc w h = some p) :=
  ⟨fun _ hp => pickProc_running hp, fun hA hact => pickProc_complete hA h hact⟩

/-- **c11_lc_min**: least-connection returns the first available host of minimal load. -/
theorem c11_lc_min (w : World) (key h : Nat) (hn : 1 < w.nhosts) (hb : w.balance = 0)
    (hh : (hostPick w key).1 = some h) :
    (∀ j, j < w.nhosts → (w.host j).active ≠ 0 → (w.host h).load ≤ (w.host j).load) ∧
    (∀ j, j < h → (w.host j).active ≠ 0 → (w.host h).load < (w.host j).load) := by
  unfold hostPick at hh
  rw [if_neg (by omega), if_pos hb] at hh
  obtain ⟨h1, h2, _, _⟩ := lcPick_spec w
  obtain ⟨a1, _, a3, a4⟩ := h2 h hh
  refine ⟨fun j hj hact => by rw [a3]; exact h1 j hj hact, fun j hj hact => ?_⟩
  rw [a3]; exact a4 j (by omega) hj hact

/-- **c11_rr_fair**: round-robin returns the next available host after last_used_ndx,
    cyclically, and remembers it. -/
theorem c11_rr_fair (w : World) (key h : Nat) (hn : 1 < w.nhosts) (hb : w.balance = 1)
    (hh : (hostPick w key).1 = some h) :
    (hostPick w key).2 = h ∧
    (((w.lastUsed + 1).toNat ≤ h ∧ ∀ i, (w.lastUsed + 1).toNat ≤ i → i < h → (w.host i).active = 0) ∨
     (h < (w.lastUsed + 1).toNat ∧ (∀ i, (w.lastUsed + 1).toNat ≤ i → i < w.nhosts → (w.host i).active = 0) ∧
        ∀ i, i < h → (w.host i).active = 0)) := by
  unfold hostPick at hh ⊢
  rw [if_neg (by omega), if_neg (by omega), if_pos hb] at hh ⊢
  cases hp : rrPick w with
  | none => simp [hp] at hh
  | some j =>
    simp only [hp] at hh ⊢
    simp at hh; subst hh
    exact ⟨rfl, ((rrPick_spec w).1 j hp).2.2⟩

/-- hash / sticky: the available host maximising `request hash XOR host hash`. -/
theorem c11_hash_max (w : World) (key h : Nat) (hn : 1 < w.nhosts) (hb : w.balance = 2 ∨ w.balance = 3)
    (hh : (hostPick w key).1 = some h) :
    ∀ j, j < w.nhosts → (w.host j).active ≠ 0 →
      baseHash w.balance key ^^^ (w.host j).gwHash ≤ baseHash w.balance key ^^^ (w.host h).gwHash := by
  unfold hostPick at hh
  rw [if_neg (by omega), if_neg (by omega), if_neg (by omega), if_pos hb] at hh
  obtain ⟨h1, h2, _⟩ := hashPick_spec w (baseHash w.balance key)
  obtain ⟨_, _, a3⟩ := h2 h hh
  intro j hj hact
  rw [a3]; exact h1 j hj hact

/-! ## failed backends leave the rotation for their disable-time, and come back -/

/-- **c11_disable_reenable** (1): a connect failure on a remote proc (or the first one
    reported for a local proc) marks it OVERLOADED until now + disable-time. -/
theorem c11_connect_failure_disables (w : World) (h p pid : Nat)
    (hc : (w.proc h p).isLocal = false ∨ ((w.proc h p).pid = pid ∧ (w.proc h p).state = .running)) :
    ((connectError w h p pid).proc h p).state = .overloaded ∧
    ((connectError w h p pid).proc h p).disabledUntil = w.now + (w.host h).disableTime :=
  connectError_disables w h p pid hc

/-- **c11_disable_reenable** (2), the window: a proc that is OVERLOADED with
    `disabled_until ≥ D` stays OVERLOADED, keeps `disabled_until ≥ D`, and receives **no**
    connect() in any continuation of the history, for as long as the clock has not passed
    D — whatever else fails, times out or is re-enabled meanwhile.  (`WInv`: an OVERLOADED
    proc was disabled at most disable-time into the future; true of every reachable world.) -/
theorem c11_disable_window (w : World) (hW : WInv w) (ops : List Op) (h p : Nat) (D : Int)
    (hs : (w.proc h p).state = .overloaded) (hD : D ≤ (w.proc h p).disabledUntil)
    (hnow : (run w ops).now ≤ D) :
    ((run w ops).proc h p).state = .overloaded ∧ D ≤ ((run w ops).proc h p).disabledUntil ∧
    ∃ new, (run w ops).log = new ++ w.log ∧ ∀ e, e ∈ new → ∀ s, e ≠ Ev.dispatch s h p := by
  obtain ⟨⟨a, b⟩, c⟩ := window_reach (reach_run w ops) hW ⟨hs, hD⟩ hnow
  exact ⟨a, b, c⟩

/-- … in particular from every state reached by any history from any configuration -/
theorem c11_disable_window_reachable (balance : Nat) (wkr : Bool) (nslots : Nat) (specs : List HostSpec)
    (ops ops' : List Op) (h p : Nat) (D : Int) :
    let w := run (initWorld balance wkr nslots specs) ops
    let w' := run w ops'
    (w.proc h p).state = .overloaded → D ≤ (w.proc h p).disabledUntil → w'.now ≤ D →
    (w'.proc h p).state = .overloaded ∧ D ≤ (w'.proc h p).disabledUntil ∧
    ∃ new, w'.log = new ++ w.log ∧ ∀ e, e ∈ new → ∀ s, e ≠ Ev.dispatch s h p := by
  intro w w' hs hD hnow
  exact c11_disable_window w (winv_reach (reach_run _ ops) (winv_init balance wkr nslots specs))
    ops' h p D hs hD hnow

/-- **c11_disable_reenable** (3): the first trigger after `disabled_until` brings the proc
    back (for a host with no request waiting on it; a request timing out in the same
    tick may disable it again, which (2) then covers). -/
theorem c11_reenable_after (w : World) (h p : Nat) (he : (w.host h).hctxs = [])
    (hp : p < (w.host h).nprocs) (hs : (w.proc h p).state = .overloaded)
    (ht : (w.proc h p).disabledUntil < w.now) :
    ((triggerHost w h).proc h p).state = .running :=
  triggerHost_enables w h p he hp hs ht

/-- time never runs backwards and the configuration is never changed by a history
    (what the window theorem silently relies on) -/
theorem c11_static (w : World) (ops : List Op) :
    w.now ≤ (run w ops).now ∧ (run w ops).nhosts = w.nhosts ∧
    (∀ h, ((run w ops).host h).nprocs = (w.host h).nprocs ∧
          ((run w ops).host h).disableTime = (w.host h).disableTime) := by
  have S := reach_static (reach_run w ops)
  exact ⟨S.now, S.nhosts, fun h => ⟨S.nprocs h, S.disableTime h⟩⟩

/-! ## retries are bounded and end in an error status -/

/-- **c11_retry_budget**: the retry decision of every failure path.
    (1) gw_write_error() before the request was sent (GW_STATE_INIT / CONNECT_DELAYED):
        with 5 reconnects used up it gives up (HANDLER_FINISHED via gw_backend_error, i.e. 5xx),
        otherwise it is exactly one gw_reconnect() with the counter incremented;
    (2) gw_recv_response_error(): retried only if no request byte was sent, no response
        begun and fewer than 5 reconnects used;
    (3) a retry (HANDLER_COMEBACK) lands in GW_STATE_INIT on a host gw_host_get() chose, which
        has active_procs ≠ 0; without such a host the request is finished (503) instead. -/
theorem c11_retry_budget (w : World) (s : Nat) :
    ((w.linkOf s).state = .init ∨ (w.linkOf s).state = .connectDelayed →
      (5 ≤ (w.auxOf s).reconnects → (writeError w s).1 = .finished) ∧
      ((w.auxOf s).reconnects < 5 →
        (writeError w s).1 = .finished ∨
        ((writeError w s).1 = .comeback ∧
          writeError w s = reconnect ((restartIfLocal w s).updAux s
            fun a => { a with reconnects := a.reconnects + 1 }) s))) ∧
    (((w.auxOf s).started = true ∨ (w.auxOf s).bytesOut ≠ 0 ∨ 5 ≤ (w.auxOf s).reconnects →
        (recvResponseError w s).1 = .finished) ∧
      ((recvResponseError w s).1 = .comeback →
        (w.auxOf s).started = false ∧ (w.auxOf s).bytesOut = 0 ∧ (w.auxOf s).reconnects < 5)) ∧
    (((reconnect w s).1 = .comeback ∨ (reconnect w s).1 = .finished) ∧
      ((reconnect w s).1 = .comeback →
        ∃ h, h < w.nhosts ∧ (w.host h).active ≠ 0 ∧
          ∀ l, lk (reconnect w s).2 s = some l → l.host = some h ∧ l.state = .init)) := by
  refine ⟨fun hst => writeError_budget w s hst, recvResponseError_budget w s, reconnect_rc w s, ?_⟩
  intro hc
  obtain ⟨h, _, a, b, c⟩ := reconnect_comeback w s hc
  exact ⟨h, a, b, c⟩

/-- **c11_retry_bounded**: never an unbounded wait inside one event.  `mu s w` = 6 × (scripted
    kernel/backend answers not yet consumed) + (retry budget of slot s left).  Whatever
    the kernel and the backends answer, every HANDLER_COMEBACK that gw_handle_subrequest()
    returns strictly decreases `mu` (a retry either uses up budget, or follows an immediately
    successful connect() — the only thing that resets the counter — which consumed an
    answer), so the COMEBACK loop of http_response_handler() ends after at most `mu + 1`
    rounds: running it with any larger fuel, in particular the model's `conFuel`, gives
    the same result, i.e. the fuel is never what ends the loop. -/
theorem c11_retry_bounded (w : World) (s : Nat) :
    ((w.slot s).isSome → (subrequest w s).1 = .comeback → mu s (subrequest w s).2 < mu s w) ∧
    (∀ n, conFuel w ≤ n → runCon n w s = runCon (conFuel w) w s) := by
  refine ⟨fun hs hc => subrequest_strict w s hs hc, fun n hn => ?_⟩
  have := conFuel_gt_mu w s
  exact runCon_fuel n (conFuel w) w s (by omega) this

/-- **c11_giveup_5xx**: "otherwise the client receives a 5xx".  Where the code gives up on a
    request whose response has not begun — (1) the tail of gw_write_error(), (2)
    gw_backend_error() from any other path, (3) gw_host_get() finding no available host —
    the request handler is dropped and the status is an error: ≥ 500, or the 400 a failed
    create_env had already decided. -/
theorem c11_giveup_5xx (w : World) (s : Nat) (hs : (w.slot s).isSome) (hns : (w.auxOf s).started = false) :
    ((w.auxOf s).handler = true →
      ((writeErrorTail w s).2.auxOf s).handler = false ∧
      (500 ≤ ((writeErrorTail w s).2.auxOf s).status ∨ ((writeErrorTail w s).2.auxOf s).status = 400)) ∧
    ((w.auxOf s).handler = true →
      ((backendError w s).2.auxOf s).handler = false ∧
      ((backendError w s).2.auxOf s).status =
        (if (w.auxOf s).status < 500 ∧ (w.auxOf s).status ≠ 400 then 500 else (w.auxOf s).status)) ∧
    ((hostGet w s).1 = none →
      ((hostGet w s).2.auxOf s).status = 503 ∧ ((hostGet w s).2.auxOf s).handler = false) := by
  refine ⟨fun hh => writeErrorTail_seen w s hs hns hh, fun hh => ?_, fun hn => hostGet_none_seen w s hs hn⟩
  have E := backendError_seen w s hs hns
  exact ⟨E.1, E.2.2.1 hh⟩

/-- **c11_timeout_releases**: "… instead of hanging".  gw_handle_trigger_host_timeouts() fires
    the timeout handler as soon as a configured deadline has passed (connect: CONNECT_DELAYED
    longer than connect-timeout; read: polling for input longer than read-timeout), and
    after the handler — for every kind and whatever the backends answer meanwhile — the
    request no longer waits on that backend: it holds no socket and no proc, and either
    restarts in GW_STATE_INIT on a host gw_host_get() chose or holds no host at all
    (finished with 503/504, see c11_giveup_5xx). -/
theorem c11_timeout_releases (w : World) (h s kind : Nat) (hA : Acct none w) :
    ((w.linkOf s).state = .connectDelayed → w.now - (w.auxOf s).writeTs > (w.host h).ctimeout →
      (w.host h).ctimeout ≠ 0 → timeoutStep h w s = hctxTimeout w s 0) ∧
    ((w.linkOf s).state ≠ .connectDelayed → (w.auxOf s).evIn = true →
      w.now - (w.auxOf s).readTs > (w.host h).rtimeout → (w.host h).rtimeout ≠ 0 →
      timeoutStep h w s = hctxTimeout w s 1) ∧
    (∀ l, lk (hctxTimeout w s kind) s = some l →
      l.fd = false ∧ l.proc = none ∧ (l.state = .init ∨ l.host = none)) := by
  refine ⟨(timeoutStep_fires h w s).1, (timeoutStep_fires h w s).2, ?_⟩
  intro l hl
  have R := hctxTimeout_released w s kind hA
  have N := released_holds_nothing (acct_hctxTimeout s kind hA) R l hl
  exact ⟨N.1, N.2, R l hl⟩

/-- the driver re-tabulates the maps of the world after every operation (`compact`); that is
    the identity, so `ltm_gw` runs exactly the `step` the theorems above are about -/
theorem c11_driver_compact (w : World) : compact w = w := compact_eq w

/-! ## non-vacuity: the hypotheses above are met by concrete, non-trivial worlds -/

private def spec2 : List HostSpec := [⟨1, 2, 3, 0, 0, 'r'⟩, ⟨2, 2, 3, 0, 0, 'r'⟩]
private def w0 : World := initWorld 0 false 3 spec2
/-- host 0 just refused a connection at t = 1000 (disable-time 2) -/
private def w1 : World := connectError w0 0 0 0
/-- … and the clock is now past the window -/
private def w2 : World := { w1 with now := 1003 }
/-- a request context parked in GW_STATE_INIT on host 1 with one reconnect used -/
private def w3 : World :=
  { w0 with slot := fun i => if i = 0 then some { link := { hctx := true, host := some 1 },
                                                   aux := { handler := true, reconnects := 1 } } else none }

-- c11_load_exact_step: the invariant holds initially and in every reachable world
example : Acct none w0 := acct_init 0 false 3 spec2
example : Acct none (run w0 [.arrive 0 1 {}, .arrive 1 2 { conn := ['r', 'k'] }, .tick 1 {}]) :=
  acct_run _ (acct_init 0 false 3 spec2)

-- c11_only_available / c11_lc_min / c11_dispatch_running on the two-host pool
example : (hostPick w0 7).1 = some 0 := by decide
example : 1 < w0.nhosts ∧ w0.balance = 0 := by decide
example : ∃ j, j < w0.nhosts ∧ (w0.host j).active ≠ 0 ∧ (w0.host j).load < intMax := ⟨1, by decide⟩
example : pickProc w0 1 = some 0 := by decide
example : Avail w0 := avail_init 0 false 3 spec2
-- after host 0 failed, least-connection fails over to host 1
example : (w1.host 0).active = 0 ∧ (hostPick w1 7).1 = some 1 := by decide
-- round-robin and hash pools
example : (hostPick (initWorld 1 false 3 spec2) 7) = (some 0, 0) := by decide
example : ∃ h, (hostPick (initWorld 2 false 3 spec2) 7).1 = some h :=
  hostPick_complete _ 7 (by decide) ⟨0, by decide⟩

-- c11_connect_failure_disables / c11_disable_window / c11_reenable_after
example : (w0.proc 0 0).isLocal = false := by decide
example : (w1.proc 0 0).state = .overloaded ∧ (w1.proc 0 0).disabledUntil = 1002 := by
  have h := c11_connect_failure_disables w0 0 0 0 (Or.inl (by decide))
  exact ⟨h.1, h.2.trans (by decide)⟩
example : WInv w1 := winv_reach (reach_connectError w0 0 0 0 (by decide)) (winv_init 0 false 3 spec2)
example : (w2.host 0).hctxs = [] ∧ 0 < (w2.host 0).nprocs ∧ (w2.proc 0 0).state = .overloaded ∧
    (w2.proc 0 0).disabledUntil < w2.now := by decide
example : ((triggerHost w2 0).proc 0 0).state = .running :=
  c11_reenable_after w2 0 0 (by decide) (by decide) (by decide) (by decide)

-- c11_retry_budget / c11_retry_bounded / c11_giveup_5xx: a context in GW_STATE_INIT with budget left
example : (w3.linkOf 0).state = .init ∧ (w3.auxOf 0).reconnects < 5 ∧ (w3.auxOf 0).started = false ∧
    (w3.slot 0).isSome = true ∧ (w3.auxOf 0).handler = true ∧
    mu 0 { w3 with script := { conn := ['r', 'r'] } } = 16 := by
  decide
-- c11_timeout_releases: a world satisfying the accounting invariant with a request waiting
-- for a delayed connect() on host 0 since t = 1000, the clock past connect-timeout 3
example : Acct none (run w0 [.arrive 0 1 { conn := ['p'] }, .tick 2 {}]) :=
  acct_run _ (acct_init 0 false 3 spec2)

end LtVerif.C11
