/-
  C11 — backend pool: only live backends are used, failures fail over, load is accounted.

  Property theorems only (helper lemmas: LtVerif/Proofs/Gw.lean, GwReach.lean, GwRetry.lean,
  GwBound.lean).
  The model (LtVerif/Model/Gw.lean) runs the gw_backend.c bookkeeping on a world of
  hosts × procs × request slots; `run w ops` folds `step` over an arbitrary list of
  operations (request arrives, socket event, spurious wake-up, client abort, clock
  tick + trigger), each carrying an arbitrary *script* of kernel / response-reader
  answers.  Quantifying over `ops` therefore quantifies over every interleaving of
  arrivals, completions and aborts with every backend behaviour (refuse,
  accept-then-close, hang, reset, come back), for every pool shape and balance mode.

  Kinds of statement below, so that none is read for more than it says:
  * ∀-history  — about `run (initWorld …) ops` for every configuration and every `ops`
                 (c11_load_exact, _load_nonneg_zero_idle, _stats_exact_partial, _no_ctx_leak,
                 _active_exact, _dispatch_history, _disable_window_reachable, _retry_bounded);
  * ∀-continuation — about `run w ops` from any world meeting a stated invariant
                 (c11_disable_window, _failover_elsewhere, _static);
  * key builder — gw_status_get_counter() as modelled byte for byte in Model/GwStat.lean, for all host ids,
                 proc ids and tags (c11_stat_key_inj, _stat_entry_inj, _stat_entry_case_alias, _stat_key_dotted_alias);
  * per call   — what one C function does on an arbitrary world (c11_only_available,
                 _dispatch_running, _lc_min, _rr_fair, _hash_max, _connect_failure_disables,
                 _reenable_after, _trigger_settles, _retry_budget, _giveup_5xx,
                 _giveup_502_incomplete, _timeout_releases).  These are specifications of a decision, not of a history.
-/
import LtVerif.Proofs.GwBound
import LtVerif.Proofs.GwStat
namespace LtVerif.C11
open LtVerif LtVerif.Gw

/-! ## load figures = requests in flight -/

/-- **c11_load_exact** (invariant form): the accounting invariant is preserved by every
    operation, whatever the kernel and the backends answer. -/
theorem c11_load_exact_step (w : World) (op : Op) (h : Acct none w) : Acct none (step w op) :=
  acct_step op h

/-- **c11_load_exact**: after every history, from every configuration, host->load, proc->load
    (the struct fields the balancer reads) and the global "gw.active-requests" figure equal
    the number of request contexts holding that host / that proc / any proc.  (The figures
    mod_status prints per host and per proc are a different matter: c11_stats_exact_partial.) -/
theorem c11_load_exact (balance : Nat) (wkr : Bool) (nslots : Nat) (specs : List HostSpec) (ops : List Op) :
    let w := run (initWorld balance wkr nslots specs) ops
    (∀ h, (w.host h).load = hostCnt w h) ∧
    (∀ h p, (w.proc h p).load = procCnt w h p) ∧
    w.globalActive = anyProcCnt w := by
  intro w
  have hA : Acct none w := acct_run ops (acct_init balance wkr nslots specs)
  exact ⟨hA.hostLoad, hA.procLoad, hA.global⟩

/-- **c11_stats_exact_partial**: the reported figures.  lighttpd keeps them in a table keyed by
    text, "gw.backend.<host label>.load" and "gw.backend.<host label>.<proc index>.load", and
    stores the struct field into the entry whenever the field changes (`World.hstat`,
    `World.pstat`, written by `setHostLoad` / `setProcLoad`).  PARTIAL: if no two hosts carry
    the same label (`LabelInj`; `initWorld` labels host i with i+1, as the `"h<i>" => (…)`
    configurations of the harness do), then after every history the entry of every host and
    proc equals the number of requests in flight on it.  Without that hypothesis the claim is
    false of model and code alike: c11_stats_alias_witness. -/
theorem c11_stats_exact_partial (w0 : World) (hi : LabelInj w0) (hS : StatExact w0) (hA0 : Acct none w0)
    (ops : List Op) :
    let w := run w0 ops
    (∀ h, w.hstat (w.host h).label = hostCnt w h) ∧
    (∀ h p, w.pstat (w.host h).label p = procCnt w h p) := by
  intro w
  have hA : Acct none w := acct_run ops hA0
  have hS' : StatExact w := stat_reach (reach_run w0 ops) hi hS
  exact ⟨fun h => (hS'.1 h).trans (hA.hostLoad h), fun h p => (hS'.2 h p).trans (hA.procLoad h p)⟩

/-- … in particular from every configuration with labelled hosts -/
theorem c11_stats_exact_labelled (balance : Nat) (wkr : Bool) (nslots : Nat) (specs : List HostSpec)
    (ops : List Op) :
    let w := run (initWorld balance wkr nslots specs) ops
    (∀ h, w.hstat (w.host h).label = hostCnt w h) ∧
    (∀ h p, w.pstat (w.host h).label p = procCnt w h p) :=
  c11_stats_exact_partial _ (labelInj_init balance wkr nslots specs) (stat_init balance wkr nslots specs)
    (acct_init balance wkr nslots specs) ops

/-- **c11_stats_alias_witness**: the negation of c11_stats_exact_partial without its hypothesis.
    Two hosts written as an anonymous list `(( … ), ( … ))` have no label, so both use the
    entry "gw.backend..load".  One request arrives and is connected to host 0: the entry that
    is also host 1's now reads 1 while no request is on host 1 — "the per-host load figure
    lighttpd reports" is not the number of requests in flight there. -/
theorem c11_stats_alias_witness :
    let w0 := anonymize (initWorld 0 false 2 [⟨1, 1, 0, 0, 0, 'r'⟩, ⟨1, 1, 0, 0, 0, 'r'⟩])
    let w := run w0 [.arrive 0 1 { conn := ['k'] }]
    (w0.host 0).label = (w0.host 1).label ∧ Acct none w ∧
    w.hstat (w.host 1).label = 1 ∧ hostCnt w 1 = 0 ∧
    w.pstat (w.host 1).label 0 = 1 ∧ procCnt w 1 0 = 0 := by
  intro w0 w
  refine ⟨rfl, ?_, by decide, by decide, by decide, by decide⟩
  have h0 : Acct none (initWorld 0 false 2 [⟨1, 1, 0, 0, 0, 'r'⟩, ⟨1, 1, 0, 0, 0, 'r'⟩]) := acct_init _ _ _ _
  exact acct_run _ ⟨h0.hostLoad, h0.hostStat, h0.procLoad, h0.procStat, h0.global, h0.fds, h0.ghost, h0.slots, h0.range⟩

/-! ## the statistics key (gw_status_get_counter): what `LabelInj` stands for in the real key space -/

/-- **c11_stat_key_inj**: for ALL host ids without a '.', all proc ids and all tags of the shape
    gw_backend.c uses (a dot, then a non-digit: ".load" ".connected" ".died" ".overloaded"
    ".disabled"), the key "gw.backend.<id>[.<n>]<tag>" built by gw_status_get_counter()
    determines host id, proc (or host-level) and tag. -/
theorem c11_stat_key_inj (id id' : Bytes) (pr pr' : Option Nat) (t t' : Bytes)
    (hid : GwStat.dot ∉ id) (hid' : GwStat.dot ∉ id') (ht : GwStat.TagOk t) (ht' : GwStat.TagOk t')
    (h : GwStat.statKey id pr t = GwStat.statKey id' pr' t') : id = id' ∧ pr = pr' ∧ t = t' :=
  GwStat.statKey_inj hid hid' ht ht' h

/-- **c11_stat_entry_inj**: … and the plugin_stats ENTRY (array_get_int_ptr: equal length and equal after
    folding A–Z to lower case, `sameEntry`) determines them up to letter case: two counters are one
    entry only if they are the same counter (same proc or both host-level, same tag) of hosts whose ids
    differ at most in letter case.  This is the side condition of c11_stats_exact_partial in the real key
    space: the numeric `Host.label` of the world model stands for the case-folded host id. -/
theorem c11_stat_entry_inj (id id' : Bytes) (pr pr' : Option Nat) (t t' : Bytes)
    (hid : GwStat.dot ∉ id) (hid' : GwStat.dot ∉ id') (ht : t ∈ GwStat.tags) (ht' : t' ∈ GwStat.tags)
    (h : GwStat.sameEntry (GwStat.statKey id pr t) (GwStat.statKey id' pr' t') = true) :
    GwStat.lower id = GwStat.lower id' ∧ pr = pr' ∧ GwStat.lower t = GwStat.lower t' :=
  GwStat.sameEntry_inj hid hid' (GwStat.tags_ok t ht) (GwStat.tags_ok t' ht') h

/-- conversely ids that differ only in letter case DO share every entry (no hypothesis on dots) -/
theorem c11_stat_entry_case_alias (id id' : Bytes) (pr : Option Nat) (t : Bytes)
    (h : GwStat.lower id = GwStat.lower id') :
    GwStat.sameEntry (GwStat.statKey id pr t) (GwStat.statKey id' pr t) = true :=
  GwStat.sameEntry_of_fold h rfl

/-- **c11_stat_key_dotted_alias**: the hypothesis "no '.' in the host id" cannot be dropped, in the
    model as in the code (the harness finds the same int* for both): the host-level load entry
    of a host named "a.1" IS the load entry of proc 1 of a host named "a" — distinct labels, one
    counter.  (A variant of the known finding `statistics label shared by unlabeled hosts`.) -/
theorem c11_stat_key_dotted_alias :
    GwStat.statKey (B.ofString "a.1") none (B.ofString ".load") =
      GwStat.statKey (B.ofString "a") (some 1) (B.ofString ".load") ∧
    GwStat.lower (B.ofString "a.1") ≠ GwStat.lower (B.ofString "a") := by
  constructor
  · decide
  · decide

/-- never negative; zero when idle (no request context left) -/
theorem c11_load_nonneg_zero_idle (balance : Nat) (wkr : Bool) (nslots : Nat) (specs : List HostSpec)
    (ops : List Op) :
    let w := run (initWorld balance wkr nslots specs) ops
    (∀ h, 0 ≤ (w.host h).load) ∧
    (∀ h p, 0 ≤ (w.proc h p).load) ∧ 0 ≤ w.globalActive ∧
    ((∀ s, w.slot s = none) →
      (∀ h, (w.host h).load = 0) ∧
      (∀ h p, (w.proc h p).load = 0) ∧ w.globalActive = 0 ∧ w.curFds = 0) := by
  intro w
  have hA : Acct none w := acct_run ops (acct_init balance wkr nslots specs)
  have hpc : w.pendClose = 0 := run_pendClose _ ops rfl
  clear_value w
  have hh : ∀ h, (w.host h).load = hostCnt w h := hA.hostLoad
  have hp : ∀ h p, (w.proc h p).load = procCnt w h p := hA.procLoad
  have hg := hA.global
  refine ⟨?_, ?_, ?_, ?_⟩
  · intro h
    rw [hh h]
    exact sumTo_nonneg _ _ (fun _ _ => hostC_nonneg _ _)
  · intro h p
    rw [hp h p]
    exact sumTo_nonneg _ _ (fun _ _ => procC_nonneg _ _ _)
  · rw [hg]; exact sumTo_nonneg _ _ (fun _ _ => anyProcC_nonneg _)
  · intro hidle
    refine ⟨?_, ?_, ?_, ?_⟩
    · intro h
      rw [hh h]
      exact sumTo_eq_zero _ _ (fun i _ => by simp [hidle i, hostC])
    · intro h p
      rw [hp h p]
      exact sumTo_eq_zero _ _ (fun i _ => by simp [hidle i, procC])
    · rw [hg]; exact sumTo_eq_zero _ _ (fun i _ => by simp [hidle i, anyProcC])
    · have hf := hA.fds
      have : fdCnt w = 0 := sumTo_eq_zero _ _ (fun i _ => by simp [hidle i, fdC])
      rw [hf, this, hpc]; rfl

/-- **c11_no_ctx_leak**: after every history no descriptor is waiting to be closed,
    srv->cur_fds equals the number of contexts holding a backend socket, and every
    socket ever opened is either still held by a context or was closed exactly once
    (`opened`/`closed` are ghost counters of socket() and close()). -/
theorem c11_no_ctx_leak (balance : Nat) (wkr : Bool) (nslots : Nat) (specs : List HostSpec) (ops : List Op) :
    let w := run (initWorld balance wkr nslots specs) ops
    w.pendClose = 0 ∧ w.curFds = fdCnt w ∧ (w.opened : Int) = w.closed + fdCnt w := by
  intro w
  have hA : Acct none w := acct_run ops (acct_init balance wkr nslots specs)
  have hpc : w.pendClose = 0 := run_pendClose _ ops rfl
  have h1 := hA.fds
  have h2 := hA.ghost
  rw [hpc] at h1 h2
  exact ⟨hpc, by simpa using h1, by simpa using h2⟩

/-! ## only available backends are used -/

/-- **c11_active_exact**: host->active_procs always equals the number of RUNNING procs,
    so "active_procs > 0" means "some proc of the host is RUNNING". -/
theorem c11_active_exact (balance : Nat) (wkr : Bool) (nslots : Nat) (specs : List HostSpec) (ops : List Op) :
    let w := run (initWorld balance wkr nslots specs) ops
    (∀ h, (w.host h).active = runningCnt w h) ∧
    (∀ h, (w.host h).active ≠ 0 ↔ ∃ p, p < (w.host h).nprocs ∧ (w.proc h p).state = .running) := by
  intro w
  have hA : Avail w := avail_reach (reach_run _ ops) (avail_init balance wkr nslots specs)
  exact ⟨hA, fun h => avail_pos_iff hA h⟩

/-- **c11_only_available** (host choice): in every balance mode gw_host_get() returns a
    configured host with active_procs ≠ 0 — or none, and none only if no host is
    available (⇒ 503 instead of a dead backend). -/
theorem c11_only_available (w : World) (key : Nat) :
    (∀ h, (hostPick w key).1 = some h → h < w.nhosts ∧ (w.host h).active ≠ 0) ∧
    (w.balance ≤ 3 → (∃ j, j < w.nhosts ∧ (w.host j).active ≠ 0 ∧ (w.host j).load < intMax) →
      ∃ h, (hostPick w key).1 = some h) :=
  ⟨fun h hh => hostPick_available w key h hh, fun hb hex => hostPick_complete w key hb hex⟩

/-- **c11_only_available** (proc choice): GW_STATE_INIT connects only to a RUNNING proc of
    the host, and (availability being exact) finds one on every host gw_host_get() returned. -/
theorem c11_dispatch_running (w : World) (h : Nat) :
    (∀ p, pickProc w h = some p → p < (w.host h).nprocs ∧ (w.proc h p).state = .running) ∧
    (Avail w → (w.host h).active ≠ 0 → ∃ p, pickProc w h = some p) :=
  ⟨fun _ hp => pickProc_running hp, fun hA hact => pickProc_complete hA h hact⟩

/-- **c11_dispatch_history**: history level.  Every connect() a history ever issues —
    `Ev.dispatch s h p` in the log of `run (initWorld …) ops`, arrival, retry or timeout
    restart alike — was issued from a world `w'` lying on the way (its log is exactly what
    precedes the entry) in which proc p of host h existed and was RUNNING, hence in which
    host h had active_procs ≠ 0.  An OVERLOADED proc whose disable time has lapsed but which
    no trigger has re-enabled yet is therefore not dialled either. -/
theorem c11_dispatch_history (balance : Nat) (wkr : Bool) (nslots : Nat) (specs : List HostSpec)
    (ops : List Op) (post pre : List Ev) (s h p : Nat)
    (hlog : (run (initWorld balance wkr nslots specs) ops).log = post ++ Ev.dispatch s h p :: pre) :
    ∃ w', Reach (initWorld balance wkr nslots specs) w' ∧
      Reach w' (run (initWorld balance wkr nslots specs) ops) ∧ w'.log = pre ∧
      p < (w'.host h).nprocs ∧ (w'.proc h p).state = .running ∧ (w'.host h).active ≠ 0 := by
  obtain ⟨new, e, H⟩ := reach_dispatch_running (reach_run (initWorld balance wkr nslots specs) ops)
  have e0 : (initWorld balance wkr nslots specs).log = [] := rfl
  rw [e0, List.append_nil] at e
  obtain ⟨w', r1, r2, c0, c1, c2⟩ := H post pre s h p (e.symm.trans hlog)
  rw [e0, List.append_nil] at c0
  have hAv : Avail w' := avail_reach r1 (avail_init balance wkr nslots specs)
  exact ⟨w', r1, r2, c0, c1, c2, (avail_pos_iff hAv h).mpr ⟨p, c1, c2⟩⟩

/-- **c11_lc_min**: least-connection returns the first available host of minimal load. -/
theorem c11_lc_min (w : World) (key h : Nat) (hn : 1 < w.nhosts) (hb : w.balance = 0)
    (hh : (hostPick w key).1 = some h) :
    (∀ j, j < w.nhosts → (w.host j).active ≠ 0 → (w.host h).load ≤ (w.host j).load) ∧
    (∀ j, j < h → (w.host j).active ≠ 0 → (w.host h).load < (w.host j).load) := by
  unfold hostPick at hh
  rw [if_neg (by omega), if_pos hb] at hh
  obtain ⟨h1, h2, _, _⟩ := lcPick_spec w
  obtain ⟨a1, _, a3, a4⟩ := h2 h hh
  refine ⟨fun j hj hact => by rw [a3]; exact h1 j hj hact, fun j hj hact => ?_⟩
  rw [a3]; exact a4 j (by omega) hj hact

/-- **c11_rr_fair**: round-robin returns the next available host after last_used_ndx,
    cyclically, and remembers it. -/
theorem c11_rr_fair (w : World) (key h : Nat) (hn : 1 < w.nhosts) (hb : w.balance = 1)
    (hh : (hostPick w key).1 = some h) :
    (hostPick w key).2 = h ∧
    (((w.lastUsed + 1).toNat ≤ h ∧ ∀ i, (w.lastUsed + 1).toNat ≤ i → i < h → (w.host i).active = 0) ∨
     (h < (w.lastUsed + 1).toNat ∧ (∀ i, (w.lastUsed + 1).toNat ≤ i → i < w.nhosts → (w.host i).active = 0) ∧
        ∀ i, i < h → (w.host i).active = 0)) := by
  unfold hostPick at hh ⊢
  rw [if_neg (by omega), if_neg (by omega), if_pos hb] at hh ⊢
  cases hp : rrPick w with
  | none => simp [hp] at hh
  | some j =>
    simp only [hp] at hh ⊢
    simp at hh; subst hh
    exact ⟨rfl, ((rrPick_spec w).1 j hp).2.2⟩

/-- hash / sticky: the available host maximising `request hash XOR host hash`. -/
theorem c11_hash_max (w : World) (key h : Nat) (hn : 1 < w.nhosts) (hb : w.balance = 2 ∨ w.balance = 3)
    (hh : (hostPick w key).1 = some h) :
    ∀ j, j < w.nhosts → (w.host j).active ≠ 0 →
      baseHash w.balance key ^^^ (w.host j).gwHash ≤ baseHash w.balance key ^^^ (w.host h).gwHash := by
  unfold hostPick at hh
  rw [if_neg (by omega), if_neg (by omega), if_neg (by omega), if_pos hb] at hh
  obtain ⟨h1, h2, _⟩ := hashPick_spec w (baseHash w.balance key)
  obtain ⟨_, _, a3⟩ := h2 h hh
  intro j hj hact
  rw [a3]; exact h1 j hj hact

/-! ## failed backends leave the rotation for their disable-time, and come back -/

/-- **c11_disable_reenable** (1): a connect failure on a remote proc (or the first one
    reported for a local proc) marks it OVERLOADED until now + disable-time. -/
theorem c11_connect_failure_disables (w : World) (h p pid : Nat)
    (hc : (w.proc h p).isLocal = false ∨ ((w.proc h p).pid = pid ∧ (w.proc h p).state = .running)) :
    ((connectError w h p pid).proc h p).state = .overloaded ∧
    ((connectError w h p pid).proc h p).disabledUntil = w.now + (w.host h).disableTime :=
  connectError_disables w h p pid hc

/-- **c11_disable_reenable** (2), the window: a proc that is OVERLOADED with
    `disabled_until ≥ D` stays OVERLOADED, keeps `disabled_until ≥ D`, and receives **no**
    connect() in any continuation of the history, for as long as the clock has not passed
    D — whatever else fails, times out or is re-enabled meanwhile.  (`WInv`: an OVERLOADED
    proc was disabled at most disable-time into the future; true of every reachable world.) -/
theorem c11_disable_window (w : World) (hW : WInv w) (ops : List Op) (h p : Nat) (D : Int)
    (hs : (w.proc h p).state = .overloaded) (hD : D ≤ (w.proc h p).disabledUntil)
    (hnow : (run w ops).now ≤ D) :
    ((run w ops).proc h p).state = .overloaded ∧ D ≤ ((run w ops).proc h p).disabledUntil ∧
    ∃ new, (run w ops).log = new ++ w.log ∧ ∀ e, e ∈ new → ∀ s, e ≠ Ev.dispatch s h p := by
  obtain ⟨⟨a, b⟩, c⟩ := window_reach (reach_run w ops) hW ⟨hs, hD⟩ hnow
  exact ⟨a, b, c⟩

/-- … in particular from every state reached by any history from any configuration -/
theorem c11_disable_window_reachable (balance : Nat) (wkr : Bool) (nslots : Nat) (specs : List HostSpec)
    (ops ops' : List Op) (h p : Nat) (D : Int) :
    let w := run (initWorld balance wkr nslots specs) ops
    let w' := run w ops'
    (w.proc h p).state = .overloaded → D ≤ (w.proc h p).disabledUntil → w'.now ≤ D →
    (w'.proc h p).state = .overloaded ∧ D ≤ (w'.proc h p).disabledUntil ∧
    ∃ new, w'.log = new ++ w.log ∧ ∀ e, e ∈ new → ∀ s, e ≠ Ev.dispatch s h p := by
  intro w w' hs hD hnow
  exact c11_disable_window w (winv_reach (reach_run _ ops) (winv_init balance wkr nslots specs))
    ops' h p D hs hD hnow

/-- **c11_disable_reenable** (3): the first trigger after `disabled_until` brings the proc
    back — stated here for a host with no request waiting on it; with requests waiting, one
    of them timing out in the same tick may disable the proc again: c11_trigger_settles is
    the statement without the side condition. -/
theorem c11_reenable_after (w : World) (h p : Nat) (he : (w.host h).hctxs = [])
    (hp : p < (w.host h).nprocs) (hs : (w.proc h p).state = .overloaded)
    (ht : (w.proc h p).disabledUntil < w.now) :
    ((triggerHost w h).proc h p).state = .running :=
  triggerHost_enables w h p he hp hs ht

/-- **c11_trigger_settles**: without any side condition — after gw_handle_trigger_host() has
    visited a host, every proc of it that is still OVERLOADED has its disable time ahead
    (`now ≤ disabled_until`: its time is not up, or it failed again in this very tick); a
    proc whose time was up has been brought back. -/
theorem c11_trigger_settles (w : World) (h p : Nat) (hp : p < (w.host h).nprocs)
    (hs : ((triggerHost w h).proc h p).state = .overloaded) :
    (triggerHost w h).now ≤ ((triggerHost w h).proc h p).disabledUntil :=
  triggerHost_settles w h p hp hs

/-- **c11_failover_elsewhere**: "retried on ANOTHER backend", for connect failures.  Once
    connect() to a remote proc has failed (gw_proc_connect_error), no continuation of the
    history — in particular not the retry of the same request in the same event — dials
    that proc again until the clock has passed now + disable-time.  (For a retry after the
    backend accepted and then reset the connection nothing is disabled, and the same proc
    may be chosen again: that is lighttpd's behaviour and not claimed otherwise.) -/
theorem c11_failover_elsewhere (w : World) (hW : WInv w) (h p pid : Nat) (hp : p < (w.host h).nprocs)
    (hr : (w.proc h p).isLocal = false) (ops : List Op)
    (hnow : (run (connectError w h p pid) ops).now ≤ w.now + (w.host h).disableTime) :
    ∃ new, (run (connectError w h p pid) ops).log = new ++ (connectError w h p pid).log ∧
      ∀ e, e ∈ new → ∀ s, e ≠ Ev.dispatch s h p := by
  have hd := connectError_disables w h p pid (Or.inl hr)
  have hW1 : WInv (connectError w h p pid) := winv_reach (reach_connectError w h p pid hp) hW
  exact (window_reach (reach_run _ ops) hW1 ⟨hd.1, by rw [hd.2]; exact Int.le_refl _⟩ hnow).2

/-- time never runs backwards and the configuration is never changed by a history
    (what the window theorem silently relies on) -/
theorem c11_static (w : World) (ops : List Op) :
    w.now ≤ (run w ops).now ∧ (run w ops).nhosts = w.nhosts ∧
    (∀ h, ((run w ops).host h).nprocs = (w.host h).nprocs ∧
          ((run w ops).host h).disableTime = (w.host h).disableTime) := by
  have S := reach_static (reach_run w ops)
  exact ⟨S.now, S.nhosts, fun h => ⟨S.nprocs h, S.disableTime h⟩⟩

/-! ## retries are bounded and end in an error status -/

/-- **c11_retry_budget** (per call): the retry decision of every failure path.
    (1) gw_write_error() before the request was sent (GW_STATE_INIT / CONNECT_DELAYED):
        with 5 reconnects used up it gives up (HANDLER_FINISHED via gw_backend_error, i.e. 5xx),
        otherwise it is exactly one gw_reconnect() with the counter incremented;
    (2) gw_recv_response_error(): retried only if no request byte was sent, no response
        begun and fewer than 5 reconnects used;
    (3) a retry (HANDLER_COMEBACK) lands in GW_STATE_INIT on a host gw_host_get() chose, which
        has active_procs ≠ 0; without such a host the request is finished (503) instead. -/
theorem c11_retry_budget (w : World) (s : Nat) :
    ((w.linkOf s).state = .init ∨ (w.linkOf s).state = .connectDelayed →
      (5 ≤ (w.auxOf s).reconnects → (writeError w s).1 = .finished) ∧
      ((w.auxOf s).reconnects < 5 →
        (writeError w s).1 = .finished ∨
        ((writeError w s).1 = .comeback ∧
          writeError w s = reconnect ((restartIfLocal w s).updAux s
            fun a => { a with reconnects := a.reconnects + 1 }) s))) ∧
    (((w.auxOf s).started = true ∨ (w.auxOf s).bytesOut ≠ 0 ∨ 5 ≤ (w.auxOf s).reconnects →
        (recvResponseError w s).1 = .finished) ∧
      ((recvResponseError w s).1 = .comeback →
        (w.auxOf s).started = false ∧ (w.auxOf s).bytesOut = 0 ∧ (w.auxOf s).reconnects < 5)) ∧
    (((reconnect w s).1 = .comeback ∨ (reconnect w s).1 = .finished) ∧
      ((reconnect w s).1 = .comeback →
        ∃ h, h < w.nhosts ∧ (w.host h).active ≠ 0 ∧
          ∀ l, lk (reconnect w s).2 s = some l → l.host = some h ∧ l.state = .init)) := by
  refine ⟨fun hst => writeError_budget w s hst, recvResponseError_budget w s, reconnect_rc w s, ?_⟩
  intro hc
  obtain ⟨h, _, a, b, c⟩ := reconnect_comeback w s hc
  exact ⟨h, a, b, c⟩

/-- **c11_retry_bounded**: "a bounded number of times", for every history and every
    environment script, of whatever length.  `dispatched` counts the connect() calls made for
    the request occupying a slot (it starts at 0 with the request and is incremented by
    `wrConnect`, the one place that logs `Ev.dispatch`; the harness compares it after every
    event with its own count of real connect() calls, and the oracle recounts the calls from
    the output).  After every history, for every request in flight:
      connect() calls ≤ 1 + retries taken   and   connect() calls ≤ 6,
    i.e. one attempt and at most five re-dispatches, however the backends behave and however
    long they go on misbehaving.
    This is a theorem about lighttpd WITH the repair prepared for it (gw_write_request() no
    longer zeroes hctx->reconnects when connect() succeeds at once); in the unrepaired code a
    backend that accepts and resets restarts the budget each time and the number of
    connect() calls for one request is unbounded. -/
theorem c11_retry_bounded (balance : Nat) (wkr : Bool) (nslots : Nat) (specs : List HostSpec) (ops : List Op)
    (s : Nat) (c : Ctx) (hc : (run (initWorld balance wkr nslots specs) ops).slot s = some c) :
    c.aux.dispatched ≤ c.aux.reconnects + 1 ∧ c.aux.dispatched ≤ 6 := by
  have hJ := j_run _ ops (acct_init balance wkr nslots specs) (j_init balance wkr nslots specs) s c hc
  exact ⟨by have := hJ.1; omega, by have := hJ.2; omega⟩

/-- **c11_comeback_terminates**: no spinning inside one event either.  Every HANDLER_COMEBACK
    that gw_handle_subrequest() returns has used up one unit of the request's retry budget
    (`mu s w = 5 − reconnects`), so the COMEBACK loop of http_response_handler() ends by
    itself: running it with any fuel ≥ 7 gives the same result as with the model's 7, i.e.
    the fuel is never what ends the loop. -/
theorem c11_comeback_terminates (w : World) (s : Nat) :
    ((w.slot s).isSome → (subrequest w s).1 = .comeback → mu s (subrequest w s).2 < mu s w) ∧
    (∀ n, conFuel w ≤ n → runCon n w s = runCon (conFuel w) w s) := by
  refine ⟨fun hs hc => subrequest_strict w s hs hc, fun n hn => ?_⟩
  have := conFuel_gt_mu w s
  exact runCon_fuel n (conFuel w) w s (by omega) this

/-- **c11_giveup_5xx** (per call): "otherwise the client receives a 5xx".  Where the code gives up on a
    request whose response has not begun — (1) the tail of gw_write_error(), (2)
    gw_backend_error() from any other path, (3) gw_host_get() finding no available host —
    the request handler is dropped and the status is an error: ≥ 500, or the 400 a failed
    create_env had already decided.  (Response begun but nothing sent to the client yet:
    c11_giveup_502_incomplete.) -/
theorem c11_giveup_5xx (w : World) (s : Nat) (hs : (w.slot s).isSome) (hns : (w.auxOf s).started = false) :
    ((w.auxOf s).handler = true →
      ((writeErrorTail w s).2.auxOf s).handler = false ∧
      (500 ≤ ((writeErrorTail w s).2.auxOf s).status ∨ ((writeErrorTail w s).2.auxOf s).status = 400)) ∧
    ((w.auxOf s).handler = true →
      ((backendError w s).2.auxOf s).handler = false ∧
      ((backendError w s).2.auxOf s).status =
        (if (w.auxOf s).status < 500 ∧ (w.auxOf s).status ≠ 400 then 500 else (w.auxOf s).status)) ∧
    ((hostGet w s).1 = none →
      ((hostGet w s).2.auxOf s).status = 503 ∧ ((hostGet w s).2.auxOf s).handler = false) := by
  refine ⟨fun hh => writeErrorTail_seen w s hs hns hh, fun hh => ?_, fun hn => hostGet_none_seen w s hs hn⟩
  have E := backendError_seen w s hs hns
  exact ⟨E.1, E.2.2.1 hh⟩

/-- **c11_giveup_502_incomplete** (per call): the backend fails after its response headers
    were parsed but before lighttpd has sent a response head to the client
    (http_response_backend_incomplete, r->resp_header_len == 0): the partial response is
    dropped and the client gets 502, not a cut-off 200.  (Once the head has gone out —
    streaming — no status can be sent any more; the response is aborted instead, which the
    model records as `trunc` in `Ev.fin`.) -/
theorem c11_giveup_502_incomplete (w : World) (s : Nat) (hs : (w.slot s).isSome)
    (hst : (w.auxOf s).started = true) (hhs : (w.auxOf s).headSent = false) :
    ((backendError w s).2.auxOf s).handler = false ∧ ((backendError w s).2.auxOf s).started = false ∧
    ((backendError w s).2.auxOf s).status = 502 :=
  backendError_incomplete_seen w s hs hst hhs

/-- **c11_timeout_releases**: "… instead of hanging", per visit.  When
    gw_handle_trigger_host_timeouts() visits a request whose configured deadline has passed
    (connect: CONNECT_DELAYED longer than connect-timeout; read: polling for input longer than
    read-timeout; write: polling for output longer than write-timeout) it calls the timeout
    handler, and after the handler — for every kind and whatever the backends answer
    meanwhile — the request no longer waits on that backend: it holds no socket and no proc,
    and either restarts in GW_STATE_INIT on a host gw_host_get() chose or holds no host at
    all (finished with 503/504, see c11_giveup_5xx).  A timeout configured as 0 is off (read-
    and write-timeout are off by default), so a backend that hangs after accepting is then
    waited for indefinitely: that is lighttpd's documented behaviour.  NOT proved: that the
    trigger visits every waiting request (host->hctxs holding exactly the requests with a
    socket), hence no theorem "every request ends under ticks"; on the real code the oracle
    checks after every tick that no request is past a configured deadline. -/
theorem c11_timeout_releases (w : World) (h s kind : Nat) (hA : Acct none w) :
    ((w.linkOf s).state = .connectDelayed → w.now - (w.auxOf s).writeTs > (w.host h).ctimeout →
      (w.host h).ctimeout ≠ 0 → timeoutStep h w s = hctxTimeout w s 0) ∧
    ((w.linkOf s).state ≠ .connectDelayed → (w.auxOf s).evIn = true →
      w.now - (w.auxOf s).readTs > (w.host h).rtimeout → (w.host h).rtimeout ≠ 0 →
      timeoutStep h w s = hctxTimeout w s 1) ∧
    ((w.linkOf s).state ≠ .connectDelayed →
      ¬((w.auxOf s).evIn = true ∧ w.now - (w.auxOf s).readTs > (w.host h).rtimeout ∧ (w.host h).rtimeout ≠ 0) →
      (w.auxOf s).evOut = true → w.now - (w.auxOf s).writeTs > (w.host h).wtimeout →
      (w.host h).wtimeout ≠ 0 → timeoutStep h w s = hctxTimeout w s 2) ∧
    (∀ l, lk (hctxTimeout w s kind) s = some l →
      l.fd = false ∧ l.proc = none ∧ (l.state = .init ∨ l.host = none)) := by
  refine ⟨(timeoutStep_fires h w s).1, (timeoutStep_fires h w s).2, timeoutStep_write_fires h w s, ?_⟩
  intro l hl
  have R := hctxTimeout_released w s kind hA
  have N := released_holds_nothing (acct_hctxTimeout s kind hA) R l hl
  exact ⟨N.1, N.2, R l hl⟩

/-- the driver re-tabulates the maps of the world after every operation (`compact`); that is
    the identity, so `ltm_gw` runs exactly the `step` the theorems above are about -/
theorem c11_driver_compact (w : World) : compact w = w := compact_eq w

/-! ## non-vacuity: the hypotheses above are met by concrete, non-trivial worlds -/

private def spec2 : List HostSpec := [⟨1, 2, 3, 0, 0, 'r'⟩, ⟨2, 2, 3, 0, 0, 'r'⟩]
private def w0 : World := initWorld 0 false 3 spec2
/-- host 0 just refused a connection at t = 1000 (disable-time 2) -/
private def w1 : World := connectError w0 0 0 0
/-- … and the clock is now past the window -/
private def w2 : World := { w1 with now := 1003 }
/-- a request context parked in GW_STATE_INIT on host 1 with one reconnect used -/
private def w3 : World :=
  { w0 with slot := fun i => if i = 0 then some { link := { hctx := true, host := some 1 },
                                                   aux := { handler := true, reconnects := 1 } } else none }

-- c11_load_exact_step: the invariant holds initially and in every reachable world
example : Acct none w0 := acct_init 0 false 3 spec2
example : Acct none (run w0 [.arrive 0 1 {}, .arrive 1 2 { conn := ['r', 'k'] }, .tick 1 {}]) :=
  acct_run _ (acct_init 0 false 3 spec2)

-- c11_only_available / c11_lc_min / c11_dispatch_running on the two-host pool
example : (hostPick w0 7).1 = some 0 := by decide
example : 1 < w0.nhosts ∧ w0.balance = 0 := by decide
example : ∃ j, j < w0.nhosts ∧ (w0.host j).active ≠ 0 ∧ (w0.host j).load < intMax := ⟨1, by decide⟩
example : pickProc w0 1 = some 0 := by decide
example : Avail w0 := avail_init 0 false 3 spec2
-- after host 0 failed, least-connection fails over to host 1
example : (w1.host 0).active = 0 ∧ (hostPick w1 7).1 = some 1 := by decide
-- round-robin and hash pools
example : (hostPick (initWorld 1 false 3 spec2) 7) = (some 0, 0) := by decide
example : ∃ h, (hostPick (initWorld 2 false 3 spec2) 7).1 = some h :=
  hostPick_complete _ 7 (by decide) ⟨0, by decide⟩

-- c11_connect_failure_disables / c11_disable_window / c11_reenable_after
example : (w0.proc 0 0).isLocal = false := by decide
example : (w1.proc 0 0).state = .overloaded ∧ (w1.proc 0 0).disabledUntil = 1002 := by
  have h := c11_connect_failure_disables w0 0 0 0 (Or.inl (by decide))
  exact ⟨h.1, h.2.trans (by decide)⟩
example : WInv w1 := winv_reach (reach_connectError w0 0 0 0 (by decide)) (winv_init 0 false 3 spec2)
example : (w2.host 0).hctxs = [] ∧ 0 < (w2.host 0).nprocs ∧ (w2.proc 0 0).state = .overloaded ∧
    (w2.proc 0 0).disabledUntil < w2.now := by decide
example : ((triggerHost w2 0).proc 0 0).state = .running :=
  c11_reenable_after w2 0 0 (by decide) (by decide) (by decide) (by decide)

-- c11_retry_budget / c11_retry_bounded / c11_giveup_5xx: a context in GW_STATE_INIT with budget left
example : (w3.linkOf 0).state = .init ∧ (w3.auxOf 0).reconnects < 5 ∧ (w3.auxOf 0).started = false ∧
    (w3.slot 0).isSome = true ∧ (w3.auxOf 0).handler = true ∧
    mu 0 w3 = 4 := by
  decide
-- c11_timeout_releases: a request waiting for a delayed connect() on host 0 since t = 1000,
-- visited at t = 1004 (connect-timeout 3): the firing clause applies, and the world the
-- request is in satisfies the accounting invariant the release clause asks for
private def hDelayed : List Op := [.arrive 0 1 { conn := ['p'] }]
private def wT : World := { run w0 hDelayed with now := 1004 }
example : (wT.linkOf 0).state = .connectDelayed ∧ wT.now - (wT.auxOf 0).writeTs > (wT.host 0).ctimeout ∧
    (wT.host 0).ctimeout ≠ 0 ∧ (wT.host 0).hctxs = [0] := by decide
example : timeoutStep 0 wT 0 = hctxTimeout wT 0 0 :=
  (c11_timeout_releases wT 0 0 0 (acct_now 1004 (acct_run _ (acct_init 0 false 3 spec2)))).1
    (by decide) (by decide) (by decide)

-- histories: host 0 refuses the first request, which fails over to host 1
private def hRefused : List Op := [.arrive 0 1 { conn := ['r', 'k'] }]
-- c11_disable_window_reachable / c11_failover_elsewhere: the premises are met after `hRefused`
example : ((run w0 hRefused).proc 0 0).state = .overloaded ∧ ((run w0 hRefused).proc 0 0).disabledUntil = 1002 ∧
    (run (run w0 hRefused) [.tick 2 {}]).now ≤ 1002 := by decide
example : WInv w0 ∧ 0 < (w0.host 0).nprocs ∧ (w0.proc 0 0).isLocal = false :=
  ⟨winv_init 0 false 3 spec2, by decide, by decide⟩
-- c11_no_ctx_leak: two sockets were opened, one closed, one is held
example : (run w0 hRefused).opened = 2 ∧ (run w0 hRefused).closed = 1 ∧ fdCnt (run w0 hRefused) = 1 := by decide
-- c11_dispatch_history: that log holds two connect() entries, one of them to host 1
example : ((run w0 hRefused).log.filter isDispatch).length = 2 ∧
    (run w0 hRefused).log.any (fun e => match e with | Ev.dispatch 0 1 0 => true | _ => false) = true := by decide
-- c11_retry_bounded: the request of `hRefused` is in flight with 2 connects, 1 retry …
example : ∃ c, (run w0 hRefused).slot 0 = some c ∧ c.aux.dispatched = 2 ∧ c.aux.reconnects = 1 :=
  ⟨_, rfl, by decide, by decide⟩
-- … and the bound is met: a backend that accepts and resets eight times is dialled six times
example : ((run (initWorld 0 false 1 [⟨6, 0, 0, 0, 0, 'r'⟩])
      [.arrive 0 1 { conn := ['k', 'k', 'k', 'k', 'k', 'k', 'k', 'k'], wr := ['e', 'e', 'e', 'e', 'e', 'e', 'e', 'e'],
                     rd := ['x', 'x', 'x', 'x', 'x', 'x', 'x', 'x'] }]).log.filter isDispatch).length = 6 := by
  decide
-- c11_trigger_settles: host 0 proc 0 was disabled at 1000 until 1002; a trigger at 1000 leaves it out
example : ((triggerHost w1 0).proc 0 0).state = .overloaded := by decide
-- c11_rr_fair / c11_hash_max: the premises hold on the two-host pool
example : 1 < (initWorld 1 false 3 spec2).nhosts ∧ (initWorld 1 false 3 spec2).balance = 1 ∧
    (hostPick (initWorld 1 false 3 spec2) 7).1 = some 0 := by decide
example : (initWorld 2 false 3 spec2).balance = 2 ∧ (hostPick (initWorld 2 false 3 spec2) 7).1 = some 1 := by decide
-- c11_stats_exact_partial: the labelled pools of `initWorld` meet its hypotheses
example : LabelInj w0 ∧ StatExact w0 := ⟨labelInj_init 0 false 3 spec2, stat_init 0 false 3 spec2⟩

-- c11_giveup_502_incomplete: response headers parsed, nothing sent on, then the backend fails
private def w4 : World :=
  { w0 with slot := fun i => if i = 0 then some { link := { hctx := true, host := some 1 },
                                                   aux := { handler := true, started := true, status := 200 } } else none }
example : (w4.slot 0).isSome = true ∧ (w4.auxOf 0).started = true ∧ (w4.auxOf 0).headSent = false := by decide

-- c11_load_exact / c11_load_nonneg_zero_idle also cover requests that gw_check_extension() refuses
-- AFTER it chose a host (gw_upgrade_policy(): HTTP/2 extended CONNECT, 405): such an arrival is a
-- history like any other; it ends with status 405, an empty slot and no load taken
example : (run w0 [.arrive 0 1 { upg := ['c'] }]).slot 0 = none ∧
    ((run w0 [.arrive 0 1 { upg := ['c'] }]).host 0).load = 0 ∧
    (run w0 [.arrive 0 1 { upg := ['c'] }]).log.any
      (fun e => match e with | Ev.fin 0 405 false false false => true | _ => false) = true := by decide

-- c11_stat_key_inj / c11_stat_entry_inj / c11_stat_entry_case_alias: the labels of the harness pools ("h0", "h1", the empty id of
-- an anonymous list) are dot-free, every tag of gw_backend.c has the required shape, and the key
-- is the text lighttpd uses
example : GwStat.dot ∉ B.ofString "h0" ∧ GwStat.dot ∉ ([] : Bytes) ∧ B.ofString ".load" ∈ GwStat.tags ∧
    GwStat.TagOk (B.ofString ".connected") ∧
    GwStat.statKey (B.ofString "h0") (some 10) (B.ofString ".load") = B.ofString "gw.backend.h0.10.load" ∧
    GwStat.statKey [] none (B.ofString ".load") = B.ofString "gw.backend..load" ∧
    GwStat.lower (B.ofString "H0") = GwStat.lower (B.ofString "h0") ∧
    GwStat.sameEntry (B.ofString "gw.backend.H0.load") (B.ofString "gw.backend.h0.load") = true := by
  refine ⟨by decide, by decide, by decide, GwStat.tags_ok _ (by decide), by decide, by decide, by decide, by decide⟩

end LtVerif.C11
