/-
  C12 — untrusted input never causes undefined behaviour, abort or unbounded growth.
  Property theorems only (helper lemmas live in LtVerif/Proofs/Arith.lean, Proofs/ArithRange.lean).

  PROVED here, over the machine-arithmetic models (Model/Arith.lean, Model/ArithRange.lean: explicit C
  widths, every intermediate value and array index checked, result `ub …` where the C computation would
  leave its type or its array): for the routines listed below, *signed overflow, unintended unsigned wrap,
  32-bit truncation and out-of-range array index* cannot occur, for every input and — for the two chunked
  decoders — every history of reads; plus the bounds on the accumulators that carry partial input across
  reads.  Routines: li_restricted_strtoint64, h1_chunked (whole calls), http_chunk_decode_append_data
  (whole calls), http_header_parse_hoff + its four callers' limit tests, buffer.c growth, ck_realloc_u32
  (conditional), the pad/priority/CONTINUATION length arithmetic of h2.c, http_range.c.
  NOT proved (sanitizer exploration by the correspondence check only): out-of-bounds / use-after-free /
  null dereference in the pointer code itself, every other routine, descriptors, liveness after hostile
  input.  Planned in DESIGN §6 and not proved: `c12_hpack_output_bound`, `c12_bounded_state`.
-/
import LtVerif.Model.Arith
import LtVerif.Model.ArithRange
import LtVerif.Model.H1Parse
import LtVerif.Proofs.Arith
import LtVerif.Proofs.ArithRange
import LtVerif.Model.ArithTmpBuf
import LtVerif.Proofs.ArithTmpBuf
namespace LtVerif.C12
open LtVerif LtVerif.B LtVerif.Arith

/-! ## li_restricted_strtoint64() -/

/-- For every byte string `v`: the loop of li_restricted_strtoint64() never leaves int64 in any
    intermediate (`rv*10`, `INT64_MAX - c`, `rv + c`: the model returns `ok`, never `ub`); the
    returned value is in `[0, INT64_MAX]`; the whole string is consumed (the callers' success test
    `*err == v+vlen`) exactly when it consists of digits whose decimal value fits int64, and then
    the result IS that decimal value. -/
theorem c12_strtoint64_no_overflow (v : Bytes) :
    ∃ rv i : Nat, strtoI64 v = .ok ((rv : Int), i) ∧ (rv : Int) ≤ i64Max ∧ i ≤ v.length ∧
      (i = v.length ↔ (v.all isDigit = true ∧ (decValue v : Int) ≤ i64Max)) ∧
      (i = v.length → rv = decValue v) := by
  obtain ⟨rv, i, h1, h2, _, h4, h5, h6⟩ := strtoI64Go_spec v 0 0 (by omega)
  refine ⟨rv, i, h1, ?_, by omega, ?_, ?_⟩
  · rw [i64Max_eq]; omega
  · rw [i64Max_eq]
    have e : decFrom 0 v = decValue v := rfl
    rw [e] at h5
    simp only [Nat.zero_add] at h5
    constructor
    · intro h; have := h5.mp h; exact ⟨this.1, by omega⟩
    · intro ⟨a, b⟩; exact h5.mpr ⟨a, by omega⟩
  · intro h
    have e : decFrom 0 v = decValue v := rfl
    rw [← e]; exact h6 (by omega)

/-- the specification-level Content-Length parser used by the C01 model is exactly the success
    case of the machine-level loop -/
theorem c12_strtoint64_refines_c01 (v : Bytes) (n : Nat) :
    LtVerif.strtoInt64 v = some n ↔ strtoI64 v = .ok ((n : Int), v.length) := by
  obtain ⟨rv, i, h1, _, _, h4, h5⟩ := c12_strtoint64_no_overflow v
  rw [i64Max_eq] at h4
  have e : decValue v = v.foldl (fun acc d => acc * 10 + (d - 48).toNat) 0 := rfl
  unfold LtVerif.strtoInt64
  rw [h1]
  constructor
  · intro h
    split at h
    · rename_i hd
      simp only at h
      split at h
      · rename_i hle
        simp only [Option.some.injEq] at h
        have hi : i = v.length := h4.mpr ⟨hd, by rw [e]; omega⟩
        have := h5 hi
        rw [hi, this, e, h]
      · simp at h
    · simp at h
  · intro h
    simp only [R.ok.injEq, Prod.mk.injEq] at h
    obtain ⟨hrv, hi⟩ := h
    have hrv' : rv = n := by omega
    obtain ⟨hd, hle⟩ := h4.mp hi
    have := h5 hi
    rw [if_pos hd]
    simp only
    rw [← e, if_pos (by omega)]
    rw [← this, hrv']

example : strtoI64 (ofString "9223372036854775807") = .ok (9223372036854775807, 19) := by decide
example : strtoI64 (ofString "9223372036854775808") = .ok (9223372036854775800, 18) := by decide
example : strtoI64 (ofString "12a") = .ok (12, 2) := by decide

/-! ## chunk-size accumulation: h1_chunked(), http_chunk_decode_append_data() -/

/-- With the guard found in the source (`te_chunked > (1<<59)-1-2` tested before every shift), for
    every chunk header line: `te_chunked <<= 4; te_chunked |= u` never leaves off_t (never `ub`), the
    accumulated value is non-negative, equals the value of the hex digits, and `te_chunked + 2`
    (the CRLF after the chunk data) still fits off_t.  Holds for both decoders' guards. -/
theorem c12_chunk_size_guard (line : Bytes) :
    (∀ w, Arith.ckHex Extracted.ckGuardH1 line 0 0 ≠ .ub w) ∧ (∀ w, Arith.ckHex Extracted.ckGuardGw line 0 0 ≠ .ub w) ∧
    (∀ g, g = Extracted.ckGuardH1 ∨ g = Extracted.ckGuardGw → ∀ te k r, Arith.ckHex g line 0 0 = .ok te k r →
      0 ≤ te ∧ te + 2 ≤ i64Max ∧ te = (hexValue line 0 : Int)) := by
  have a := ckHex_spec Extracted.ckGuardH1 ckGuardH1_le line 0 0 (by unfold ckTeMax; omega)
  have b := ckHex_spec Extracted.ckGuardGw ckGuardGw_le line 0 0 (by unfold ckTeMax; omega)
  refine ⟨a.1, b.1, ?_⟩
  intro g hg te k r h
  rw [i64Max_eq]
  rcases hg with hg | hg <;> subst hg
  · obtain ⟨n, h1, h2, h3, _⟩ := a.2 te k r h
    unfold ckTeMax at h2; subst h1; subst h3; omega
  · obtain ⟨n, h1, h2, h3, _⟩ := b.2 te k r h
    unfold ckTeMax at h2; subst h1; subst h3; omega

/-- PARTIAL (superseded by `c12_h1_chunked_histories` / `c12_gw_dechunk_histories`, kept because the
    bytes-received counter is an arbitrary parameter here): the FIRST chunk-header step of one call that
    starts with `te_chunked = 0`.  `CkGood` accepts `.unmodelled`, which `ck1`/`ck2` return as soon as a
    chunk completes inside the call — this theorem says nothing about those inputs. -/
theorem c12_chunk_first_step_no_overflow_partial (msKB : Nat) (bytesIn : Int) (data : Bytes) (hms : msKB ≤ u32Max)
    (hin0 : 0 ≤ bytesIn) (hin : bytesIn + data.length ≤ i64Max) :
    CkGood data.length (ck1 msKB bytesIn data) ∧ CkGood data.length (ck2 data) := by
  rw [u32Max_eq] at hms
  rw [i64Max_eq] at hin
  exact ⟨ck1_good msKB bytesIn data hms hin0 hin, ck2_good data (by omega)⟩

/-- **h1_chunked(), whole calls, every history.**  For every server.max-request-size, every
    max-request-field-size and EVERY sequence of reads whose total length fits off_t (each read is
    appended to the read queue and h1_chunked() is called, resuming with the carried `te_chunked`,
    `bytes_in` and unconsumed bytes; any number of chunks, CRLFs, the last chunk and the trailer scan
    inside one call): no step leaves off_t (`te<<4|u`, `max_request_size<<10`, the 413 test, `te+2`,
    `te-2`, `64*1024 - bytes_in`, `bytes_in += len`, `te -= len`: never `ub`, the loop terminates); after
    every call `0 ≤ te_chunked ≤ 2^63-31`, `te_chunked ≠ 1`, `bytes_in ≥ 0`, bytes are conserved
    (`bytes_in` + unconsumed ≤ received); and whenever a call returns without completing the body the
    read queue keeps FEWER than max(1024, max-request-field-size) bytes — the partial chunk-size line /
    trailer accumulator cannot grow without bound, whatever the read sizes. -/
theorem c12_h1_chunked_histories (msKB maxField : Nat) (hms : msKB ≤ u32Max) (reads : List Bytes)
    (htot : (((reads.map List.length).sum : Nat) : Int) ≤ i64Max) :
    let r := h1Run msKB maxField reads
    (r.fail = none ∨ ∃ e : Nat, r.fail = some ("err " ++ toString e)) ∧
    0 ≤ r.st.te ∧ r.st.te ≤ 9223372036854775777 ∧ r.st.te ≠ 1 ∧ 0 ≤ r.st.bytesIn ∧
    r.st.bytesIn + r.st.q.length ≤ ((reads.map List.length).sum : Nat) ∧
    r.maxrest < Nat.max 1024 maxField ∧ (r.st.done = false → r.st.q.length < Nat.max 1024 maxField) := by
  rw [u32Max_eq] at hms
  rw [i64Max_eq] at htot
  have h0 : H1RunInv 0 maxField ({} : H1Run) :=
    ⟨⟨by simp, by simp [gwTeMax], by simp, by simp, by simp⟩, (by intro _; simp; exact Nat.lt_of_lt_of_le (by decide) (Nat.le_max_left 1024 maxField)),
     (by simp; exact Nat.lt_of_lt_of_le (by decide) (Nat.le_max_left 1024 maxField)), Or.inl rfl⟩
  have := h1Run_inv msKB maxField hms reads {} 0 (by omega) h0
  simp only [Int.zero_add] at this
  have hte := this.st.teMax
  unfold gwTeMax at hte
  exact ⟨this.noUb, this.st.te0, hte, this.st.te1, this.st.in0, this.st.sum, this.maxrest, this.wait⟩

/-- one resumed call from ANY carried state that satisfies the invariant (arbitrary `te_chunked`,
    `bytes_in`, leftover bytes): never `ub`, and the invariant and the wait bound hold again -/
theorem c12_h1_chunked_call (budget : Int) (hbud : budget ≤ i64Max) (msKB maxField : Nat) (hms : msKB ≤ u32Max)
    (st : H1St) (m : Bytes) (hi : H1Inv (budget - m.length) st) (hw : H1Wait maxField st) :
    (∀ w, h1Call msKB maxField st m ≠ .ub w) ∧
    (∀ st', h1Call msKB maxField st m = .ok st' → H1Inv budget st' ∧ H1Wait maxField st') := by
  rw [u32Max_eq] at hms; rw [i64Max_eq] at hbud
  exact h1Call_ok budget hbud msKB maxField hms st m hi hw

/-- **http_chunk_decode_append_data(), whole calls, every history.**  For every
    max-request-field-size and EVERY sequence of reads from a backend (no assumption on their sizes):
    no step leaves its type (`te<<4|u`, `te+2`, the uint32 difference `1024 - hlen` of the
    partial-line bound, `mem += hsz`: the run never fails with `ub`, the loop terminates);
    `0 ≤ gw_chunked ≤ 2^63-31` after every read; the header buffer `gw_dechunk->b` never holds more than
    1024 bytes of an unterminated chunk-size line (`maxp`), never more than
    max(1024, max-request-field-size)+4 bytes at all (`maxh`: last-chunk line + trailers + the appended
    CRLFs), and at most max(1024, max-request-field-size) while the body is incomplete. -/
theorem c12_gw_dechunk_histories (maxField : Nat) (reads : List Bytes) :
    let r := gwRun maxField reads
    (r.fail = none ∨ r.fail = some "err") ∧ 0 ≤ r.st.te ∧ r.st.te ≤ 9223372036854775777 ∧
    r.maxp ≤ 1024 ∧ r.maxh ≤ Nat.max 1024 maxField + 4 ∧
    (r.st.done = false → r.st.h.length ≤ Nat.max 1024 maxField) ∧
    (noLf r.st.h = true → r.st.h.length ≤ 1024) := by
  have h := gwRun_inv maxField reads
  have hte := h.st.teMax
  unfold gwTeMax at hte
  exact ⟨h.noUb, h.st.te0, hte, h.maxp, h.maxh, h.st.live, h.st.partialLine⟩

/-- the same accumulator bound over the byte-at-a-time automaton of C01 (`ckFeed`, validated against
    h1_chunked for all segmentations): in every reachable state the bytes kept unconsumed (partial
    chunk-size line, one CR, last-chunk line + trailers) are fewer than max(1024, max-request-field-size) -/
theorem c12_h1_chunk_buffer_bounded_c01 (cfg : CkCfg) (bs : Bytes) :
    ckBuffered (ckFeed cfg {} bs).mode < Nat.max 1024 cfg.maxField :=
  ckFeed_buffered cfg bs {} (by simp [ckBuffered]; exact Nat.lt_of_lt_of_le (by decide) (Nat.le_max_left 1024 cfg.maxField))

/-- The sum as the source evaluated it before the repair (`dst_cq->bytes_in + te_chunked`, h1.c:725)
    DOES leave off_t on values the accepting path produces: 31 body bytes received, then a chunk
    header `7fffffffffffffdf` (accepted: below the guard before its last digit).  This is why the
    model (and the repaired source) use `te_chunked <= 64*1024 - bytes_in`. -/
theorem c12_chunk_body_sum_as_written_overflows :
    ck1 0 31 (ofString "7fffffffffffffdf\r\n") = .ok 9223372036854775777 0 0 false ∧
    inI64 (ck1SumAsWritten 31 9223372036854775777) = false := by
  constructor <;> decide

example : Arith.ckHex Extracted.ckGuardH1 (ofString "7fffffffffffffdf\r\n") 0 0
    = .ok 9223372036854775775 16 [cr, lf] := by decide
example : Arith.ckHex Extracted.ckGuardH1 (ofString "7fffffffffffffe0\r\n") 0 0 = .tooLarge := by decide
example : ck1 1 0 (ofString "401\r\nab") = .err 413 := by decide
example : ck2 (ofString "5;x\r\nab") = .ok 5 2 0 false := by decide

/-! ## http_header_parse_hoff() and the 431 limits -/

/-- For every header block shorter than 4 GiB and every initial `hoff[0]` below the line limit (all
    callers pass 1): no `hoff[]` index reaches the array dimension (8192), `hoff[0]` never exceeds
    the line limit, `hlen` does not wrap, the returned header length lies inside the block, a
    non-zero return value was stored at `hoff[hoff[0]+1]`, and whenever the caller's size check
    passes (`(hlen ? hlen : clen) <= limit` with a limit of at most USHRT_MAX) every stored offset
    fits `unsigned short` un-truncated. -/
theorem c12_hoff_bounds (init0 : Nat) (block : Bytes) (h0 : init0 < Extracted.hoffBreak)
    (hlen : block.length ≤ u32Max) :
    ∃ ret st, hoffScan init0 block = .ok (ret, st) ∧
      (∀ iv ∈ st.writes, init0 < iv.1 ∧ iv.1 < Extracted.hoffDim) ∧
      st.cnt ≤ Extracted.hoffBreak ∧ ret ≤ block.length ∧
      (ret ≠ 0 → (st.cnt + 1, ret) ∈ st.writes ∧ st.cnt < Extracted.hoffBreak) ∧
      (∀ limit, limit ≤ u16Max → (if ret ≠ 0 then ret else block.length) ≤ limit →
        ∀ iv ∈ st.writes, iv.2 ≤ u16Max) := by
  have hinv : HoffInv init0 { cnt := init0, hlen := 0, writes := [] } :=
    ⟨Nat.le_refl _, h0, by intro iv h; simp at h⟩
  obtain ⟨ret, st, he, hp⟩ := hoffGo_post init0 block 0 0 _ hinv (by simpa using hlen)
  simp only [Nat.zero_add] at hp
  refine ⟨ret, st, he, ?_, hp.cnt_hi, ?_, ?_, ?_⟩
  · intro iv h; have := hp.idx iv h; exact ⟨this.1, this.2.1⟩
  · rcases hp.ret with h | h
    · omega
    · have := hp.hlen; omega
  · intro hne
    rcases hp.ret with h | h
    · exact absurd h hne
    · exact ⟨h.2.1, h.2.2⟩
  · intro limit hl hchk iv hiv
    have h1 := (hp.idx iv hiv).2.2
    have h2 := hp.hlen
    rcases hp.ret with h | h
    · rw [if_neg (by omega)] at hchk; omega
    · by_cases hz : ret = 0
      · rw [if_neg (by omega)] at hchk; omega
      · rw [if_pos hz] at hchk; omega

/-- all FOUR callers of http_header_parse_hoff() (h1_recv_headers, http_response_parse_headers,
    h2_send_headers_block, h2_send_end_stream_trailers — the latter three parse backend-controlled
    bytes): their arrays have the dimension of the prototype; the scan stops (return 0) exactly at the
    line count the HTTP/1 caller answers with 431 and below the dimension; every caller's byte limit is at
    most USHRT_MAX — `MAX_HTTP_RESPONSE_FIELD_SIZE`, the literal `rc > USHRT_MAX` of the two HTTP/2
    callers (whose presence the extractor checks), and server.max-request-field-size, which configfile.c
    reads through a 16-bit `unsigned short` config value — so the hypothesis `limit ≤ u16Max` of
    `c12_hoff_bounds` is met by every caller. -/
theorem c12_hoff_callers :
    Extracted.hoffDimH1 = Extracted.hoffDim ∧ Extracted.hoffDimResp = Extracted.hoffDim ∧
    Extracted.hoffDimH2Hdr = Extracted.hoffDim ∧ Extracted.hoffDimH2Trl = Extracted.hoffDim ∧
    Extracted.hoff431 ≤ Extracted.hoffBreak ∧ Extracted.hoffBreak < Extracted.hoffDim ∧
    Extracted.maxRespFieldSize ≤ u16Max ∧ Extracted.ushrtMax ≤ u16Max ∧
    2 ^ Extracted.maxRequestFieldSizeBits - 1 ≤ u16Max := by decide

/-- **Header accumulation across reads is bounded.**  Both kinds of caller keep the bytes received so far
    and call http_header_parse_hoff() on all of them after every read (the function has no state).  For
    every accumulated block (< 4 GiB) and every limit: the decision never involves `ub`, and whenever it
    is "wait for more bytes" the block is no longer than the limit — so, over every sequence of reads,
    the header buffer is at most `limit` bytes before the read that completes or rejects it. -/
theorem c12_header_wait_bounded (limit : Nat) (lineCheck : Bool) (block : Bytes) (hlen : block.length ≤ u32Max) :
    (∀ w, headDecision limit lineCheck block ≠ .ub w) ∧
    (headDecision limit lineCheck block = .ok .wait → block.length ≤ limit) ∧
    (∀ n, headDecision limit lineCheck block = .ok (.complete n) → n ≤ limit ∧ n ≤ block.length ∧ n ≠ 0) := by
  obtain ⟨ret, st, he, _, _, hret, _, _⟩ := c12_hoff_bounds 1 block (by decide) hlen
  unfold headDecision
  rw [he]; simp only
  by_cases hc : (decide ((if ret ≠ 0 then ret else block.length) > limit) ||
      (lineCheck && decide (st.cnt ≥ Extracted.hoff431))) = true
  · rw [if_pos hc]
    exact ⟨fun _ h => (nomatch h), fun h => (nomatch h), fun _ h => (nomatch h)⟩
  · rw [if_neg hc]
    simp only [Bool.or_eq_true, decide_eq_true_eq, not_or, Nat.not_lt] at hc
    have hc1 := hc.1
    by_cases hz : ret = 0
    · rw [if_pos hz]
      refine ⟨fun _ h => (nomatch h), ?_, fun _ h => (nomatch h)⟩
      intro _
      rw [if_neg (by omega)] at hc1
      exact hc1
    · rw [if_neg hz]
      refine ⟨fun _ h => (nomatch h), fun h => (nomatch h), ?_⟩
      intro n h
      simp only [R.ok.injEq, HeadDecision.complete.injEq] at h
      subst h
      rw [if_pos hz] at hc1
      exact ⟨hc1, hret, hz⟩

example : hoffScan 1 (ofString "GET / HTTP/1.1\r\nHost: a\r\n\r\n")
    = .ok (27, { cnt := 3, hlen := 27, writes := [(2, 16), (3, 25), (4, 27)] }) := by decide

/-! ## buffer.c growth, ck_realloc_u32() -/

/-- buffer_string_prepare_append() followed by buffer_commit(), and buffer_extend(): for a
    well-formed buffer whose size is at most 2^31-32 and a resulting length of at most 2^32-65
    bytes, no force_assert fires, no size_t or 32-bit computation wraps, the recorded size fits its
    32-bit field (nothing truncated), the existing string is kept, there is room for the requested
    `n` bytes plus the NUL, and committing any `m ≤ n` bytes yields exactly length `len + m`. -/
theorem c12_buffer_growth (b : Buf) (n : Nat) (hwf : b.used ≤ b.size) (hsz : b.size ≤ 2147483616)
    (hn : b.used + n ≤ 4294967231) :
    (∃ b', prepareAppend b n = .ok b' ∧ bufLen b' = bufLen b ∧ bufLen b' + n + 1 ≤ b'.size ∧
      b'.used ≤ b'.size ∧ b'.size ≤ u32Max ∧
      ∀ m, m ≤ n → commit b' m = .ok ⟨bufLen b + m + 1, b'.size⟩ ∧ bufLen b + m + 1 ≤ b'.size) ∧
    (∃ b', extend b n = .ok b' ∧ b'.used = bufLen b + n + 1 ∧ b'.used ≤ b'.size ∧ b'.size ≤ u32Max) := by
  rw [u32Max_eq]
  constructor
  · obtain ⟨b', h1, h2, h3, h4, h5, _, _⟩ := prepareAppend_spec b n hwf hsz hn
    refine ⟨b', h1, h2, h3, h4, h5, ?_⟩
    intro m hm
    have := commit_spec b' m (by omega)
    rw [h2] at this
    exact ⟨this, by omega⟩
  · exact extend_spec b n hwf hsz hn

/-- buffer_realloc(): for every request up to 2^32-65 bytes the `force_assert(sz > len)` holds, the
    allocation has room for the string plus NUL, and the size is stored un-truncated -/
theorem c12_buffer_realloc (b : Buf) (len : Nat) (h : len ≤ 4294967231) :
    ∃ sz, bufRealloc b len = .ok { b with size := sz } ∧ len + 1 ≤ sz ∧ sz ≤ u32Max ∧
      bufReallocSz len = some sz := by
  obtain ⟨sz, h1, h2, h3, _⟩ := bufReallocSz_spec len h
  refine ⟨sz, ?_, h2, by rw [u32Max_eq]; exact h3, h1⟩
  simp only [bufRealloc, h1, wrap32, u32Max_eq]
  rw [Nat.mod_eq_of_lt (by omega)]

/-- the hypotheses are needed: one byte beyond the length bound the 32-bit `size` field records 1 for a
    4 GiB allocation, and a buffer beyond 2 GiB records a size smaller than `used` at its next growth
    (the doubling request passes 2^32).  Both are outside what `c12_buffer_closure` shows reachable. -/
theorem c12_buffer_realloc_bound_tight :
    bufRealloc ⟨0, 0⟩ 4294967232 = .ok ⟨0, 1⟩ ∧ bufReallocSz 4294967232 = some 4294967297 ∧
    prepareAppend ⟨2147483650, 2147483651⟩ 10 = .ok ⟨2147483650, 65⟩ := by
  refine ⟨by decide, by decide, by decide⟩

/-- **Closure under a length limit** (discharges the size hypotheses of `c12_buffer_growth` from what
    callers actually control).  For every limit `L ≤ 2^28` and EVERY sequence of buffer operations
    (prepare_append / commit / extend = append / prepare_copy = copy / truncate / clear) on a fresh buffer
    in which each operation keeps the string length at most `L` and respects the API contract (commit
    only what was prepared, truncate within the string): no operation aborts, and after every prefix
    `used ≤ size`, `size ≤ 6·L + 300 < 2^31−32`, length ≤ L — i.e. the window in which
    `c12_buffer_growth` holds is never left.  The request / response / frame paths append into buffers
    whose length is capped far below 2^28 (request fields ≤ 65535, HPACK scratch 64 KiB, frames ≤ 16 KiB,
    reads ≤ 256 KiB: those caps are NOT derived here, they are the callers' limits). -/
theorem c12_buffer_closure (L : Nat) (hL : L ≤ 268435456) (ops : List BufOp) (hl : LegalRun L ⟨0, 0⟩ ops) :
    ∃ b, bufRun ⟨0, 0⟩ ops = .ok b ∧ b.used ≤ b.size ∧ b.size ≤ 6 * L + 300 ∧ bufLen b ≤ L ∧
      b.size ≤ 2147483616 := by
  obtain ⟨b, h1, h2⟩ := bufRun_inv L hL ops ⟨0, 0⟩ ⟨by simp, by simp, by simp [bufLen]⟩ hl
  exact ⟨b, h1, h2.wf, h2.size, h2.len, by have := h2.size; omega⟩

/-- ck_realloc_u32() (CONDITIONAL: says when the assertion fires, not that callers never make it fire):
    for `elt_sz > 0` the assertion passes exactly when `x` and `n + x` fit uint32_t and
    `(n+x)*elt_sz` fits size_t, and then the size passed to realloc() is that product, un-wrapped. -/
theorem c12_ck_realloc_u32 (n x elt : Nat) (helt : 0 < elt) :
    (∀ bytes, ckReallocU32 n x elt = some bytes → n + x ≤ u32Max ∧ bytes = (n + x) * elt ∧ bytes ≤ uszMax) ∧
    (ckReallocU32 n x elt = none ↔ ¬ (x ≤ u32Max ∧ n ≤ u32Max - x ∧ (n + x) * elt ≤ uszMax)) := by
  have hiff : n + x ≤ uszMax / elt ↔ (n + x) * elt ≤ uszMax := Nat.le_div_iff_mul_le helt
  unfold ckReallocU32
  constructor
  · intro bytes h
    split at h
    · rename_i hc
      simp only [Bool.and_eq_true, decide_eq_true_eq] at hc
      simp only [Option.some.injEq] at h
      exact ⟨by omega, h.symm, by rw [← h]; exact hiff.mp hc.2⟩
    · simp at h
  · constructor
    · intro h
      split at h
      · simp at h
      · rename_i hc
        simp only [Bool.and_eq_true, decide_eq_true_eq, not_and] at hc
        intro ⟨a, b, c⟩
        exact hc ⟨a, b⟩ (hiff.mpr c)
    · intro h
      split
      · rename_i hc
        simp only [Bool.and_eq_true, decide_eq_true_eq] at hc
        exact absurd ⟨hc.1.1, hc.1.2, hiff.mp hc.2⟩ h
      · rfl

example : prepareAppend ⟨0, 0⟩ 10 = .ok ⟨0, 65⟩ ∧ commit ⟨0, 65⟩ 10 = .ok ⟨11, 65⟩ := by decide
example : extend ⟨11, 65⟩ 100 = .ok ⟨111, 129⟩ := by decide
example : ckReallocU32 4294967295 1 8 = none ∧ ckReallocU32 10 5 8 = some 120 := by decide
example : bufRun ⟨0, 0⟩ [.prep 10, .commit 10, .extend 50, .trunc 3, .copy 100, .clear] = .ok ⟨0, 129⟩ := by decide
example : Legal 100 ⟨61, 65⟩ (.extend 40) ∧ Legal 100 ⟨0, 65⟩ (.commit 10) := by simp [Legal, bufLen]

/-! ## HTTP/2 frame, padding, priority and CONTINUATION lengths -/

/-- HTTP/2 length arithmetic.
    (1),(2) h2_recv_headers() / h2_recv_data(): for every frame length, flag byte and pad length the
    subtractions `alen -= 1+pad`, `alen -= 5` are reached only when exact (never `ub`) and an accepted
    fragment / data plus its padding fill the frame exactly.  NOTE: these two conjuncts restate the guards
    as written in the model (the guard text is hand-copied, not extracted); their tie to the C is the
    h2h / h2d correspondence under ASan.
    (3) h2_recv_continuation() for every buffer below 2 GiB holding a complete first frame, every
    frame-size limit: no offset wraps, no header or payload is read or moved outside the data present
    (never `ub`: the scan validates exactly the frames the merge later walks), a merged HEADERS frame has
    total encoded length `9 ≤ m < 65536` and the buffer does not grow; and whenever the function decides to
    WAIT for more data the buffer holds fewer bytes than `need`, with `need ≤ 65536+8` (or the first
    frame's own end + 9): since it re-scans everything received so far, this bounds the bytes accumulated
    for one HEADERS+CONTINUATION sequence over every sequence of reads.
    (4) the limit on received frames is the advertised default (16384) and lies in the legal range.
    (The bound on the DECODED header size is lshpack's own output check — not modelled here.) -/
theorem c12_h2_sizes :
    (∀ flen flags pad, (∀ w, h2HeadersLen flen flags pad ≠ .ub w) ∧
      ∀ off alen, h2HeadersLen flen flags pad = .ok off alen → off + alen + padOf flags pad = flen) ∧
    (∀ len flags pad, (∀ w, h2DataLen len flags pad ≠ .ub w) ∧
      ∀ off alen, h2DataLen len flags pad = .ok off alen → off + alen + padOf flags pad = len) ∧
    (∀ fsize buf, 9 + u24 buf 0 ≤ buf.length → buf.length ≤ 2147483648 →
      (∀ w, h2Cont fsize buf ≠ .ub w) ∧
      (∀ m out calm, h2Cont fsize buf = .merged m out calm →
        9 ≤ m ∧ m < Extracted.h2ContCap ∧ m ≤ out.length ∧ out.length ≤ buf.length) ∧
      (∀ need calm, h2Cont fsize buf = .incomplete need calm →
        buf.length < need ∧ (need ≤ Extracted.h2ContCap + 8 ∨ need ≤ 9 + u24 buf 0 + 9))) ∧
    (Extracted.h2RecvFrameMax = Extracted.h2FrameSizeDefault ∧ Extracted.h2FrameSizeMin ≤ Extracted.h2RecvFrameMax ∧
      Extracted.h2RecvFrameMax ≤ Extracted.h2FrameSizeMax ∧ Extracted.h2FrameSizeMax < 16777216 ∧
      9 + Extracted.h2RecvFrameMax < Extracted.h2ContCap) :=
  ⟨h2HeadersLen_spec, h2DataLen_spec, h2Cont_spec, by decide⟩

example : h2HeadersLen 10 (flagPadded ||| flagPriority ||| flagEndHeaders) 3 = .ok 6 1 := by decide
example : h2HeadersLen 3 flagPadded 3 = .protoErr := by decide
example : h2DataLen 5 flagPadded 4 = .ok 1 0 ∧ h2DataLen 5 flagPadded 5 = .protoErr := by decide
example : h2Cont 16384 [0, 0, 2, 1, 0, 0, 0, 0, 1, 0x82, 0x86, 0, 0, 1, 9, 4, 0, 0, 0, 1, 0x84]
    = .merged 12 [0, 0, 3, 1, 4, 0, 0, 0, 1, 0x82, 0x86, 0x84] false := by decide +kernel

/-! ## the shared scratch buffer (srv->tmp_buf) over histories of two modules -/

/-- **HPACK scratch buffer never below what h2.c asserts, over every history.**  `srv->tmp_buf` is ONE
    buffer shared by every request; `h2_init_con` sizes it (131071+1) and `h2_parse_headers_frame` /
    `h2_send_headers` / `h2_send_headers_block` `force_assert` 64 KiB / 128 KiB before HPACK coding, while
    mod_fastcgi uses the same buffer to log FCGI_STDERR records (`buffer_clear` + prepare_append + truncate).
    For EVERY interleaving of {connection set-up, retire, HEADERS decode, FCGI_STDERR record (content
    ≤ 65535, padding ≤ 255: what the record header can carry), FCGI_STDOUT record}, from every well-formed
    buffer state (in particular the fresh server, and — the theorem being over all `ops` — after every
    prefix): no step aborts (neither the h2 size assertion nor a buffer.c assertion), the buffer stays
    well-formed, its size never decreases and never exceeds 786684 octets [growth], and whenever an HTTP/2
    connection is open its size is ≥ 131072.  Not covered: other users of `r->tmp_buf` (they are required
    to leave `size` alone — `buffer_clear`, never `buffer_reset`/`buffer_free_ptr`: not derived for them). -/
theorem c12_tmpbuf_histories (ops : List TbOp) (hl : TbLegalAll ops) (s : TbSt) (hi : TbInv s) :
    ∃ sf tr, tbRun s ops = some (sf, tr) ∧ sf.b.used ≤ sf.b.size ∧ s.b.size ≤ sf.b.size ∧
      (∀ x ∈ tr, s.b.size ≤ x ∧ x ≤ 786684) ∧ (sf.h2open = true → h2EncodeNeed ≤ sf.b.size) := by
  obtain ⟨sf, tr, h1, h2, h3, h4⟩ := tbRun_inv ops s hi hl
  exact ⟨sf, tr, h1, h2.1, h3, h4, h2.2.2⟩

example : TbInv ⟨⟨0, 0⟩, false⟩ := ⟨by decide, by decide, by intro h; cases h⟩
example : TbLegalAll [.fcgiErr 5000 3, .h2init, .fcgiErr 100 0, .h2hdr, .fcgiErr 65535 255, .h2hdr, .h2retire] := by
  simp [TbLegalAll, TbLegal]
example : (tbRun ⟨⟨0, 0⟩, false⟩ [.fcgiErr 5000 3, .h2init, .fcgiErr 100 0, .h2hdr, .h2retire]).map (·.2)
    = some [8193, 131073, 131073, 131073, 131073] := by decide
/-- the assertion is in the model: a scratch buffer that was shrunk behind h2's back aborts the decode -/
example : tbStep ⟨⟨31, 129⟩, true⟩ .h2hdr = none := by decide

/-! ## http_range.c -/

/-- **http_range_parse(), composed.**  For EVERY Range header text and every representation length
    `0 < len ≤ LLONG_MAX`, the whole parser in checked form (Model/ArithRange.lean: strtoll clamping,
    http_range_parse_next incl. the suffix form with its `n != LLONG_MIN` short-circuit, the do-while loop
    with the sorted-coalescing and the unsorted limit, http_range_coalesce_unsorted with restarts) returns
    `ok`: no off_t value leaves int64 (`-n`, `len+n`, `len-1`, `ranges[n-2]-80`, `ranges[j]-80`, `b-80`) and
    no `ranges[]` access is outside `off_t ranges[RMAX*2]`; every returned range satisfies
    `0 ≤ first ≤ last < len`; at most RMAX ranges are returned. -/
theorem c12_range_arith (s : Bytes) (len : Int) (hlen : 0 < len) (hmax : len ≤ Rg.llMax) :
    ∃ rs, Rg.parse s len = .ok rs ∧ (∀ r ∈ rs, 0 ≤ r.1 ∧ r.1 ≤ r.2 ∧ r.2 < len) ∧ rs.length ≤ Rg.rmax :=
  Rg.parse_spec s len hlen hmax

example : Rg.parse (ofString "0-1,500-600,-5") 1000 = .ok [(0, 1), (500, 600), (995, 999)] := by decide
example : Rg.parse (ofString "-9223372036854775808") 1000 = .ok [(0, 999)] := by decide
example : Rg.parse (ofString "5-9223372036854775807,2-3") 9223372036854775807 =
    .ok [(2, 9223372036854775806)] := by decide
example : Rg.parse (ofString "500-,2-3") 1000 = .ok [(500, 999), (2, 3)] := by decide

end LtVerif.C12
