/-
  C12 — untrusted input never causes undefined behaviour, abort or unbounded growth.
  Property theorems only (helper lemmas live in LtVerif/Proofs/Arith.lean).

  What is proved here is the *size / overflow arithmetic*: over the machine-arithmetic model
  (Model/Arith.lean: explicit C widths, every intermediate value and array index checked, result
  `ub …` where the C computation would leave its type or its array) no input makes a modelled
  routine produce `ub`, and the results are the mathematical values.  Absence of UB in the pointer
  code itself is explored under ASan/UBSan by the correspondence check, not proved (claimed partial).

  Planned in DESIGN §6 but not proved here: `c12_hpack_output_bound` (HPACK decoder output ≤ 64 KiB;
  the decoder is modelled for C07) and `c12_bounded_state` (needs the connection automata of C05/C10).
-/
import LtVerif.Model.Arith
import LtVerif.Model.ArithRange
import LtVerif.Model.H1Parse
import LtVerif.Proofs.Arith
namespace LtVerif.C12
open LtVerif LtVerif.B LtVerif.Arith

/-! ## li_restricted_strtoint64() -/

/-- For every byte string `v`: the loop of li_restricted_strtoint64() never leaves int64 in any
    intermediate (`rv*10`, `INT64_MAX - c`, `rv + c`: the model returns `ok`, never `ub`); the
    returned value is in `[0, INT64_MAX]`; the whole string is consumed (the callers' success test
    `*err == v+vlen`) exactly when it consists of digits whose decimal value fits int64, and then
    the result IS that decimal value. -/
theorem c12_strtoint64_no_overflow (v : Bytes) :
    ∃ rv i : Nat, strtoI64 v = .ok ((rv : Int), i) ∧ (rv : Int) ≤ i64Max ∧ i ≤ v.length ∧
      (i = v.length ↔ (v.all isDigit = true ∧ (decValue v : Int) ≤ i64Max)) ∧
      (i = v.length → rv = decValue v) := by
  obtain ⟨rv, i, h1, h2, _, h4, h5, h6⟩ := strtoI64Go_spec v 0 0 (by omega)
  refine ⟨rv, i, h1, ?_, by omega, ?_, ?_⟩
  · rw [i64Max_eq]; omega
  · rw [i64Max_eq]
    have e : decFrom 0 v = decValue v := rfl
    rw [e] at h5
    simp only [Nat.zero_add] at h5
    constructor
    · intro h; have := h5.mp h; exact ⟨this.1, by omega⟩
    · intro ⟨a, b⟩; exact h5.mpr ⟨a, by omega⟩
  · intro h
    have e : decFrom 0 v = decValue v := rfl
    rw [← e]; exact h6 (by omega)

/-- the specification-level Content-Length parser used by the C01 model is exactly the success
    case of the machine-level loop -/
theorem c12_strtoint64_refines_c01 (v : Bytes) (n : Nat) :
    LtVerif.strtoInt64 v = some n ↔ strtoI64 v = .ok ((n : Int), v.length) := by
  obtain ⟨rv, i, h1, _, _, h4, h5⟩ := c12_strtoint64_no_overflow v
  rw [i64Max_eq] at h4
  have e : decValue v = v.foldl (fun acc d => acc * 10 + (d - 48).toNat) 0 := rfl
  unfold LtVerif.strtoInt64
  rw [h1]
  constructor
  · intro h
    split at h
    · rename_i hd
      simp only at h
      split at h
      · rename_i hle
        simp only [Option.some.injEq] at h
        have hi : i = v.length := h4.mpr ⟨hd, by rw [e]; omega⟩
        have := h5 hi
        rw [hi, this, e, h]
      · simp at h
    · simp at h
  · intro h
    simp only [R.ok.injEq, Prod.mk.injEq] at h
    obtain ⟨hrv, hi⟩ := h
    have hrv' : rv = n := by omega
    obtain ⟨hd, hle⟩ := h4.mp hi
    have := h5 hi
    rw [if_pos hd]
    simp only
    rw [← e, if_pos (by omega)]
    rw [← this, hrv']

example : strtoI64 (ofString "9223372036854775807") = .ok (9223372036854775807, 19) := by decide
example : strtoI64 (ofString "9223372036854775808") = .ok (9223372036854775800, 18) := by decide
example : strtoI64 (ofString "12a") = .ok (12, 2) := by decide

/-! ## chunk-size accumulation: h1_chunked(), http_chunk_decode_append_data() -/

/-- With the guard found in the source (`te_chunked > (1<<59)-1-2` tested before every shift), for
    every chunk header line: `te_chunked <<= 4; te_chunked |= u` never leaves off_t (never `ub`), the
    accumulated value is non-negative, equals the value of the hex digits, and `te_chunked + 2`
    (the CRLF after the chunk data) still fits off_t.  Holds for both decoders' guards. -/
theorem c12_chunk_size_guard (line : Bytes) :
    (∀ w, ckHex Extracted.ckGuardH1 line 0 0 ≠ .ub w) ∧ (∀ w, ckHex Extracted.ckGuardGw line 0 0 ≠ .ub w) ∧
    (∀ g, g = Extracted.ckGuardH1 ∨ g = Extracted.ckGuardGw → ∀ te k r, ckHex g line 0 0 = .ok te k r →
      0 ≤ te ∧ te + 2 ≤ i64Max ∧ te = (hexValue line 0 : Int)) := by
  have a := ckHex_spec Extracted.ckGuardH1 ckGuardH1_le line 0 0 (by unfold ckTeMax; omega)
  have b := ckHex_spec Extracted.ckGuardGw ckGuardGw_le line 0 0 (by unfold ckTeMax; omega)
  refine ⟨a.1, b.1, ?_⟩
  intro g hg te k r h
  rw [i64Max_eq]
  rcases hg with hg | hg <;> subst hg
  · obtain ⟨n, h1, h2, h3, _⟩ := a.2 te k r h
    unfold ckTeMax at h2; subst h1; subst h3; omega
  · obtain ⟨n, h1, h2, h3, _⟩ := b.2 te k r h
    unfold ckTeMax at h2; subst h1; subst h3; omega

/-- One call of h1_chunked() on any data, for any server.max-request-size and any number of request
    body bytes already received (`bytes_in`, with `bytes_in` + the data present fitting off_t): the
    413 test, `te_chunked += 2`, the in-memory decision in the overflow-free form
    `te_chunked <= 64*1024 - bytes_in`, the transfer `bytes_in += len` and `te_chunked -= len`
    never leave off_t; the remaining-length counter stays a non-negative off_t and no more bytes
    are moved than were supplied.  Same for one call of http_chunk_decode_append_data(). -/
theorem c12_chunk_step_no_overflow (msKB : Nat) (bytesIn : Int) (data : Bytes) (hms : msKB ≤ u32Max)
    (hin0 : 0 ≤ bytesIn) (hin : bytesIn + data.length ≤ i64Max) :
    CkGood data.length (ck1 msKB bytesIn data) ∧ CkGood data.length (ck2 data) := by
  rw [u32Max_eq] at hms
  rw [i64Max_eq] at hin
  exact ⟨ck1_good msKB bytesIn data hms hin0 hin, ck2_good data (by omega)⟩

/-- The sum as the source evaluated it before the repair (`dst_cq->bytes_in + te_chunked`, h1.c:725)
    DOES leave off_t on values the accepting path produces: 31 body bytes received, then a chunk
    header `7fffffffffffffdf` (accepted: below the guard before its last digit).  This is why the
    model (and the repaired source) use `te_chunked <= 64*1024 - bytes_in`. -/
theorem c12_chunk_body_sum_as_written_overflows :
    ck1 0 31 (ofString "7fffffffffffffdf\r\n") = .ok 9223372036854775777 0 0 false ∧
    inI64 (ck1SumAsWritten 31 9223372036854775777) = false := by
  constructor <;> decide

example : ckHex Extracted.ckGuardH1 (ofString "7fffffffffffffdf\r\n") 0 0
    = .ok 9223372036854775775 16 [cr, lf] := by decide
example : ckHex Extracted.ckGuardH1 (ofString "7fffffffffffffe0\r\n") 0 0 = .tooLarge := by decide
example : ck1 1 0 (ofString "401\r\nab") = .err 413 := by decide
example : ck2 (ofString "5;x\r\nab") = .ok 5 2 0 false := by decide

/-! ## http_header_parse_hoff() and the 431 limits -/

/-- For every header block shorter than 4 GiB and every initial `hoff[0]` below the line limit (all
    callers pass 1): no `hoff[]` index reaches the array dimension (8192), `hoff[0]` never exceeds
    the line limit, `hlen` does not wrap, the returned header length lies inside the block, a
    non-zero return value was stored at `hoff[hoff[0]+1]`, and whenever the caller's size check
    passes (`(hlen ? hlen : clen) <= limit` with a limit of at most USHRT_MAX) every stored offset
    fits `unsigned short` un-truncated. -/
theorem c12_hoff_bounds (init0 : Nat) (block : Bytes) (h0 : init0 < Extracted.hoffBreak)
    (hlen : block.length ≤ u32Max) :
    ∃ ret st, hoffScan init0 block = .ok (ret, st) ∧
      (∀ iv ∈ st.writes, init0 < iv.1 ∧ iv.1 < Extracted.hoffDim) ∧
      st.cnt ≤ Extracted.hoffBreak ∧ ret ≤ block.length ∧
      (ret ≠ 0 → (st.cnt + 1, ret) ∈ st.writes ∧ st.cnt < Extracted.hoffBreak) ∧
      (∀ limit, limit ≤ u16Max → (if ret ≠ 0 then ret else block.length) ≤ limit →
        ∀ iv ∈ st.writes, iv.2 ≤ u16Max) := by
  have hinv : HoffInv init0 { cnt := init0, hlen := 0, writes := [] } :=
    ⟨Nat.le_refl _, h0, by intro iv h; simp at h⟩
  obtain ⟨ret, st, he, hp⟩ := hoffGo_post init0 block 0 0 _ hinv (by simpa using hlen)
  simp only [Nat.zero_add] at hp
  refine ⟨ret, st, he, ?_, hp.cnt_hi, ?_, ?_, ?_⟩
  · intro iv h; have := hp.idx iv h; exact ⟨this.1, this.2.1⟩
  · rcases hp.ret with h | h
    · omega
    · have := hp.hlen; omega
  · intro hne
    rcases hp.ret with h | h
    · exact absurd h hne
    · exact ⟨h.2.1, h.2.2⟩
  · intro limit hl hchk iv hiv
    have h1 := (hp.idx iv hiv).2.2
    have h2 := hp.hlen
    rcases hp.ret with h | h
    · rw [if_neg (by omega)] at hchk; omega
    · by_cases hz : ret = 0
      · rw [if_neg (by omega)] at hchk; omega
      · rw [if_pos hz] at hchk; omega

/-- the callers' arrays have the dimension of the prototype, the scan stops (return 0) exactly at the
    line count the HTTP/1 caller answers with 431, and both callers' byte limits are at most USHRT_MAX -/
theorem c12_hoff_callers :
    Extracted.hoffDimH1 = Extracted.hoffDim ∧ Extracted.hoffDimResp = Extracted.hoffDim ∧
    Extracted.hoff431 ≤ Extracted.hoffBreak ∧ Extracted.hoffBreak < Extracted.hoffDim ∧
    Extracted.maxRespFieldSize ≤ u16Max := by decide

example : hoffScan 1 (ofString "GET / HTTP/1.1\r\nHost: a\r\n\r\n")
    = .ok (27, { cnt := 3, hlen := 27, writes := [(2, 16), (3, 25), (4, 27)] }) := by decide

/-! ## buffer.c growth, ck_realloc_u32() -/

/-- buffer_string_prepare_append() followed by buffer_commit(), and buffer_extend(): for a
    well-formed buffer whose size is at most 2^31-32 and a resulting length of at most 2^32-65
    bytes, no force_assert fires, no size_t or 32-bit computation wraps, the recorded size fits its
    32-bit field (nothing truncated), the existing string is kept, there is room for the requested
    `n` bytes plus the NUL, and committing any `m ≤ n` bytes yields exactly length `len + m`. -/
theorem c12_buffer_growth (b : Buf) (n : Nat) (hwf : b.used ≤ b.size) (hsz : b.size ≤ 2147483616)
    (hn : b.used + n ≤ 4294967231) :
    (∃ b', prepareAppend b n = .ok b' ∧ bufLen b' = bufLen b ∧ bufLen b' + n + 1 ≤ b'.size ∧
      b'.used ≤ b'.size ∧ b'.size ≤ u32Max ∧
      ∀ m, m ≤ n → commit b' m = .ok ⟨bufLen b + m + 1, b'.size⟩ ∧ bufLen b + m + 1 ≤ b'.size) ∧
    (∃ b', extend b n = .ok b' ∧ b'.used = bufLen b + n + 1 ∧ b'.used ≤ b'.size ∧ b'.size ≤ u32Max) := by
  rw [u32Max_eq]
  constructor
  · obtain ⟨b', h1, h2, h3, h4, h5, _⟩ := prepareAppend_spec b n hwf hsz hn
    refine ⟨b', h1, h2, h3, h4, h5, ?_⟩
    intro m hm
    have := commit_spec b' m (by omega)
    rw [h2] at this
    exact ⟨this, by omega⟩
  · exact extend_spec b n hwf hsz hn

/-- buffer_realloc(): for every request up to 2^32-65 bytes the `force_assert(sz > len)` holds, the
    allocation has room for the string plus NUL, and the size is stored un-truncated -/
theorem c12_buffer_realloc (b : Buf) (len : Nat) (h : len ≤ 4294967231) :
    ∃ sz, bufRealloc b len = .ok { b with size := sz } ∧ len + 1 ≤ sz ∧ sz ≤ u32Max ∧
      bufReallocSz len = some sz := by
  obtain ⟨sz, h1, h2, h3⟩ := bufReallocSz_spec len h
  refine ⟨sz, ?_, h2, by rw [u32Max_eq]; exact h3, h1⟩
  simp only [bufRealloc, h1, wrap32, u32Max_eq]
  rw [Nat.mod_eq_of_lt (by omega)]

/-- the bound is tight: one byte more and the 32-bit `size` field records 1 for a 4 GiB allocation
    (harmless for memory safety: the recorded size is smaller than the allocation; unreachable from
    untrusted input, whose buffers are bounded by the request / frame / read limits) -/
theorem c12_buffer_realloc_bound_tight :
    bufRealloc ⟨0, 0⟩ 4294967232 = .ok ⟨0, 1⟩ ∧ bufReallocSz 4294967232 = some 4294967297 := by
  constructor <;> decide

/-- ck_realloc_u32(): when the assertion passes, `n + x` fits uint32_t and `(n+x)*elt_sz`, the size
    passed to realloc(), does not wrap size_t -/
theorem c12_ck_realloc_u32 (n x elt bytes : Nat) (_helt : 0 < elt) (h : ckReallocU32 n x elt = some bytes) :
    n + x ≤ u32Max ∧ bytes = (n + x) * elt ∧ bytes ≤ uszMax := by
  unfold ckReallocU32 at h
  split at h
  · rename_i hc
    simp only [Bool.and_eq_true, decide_eq_true_eq] at hc
    simp only [Option.some.injEq] at h
    refine ⟨by omega, h.symm, ?_⟩
    rw [← h]
    calc (n + x) * elt ≤ (uszMax / elt) * elt := Nat.mul_le_mul_right _ hc.2
      _ ≤ uszMax := Nat.div_mul_le_self _ _
  · simp at h

example : prepareAppend ⟨0, 0⟩ 10 = .ok ⟨0, 65⟩ ∧ commit ⟨0, 65⟩ 10 = .ok ⟨11, 65⟩ := by decide
example : extend ⟨11, 65⟩ 100 = .ok ⟨111, 129⟩ := by decide
example : ckReallocU32 4294967295 1 8 = none ∧ ckReallocU32 10 5 8 = some 120 := by decide

/-! ## HTTP/2 frame, padding, priority and CONTINUATION lengths -/

/-- For every HEADERS / DATA frame length, flag byte and pad length: the padding and priority checks
    of h2_recv_headers() / h2_recv_data() never let an unsigned subtraction wrap (`alen -= 1+pad`,
    `alen -= 5` are only reached when they are exact: never `ub`), and when the frame is accepted the
    fragment (resp. data) plus the padding fill the frame exactly, so every byte the HPACK decoder
    or the body copy touches lies inside the frame.
    For h2_recv_continuation() on any buffer below 2 GiB holding a complete first frame and any
    negotiated max frame size: no offset wraps, no header or payload is read or moved outside the
    data present (never `ub`), and a merged HEADERS frame has total length `9 ≤ m < 65536` — below
    the HPACK scratch buffer of 64 KiB — and does not grow the buffer. -/
theorem c12_h2_sizes :
    (∀ flen flags pad, (∀ w, h2HeadersLen flen flags pad ≠ .ub w) ∧
      ∀ off alen, h2HeadersLen flen flags pad = .ok off alen → off + alen + padOf flags pad = flen) ∧
    (∀ len flags pad, (∀ w, h2DataLen len flags pad ≠ .ub w) ∧
      ∀ off alen, h2DataLen len flags pad = .ok off alen → off + alen + padOf flags pad = len) ∧
    (∀ fsize buf, 9 + u24 buf 0 ≤ buf.length → buf.length ≤ 2147483648 →
      (∀ w, h2Cont fsize buf ≠ .ub w) ∧
      ∀ m out calm, h2Cont fsize buf = .merged m out calm →
        9 ≤ m ∧ m < Extracted.h2ContCap ∧ m ≤ out.length ∧ out.length ≤ buf.length) ∧
    (Extracted.h2ContCap ≤ Extracted.h2TmpBufSize + 1 ∧ Extracted.h2FrameSizeDefault ≤ Extracted.h2FrameSizeMax ∧
      Extracted.h2FrameSizeMin ≤ Extracted.h2FrameSizeDefault ∧ Extracted.h2FrameSizeMax < 16777216) :=
  ⟨h2HeadersLen_spec, h2DataLen_spec, h2Cont_spec, by decide⟩

example : h2HeadersLen 10 (flagPadded ||| flagPriority ||| flagEndHeaders) 3 = .ok 6 1 := by decide
example : h2HeadersLen 3 flagPadded 3 = .protoErr := by decide
example : h2DataLen 5 flagPadded 4 = .ok 1 0 ∧ h2DataLen 5 flagPadded 5 = .protoErr := by decide
example : h2Cont 16384 [0, 0, 2, 1, 0, 0, 0, 0, 1, 0x82, 0x86, 0, 0, 1, 9, 4, 0, 0, 0, 1, 0x84]
    = .merged 12 [0, 0, 3, 1, 0, 0, 0, 0, 1, 0x82, 0x86, 0x84] false := by decide +kernel

/-! ## http_range.c -/

/-- For every Range header text and every representation length `0 < len ≤ LLONG_MAX`: the values
    http_range_parse_next() computes for a suffix range (`-n`, `len + n`, `len - 1`), the
    `ranges[n-2]-80` of http_range_parse() and the `ranges[j]-80` / `b-80` of
    http_range_coalesce_unsorted() stay inside off_t on every state the parser can reach (the
    checked forms equal the unchecked model of Model/Range.lean), every range the parser returns
    satisfies `0 ≤ first ≤ last < len`, and it never holds more than RMAX ranges, so every
    `ranges[n]`, `ranges[n+1]` access is inside `off_t ranges[RMAX*2]`. -/
theorem c12_range_arith (len : Int) (hlen : 0 < len) (hmax : len ≤ Range.LLONG_MAX) :
    (∀ n, n < 0 → Range.LLONG_MIN ≤ n → n ≠ Range.LLONG_MIN →
      rangeSuffixChk n len = .ok (if len > -n then len + n else 0, len - 1)) ∧
    (∀ st rg, Range.InB len rg → rangeStepChk st rg = .ok (Range.parseStep st rg)) ∧
    (∀ b e r, Range.InB len (b, e) → Range.InB len r → rangeOverlapsChk b e r = .ok (Range.overlaps b e r)) ∧
    (∀ s, Range.AllInB len (Range.parse s len) ∧ (Range.parse s len).length ≤ Range.RMAX) ∧
    (∀ st rg, st.rs.length < st.lim → st.lim ≤ Range.RMAX →
      (Range.parseStep st rg).1.rs.length ≤ (Range.parseStep st rg).1.lim ∧
      (Range.parseStep st rg).1.lim ≤ Range.RMAX) :=
  ⟨fun n h1 h2 h3 => rangeSuffixChk_spec n len hlen hmax h1 h2 h3,
   fun st rg h => rangeStepChk_spec len hmax st rg h,
   fun b e r h1 h2 => rangeOverlapsChk_spec len hmax b e r h1 h2,
   fun s => ⟨Range.parse_inB s len hlen, parse_len s len⟩,
   fun st rg h1 h2 => parseStep_len_lim st rg h1 h2⟩

example : rangeSuffixChk (-5) 1000 = .ok (995, 999) := by decide
example : Range.parse (ofString "0-1,500-600") 1000 = [(0, 1), (500, 600)] := by decide

end LtVerif.C12
