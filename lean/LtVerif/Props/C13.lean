/-
  C13 — connections always end: timeouts, limits, overload recovery, graceful stop.

  Property theorems over `LtVerif.Model.Lifecycle` (helper lemmas: `LtVerif.Proofs.Lifecycle`).
  The model is tied to the C code by the correspondence streams of tools/ltv/props/c13.py:
  `ct1`/`ct2`/`lc` call h1_check_timeout(), h2_check_timeout() and the load-check step directly;
  `sc` runs the real server_main_loop() in virtual time against scripted clients.

  Reading guide.  `Conn` is one HTTP/1.x connection at rest between two events, `Conn.Rest` the
  three shapes in which the main loop leaves it (waiting for request bytes with FDEVENT_IN wanted,
  waiting for the client to read with write_request_ts set, lingering in the close state),
  `Conn.deadline` the instant after which the once-per-second sweep gives up on it, `IdleEv` what
  can happen to it while its client does nothing (sweeps at arbitrary seconds, spurious wake-ups,
  graceful-shutdown maintenance), `runIdle … = none` that it has been closed and its slot returned.
  `Sys` is the server (lim_conns, cur_fds, sockets_disabled, graceful flags, listen backlog,
  connections) driven by scripted client actions `Op`.
-/
import LtVerif.Proofs.Lifecycle
namespace LtVerif.C13
open LtVerif.Lifecycle LtVerif.Extracted

/-! ## every connection is eventually released (timeouts) -/

/-- h1.c and connections.c each define HTTP_LINGER_TIMEOUT ("keep in sync"): they agree. -/
theorem c13_linger_in_sync : lingerTimeoutH1 = lingerTimeoutCon := by decide

/-- The sweep acts on a connection at rest exactly when its deadline has passed: no connection is
    kept beyond it, none is closed before it. -/
theorem c13_sweep_exact (cfg : Cfg) (now : Int) (c : Conn) (hr : c.Rest) :
    (tickConn cfg now c = some c ↔ now ≤ c.deadline cfg) ∧
    (c.deadline cfg < now → tickConn cfg now c = none ∨
      ∃ c', tickConn cfg now c = some c' ∧ c'.st = .close ∧ c'.cts = now) := by
  refine ⟨⟨fun h => ?_, tickConn_before cfg now c hr⟩, fun h => ?_⟩
  · apply Decidable.byContradiction
    intro hn
    rw [tickConn_after cfg now c hr (by omega)] at h
    split at h
    · cases h
    · rename_i hs
      rcases toClose_cases now c with h' | ⟨c', h', hs', _⟩
      · rw [h'] at h; cases h
      · rw [h'] at h; cases h; exact hs hs'
  · rw [tickConn_after cfg now c hr h]
    split
    · exact Or.inl rfl
    · exact toClose_cases now c

/-- FIN is sent by the first sweep after the deadline: whatever else happens to the connection
    while its client makes no progress (sweeps at earlier seconds, spurious wake-ups, graceful
    maintenance), after a sweep at a second `a` past the deadline the connection has been shut
    down (close state, lingering since `a` at the latest) or released. -/
theorem c13_idle_fin_sent (cfg : Cfg) (c : Conn) (hr : c.Rest) (e1 : List IdleEv) (a : Int)
    (hmono : ∀ t, IdleEv.tick t ∈ e1 → t ≤ a) (ha : c.deadline cfg < a) :
    ∀ c', runIdle cfg (some c) (e1 ++ [.tick a]) = some c' → c'.st = .close ∧ c'.cts ≤ a := by
  have hw : Waiting cfg (c.deadline cfg) a (some c) := by
    intro c0 h0
    cases h0
    refine ⟨hr, ?_⟩
    by_cases hs : c.st = .close
    · refine Or.inr ⟨hs, ?_⟩
      simp only [Conn.deadline, hs] at ha
      have : (0 : Int) ≤ lingerTimeoutH1 := by decide
      omega
    · exact Or.inl ⟨hs, rfl⟩
  rw [runIdle_append]
  exact waiting_tick cfg _ a _ ha (waiting_run cfg _ a _ e1 hmono hw)

/-- C13, timeouts: a connection whose client makes no progress is released.  For every
    HTTP/1.x connection at rest (idle keep-alive, stalled request head or body, stalled response,
    lingering close) and EVERY schedule of the other events — `e1`, `e2`, `e3` are arbitrary
    interleavings of sweeps, wake-ups and graceful maintenance, the only assumption being that the
    clock does not run backwards before `a` — a sweep at a second `a` past the deadline followed by
    a sweep more than the linger timeout later leaves the connection closed and its slot free.
    With the sweep running every second this is deadline + 1, then + linger + 1. -/
theorem c13_idle_closed (cfg : Cfg) (c : Conn) (hr : c.Rest) (e1 e2 e3 : List IdleEv) (a b : Int)
    (hmono : ∀ t, IdleEv.tick t ∈ e1 → t ≤ a)
    (ha : c.deadline cfg < a) (hb : a + lingerTimeoutH1 < b) :
    runIdle cfg (some c) (e1 ++ [.tick a] ++ e2 ++ [.tick b] ++ e3) = none := by
  have h1 : ClosedBy a (runIdle cfg (some c) (e1 ++ [.tick a])) :=
    fun c' h' => c13_idle_fin_sent cfg c hr e1 a hmono ha c' h'
  have h2 := closedBy_run cfg a _ e2 h1
  have h3 := closedBy_tick cfg a b _ hb h2
  rw [runIdle_append, runIdle_append, runIdle_append, h3, runIdle_none]

/-- Every state a client script can reach is consistent (the connection table is a map, nobody is
    both waiting and being served), its clock is past zero, a returned main loop serves nothing, and
    every one of its connections is at rest in one of the three shapes of `Conn.Rest` — so the
    liveness theorems apply to every connection of every reachable state. -/
theorem c13_reachable_good (cfg : Cfg) (ops : List Op) : ((Sys.init cfg).run cfg ops).Good :=
  good_run cfg _ ops (good_init cfg)

/-- C13, timeouts, at the level of the whole server: take ANY script `pre` and any client `i` that
    has a connection afterwards, in whatever state.  Let the script go on in any way in which `i`
    itself does nothing — every other client may connect, send, stall, read, close, the signal may
    arrive, the clock may tick in any steps — as long as some tick takes the clock past the
    connection's deadline and the ticks after it add up to more than the linger timeout.  Then
    `i`'s connection has been closed and its slot returned. -/
theorem c13_idle_closed_sys (cfg : Cfg) (pre : List Op) (i : Nat) (c : Conn)
    (hc : ((Sys.init cfg).run cfg pre).conn i = some c)
    (ops1 ops2 ops3 : List Op) (n1 n2 : Nat)
    (hf1 : ∀ op ∈ ops1, op.foreign i) (hf2 : ∀ op ∈ ops2, op.foreign i) (hf3 : ∀ op ∈ ops3, op.foreign i)
    (ha : c.deadline cfg < ((Sys.init cfg).run cfg pre).now + dur ops1 + n1)
    (hb : lingerTimeoutH1 < (dur ops2 : Int) + n2) :
    ((Sys.init cfg).run cfg (pre ++ (ops1 ++ [.tick n1] ++ ops2 ++ [.tick n2] ++ ops3))).conn i = none := by
  have hg := c13_reachable_good cfg pre
  rw [run_append]
  generalize (Sys.init cfg).run cfg pre = s at hc ha hg
  have hx : s.exited = false := by
    cases he : s.exited with
    | false => rfl
    | true =>
      have := hg.halted he
      simp [Sys.conn, this, lookupConn] at hc
  exact sys_idle_closed cfg s i c hg.wf hc (hg.rest i c hc) hx ops1 ops2 ops3 n1 n2 hf1 hf2 hf3 ha hb

/-- HTTP/2, idle: a connection without streams is ended (GOAWAY, then close) by the first sweep
    more than keep-alive-idle seconds after the last HEADERS/DATA frame, and not before. -/
theorem c13_h2_idle_closed (v : H2View) (now : Int) (hs : v.st = .write) (he : v.streams = []) :
    checkTimeoutH2 v now =
      if now - v.rts > v.kaIdle then (true, .respEnd, false) else (false, .write, true) :=
  checkTimeoutH2_idle v now hs he

/-- HTTP/2, stalled: if some stream is waiting for the client — its request body is outstanding and
    nothing was read for more than max-read-idle, or its response is in progress and nothing could
    be written for more than max-write-idle — the sweep puts the whole connection into the error
    state (which closes it), whatever the other streams are doing. -/
theorem c13_h2_stalled_closed (v : H2View) (now : Int) (hs : v.st = .write)
    (h : ∃ s ∈ v.streams, s.st ≠ .error ∧
      ((s.bodyPending = true ∧ now - v.rts > s.ri) ∨ (s.st ≠ .readPost ∧ v.wts ≠ 0 ∧ now - v.wts > v.wi))) :
    checkTimeoutH2 v now = (true, .error, false) :=
  checkTimeoutH2_fires v now hs h

/-! ## limits are enforced by refusing, not by buffering -/

/-- C13, head limit: as soon as what has been received of a request head exceeds
    max-request-field-size — whether the head is still incomplete or just completed — the answer
    is 431 and the connection goes to the close state; nothing more is read for it. -/
theorem c13_limits_refuse_head (cfg : Cfg) (now : Int) (c : Conn) (r : Req) (n : Nat) (hs : c.st = .read)
    (h : (c.hdrBuf + n < r.H ∧ cfg.fs < c.hdrBuf + n) ∨ (r.H ≤ c.hdrBuf + n ∧ cfg.fs < r.H)) :
    (recv cfg now c r n).2 = [431] ∧ ∀ c', (recv cfg now c r n).1 = some c' → c'.st = .close :=
  recv_head_431 cfg now c r n hs h

/-- … and between events an incomplete head never occupies more than the limit: what is buffered
    beyond it is at most the read that crossed it. -/
theorem c13_limits_head_buffer_bounded (cfg : Cfg) (now : Int) (c : Conn) (r : Req) (n : Nat)
    (hs : c.st = .read) :
    ∀ c', (recv cfg now c r n).1 = some c' → c'.st = .read → c'.hdrBuf ≤ cfg.fs :=
  recv_hdrBuf_le cfg now c r n hs

/-- C13, body limit (Content-Length): a declared length beyond max-request-size is answered 413
    when the head completes, before any of the body is taken; the connection closes. -/
theorem c13_limits_refuse_body (cfg : Cfg) (now : Int) (c : Conn) (r : Req) (n : Nat) (hs : c.st = .read)
    (hk : r.kind = .post) (hh : r.H ≤ c.hdrBuf + n) (hf : r.H ≤ cfg.fs) (hr : cfg.rs ≠ 0)
    (hb : cfg.rs * 1024 < r.B) :
    (recv cfg now c r n).2 = [413] ∧ ∀ c', (recv cfg now c r n).1 = some c' → c'.st = .close :=
  recv_cl_413 cfg now c r n hs hk hh hf hr hb

/-- C13, body limit (chunked): the chunk-size line that would take the decoded body beyond
    max-request-size is answered 413 and closes the connection; conversely a chunked request that
    is answered normally decoded to at most max-request-size. -/
theorem c13_limits_refuse_chunked (cfg : Cfg) (now : Int) (c : Conn) (add : Nat)
    (hk : c.req.kind = .chunked) :
    (chunk413 cfg c.req (c.bodyGot + add) = true →
      (bodyStep cfg now c add).2 = [413] ∧ ∀ c', (bodyStep cfg now c add).1 = some c' → c'.st = .close) ∧
    (cfg.rs ≠ 0 → c.req.csz ≠ 0 → (bodyStep cfg now c add).2 = [200] →
      chunkCount c.req * c.req.csz ≤ cfg.rs * 1024) :=
  ⟨bodyStep_chunk_413 cfg now c add hk, bodyStep_chunked_ok_bounded cfg now c add hk⟩

/-! ## admission control -/

/-- C13, cap: whatever the clients do (any script of connects, sends, reads, closes, clock ticks,
    signals), the number of connections being served never exceeds server.max-connections; until
    the main loop returns, connections in use plus free slots is exactly max-connections. -/
theorem c13_conn_cap (cfg : Cfg) (ops : List Op) :
    ((Sys.init cfg).run cfg ops).conns.length ≤ cfg.mc ∧
    (((Sys.init cfg).run cfg ops).exited = false →
      ((Sys.init cfg).run cfg ops).conns.length + ((Sys.init cfg).run cfg ops).lim = cfg.mc) := by
  constructor
  · have := run_total_le cfg (Sys.init cfg) ops
    rw [init_total] at this
    simp only [Sys.total] at this
    omega
  · intro h
    have := run_total_eq cfg (Sys.init cfg) ops h
    rw [init_total] at this
    exact this

/-- One readiness event of the listen socket accepts at most lim_conns (and at most 100)
    connections. -/
theorem c13_accept_bounded (lim : Nat) : acceptCount lim ≤ lim ∧ acceptCount lim ≤ acceptLoopCap :=
  ⟨acceptCount_le lim, acceptCount_le_cap lim⟩

/-- C13, overload recovery: once the load has dropped (descriptors below the low watermark, a
    free slot) the very next main-loop iteration re-enables the listen sockets and accepts a
    waiting client in that same iteration. -/
theorem c13_overload_recovers (cfg : Cfg) (s : Sys) (hd : s.disabled = 1) (hf : s.curFds < cfg.lowat)
    (hl : s.lim ≠ 0) (hb : s.backlog ≠ []) :
    (s.round cfg).disabled = 0 ∧ (s.round cfg).backlog.length < s.backlog.length :=
  round_recovers cfg s hd hf hl hb

/-- … so overload is never a permanent stall: if the main loop is at rest while clients are still
    waiting in the listen queue, the server really is out of slots or of descriptors. -/
theorem c13_wait_only_when_exhausted (cfg : Cfg) (s : Sys) (hst : s.round cfg = s) (hb : s.backlog ≠ []) :
    s.lim = 0 ∨ cfg.lowat ≤ s.curFds :=
  round_stable cfg s hst hb

/-! ## graceful stop -/

/-- C13, graceful stop, no new connection: the first signal closes the listen sockets (nobody is
    left waiting in the queue) and fixes the deadline `now + graceful-shutdown-timeout`; from then
    on, whatever happens, the set of connections only shrinks. -/
theorem c13_graceful_no_accept (cfg : Cfg) (s : Sys) :
    (s.graceful = false → s.exited = false → s.disabled ≠ 3 →
      Stopping (s.step cfg .graceful) ∧ (s.step cfg .graceful).conns.length ≤ s.conns.length) ∧
    (Stopping s → ∀ op, Stopping (s.step cfg op) ∧ (s.step cfg op).conns.length ≤ s.conns.length) := by
  refine ⟨fun hg he hd => ?_, fun h op => step_stopping cfg s op h⟩
  have hact : s.act cfg .graceful = { s with graceful := true } := by simp [Sys.act, hg, he]
  unfold Sys.step
  rw [hact]
  have := settle_graceful_first cfg { s with graceful := true } rfl he hd
  exact ⟨this.1, this.2.1⟩

/-- C13, graceful stop, in-flight work is left alone: before the deadline the maintenance pass
    changes nothing of a request that is being read or a response that is being written (state,
    timestamps and progress are kept) except that keep-alive is switched off. -/
theorem c13_graceful_inflight (c : Conn)
    (h : c.st = .write ∨ c.st = .readPost ∨ (c.st = .read ∧ (c.n ≤ 1 ∨ c.hdrBuf ≠ 0))) :
    gracefulConn false c = some { c with keepAlive := false } :=
  gracefulConn_inflight c h

/-- C13, graceful stop, the process exits in time: at the first clock tick that takes the time past
    the deadline every remaining connection is dropped and the main loop returns. -/
theorem c13_graceful_exit (cfg : Cfg) (s : Sys) (n : Nat) (h : Stopping s) (he : s.exited = false)
    (hx : s.expireTs ≠ 0 ∧ s.expireTs < s.now + n) : (s.step cfg (.tick n)).exited = true := by
  have hn := neutral_sweep { s with now := s.now + n } (tickConn cfg (s.now + n))
  have hact : s.act cfg (.tick n) = ({ s with now := s.now + n } : Sys).sweep (tickConn cfg (s.now + n)) := by
    simp [Sys.act, he]
  unfold Sys.step
  rw [hact]
  generalize ({ s with now := s.now + n } : Sys).sweep (tickConn cfg (s.now + n)) = s1 at hn
  have hs1 : Stopping s1 := ⟨hn.graceful.trans h.graceful, hn.disabled.trans h.disabled, hn.backlog.trans h.backlog⟩
  have hex : s1.expired = true := by
    have h1 : s1.expireTs = s.expireTs := hn.expireTs
    have h2 : s1.now = s.now + n := hn.now
    simp [Sys.expired, h1, h2, hx.1, hx.2]
  have he1 : s1.exited = false := hn.exited.trans he
  unfold Sys.settle
  simp only [he1, Bool.false_eq_true, if_false, Sys.loopToRest, hs1.graceful, if_true]
  rw [(neutral_markAccepted _).exited, halt_exited]
  exact gracefulPass_expired cfg s1 hs1.disabled hex

/-! ## non-vacuity: concrete instances of the hypotheses -/

/-- an idle keep-alive connection (second request awaited, keep-alive-idle 1 s, last activity at
    second 1000) under the default scenario configuration -/
def exKeepAlive : Conn := { st := .read, n := 2, inEv := true, rts := 1000, kaIdle := 1 }

example : exKeepAlive.Rest := Or.inl ⟨rfl, rfl⟩
example : exKeepAlive.deadline {} = 1001 := by decide

example : (tickConn {} 1001 exKeepAlive = some exKeepAlive ↔ (1001 : Int) ≤ exKeepAlive.deadline {}) :=
  (c13_sweep_exact {} 1001 exKeepAlive (Or.inl ⟨rfl, rfl⟩)).1

/-- sweeps at 1001 (too early), a wake-up, the decisive sweep at 1002, graceful maintenance, sweeps
    up to 1008: closed and released -/
example : runIdle {} (some exKeepAlive)
    ([.tick 1001, .wake] ++ [.tick 1002] ++ [.graceful false, .tick 1005] ++ [.tick 1008] ++ [.wake]) = none :=
  c13_idle_closed {} exKeepAlive (Or.inl ⟨rfl, rfl⟩) [.tick 1001, .wake] [.graceful false, .tick 1005] [.wake]
    1002 1008 (by intro t ht; simp at ht; omega) (by decide) (by decide)

example : ∀ c', runIdle {} (some exKeepAlive) ([.tick 1001, .wake] ++ [.tick 1002]) = some c' →
    c'.st = .close ∧ c'.cts ≤ 1002 :=
  c13_idle_fin_sent {} exKeepAlive (Or.inl ⟨rfl, rfl⟩) [.tick 1001, .wake] 1002
    (by intro t ht; simp at ht; omega) (by decide)

/-- client 0 connects and never sends anything (max-read-idle 2); meanwhile client 1 connects, sends a
    request, reads the answer, the signal does NOT arrive, the clock ticks 1+2 and later 3+3 seconds -/
example : ((Sys.init {}).run {} ([.open_ 0] ++ ([.open_ 1, .tick 1, .prepare 1 { H := 100 }, .send 1 0] ++ [.tick 2] ++
    [.read 1, .tick 3] ++ [.tick 3] ++ [.close 1]))).conn 0 = none :=
  c13_idle_closed_sys {} [.open_ 0] 0 { rts := 1000 } rfl
    [.open_ 1, .tick 1, .prepare 1 { H := 100 }, .send 1 0] [.read 1, .tick 3] [.close 1] 2 3
    (by intro op h; simp at h; rcases h with rfl | rfl | rfl | rfl <;> simp [Op.foreign, Op.client])
    (by intro op h; simp at h; rcases h with rfl | rfl <;> simp [Op.foreign, Op.client])
    (by intro op h; simp at h; rcases h with rfl; simp [Op.foreign, Op.client])
    (by decide) (by decide)

example : ((Sys.init { mc := 2 }).run { mc := 2 } [.open_ 0, .open_ 1, .open_ 2]).Good :=
  c13_reachable_good { mc := 2 } [.open_ 0, .open_ 1, .open_ 2]

/-- a response blocked since second 1000 (max-write-idle 3): released after the sweeps 1004 and 1010 -/
def exBlocked : Conn := { st := .write, n := 1, inEv := false, outEv := true, wts := 1000, rts := 1000 }
example : runIdle {} (some exBlocked) ([] ++ [.tick 1004] ++ [] ++ [.tick 1010] ++ []) = none :=
  c13_idle_closed {} exBlocked (Or.inr (Or.inr (Or.inl ⟨rfl, rfl, by decide⟩))) [] [] [] 1004 1010
    (by intro t ht; cases ht) (by decide) (by decide)

example : checkTimeoutH2 { st := .write, streams := [], rts := 1000, wts := 1000, kaIdle := 2, wi := 3 } 1003
    = (true, .respEnd, false) := by
  rw [c13_h2_idle_closed _ _ rfl rfl]; decide

example : checkTimeoutH2 { st := .write, streams := [⟨.handleReq, false, 2⟩, ⟨.readPost, true, 2⟩],
                           rts := 1000, wts := 1002, kaIdle := 2, wi := 3 } 1003 = (true, .error, false) :=
  c13_h2_stalled_closed _ _ rfl ⟨⟨.readPost, true, 2⟩, by simp, by decide, Or.inl ⟨rfl, by decide⟩⟩

/-- a 300-byte head against a 256-byte limit, arriving in pieces of 200 and 100 bytes -/
example : (recv { fs := 256 } 1000 { hdrBuf := 200 } { H := 300 } 100).2 = [431] :=
  (c13_limits_refuse_head { fs := 256 } 1000 { hdrBuf := 200 } { H := 300 } 100 rfl (Or.inr ⟨by decide, by decide⟩)).1

example : ∀ c', (recv { fs := 256 } 1000 {} { H := 300 } 200).1 = some c' → c'.st = .read → c'.hdrBuf ≤ 256 :=
  c13_limits_head_buffer_bounded { fs := 256 } 1000 {} { H := 300 } 200 rfl

example : (recv { rs := 1 } 1000 {} { kind := .post, H := 100, B := 1025 } 100).2 = [413] :=
  (c13_limits_refuse_body { rs := 1 } 1000 {} { kind := .post, H := 100, B := 1025 } 100 rfl rfl
    (by decide) (by decide) (by decide) (by decide)).1

/-- three 512-byte chunks against a 1 kB limit: refused when the third size line is complete -/
example : (bodyStep { rs := 1 } 1000 { req := { kind := .chunked, H := 100, B := 1536, csz := 512 }, bodyGot := 1038 } 5).2 = [413] :=
  ((c13_limits_refuse_chunked { rs := 1 } 1000
      { req := { kind := .chunked, H := 100, B := 1536, csz := 512 }, bodyGot := 1038 } 5 rfl).1 (by decide)).1

/-- five clients against two slots: two are served, three wait -/
example : let s := (Sys.init { mc := 2 }).run { mc := 2 } [.open_ 0, .open_ 1, .open_ 2, .open_ 3, .open_ 4]
    s.conns.length = 2 ∧ s.lim = 0 ∧ s.disabled = 1 ∧ s.backlog = [2, 3, 4] := by decide

example : ((Sys.init { mc := 2 }).run { mc := 2 } [.open_ 0, .open_ 1, .open_ 2]).conns.length ≤ 2 :=
  (c13_conn_cap { mc := 2 } [.open_ 0, .open_ 1, .open_ 2]).1

example : acceptCount 250 = 100 ∧ acceptCount 3 = 3 := by decide

/-- sockets disabled, one slot free again, a client waiting: re-enabled and accepted -/
def exOverloaded : Sys :=
  { lim := 1, curFds := 11, disabled := 1, backlog := [2], conns := [(0, { rts := 1000 })],
    clients := List.replicate maxClients {} }
example : (exOverloaded.round { mc := 2 }).disabled = 0 ∧
    (exOverloaded.round { mc := 2 }).backlog.length < exOverloaded.backlog.length :=
  c13_overload_recovers { mc := 2 } exOverloaded rfl (by decide) (by decide) (by decide)

/-- at rest with a client waiting: all slots are in use -/
def exFull : Sys :=
  { lim := 0, curFds := 11, disabled := 1, backlog := [1], conns := [(0, { rts := 1000 })],
    clients := List.replicate maxClients {} }
example : exFull.lim = 0 ∨ ({ mc := 1 } : Cfg).lowat ≤ exFull.curFds :=
  c13_wait_only_when_exhausted { mc := 1 } exFull rfl (by decide)

/-- a download in progress when the signal arrives -/
def exServing : Sys :=
  { lim := 3, curFds := 11, backlog := [1], conns := [(0, exBlocked)], clients := List.replicate maxClients {} }
example : Stopping (exServing.step {} .graceful) :=
  ((c13_graceful_no_accept {} exServing).1 rfl rfl (by decide)).1
example : (exServing.step {} .graceful).conns.length = 1 ∧ (exServing.step {} .graceful).backlog = [] ∧
    (exServing.step {} .graceful).expireTs = 1004 := by decide
example : gracefulConn false exBlocked = some { exBlocked with keepAlive := false } :=
  c13_graceful_inflight exBlocked (Or.inl rfl)
example : ((exServing.step {} .graceful).step {} (.tick 5)).exited = true :=
  c13_graceful_exit {} (exServing.step {} .graceful) 5
    ((c13_graceful_no_accept {} exServing).1 rfl rfl (by decide)).1 (by decide) (by decide)

end LtVerif.C13
