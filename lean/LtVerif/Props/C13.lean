/-
  C13 — connections always end: timeouts, limits, overload recovery, graceful stop.

  Property theorems over `LtVerif.Model.Lifecycle` (helper lemmas: `LtVerif.Proofs.Lifecycle`).
  The model is tied to the C code by the correspondence streams of tools/ltv/props/c13.py:
  `ct1`/`ct2`/`lc` call h1_check_timeout(), h2_check_timeout() and the load-check step directly;
  `h2d`/`h2h` call h2_recv_data() and http_request_parse_header() (HTTP/2 limits);
  `sc` runs the real server_main_loop() in virtual time against scripted clients;
  `mcl` compares `effMaxConns` with the limit measured on the real server.

  Clause map.  Timeouts: `c13_sweep_exact`, `c13_idle_fin_sent`, `c13_idle_closed`,
  `c13_idle_closed_sys` (HTTP/1.x, over all scripts), `c13_h2_sweep_exact_partial` (HTTP/2: the sweep
  function only).  Limits: `c13_limits_refuse`, `c13_limits_buffer_bounded`, `c13_h2_limits_refuse`.
  Admission: `c13_conn_cap`, `c13_accept_bounded`, `c13_overload_recovers`, `c13_no_idle_wait`,
  `c13_overload_never_permanent` (side condition necessary, witness below), `c13_configured_limit`.
  Graceful stop: `c13_graceful_no_accept`, `c13_graceful_inflight`, `c13_graceful_exit`,
  `c13_graceful_exits`.  No theorem (correspondence only): that in-flight response BYTES arrive
  complete (the model carries none), the HTTP/2 connection lifecycle after the sweep's verdict, the
  event handlers.

  Reading guide.  `Conn` is one HTTP/1.x connection at rest between two events, `Conn.Rest` the
  three shapes in which the main loop leaves it (waiting for request bytes with FDEVENT_IN wanted,
  waiting for the client to read with write_request_ts set, lingering in the close state),
  `Conn.deadline` the instant after which the once-per-second sweep gives up on it, `IdleEv` what
  can happen to it while its client does nothing (sweeps at arbitrary seconds, spurious wake-ups,
  graceful-shutdown maintenance), `runIdle … = none` that it has been closed and its slot returned.
  `Sys` is the server (lim_conns, cur_fds, sockets_disabled, graceful flags, listen backlog,
  connections) driven by scripted client actions `Op`.
-/
import LtVerif.Proofs.Lifecycle
namespace LtVerif.C13
open LtVerif.Lifecycle LtVerif.Extracted

/-! ## every connection is eventually released (timeouts) -/

/-- h1.c and connections.c each define HTTP_LINGER_TIMEOUT ("keep in sync"): they agree. -/
theorem c13_linger_in_sync : lingerTimeoutH1 = lingerTimeoutCon := by decide

/-- The sweep acts on a connection at rest exactly when its deadline has passed: no connection is
    kept beyond it, none is closed before it. -/
theorem c13_sweep_exact (cfg : Cfg) (now : Int) (c : Conn) (hr : c.Rest) :
    (tickConn cfg now c = some c ↔ now ≤ c.deadline cfg) ∧
    (c.deadline cfg < now → tickConn cfg now c = none ∨
      ∃ c', tickConn cfg now c = some c' ∧ c'.st = .close ∧ c'.cts = now) := by
  refine ⟨⟨fun h => ?_, tickConn_before cfg now c hr⟩, fun h => ?_⟩
  · apply Decidable.byContradiction
    intro hn
    rw [tickConn_after cfg now c hr (by omega)] at h
    split at h
    · cases h
    · rename_i hs
      rcases toClose_cases now c with h' | ⟨c', h', hs', _⟩
      · rw [h'] at h; cases h
      · rw [h'] at h; cases h; exact hs hs'
  · rw [tickConn_after cfg now c hr h]
    split
    · exact Or.inl rfl
    · exact toClose_cases now c

/-- FIN is sent by the first sweep after the deadline: whatever else happens to the connection
    while its client makes no progress (sweeps at earlier seconds, spurious wake-ups, graceful
    maintenance), after a sweep at a second `a` past the deadline the connection has been shut
    down (close state, lingering since `a` at the latest) or released. -/
theorem c13_idle_fin_sent (cfg : Cfg) (c : Conn) (hr : c.Rest) (e1 : List IdleEv) (a : Int)
    (hmono : ∀ t, IdleEv.tick t ∈ e1 → t ≤ a) (ha : c.deadline cfg < a) :
    ∀ c', runIdle cfg (some c) (e1 ++ [.tick a]) = some c' → c'.st = .close ∧ c'.cts ≤ a := by
  have hw : Waiting cfg (c.deadline cfg) a (some c) := by
    intro c0 h0
    cases h0
    refine ⟨hr, ?_⟩
    by_cases hs : c.st = .close
    · refine Or.inr ⟨hs, ?_⟩
      simp only [Conn.deadline, hs] at ha
      have : (0 : Int) ≤ lingerTimeoutH1 := by decide
      omega
    · exact Or.inl ⟨hs, rfl⟩
  rw [runIdle_append]
  exact waiting_tick cfg _ a _ ha (waiting_run cfg _ a _ e1 hmono hw)

/-- C13, timeouts: a connection whose client makes no progress is released.  For every
    HTTP/1.x connection at rest (idle keep-alive, stalled request head or body, stalled response,
    lingering close) and EVERY schedule of the other events — `e1`, `e2`, `e3` are arbitrary
    interleavings of sweeps, wake-ups and graceful maintenance, the only assumption being that the
    clock does not run backwards before `a` — a sweep at a second `a` past the deadline followed by
    a sweep more than the linger timeout later leaves the connection closed and its slot free.
    With the sweep running every second this is deadline + 1, then + linger + 1. -/
theorem c13_idle_closed (cfg : Cfg) (c : Conn) (hr : c.Rest) (e1 e2 e3 : List IdleEv) (a b : Int)
    (hmono : ∀ t, IdleEv.tick t ∈ e1 → t ≤ a)
    (ha : c.deadline cfg < a) (hb : a + lingerTimeoutH1 < b) :
    runIdle cfg (some c) (e1 ++ [.tick a] ++ e2 ++ [.tick b] ++ e3) = none := by
  have h1 : ClosedBy a (runIdle cfg (some c) (e1 ++ [.tick a])) :=
    fun c' h' => c13_idle_fin_sent cfg c hr e1 a hmono ha c' h'
  have h2 := closedBy_run cfg a _ e2 h1
  have h3 := closedBy_tick cfg a b _ hb h2
  rw [runIdle_append, runIdle_append, runIdle_append, h3, runIdle_none]

/-- Every state a client script can reach is consistent (the connection table is a map, nobody is
    both waiting and being served), its clock is past zero, a returned main loop serves nothing, and
    every one of its connections is at rest in one of the three shapes of `Conn.Rest` — so the
    liveness theorems apply to every connection of every reachable state. -/
theorem c13_reachable_good (cfg : Cfg) (ops : List Op) : ((Sys.init cfg).run cfg ops).Good :=
  good_run cfg _ ops (good_init cfg)

/-- C13, timeouts, at the level of the whole server: take ANY script `pre` and any client `i` that
    has a connection afterwards, in whatever state.  Let the script go on in any way in which `i`
    itself does nothing — every other client may connect, send, stall, read, close, the signal may
    arrive, the clock may tick in any steps — as long as some tick takes the clock past the
    connection's deadline and the ticks after it add up to more than the linger timeout.  Then
    `i`'s connection has been closed and its slot returned. -/
theorem c13_idle_closed_sys (cfg : Cfg) (pre : List Op) (i : Nat) (c : Conn)
    (hc : ((Sys.init cfg).run cfg pre).conn i = some c)
    (ops1 ops2 ops3 : List Op) (n1 n2 : Nat)
    (hf1 : ∀ op ∈ ops1, op.foreign i) (hf2 : ∀ op ∈ ops2, op.foreign i) (hf3 : ∀ op ∈ ops3, op.foreign i)
    (ha : c.deadline cfg < ((Sys.init cfg).run cfg pre).now + dur ops1 + n1)
    (hb : lingerTimeoutH1 < (dur ops2 : Int) + n2) :
    ((Sys.init cfg).run cfg (pre ++ (ops1 ++ [.tick n1] ++ ops2 ++ [.tick n2] ++ ops3))).conn i = none := by
  have hg := c13_reachable_good cfg pre
  rw [run_append]
  generalize (Sys.init cfg).run cfg pre = s at hc ha hg
  have hx : s.exited = false := by
    cases he : s.exited with
    | false => rfl
    | true =>
      have := hg.halted he
      simp [Sys.conn, this, lookupConn] at hc
  exact sys_idle_closed cfg s i c hg.wf hc (hg.rest i c hc) hx ops1 ops2 ops3 n1 n2 hf1 hf2 hf3 ha hb

/-- HTTP/2 (partial): h2_check_timeout() acts on a connection in the write state exactly when it is idle
    (no streams) for more than keep-alive-idle, or some stream is stalled — request body outstanding
    and nothing read for more than max-read-idle, or response in progress and nothing written for more
    than max-write-idle; then the connection leaves the write state (RESPONSE_END / ERROR), whatever the
    other streams do; otherwise it is left alone.  MISSING for the planned `c13_idle_closed` on HTTP/2:
    there is no model of the HTTP/2 glue, so the step from that state to GOAWAY, close and slot release
    is not a theorem (covered end-to-end only: h2-idle, h2-idle-after-request, h2-body-stall,
    h2-window-stall). -/
theorem c13_h2_sweep_exact_partial (v : H2View) (now : Int) (hs : v.st = .write)
    (hne : ∀ s ∈ v.streams, s.st ≠ .error) :
    ((checkTimeoutH2 v now).1 = true ↔
      (v.streams = [] ∧ now - v.rts > v.kaIdle) ∨
      ∃ s ∈ v.streams, s.st ≠ .error ∧
        ((s.bodyPending = true ∧ now - v.rts > s.ri) ∨ (s.st ≠ .readPost ∧ v.wts ≠ 0 ∧ now - v.wts > v.wi))) ∧
    ((checkTimeoutH2 v now).1 = true → (checkTimeoutH2 v now).2.1 ≠ .write) := by
  refine ⟨checkTimeoutH2_exact v now hs hne, fun h => ?_⟩
  rcases (checkTimeoutH2_exact v now hs hne).mp h with ⟨he, ht⟩ | hf
  · rw [checkTimeoutH2_idle v now hs he, if_pos ht]; simp
  · rw [checkTimeoutH2_fires v now hs hf]; simp

/-! ## limits are enforced by refusing, not by buffering -/

/-- C13, limits: the answer does not depend on how a request arrives.  For every request (exact head
    length, Content-Length or chunked body, any sizes) and EVERY way of cutting it into pieces arriving
    at arbitrary seconds on a connection waiting for it, exactly one answer is written, and it is the
    one `expectedStatus` reads off the request alone: 431 iff the head is longer than
    max-request-field-size, else 413 iff the declared or the decoded chunked body exceeds
    max-request-size, else 200. -/
theorem c13_limits_refuse (cfg : Cfg) (r : Req) (hv : r.Valid) (segs : List (Int × Nat)) (c : Conn)
    (hs : c.st = .read) (hb : c.hdrBuf = 0) (hp : ∀ x ∈ segs, 0 < x.2) (hsum : segSum segs = reqLen r) :
    (feed cfg r (some c) segs).2 = [expectedStatus cfg r] :=
  feed_expected cfg r hv segs c hs (by rw [hb]; exact hv.1) (by rw [hb]; exact Nat.zero_le _) hp
    (by rw [hb, Nat.zero_add]; exact hsum)

/-- … and what waits in memory between two events is bounded by the limits: an incomplete head
    never occupies more than max-request-field-size; a Content-Length body still being read is
    shorter than its declared length; a chunked body still being read is short of the size line that
    would be refused (about max-request-size plus chunk framing).  A refusal takes nothing of the
    body. -/
theorem c13_limits_buffer_bounded (cfg : Cfg) (now : Int) (c : Conn) (r : Req) (n : Nat) :
    (c.st = .read → ∀ c', (recv cfg now c r n).1 = some c' → c'.st = .read → c'.hdrBuf ≤ cfg.fs) ∧
    (∀ c', (bodyStep cfg now c n).1 = some c' → c'.st = .readPost →
      (c.req.kind = .post → c'.bodyGot < c.req.B) ∧
      (c.req.kind = .chunked → cfg.rs ≠ 0 → c.req.csz ≠ 0 →
        c'.bodyGot < (cfg.rs * 1024 / c.req.csz) * chunkUnit c.req.csz + hexLen c.req.csz + 7)) ∧
    (c.st = .read → r.kind = .post → r.H ≤ c.hdrBuf + n → r.H ≤ cfg.fs → cfg.rs ≠ 0 → cfg.rs * 1024 < r.B →
      ∀ c', (recv cfg now c r n).1 = some c' → c'.st = .close ∧ c'.bodyGot = 0) := by
  refine ⟨recv_hdrBuf_le cfg now c r n, fun c' h hs => (bodyStep_rest_bounded cfg now c n c' h hs).2, ?_⟩
  intro hs hk hh hf hr hb c' hc'
  refine ⟨(recv_cl_413 cfg now c r n hs hk hh hf hr hb).2 c' hc', ?_⟩
  unfold recv at hc'
  have h1 : ¬ (c.hdrBuf + n < r.H) := by omega
  have h2 : ¬ (r.H > cfg.fs) := by omega
  have h3 : cfg.rs ≠ 0 ∧ r.B > cfg.rs * 1024 := ⟨hr, hb⟩
  simp only [hs, h1, h2, if_false, hk] at hc'
  rw [if_pos h3] at hc'
  unfold respond finishResponse toClose at hc'
  simp only [Bool.false_and, Bool.false_eq_true, if_false] at hc'
  split at hc'
  · cases hc'
  · cases hc'; rfl

/-- C13, limits, HTTP/2: (a) a header list is refused with 431 exactly when the sum of name + value +
    4 over its fields exceeds max-request-field-size (`h2HeadScan` = http_request_parse_header as
    h2_parse_headers_frame drives it); (b) for every sequence of DATA frames of at most `F` bytes on a
    stream, what h2_recv_data buffers never exceeds max-request-size + the 64 kB it sinks so that the
    413 can be sent + one frame, and it exceeds max-request-size only after the 413 has been prepared
    or with the stream's final frame. -/
theorem c13_h2_limits_refuse :
    (∀ (fs : Nat) (fields : List (Nat × Nat)),
      h2HeadStatus fs fields = if (fields.map fun f => f.1 + f.2 + 4).sum > fs then 431 else 0) ∧
    (∀ (max F : Nat) (frames : List (Nat × Bool)), max ≠ 0 → (∀ f ∈ frames, f.1 ≤ F) →
      let b := h2DataRun max {} frames
      b.bytesIn ≤ max + h2SinkAllowance + F ∧ (max < b.bytesIn → b.status = 413 ∨ b.isOpen = false)) := by
  constructor
  · intro fs fields
    unfold h2HeadStatus
    rw [h2HeadScan_eq fs fields 0 0 (Nat.zero_le _)]
    simp
  · intro max F frames hm hf
    have h0 : ({} : H2Body).Bounded max F := ⟨Or.inl rfl, fun _ => ⟨Nat.zero_le _, fun h => by simp at h⟩, fun h => by simp at h⟩
    have hb := h2DataRun_bounded max F hm frames hf {} h0
    simp only
    generalize h2DataRun max {} frames = b at hb
    obtain ⟨_, hop, hcl⟩ := hb
    cases ho : b.isOpen with
    | true => have := hop ho; exact ⟨by omega, fun h => Or.inl (this.2 h)⟩
    | false => exact ⟨hcl ho, fun _ => Or.inr rfl⟩

/-! ## admission control -/

/-- C13, cap: whatever the clients do (any script of connects, sends, reads, closes, clock ticks,
    signals), the number of connections being served never exceeds server.max-connections; until
    the main loop returns, connections in use plus free slots is exactly max-connections. -/
theorem c13_conn_cap (cfg : Cfg) (ops : List Op) :
    ((Sys.init cfg).run cfg ops).conns.length ≤ cfg.mc ∧
    (((Sys.init cfg).run cfg ops).exited = false →
      ((Sys.init cfg).run cfg ops).conns.length + ((Sys.init cfg).run cfg ops).lim = cfg.mc) := by
  constructor
  · have := run_total_le cfg (Sys.init cfg) ops
    rw [init_total] at this
    simp only [Sys.total] at this
    omega
  · intro h
    have := run_total_eq cfg (Sys.init cfg) ops h
    rw [init_total] at this
    exact this

/-- One readiness event of the listen socket accepts at most lim_conns (and at most 100)
    connections. -/
theorem c13_accept_bounded (lim : Nat) : acceptCount lim ≤ lim ∧ acceptCount lim ≤ acceptLoopCap :=
  ⟨acceptCount_le lim, acceptCount_le_cap lim⟩

/-- C13, overload recovery, one iteration: once the load has dropped (descriptors below the low
    watermark, a free slot) the very next main-loop iteration re-enables the listen sockets and accepts
    a waiting client in that same iteration — from ANY state, reachable or not. -/
theorem c13_overload_recovers (cfg : Cfg) (s : Sys) (hd : s.disabled = 1) (hf : s.curFds < cfg.lowat)
    (hl : s.lim ≠ 0) (hb : s.backlog ≠ []) :
    (s.round cfg).disabled = 0 ∧ (s.round cfg).backlog.length < s.backlog.length :=
  round_recovers cfg s hd hf hl hb

/-- C13, a waiting client is accepted once load drops — over whole scripts.  In EVERY state a script
    reaches outside graceful shutdown, the main loop has come to rest (the model's iteration budget is
    proved sufficient) with nobody waiting in the listen queue unless there is no free slot or the
    descriptors in use have not fallen below the low watermark; the descriptor count is the start
    level plus one per connection. -/
theorem c13_no_idle_wait (cfg : Cfg) (ops : List Op)
    (hg : ((Sys.init cfg).run cfg ops).graceful = false) (he : ((Sys.init cfg).run cfg ops).exited = false) :
    (((Sys.init cfg).run cfg ops).backlog ≠ [] →
      ((Sys.init cfg).run cfg ops).lim = 0 ∨ cfg.lowat ≤ ((Sys.init cfg).run cfg ops).curFds) ∧
    ((Sys.init cfg).run cfg ops).curFds = cfg.cf + ((Sys.init cfg).run cfg ops).conns.length := by
  have h := run_noIdleWait cfg (Sys.init cfg) ops (good_init cfg)
    (fun _ _ => ⟨fun hb => absurd rfl hb, by simp [Sys.fdsBase, Sys.init]⟩) hg he
  refine ⟨h.1, ?_⟩
  have := h.2
  simp only [Sys.fdsBase] at this
  omega

/-- C13, overload is never a permanent stall — with the side condition it needs.  If the descriptors
    the server holds apart from client connections are below the low watermark (`cf < lowat`) and the
    connection limit is not zero, then in every reachable state outside graceful shutdown: whenever a
    slot is free and the connections in use leave the descriptor count below the low watermark, nobody
    is waiting — in particular nobody waits beside an empty connection table.  Since every connection
    whose client makes no progress is released (`c13_idle_closed_sys`), waiting ends.  The side
    condition is necessary (see the witness below: with `cf ≥ lowat` a client waits forever beside an
    empty table, in the model and at server.c server_overload_check alike); `mc ≠ 0` holds for every
    configuration the server accepts (`c13_configured_limit`). -/
theorem c13_overload_never_permanent (cfg : Cfg) (ops : List Op)
    (hg : ((Sys.init cfg).run cfg ops).graceful = false) (he : ((Sys.init cfg).run cfg ops).exited = false) :
    (((Sys.init cfg).run cfg ops).conns.length < cfg.mc →
      cfg.cf + ((Sys.init cfg).run cfg ops).conns.length < cfg.lowat →
      ((Sys.init cfg).run cfg ops).backlog = []) ∧
    (cfg.cf < cfg.lowat → cfg.mc ≠ 0 → ((Sys.init cfg).run cfg ops).conns = [] →
      ((Sys.init cfg).run cfg ops).backlog = []) := by
  have h1 := c13_no_idle_wait cfg ops hg he
  have h2 := (c13_conn_cap cfg ops).2 he
  generalize (Sys.init cfg).run cfg ops = s at h1 h2
  have key : s.conns.length < cfg.mc → cfg.cf + s.conns.length < cfg.lowat → s.backlog = [] := by
    intro hs hf
    apply Classical.byContradiction
    intro hb
    rcases h1.1 hb with h | h
    · omega
    · rw [h1.2] at h; omega
  refine ⟨key, fun hcf hmc hc => key ?_ ?_⟩
  · rw [hc]; simp; omega
  · rw [hc]; simpa using hcf

/-- server_main_setup(): the connection limit the server runs with is never zero and at most half the
    descriptor limit, whatever server.max-connections says (0 = unset) — every configuration the
    server accepts meets the `mc ≠ 0` side condition above. -/
theorem c13_configured_limit (configured : Nat) (cfg : Cfg) :
    effMaxConns configured cfg.maxFds ≠ 0 ∧ 2 * effMaxConns configured cfg.maxFds ≤ cfg.maxFds :=
  effMaxConns_pos configured cfg.maxFds (cfg_maxFds_ge cfg)

/-! ## graceful stop -/

/-- C13, graceful stop, no new connection: the first signal closes the listen sockets (nobody is
    left waiting in the queue) and fixes the deadline at `now + graceful-shutdown-timeout` (0 = none);
    from then on every step keeps the listen sockets closed, the queue empty and the deadline, and
    serves no client it did not serve before. -/
theorem c13_graceful_no_accept (cfg : Cfg) (s : Sys) :
    (s.graceful = false → s.exited = false → s.disabled ≠ 3 →
      Stopping (s.step cfg .graceful) ∧
      (s.step cfg .graceful).expireTs = (if cfg.gt = 0 then 0 else s.now + cfg.gt) ∧
      (s.step cfg .graceful).conns.length ≤ s.conns.length) ∧
    (Stopping s → ∀ op, Stopping (s.step cfg op) ∧ (s.step cfg op).expireTs = s.expireTs ∧
      ∀ i, (s.step cfg op).conn i ≠ none → s.conn i ≠ none) := by
  refine ⟨fun hg he hd => ?_, fun h op => ?_⟩
  · have hact : s.act cfg .graceful = { s with graceful := true } := by simp [Sys.act, hg, he]
    unfold Sys.step
    rw [hact]
    have := settle_graceful_first cfg { s with graceful := true } rfl he hd
    exact ⟨this.1, this.2.2, this.2.1⟩
  · have h1 := step_stopping cfg s op h
    have h2 := step_stopping_more cfg s op h
    refine ⟨h1.1, h2.1, fun i hi => ?_⟩
    intro hn
    apply hi
    rw [Sys.conn, lookup_none_iff]
    intro hk
    have := h2.2 i hk
    rw [Sys.conn, lookup_none_iff] at hn
    exact hn this

/-- C13, graceful stop, in-flight work is left alone (as far as the model can say it: it carries no
    response bytes — that the bytes arrive complete is checked end to end only).  While stopping and
    before the deadline, for every reachable state and every connection with a request being read or a
    response being written: whatever any other client does, whatever the clock does short of that
    connection's own timeout, the step leaves the connection exactly as it was except that keep-alive is
    switched off, and the main loop keeps running. -/
theorem c13_graceful_inflight (cfg : Cfg) (pre : List Op) (op : Op) (i : Nat) (c : Conn)
    (hs : Stopping ((Sys.init cfg).run cfg pre)) (hc : ((Sys.init cfg).run cfg pre).conn i = some c)
    (hst : c.st = .write ∨ c.st = .readPost) (hf : op.foreign i) (hsig : op ≠ .graceful)
    (hexp : ((Sys.init cfg).run cfg pre).expireTs = 0 ∨
      ((Sys.init cfg).run cfg pre).now + op.dt ≤ ((Sys.init cfg).run cfg pre).expireTs)
    (hdl : ((Sys.init cfg).run cfg pre).now + op.dt ≤ c.deadline cfg) :
    (((Sys.init cfg).run cfg pre).step cfg op).conn i = some { c with keepAlive := false } ∧
    (((Sys.init cfg).run cfg pre).step cfg op).exited = false :=
  graceful_inflight_step cfg _ op i c (c13_reachable_good cfg pre) hs hc hst hf hsig hexp hdl

/-- C13, graceful stop, one step: the first clock tick that takes the time past the deadline drops
    every remaining connection — in-flight responses included: the timeout bounds the exit, not the
    other way round — and the main loop returns; with or without a deadline the loop returns as soon
    as the connection table is empty. -/
theorem c13_graceful_exit (cfg : Cfg) (s : Sys) (h : Stopping s) :
    (∀ n : Nat, s.exited = false → s.expireTs ≠ 0 ∧ s.expireTs < s.now + n → (s.step cfg (.tick n)).exited = true) ∧
    (∀ op, (s.step cfg op).conns = [] → (s.step cfg op).exited = true) :=
  ⟨fun n he hx => step_tick_expired cfg s n h he hx, fun op hc => step_stopping_idle_exits cfg s op h hc⟩

/-- C13, graceful stop, the process exits within the graceful timeout — over whole scripts.  Take any
    script `pre` after which the server is running normally, send the signal, and let anything at all
    happen (`post`: all clients, further ticks, wake-ups): once the clock has advanced by more than
    graceful-shutdown-timeout (≠ 0) the main loop has returned. -/
theorem c13_graceful_exits (cfg : Cfg) (pre post : List Op) (hgt : cfg.gt ≠ 0)
    (hg : ((Sys.init cfg).run cfg pre).graceful = false) (he : ((Sys.init cfg).run cfg pre).exited = false)
    (hd : (cfg.gt : Int) < dur post) :
    ((Sys.init cfg).run cfg (pre ++ [.graceful] ++ post)).exited = true := by
  have hopen := run_listen_open cfg (Sys.init cfg) pre (fun _ => by simp [Sys.init]) hg
  have hgood := c13_reachable_good cfg pre
  rw [run_append, run_append]
  generalize (Sys.init cfg).run cfg pre = s at hg he hopen hgood
  have h1 := (c13_graceful_no_accept cfg s).1 hg he hopen
  have hrun : s.run cfg [.graceful] = s.step cfg .graceful := rfl
  rw [hrun]
  have hnow : (s.step cfg .graceful).now = s.now := by rw [step_now]; simp [Op.dt]
  have hE : (s.step cfg .graceful).expireTs = s.now + cfg.gt := by rw [h1.2.1, if_neg hgt]
  refine stopping_run_exits cfg _ post h1.1 ?_ (Or.inr ?_) ?_
  · rw [hE]; have := hgood.now; omega
  · rw [hE, hnow]; omega
  · rw [hE, hnow]; omega

/-! ## non-vacuity: concrete instances of the hypotheses -/

/-- an idle keep-alive connection (second request awaited, keep-alive-idle 1 s, last activity at
    second 1000) under the default scenario configuration -/
def exKeepAlive : Conn := { st := .read, n := 2, inEv := true, rts := 1000, kaIdle := 1 }

example : exKeepAlive.Rest := Or.inl ⟨rfl, rfl⟩
example : exKeepAlive.deadline {} = 1001 := by decide

example : (tickConn {} 1001 exKeepAlive = some exKeepAlive ↔ (1001 : Int) ≤ exKeepAlive.deadline {}) :=
  (c13_sweep_exact {} 1001 exKeepAlive (Or.inl ⟨rfl, rfl⟩)).1

/-- sweeps at 1001 (too early), a wake-up, the decisive sweep at 1002, graceful maintenance, sweeps
    up to 1008: closed and released -/
example : runIdle {} (some exKeepAlive)
    ([.tick 1001, .wake] ++ [.tick 1002] ++ [.graceful false, .tick 1005] ++ [.tick 1008] ++ [.wake]) = none :=
  c13_idle_closed {} exKeepAlive (Or.inl ⟨rfl, rfl⟩) [.tick 1001, .wake] [.graceful false, .tick 1005] [.wake]
    1002 1008 (by intro t ht; simp at ht; omega) (by decide) (by decide)

example : ∀ c', runIdle {} (some exKeepAlive) ([.tick 1001, .wake] ++ [.tick 1002]) = some c' →
    c'.st = .close ∧ c'.cts ≤ 1002 :=
  c13_idle_fin_sent {} exKeepAlive (Or.inl ⟨rfl, rfl⟩) [.tick 1001, .wake] 1002
    (by intro t ht; simp at ht; omega) (by decide)

/-- client 0 connects and never sends anything (max-read-idle 2); meanwhile client 1 connects, sends a
    request, reads the answer, the signal does NOT arrive, the clock ticks 1+2 and later 3+3 seconds -/
example : ((Sys.init {}).run {} ([.open_ 0] ++ ([.open_ 1, .tick 1, .prepare 1 { H := 100 }, .send 1 0] ++ [.tick 2] ++
    [.read 1, .tick 3] ++ [.tick 3] ++ [.close 1]))).conn 0 = none :=
  c13_idle_closed_sys {} [.open_ 0] 0 { rts := 1000 } rfl
    [.open_ 1, .tick 1, .prepare 1 { H := 100 }, .send 1 0] [.read 1, .tick 3] [.close 1] 2 3
    (by intro op h; simp at h; rcases h with rfl | rfl | rfl | rfl <;> simp [Op.foreign, Op.client])
    (by intro op h; simp at h; rcases h with rfl | rfl <;> simp [Op.foreign, Op.client])
    (by intro op h; simp at h; rcases h with rfl; simp [Op.foreign, Op.client])
    (by decide) (by decide)

example : ((Sys.init { mc := 2 }).run { mc := 2 } [.open_ 0, .open_ 1, .open_ 2]).Good :=
  c13_reachable_good { mc := 2 } [.open_ 0, .open_ 1, .open_ 2]

/-- a response blocked since second 1000 (max-write-idle 3): released after the sweeps 1004 and 1010 -/
def exBlocked : Conn := { st := .write, n := 1, inEv := false, outEv := true, wts := 1000, rts := 1000 }
example : runIdle {} (some exBlocked) ([] ++ [.tick 1004] ++ [] ++ [.tick 1010] ++ []) = none :=
  c13_idle_closed {} exBlocked (Or.inr (Or.inr (Or.inl ⟨rfl, rfl, by decide⟩))) [] [] [] 1004 1010
    (by intro t ht; cases ht) (by decide) (by decide)

/-- idle: acts at 1003, not at 1002; a stalled upload beside a healthy stream: acts -/
example : (checkTimeoutH2 { st := .write, streams := [], rts := 1000, wts := 1000, kaIdle := 2, wi := 3 } 1003).1 = true ∧
    (checkTimeoutH2 { st := .write, streams := [], rts := 1000, wts := 1000, kaIdle := 2, wi := 3 } 1002).1 = false := by
  constructor
  · exact ((c13_h2_sweep_exact_partial _ 1003 rfl (by simp)).1).mpr (Or.inl ⟨rfl, by decide⟩)
  · decide

example : (checkTimeoutH2 { st := .write, streams := [⟨.handleReq, false, 2⟩, ⟨.readPost, true, 2⟩],
                            rts := 1000, wts := 1002, kaIdle := 2, wi := 3 } 1003).1 = true :=
  ((c13_h2_sweep_exact_partial _ 1003 rfl (by decide)).1).mpr
    (Or.inr ⟨⟨.readPost, true, 2⟩, by simp, by decide, Or.inl ⟨rfl, by decide⟩⟩)

/-- a 300-byte head against a 256-byte limit in pieces of 200 + 100 bytes at seconds 1000, 1001: 431;
    a 1025-byte Content-Length against 1 kB, head and body dribbling in: 413; three 512-byte chunks
    against 1 kB in 7 pieces: 413; two of them: 200 -/
example : (feed { fs := 256 } { H := 300 } (some {}) [(1000, 200), (1001, 100)]).2 = [431] :=
  c13_limits_refuse { fs := 256 } { H := 300 } ⟨by decide, by simp, by simp⟩ _ {} rfl rfl
    (by intro x hx; simp at hx; rcases hx with rfl | rfl <;> decide) (by decide)
example : expectedStatus { fs := 256 } { H := 300 } = 431 := by decide
example : (feed { rs := 1 } { kind := .post, H := 100, B := 1025 } (some {}) [(1000, 60), (1000, 50), (1003, 1015)]).2 = [413] :=
  c13_limits_refuse { rs := 1 } { kind := .post, H := 100, B := 1025 } ⟨by decide, fun _ => by decide, by simp⟩ _ {} rfl rfl
    (by intro x hx; simp at hx; rcases hx with rfl | rfl | rfl <;> decide) (by decide)
example : expectedStatus { rs := 1 } { kind := .chunked, H := 100, B := 1536, csz := 512 } = 413 ∧
    expectedStatus { rs := 1 } { kind := .chunked, H := 100, B := 1024, csz := 512 } = 200 := by decide
example : (feed { rs := 1 } { kind := .chunked, H := 100, B := 1024, csz := 512 } (some {})
    [(1000, 100), (1000, 500), (1001, 543)]).2 = [200] :=
  c13_limits_refuse { rs := 1 } { kind := .chunked, H := 100, B := 1024, csz := 512 } ⟨by decide, by simp, fun _ => by decide⟩ _ {} rfl rfl
    (by intro x hx; simp at hx; rcases hx with rfl | rfl | rfl <;> decide) (by decide)

example : ∀ c', (recv { fs := 256 } 1000 {} { H := 300 } 200).1 = some c' → c'.st = .read → c'.hdrBuf ≤ 256 :=
  (c13_limits_buffer_bounded { fs := 256 } 1000 {} { H := 300 } 200).1 rfl

/-- HTTP/2: the four pseudo-header fields plus a 600-byte field against 256: 431; DATA 500+500+500
    against 1 kB: the third frame is refused (413 prepared, 1000 bytes kept) -/
example : h2HeadStatus 256 [(7, 3), (7, 4), (5, 2), (10, 1), (5, 600)] = 431 := by
  rw [c13_h2_limits_refuse.1]; decide
example : (h2DataRun 1024 {} [(500, false), (500, false), (500, false)]).bytesIn = 1000 ∧
    (h2DataRun 1024 {} [(500, false), (500, false), (500, false)]).status = 413 := by decide
example : (h2DataRun 1024 {} [(1024, false), (1, false), (60000, false), (10000, false)]).bytesIn ≤ 1024 + h2SinkAllowance + 60000 :=
  (c13_h2_limits_refuse.2 1024 60000 _ (by decide) (by intro f hf; simp at hf; rcases hf with rfl | rfl | rfl | rfl <;> decide)).1

/-- five clients against two slots: two are served, three wait -/
example : let s := (Sys.init { mc := 2 }).run { mc := 2 } [.open_ 0, .open_ 1, .open_ 2, .open_ 3, .open_ 4]
    s.conns.length = 2 ∧ s.lim = 0 ∧ s.disabled = 1 ∧ s.backlog = [2, 3, 4] := by decide

example : ((Sys.init { mc := 2 }).run { mc := 2 } [.open_ 0, .open_ 1, .open_ 2]).conns.length ≤ 2 :=
  (c13_conn_cap { mc := 2 } [.open_ 0, .open_ 1, .open_ 2]).1

example : acceptCount 250 = 100 ∧ acceptCount 3 = 3 := by decide

/-- sockets disabled, one slot free again, a client waiting: re-enabled and accepted -/
def exOverloaded : Sys :=
  { lim := 1, curFds := 11, disabled := 1, backlog := [2], conns := [(0, { rts := 1000 })],
    clients := List.replicate maxClients {} }
example : (exOverloaded.round { mc := 2 }).disabled = 0 ∧
    (exOverloaded.round { mc := 2 }).backlog.length < exOverloaded.backlog.length :=
  c13_overload_recovers { mc := 2 } exOverloaded rfl (by decide) (by decide) (by decide)

/-- three clients against one slot, the first leaves: the second is let in, the third still waits —
    because no slot is free -/
example : let s := (Sys.init { mc := 1 }).run { mc := 1 } [.open_ 0, .open_ 1, .open_ 2, .close 0]
    s.backlog = [2] ∧ s.lim = 0 ∧ s.conns.length = 1 := by decide
example : let s := (Sys.init { mc := 1 }).run { mc := 1 } [.open_ 0, .open_ 1, .open_ 2, .close 0]
    (s.backlog ≠ [] → s.lim = 0 ∨ ({ mc := 1 } : Cfg).lowat ≤ s.curFds) ∧ s.curFds = 10 + s.conns.length :=
  c13_no_idle_wait { mc := 1 } [.open_ 0, .open_ 1, .open_ 2, .close 0] (by decide) (by decide)
example : ((Sys.init { mc := 1 }).run { mc := 1 } [.open_ 0, .open_ 1, .close 0, .close 1]).backlog = [] :=
  (c13_overload_never_permanent { mc := 1 } [.open_ 0, .open_ 1, .close 0, .close 1] (by decide) (by decide)).2
    (by decide) (by decide) (by decide)

/-- the side condition is necessary: 26 descriptors in use at start against a low watermark of 25 —
    after the only client has left, the next one waits beside an empty connection table, for ever -/
example : let cfg : Cfg := { mc := 1, mf := 32, cf := 26 }
    let s := (Sys.init cfg).run cfg [.open_ 0, .open_ 1, .close 0, .tick 100, .tick 100, .wake]
    s.conns = [] ∧ s.lim = 1 ∧ s.backlog = [1] ∧ s.disabled = 1 ∧ ¬ (cfg.cf < cfg.lowat) := by decide

example : effMaxConns 0 1024 = 341 ∧ effMaxConns 1000 64 = 32 ∧ effMaxConns 20 1024 = 20 := by decide
example : effMaxConns 0 ({ mf := 10 } : Cfg).maxFds ≠ 0 := (c13_configured_limit 0 { mf := 10 }).1

/-- a download in progress when the signal arrives -/
def exServing : Sys :=
  { lim := 3, curFds := 11, backlog := [1], conns := [(0, exBlocked)], clients := List.replicate maxClients {} }
example : Stopping (exServing.step {} .graceful) ∧ (exServing.step {} .graceful).expireTs = 1004 := by
  have := (c13_graceful_no_accept {} exServing).1 rfl rfl (by decide)
  exact ⟨this.1, this.2.1⟩
example : (exServing.step {} .graceful).conns.length = 1 ∧ (exServing.step {} .graceful).backlog = [] := by decide

/-- a client connects and asks for a big response, the signal arrives, another client tries to connect,
    two seconds pass: the response is still being written, untouched -/
def exPre : List Op := [.open_ 0, .prepare 0 { H := 100, big := true }, .send 0 0, .graceful]
def exWriting : Conn := { st := .write, inEv := false, outEv := true, rts := 1000, wts := 1000, kaIdle := 1,
                          req := { H := 100, big := true } }
example : ((Sys.init {}).run {} exPre).conn 0 = some exWriting := rfl
example : ((((Sys.init {}).run {} exPre).step {} (.tick 2)).conn 0).isSome = true ∧
    (((Sys.init {}).run {} exPre).step {} (.tick 2)).exited = false := by
  have h := c13_graceful_inflight {} exPre (.tick 2) 0 exWriting
    ⟨by decide, by decide, by decide⟩ rfl (Or.inl rfl) (by simp [Op.foreign, Op.client]) (by simp)
    (by decide) (by decide)
  exact ⟨by rw [h.1]; rfl, h.2⟩

example : ((exServing.step {} .graceful).step {} (.tick 5)).exited = true :=
  (c13_graceful_exit {} (exServing.step {} .graceful)
    ((c13_graceful_no_accept {} exServing).1 rfl rfl (by decide)).1).1 5 (by decide) (by decide)

/-- the signal while a download is blocked and its client never reads: five seconds later
    (timeout 4) the loop has returned, whatever else happened -/
example : ((Sys.init {}).run {} ([.open_ 0, .prepare 0 { H := 100, big := true }, .send 0 0] ++ [.graceful] ++
    [.tick 2, .open_ 1, .wake, .tick 3])).exited = true :=
  c13_graceful_exits {} [.open_ 0, .prepare 0 { H := 100, big := true }, .send 0 0] [.tick 2, .open_ 1, .wake, .tick 3]
    (by decide) (by decide) (by decide) (by decide)

end LtVerif.C13
