/-
  C14 — conditional configuration applies exactly as the config language defines.
  Property theorems only (helper lemmas live in LtVerif/Proofs/Cond.lean and
  LtVerif/Proofs/SockAddr.lean).

  Vocabulary (Model/Cond.lean, Proofs/Cond.lean):
    `Tree`/`Node`      the data_config tree, index = context_ndx; `WF` = what configparser.y builds
    `check`            config_check_cond() with its cache (config_check_cond_cached/_nocache)
    `resetItem`        config_cond_cache_reset_item() (+ config_cond_clear_node())
    `step`/`run`       operations on the requests of one connection: check, rewrite an
                       attribute + reset_item, full reset, validity change, next request,
                       h2 stream spawn (cache copy), a module's patch_config()
    `Applies t e i`    the property's recursion: block i's own condition holds for attributes
                       e, its enclosing block applies, every earlier branch of its chain failed
    `spec t e i`       the same as a four-valued function (skip / false / true)
    `Coh t e c`        cache c is coherent with attributes e: every set entry equals `spec`,
                       every remembered local result equals the local comparison, a set
                       entry's parent entry is set
    `Deps t i k`       block i's outcome may depend on field k (its own field, those of its
                       enclosing blocks and of the earlier branches of their chains);
                       `DepsValid t valid i` = all of them are set in r->conditional_is_valid;
                       `TreeValid t valid` = every field tested anywhere in the configuration is
                       (the masks of http_request_headers_fin() and http_response_comeback())
    `Disciplined n pend ops`  the server's discipline for streams: between h2_init_stream()
                       (`Op.spawn`: new request_st, cache and valid bits copied, own attributes
                       empty) and the stream's first full reset (http_response_config()) no
                       condition is evaluated on that stream; `SlotsOk` = all other requests
                       have coherent caches
    `LastWins t e dirs d x`  x is the value of the last contributing block that assigns d
-/
import LtVerif.Proofs.Cond
import LtVerif.Proofs.SockAddr
import LtVerif.Proofs.CondSimplify
namespace LtVerif.C14
open LtVerif B LtVerif.Cond LtVerif.SockAddr

/-! ## 1. cached evaluation = the language semantics, for every interleaving -/

/-- For every well-formed condition tree, every connection state in which the requests that
    are not fresh streams have coherent caches (in particular one fresh request), and EVERY
    disciplined sequence of operations
    {check any block on any request, rewrite an attribute then reset_item, full reset,
     change of validity bits (any mask, growing or shrinking), next request, spawn an HTTP/2
     stream (cache copied into a request with other attributes), a module's patch_config}:
      * `config_check_cond` returns `true` only for a block that applies to the attributes
        the request has at that moment; any decided result is the specified one;
      * if the fields the block depends on are available — in particular under the masks of
        the first pass and of the pass after HANDLER_COMEBACK — the result is `true` iff the
        block applies (so it does not depend on evaluation order, cached results, earlier
        requests of the connection, other streams, or rewrites in between);
      * every patch_config observed in the history gives each directive the value of the
        last contributing block (when every field tested in the configuration is available). -/
theorem c14_cache_coherent (t : Tree) (hwf : WF t) (st0 : List Req) (pend0 : List Nat) (n : Nat)
    (hlen : st0.length = n) (hn : 1 ≤ n) (hnodes : 0 < t.length) (h0 : SlotsOk t st0 pend0)
    (ops : List Op) (hd : Disciplined n pend0 ops) :
    ∀ so ∈ run true t st0 ops,
      (∀ s i r, so.2 = .result s i r → ∀ rq, so.1[s]? = some rq →
        (r = .true_ → Applies t rq.env i) ∧
        (r ≠ .unset → r = spec t rq.env i) ∧
        (DepsValid t rq.valid i → (r = .true_ ↔ Applies t rq.env i))) ∧
      (∀ s dirs conf, so.2 = .conf s dirs conf → ∀ rq, so.1[s]? = some rq →
        TreeValid t rq.valid → ∀ d, LastWins t rq.env dirs d (conf d)) := by
  intro so hso
  have h2 := run_ok hwf ops st0 pend0 n hlen hn h0 hd so hso
  constructor
  · intro s i r hr rq hrq
    rw [hr] at h2
    obtain ⟨hi, h3⟩ := h2
    obtain ⟨p1, p2⟩ := h3 rq hrq
    have hiff := spec_true_iff_applies hwf rq.env i hi
    refine ⟨fun hrt => hiff.mp ((p1 (by rw [hrt]; decide)) ▸ hrt), p1, fun hv => ?_⟩
    rw [p2 hv]; exact hiff
  · intro s dirs conf hc rq hrq hv d
    rw [hc] at h2
    rw [h2 rq hrq hv]
    exact specMerge_lastWins hwf rq.env dirs d hnodes

/-- The four-valued specification is the recursion of the property statement:
    `true` exactly for the blocks that apply. -/
theorem c14_spec_is_language (t : Tree) (hwf : WF t) (e : Env) (i : Nat) (hi : i < t.length) :
    spec t e i = .true_ ↔ Applies t e i :=
  spec_true_iff_applies hwf e i hi

/-- A check is decided, and correct, as soon as the fields the block depends on are
    available — whatever else is (not) available: connection-level masks (socket + peer
    address, + SNI host/scheme), the 8-field mask after a request restart, or all bits. -/
theorem c14_decided_iff_language (t : Tree) (hwf : WF t) (e : Env) (valid : Comp → Bool) (c : Cache)
    (hc : Coh t e c) (i : Nat) (hi : i < t.length) (hv : DepsValid t valid i) :
    ((check t e valid t.length i c).1 = .true_ ↔ Applies t e i) ∧
    (check t e valid t.length i c).1 ≠ .unset := by
  obtain ⟨_, a2, _, a4⟩ := check_post hwf e valid t.length i c hi hi hc
  refine ⟨?_, a4 hv⟩
  rw [(a2 (a4 hv)).1]
  exact spec_true_iff_applies hwf e i hi

/-- every field tested in the configuration available ⇒ every block's dependencies are -/
theorem c14_tree_valid_suffices (t : Tree) (hwf : WF t) (valid : Comp → Bool) (hv : TreeValid t valid)
    (i : Nat) (h1 : 1 ≤ i) (hi : i < t.length) : DepsValid t valid i :=
  depsValid_of_treeValid hwf hv h1 hi

/-- Re-evaluation after a rewrite: changing the attribute of one field and calling
    config_cond_cache_reset_item() for that field leaves a cache that is coherent with
    the NEW attributes (every entry that could depend on the field was cleared; nothing
    stale survives), for every tree and every prior cache state. -/
theorem c14_reset_item_coherent (t : Tree) (hwf : WF t) (e : Env) (c : Cache) (hc : Coh t e c)
    (a : Comp) (v : AttrVal) :
    Coh t (e.set a v) (resetItem true t a c) :=
  resetItem_coh hwf a hc (fun _ _ hj => evalLocal_set_other _ _ _ _ hj)

/-- The result of a check is independent of evaluation order: whatever blocks were
    evaluated before, in whatever order, on whatever coherent cache. -/
theorem c14_order_independent (t : Tree) (hwf : WF t) (e : Env) (valid : Comp → Bool)
    (c1 c2 : Cache) (h1 : Coh t e c1) (h2 : Coh t e c2)
    (ks1 ks2 : List Nat) (hk1 : ∀ k ∈ ks1, k < t.length) (hk2 : ∀ k ∈ ks2, k < t.length)
    (i : Nat) (hi : i < t.length) (hv : DepsValid t valid i) :
    (check t e valid t.length i (checkAll t e valid ks1 c1)).1 =
    (check t e valid t.length i (checkAll t e valid ks2 c2)).1 := by
  obtain ⟨_, a2, _, a4⟩ := check_post hwf e valid t.length i _ hi hi (checkAll_coh hwf e valid ks1 hk1 c1 h1)
  obtain ⟨_, b2, _, b4⟩ := check_post hwf e valid t.length i _ hi hi (checkAll_coh hwf e valid ks2 hk2 c2 h2)
  rw [(a2 (a4 hv)).1, (b2 (b4 hv)).1]

/-- Connection-level results copied into streams: whatever the connection's request
    evaluated (any blocks, any order) while only the listening socket and the peer address
    were available is, taken over by a stream of that connection, coherent with the STREAM's
    attributes `e'` (which share socket and peer address and differ arbitrarily otherwise). -/
theorem c14_stream_inherits_connection_level (t : Tree) (hwf : WF t) (e e' : Env)
    (hs : e'.socket = e.socket) (ha : e'.addr = e.addr) (hi : e'.ipStr = e.ipStr)
    (valid : Comp → Bool) (hv : ∀ k, valid k = true → k = .socket ∨ k = .remoteIp)
    (ks : List Nat) (hks : ∀ k ∈ ks, k < t.length) :
    Coh t e' (checkAll t e valid ks (Cache.empty t.length)) := by
  rw [← checkAll_env_agree t e e' valid
    (fun i hvi => evalLocal_conn_level _ e e' hs ha hi (hv _ hvi))]
  exact checkAll_coh hwf e' valid ks hks _ (coh_empty t e')

/-! ## 2. merge in context order: the last contributing block wins, per directive
   ("file order" = order of the contexts = order in which each distinct condition first
    occurs in the file) -/

/-- A module's patch_config() (defaults from the global scope, then every block of its
    cvlist in order whose check is true): each directive gets the value of the last
    contributing block, the built-in default if none — for every tree, request and prior
    (coherent) cache state, whenever every field tested in the configuration is available. -/
theorem c14_merge_last_wins (t : Tree) (hwf : WF t) (e : Env) (valid : Comp → Bool)
    (hv : TreeValid t valid) (dirs : List Nat) (c : Cache) (hc : Coh t e c) (d : Nat)
    (hn : 0 < t.length) :
    LastWins t e dirs d ((patch t e valid dirs c).1 d) := by
  rw [(patch_post hwf e valid dirs c hc).2 hv]
  exact specMerge_lastWins hwf e dirs d hn

/-! ## 3. CIDR matching (`$HTTP["remoteip"] == "net/n"`, sock_addr_is_addr_eq_bits) -/

/-- IPv4 network, IPv4 peer: the block's condition holds iff the first `n` bits agree. -/
theorem c14_cidr_v4 (nd : Node) (e : Env) (a b : List UInt8) (n : Nat)
    (hc : nd.comp = .remoteIp) (ho : nd.cond = .eq) (hs : nd.str.head? ≠ some slash)
    (hn : nd.cidr = some (.v4 a, n)) (he : e.addr = .v4 b)
    (ha : a.length = 4) (hb : b.length = 4) (h1 : 1 ≤ n) (h2 : n ≤ 32) :
    evalLocal nd e = true ↔ beVal a >>> (32 - n) = beVal b >>> (32 - n) := by
  rw [evalLocal_remoteip_eq nd e _ n hc ho hs hn, he, ← addrEqBits_v4_iff ha hb h1 h2]
  have : n ≠ 0 := by omega
  simp [this]

/-- IPv6 network, IPv6 peer: the block's condition holds iff the first `n` bits agree. -/
theorem c14_cidr_v6 (nd : Node) (e : Env) (a b : List UInt8) (n : Nat)
    (hc : nd.comp = .remoteIp) (ho : nd.cond = .eq) (hs : nd.str.head? ≠ some slash)
    (hn : nd.cidr = some (.v6 a, n)) (he : e.addr = .v6 b)
    (ha : a.length = 16) (hb : b.length = 16) (h1 : 1 ≤ n) (h2 : n ≤ 128) :
    evalLocal nd e = true ↔ beVal a >>> (128 - n) = beVal b >>> (128 - n) := by
  rw [evalLocal_remoteip_eq nd e _ n hc ho hs hn, he, ← addrEqBits_v6_iff ha hb h1 h2]
  have : n ≠ 0 := by omega
  simp [this]

/-- IPv4 network, IPv6 peer: holds iff the peer is IPv4-mapped (::ffff:a.b.c.d) and the first
    `n` bits of the embedded IPv4 address agree. -/
theorem c14_cidr_v4_net_mapped_peer (nd : Node) (e : Env) (a b : List UInt8) (n : Nat)
    (hc : nd.comp = .remoteIp) (ho : nd.cond = .eq) (hs : nd.str.head? ≠ some slash)
    (hn : nd.cidr = some (.v4 a, n)) (he : e.addr = .v6 b)
    (ha : a.length = 4) (hb : b.length = 16) (h1 : 1 ≤ n) (h2 : n ≤ 32) :
    evalLocal nd e = true ↔
      isV4Mapped b = true ∧ beVal a >>> (32 - n) = beVal (low4 b) >>> (32 - n) := by
  rw [evalLocal_remoteip_eq nd e _ n hc ho hs hn, he]
  have : n ≠ 0 := by omega
  have hl : (low4 b).length = 4 := by simp [low4, hb]
  simp only [this, ne_eq, not_false_eq_true, if_true]
  show (isV4Mapped b && addrEqBits (.v4 a) (.v4 (low4 b)) n) = true ↔ _
  rw [Bool.and_eq_true, addrEqBits_v4_iff ha hl h1 h2]

/-- IPv6 network, IPv4 peer: the peer is compared as its IPv4-mapped form ::ffff:a.b.c.d —
    first `n` of 128 bits — and never matches a network whose base is not IPv4-mapped. -/
theorem c14_cidr_mapped_net_v4_peer (nd : Node) (e : Env) (a b : List UInt8) (n : Nat)
    (hc : nd.comp = .remoteIp) (ho : nd.cond = .eq) (hs : nd.str.head? ≠ some slash)
    (hn : nd.cidr = some (.v6 a, n)) (he : e.addr = .v4 b)
    (ha : a.length = 16) (hb : b.length = 4) (h1 : 1 ≤ n) (h2 : n ≤ 128) :
    evalLocal nd e = true ↔
      isV4Mapped a = true ∧ beVal a >>> (128 - n) = beVal (v4mapped b) >>> (128 - n) := by
  rw [evalLocal_remoteip_eq nd e _ n hc ho hs hn, he]
  have : n ≠ 0 := by omega
  have hl : (v4mapped b).length = 16 := by simp [v4mapped, hb]
  simp only [this, ne_eq, not_false_eq_true, if_true]
  cases hm : isV4Mapped a with
  | true =>
    rw [addrEqBits_v6_v4 ha hb h1 h2 hm, addrEqBits_v6_iff ha hl h1 h2]; simp
  | false => rw [addrEqBits_v6_v4_unmapped hm]; simp

/-! ## 4. host[:port] -/

/-- `$HTTP["host"] == "d"` holds iff the request's authority equals `d`, or is `d` plus a
    ":port" suffix of at most 5 characters, or `d` is the authority plus a ":port" suffix —
    and in no other case; `!=` holds exactly when none of these does. -/
theorem c14_host_port_rule (nd : Node) (e : Env) (hc : nd.comp = .host)
    (hs : nd.str.head? ≠ some slash) :
    (nd.cond = .eq → (evalLocal nd e = true ↔
      e.host = nd.str ∨
      (e.host ≠ [] ∧ ((∃ p, e.host = nd.str ++ colon :: p ∧ p.length ≤ 5) ∨
                      (∃ p, nd.str = e.host ++ colon :: p))))) ∧
    (nd.cond = .ne → (evalLocal nd e = true ↔
      ¬ (e.host = nd.str ∨
      (e.host ≠ [] ∧ ((∃ p, e.host = nd.str ++ colon :: p ∧ p.length ≤ 5) ∨
                      (∃ p, nd.str = e.host ++ colon :: p)))))) := by
  constructor
  · intro ho
    rw [← host_eq_iff nd e hc hs]
    simp [evalLocal, ho, hc]
  · intro ho
    rw [← host_eq_iff nd e hc hs]
    simp [evalLocal, ho, hc]

/-! ## 5. the selective reset must walk the whole else-chain
   (scenario `Ex.tree`, `Ex.ops` in Proofs/Cond.lean:
    `$HTTP["host"] == "h2" { $HTTP["url"] =^ "/a" {…} else $HTTP["url"] =^ "/b" {…} }`,
    request host h1 url /b/x; the else-branch is evaluated; host rewritten to h2 + reset_item;
    the else-branch is evaluated again) -/


/-- With the walk of config_cond_clear_node() as it was before fix f0e74a5 (stop at a node
    that is already unset, without following `next`), the cache is NOT coherent: in the
    scenario `Ex.ops` the else-branch keeps a stale "skip" although the block applies.
    (So `c14_cache_coherent` does not hold for `run false`; the theorem is about the
    walk that always follows the else-chain.) -/
theorem c14_old_clear_walk_stale :
    Ex.lastResult (run false Ex.tree [Req.fresh Ex.tree.length] Ex.ops) = some .skip ∧
    Ex.lastResult (run true Ex.tree [Req.fresh Ex.tree.length] Ex.ops) = some .true_ := by
  decide

/-! ## non-vacuity -/

example : WF Ex.tree := by decide
example : SlotsOk Ex.tree [Req.fresh Ex.tree.length] [] := by
  intro s rq hs _
  cases s with
  | zero => simp only [List.getElem?_cons_zero, Option.some.injEq] at hs; subst hs; exact coh_empty _ _
  | succ s => simp at hs
example : Disciplined 1 [] Ex.ops := by simp [Ex.ops, Disciplined]
/-- a history with a stream: evaluated on the connection's request, spawned, given its
    request (full reset), evaluated -/
example : Disciplined 1 []
    [.check 0 1, .spawn, .newReq 1 [(.host, .str (ofString "h2"))] Ex.allValid, .check 1 3] := by
  simp [Disciplined]
/-- the 8-field mask of http_response_comeback() (no bit for COMP_UNSET) makes every field of
    the configuration available, although it is not "all bits" -/
example : TreeValid Ex.tree (validOf Ex.allValid) := by
  intro i h1 hi
  have hl : Ex.tree.length = 4 := by decide
  rw [hl] at hi
  rcases (by omega : i = 1 ∨ i = 2 ∨ i = 3) with rfl | rfl | rfl <;> decide
example : ¬ ∀ k, validOf Ex.allValid k = true := by
  intro h; exact absurd (h .unset) (by decide)
/-- connection-level mask: only blocks depending on socket / peer address are decided -/
example : DepsValid [{}, { comp := .remoteIp, cond := .eq }] (validOf [.socket, .remoteIp]) 1 := by
  intro k hk
  cases hk with
  | self => decide
  | parent h _ => exact absurd rfl h
  | prev h _ => cases h
/-- the interesting run really produces observations, and block 3 applies at its end -/
example : (run true Ex.tree [Req.fresh Ex.tree.length] Ex.ops).length = 4 := by decide
example : evalLocal (Ex.tree.node 3) { host := ofString "h2", url := ofString "/b/x" } = true := by decide
example : evalLocal (Ex.tree.node 2) { host := ofString "h2", url := ofString "/b/x" } = false := by decide
example : evalLocal (Ex.tree.node 1) { host := ofString "h2:8080", url := ofString "/b/x" } = true := by decide
-- merge: a block that assigns directive 0
example : lastSet (ownSets [0, 1, 2] { sets := [(0, 7), (3, 9), (0, 8)] }) 0 = some 8 := by decide
-- CIDR: 10.1.2.3 is inside 10.0.0.0/8, 11.0.0.1 is not; ::ffff:10.1.2.3 is, as a mapped peer
example : addrEqBits (.v4 [10, 0, 0, 0]) (.v4 [10, 1, 2, 3]) 8 = true := by decide
example : addrEqBits (.v4 [10, 0, 0, 0]) (.v4 [11, 0, 0, 1]) 8 = false := by decide
example : addrEqBits (.v4 [10, 0, 0, 0]) (.v6 [0,0,0,0,0,0,0,0,0,0,0xff,0xff,10,1,2,3]) 8 = true := by decide
example : addrEqBits (.v6 [0,0,0,0,0,0,0,0,0,0,0xff,0xff,10,1,2,0]) (.v4 [10,1,2,77]) 120 = true := by decide
example : isV4Mapped (v4mapped [10, 1, 2, 3]) = true := by decide

/-! ## 6. `=~` conditions rewritten by the parser (configparser_simplify_regex) and turned back
   into a regex by config_finalize() keep the meaning of the condition as written
   (`Plain`, `litRegex`, `regexText`, `Simplified` in Proofs/CondSimplify.lean) -/

/-- For EVERY regex string `b` of a `=~` condition: if configparser_simplify_regex() replaces it
    (result `(cond, str)` with `cond ≠ MATCH`), then `b` is the text `^`? literal `$`? of an
    anchored literal regular expression (regex characters escaped: the `\.ext$` case), and the
    block's condition as STORED (`=^`, `=$`, `==` on `str`) holds for a request iff that regular
    expression matches the request's attribute — for every request and every field except that
    `==` is a different comparison on host and remote address (see the next theorem). -/
theorem c14_simplify_regex_preserves (b : Bytes) (nd : Node) (e : Env)
    (hs : simplifyRegex b = (nd.cond, nd.str)) (hc : nd.cond ≠ .match_) (hu : nd.comp ≠ .unset)
    (hh : nd.cond = .eq → nd.comp ≠ .host ∧ nd.comp ≠ .remoteIp) :
    ∃ bol body eol, b = regexText bol body eol ∧ (∀ x ∈ body, x ≠ 0) ∧
      evalLocal nd e = (litRegex bol body eol).matches (attr nd e) := by
  have hsh := simplifyRegex_shape b nd.cond nd.str hs hc
  generalize hcd : nd.cond = c at hsh hh
  generalize hst : nd.str = s at hsh
  cases hsh with
  | pre s hp =>
    refine ⟨true, s, false, ?_, fun x hx => (hp x hx).1, ?_⟩
    · unfold regexText; rw [flatMap_plain s hp]; simp
    · rw [litRegex_matches]; simp [evalLocal, hcd, hu, hst]
  | exact s hp =>
    refine ⟨true, s, true, ?_, fun x hx => (hp x hx).1, ?_⟩
    · unfold regexText; rw [flatMap_plain s hp]; simp
    · rw [litRegex_matches]
      obtain ⟨h1, h2⟩ := hh rfl
      simp [evalLocal, hcd, hu, eqLike, h1, h2, hst]
  | suf s hp =>
    refine ⟨false, s, true, ?_, fun x hx => (hp x hx).1, ?_⟩
    · unfold regexText; rw [flatMap_plain s hp]; simp
    · rw [litRegex_matches]; simp [evalLocal, hcd, hu, hst]
  | ext s hp =>
    refine ⟨false, 46 :: s, true, ?_, ?_, ?_⟩
    · unfold regexText; rw [List.flatMap_cons, flatMap_plain s hp]; simp [regexChars]
    · intro x hx
      rcases List.mem_cons.mp hx with rfl | hx
      · decide
      · exact (hp x hx).1
    · rw [litRegex_matches]; simp [evalLocal, hcd, hu, hst]

/-- The exception is real (upstream behaviour, candidate known finding):
    `$HTTP["host"] =~ "^h1$"` is stored as `$HTTP["host"] == "h1"`, and `==` on the host applies
    the host[:port] rule (`c14_host_port_rule`), so the block holds for `Host: h1:8080`, which
    the regular expression as written does not match. -/
theorem c14_simplified_host_eq_matches_port :
    simplifyRegex (ofString "^h1$") = (.eq, ofString "h1") ∧
    evalLocal { comp := .host, cond := .eq, str := ofString "h1" } { host := ofString "h1:8080" } = true ∧
    (litRegex true (ofString "h1") true).matches (ofString "h1:8080") = false := by
  decide

/-- config_finalize() (blocks whose captures are used by a redirect/rewrite rule): the regex
    text rebuilt from a simplified condition is exactly the text the configuration had —
    for every `b` that configparser_simplify_regex() rewrote. -/
theorem c14_finalize_restores_regex (b : Bytes) (c : CondOp) (s : Bytes)
    (hs : simplifyRegex b = (c, s)) (hc : c ≠ .match_) :
    unsimplify c s = (.match_, b) := by
  cases simplifyRegex_shape b c s hs hc with
  | pre s hp => simp [unsimplify]
  | exact s hp => simp [unsimplify]
  | suf s hp =>
    have : s.head? ≠ some 46 := by
      intro h
      cases s with
      | nil => simp at h
      | cons x s =>
        simp only [List.head?_cons, Option.some.injEq] at h
        exact absurd (hp x (by simp)).2 (by rw [h]; decide)
    simp [unsimplify, this]
  | ext s hp => simp [unsimplify]

/-- Exactly the anchored plain literals are rewritten: configparser_simplify_regex() returns
    a non-regex condition iff `b` is `^lit`, `^lit$`, `lit$` or `\.lit$` with `lit` free of NUL
    and of regex characters — and then returns that comparison on `lit` (`.lit`). -/
theorem c14_simplify_regex_exactly_literals (b : Bytes) (c : CondOp) (s : Bytes) (hc : c ≠ .match_) :
    simplifyRegex b = (c, s) ↔ Simplified b c s := by
  constructor
  · intro h; exact simplifyRegex_shape b c s h hc
  · intro h
    cases h with
    | pre s hp => exact simplifyRegex_pre s hp
    | exact s hp => exact simplifyRegex_exact s hp
    | suf s hp => exact simplifyRegex_suf s hp
    | ext s hp => exact simplifyRegex_ext s hp

example : Simplified (ofString "^/a$") .eq (ofString "/a") :=
  Simplified.exact (ofString "/a") (by unfold Plain; decide)
example : simplifyRegex (ofString "^/a") = (.prefix_, ofString "/a") := by decide
example : simplifyRegex (ofString "\\.php$") = (.suffix, ofString ".php") := by decide
example : simplifyRegex (ofString "php$") = (.suffix, ofString "php") := by decide
example : simplifyRegex (ofString "^/a$") = (.eq, ofString "/a") := by decide
example : simplifyRegex (ofString "^/a/.*\\.php$") = (.match_, ofString "^/a/.*\\.php$") := by decide
example : simplifyRegex (ofString "^$") = (.eq, []) := by decide
example : simplifyRegex (ofString "$") = (.suffix, []) := by decide
example : simplifyRegex (ofString "\\.$") = (.suffix, ofString ".") := by decide
example : simplifyRegex (ofString "\\$") = (.match_, ofString "\\$") := by decide
example : unsimplify .suffix (ofString ".php") = (.match_, ofString "\\.php$") := by decide
/-- hypotheses of `c14_simplify_regex_preserves` on a concrete block: `$HTTP["url"] =~ "\.php$"` -/
example : simplifyRegex (ofString "\\.php$") =
    (({ comp := .url, cond := .suffix, str := ofString ".php" } : Node).cond,
     ({ comp := .url, cond := .suffix, str := ofString ".php" } : Node).str) := by decide
example : evalLocal { comp := .url, cond := .suffix, str := ofString ".php" } { url := ofString "/x.php" } = true := by
  decide
example : (litRegex false (ofString ".php") true).matches (ofString "/x.php") = true := by decide
example : (litRegex false (ofString ".php") true).matches (ofString "/xaphp") = false := by decide

end LtVerif.C14
