/-
  C14 — conditional configuration applies exactly as the config language defines.
  Property theorems only (helper lemmas live in LtVerif/Proofs/Cond.lean and
  LtVerif/Proofs/SockAddr.lean).

  Vocabulary (Model/Cond.lean, Proofs/Cond.lean):
    `Tree`/`Node`      the data_config tree, index = context_ndx; `WF` = what configparser.y builds
    `check`            config_check_cond() with its cache (config_check_cond_cached/_nocache)
    `resetItem`        config_cond_cache_reset_item() (+ config_cond_clear_node())
    `step`/`run`       operations on the requests of one connection: check, rewrite an
                       attribute + reset_item, full reset, validity change, next request,
                       h2 stream spawn (cache copy), a module's patch_config()
    `Applies t e i`    the property's recursion: block i's own condition holds for attributes
                       e, its enclosing block applies, every earlier branch of its chain failed
    `spec t e i`       the same as a four-valued function (skip / false / true)
    `Coh t e c`        cache c is coherent with attributes e: every set entry equals `spec`,
                       every remembered local result equals the local comparison, a set
                       entry's parent entry is set
-/
import LtVerif.Proofs.Cond
import LtVerif.Proofs.SockAddr
namespace LtVerif.C14
open LtVerif B LtVerif.Cond LtVerif.SockAddr

/-! ## 1. cached evaluation = the language semantics, for every interleaving -/

/-- For every well-formed condition tree, every connection state whose caches are coherent
    (in particular fresh requests), and EVERY sequence of operations
    {check any block on any request, rewrite an attribute then reset_item, full reset,
     change of validity bits, next request, spawn an HTTP/2 stream from the connection's
     request, run a module's patch_config}:
    every `config_check_cond` result is the language-defined one for the attributes that
    request has at that moment:
      * `true` is only ever returned for a block that applies;
      * any decided result (not "unset") is the specified one;
      * once all fields are available the result is `true` iff the block applies
        (so it does not depend on evaluation order, on cached results, on earlier requests
         of the connection / other streams, or on rewrites in between);
    and the caches stay coherent. -/
theorem c14_cache_coherent (t : Tree) (hwf : WF t) (st0 : List Req) (h0 : AllCoh t st0)
    (ops : List Op) :
    ∀ so ∈ run true t st0 ops,
      AllCoh t so.1 ∧
      (∀ s i r, so.2 = .result s i r → ∀ rq, so.1[s]? = some rq →
        (r = .true_ → Applies t rq.env i) ∧
        (r ≠ .unset → r = spec t rq.env i) ∧
        ((∀ k, rq.valid k = true) → (r = .true_ ↔ Applies t rq.env i))) := by
  intro so hso
  obtain ⟨h1, h2⟩ := run_ok hwf ops st0 h0 so hso
  refine ⟨h1, ?_⟩
  intro s i r hr rq hrq
  rw [hr] at h2
  obtain ⟨hi, h3⟩ := h2
  obtain ⟨p1, p2⟩ := h3 rq hrq
  have hiff := spec_true_iff_applies hwf rq.env i hi
  refine ⟨fun hrt => hiff.mp ((p1 (by rw [hrt]; decide)) ▸ hrt), p1, fun hv => ?_⟩
  rw [p2 hv]; exact hiff

/-- The four-valued specification is the recursion of the property statement:
    `true` exactly for the blocks that apply. -/
theorem c14_spec_is_language (t : Tree) (hwf : WF t) (e : Env) (i : Nat) (hi : i < t.length) :
    spec t e i = .true_ ↔ Applies t e i :=
  spec_true_iff_applies hwf e i hi

/-- Re-evaluation after a rewrite: changing the attribute of one field and calling
    config_cond_cache_reset_item() for that field leaves a cache that is coherent with
    the NEW attributes (every entry that could depend on the field was cleared; nothing
    stale survives), for every tree and every prior cache state. -/
theorem c14_reset_item_coherent (t : Tree) (hwf : WF t) (e : Env) (c : Cache) (hc : Coh t e c)
    (a : Comp) (v : AttrVal) :
    Coh t (e.set a v) (resetItem true t a c) :=
  resetItem_coh hwf a hc (fun _ _ hj => evalLocal_set_other _ _ _ _ hj)

/-- The result of a check is independent of evaluation order: whatever blocks were
    evaluated before, in whatever order, on whatever coherent cache. -/
theorem c14_order_independent (t : Tree) (hwf : WF t) (e : Env) (valid : Comp → Bool)
    (hv : ∀ k, valid k = true) (c1 c2 : Cache) (h1 : Coh t e c1) (h2 : Coh t e c2)
    (ks1 ks2 : List Nat) (hk1 : ∀ k ∈ ks1, k < t.length) (hk2 : ∀ k ∈ ks2, k < t.length)
    (i : Nat) (hi : i < t.length) :
    (check t e valid t.length i (checkAll t e valid ks1 c1)).1 =
    (check t e valid t.length i (checkAll t e valid ks2 c2)).1 := by
  obtain ⟨_, a2, _, a4⟩ := check_post hwf e valid t.length i _ hi hi (checkAll_coh hwf e valid ks1 hk1 c1 h1)
  obtain ⟨_, b2, _, b4⟩ := check_post hwf e valid t.length i _ hi hi (checkAll_coh hwf e valid ks2 hk2 c2 h2)
  rw [(a2 (a4 hv)).1, (b2 (b4 hv)).1]

/-! ## 2. merge in file order: the last contributing block wins, per directive -/

/-- A module's patch_config() (defaults from the global scope, then every block of its
    cvlist in file order whose check is true): for each directive `d`
      * if block `i` contributes (it is the global scope or it applies) and assigns `d := v`,
        and no later block that applies assigns `d`, the result is `v`;
      * if no contributing block assigns `d`, the result is the built-in default (0);
    for every tree, request, and prior (coherent) cache state. -/
theorem c14_merge_last_wins (t : Tree) (hwf : WF t) (e : Env) (valid : Comp → Bool)
    (hv : ∀ k, valid k = true) (dirs : List Nat) (c : Cache) (hc : Coh t e c) (d : Nat)
    (hn : 0 < t.length) :
    (∀ i v, i < t.length → (i = 0 ∨ Applies t e i) →
      lastSet (ownSets dirs (t.node i)) d = some v →
      (∀ j, i < j → j < t.length → Applies t e j → lastSet (ownSets dirs (t.node j)) d = none) →
      (patch t e valid dirs c).1 d = v) ∧
    ((∀ i, i < t.length → (i = 0 ∨ Applies t e i) → lastSet (ownSets dirs (t.node i)) d = none) →
      (patch t e valid dirs c).1 d = 0) := by
  have hp := (patch_post hwf e valid dirs c hc).2 hv
  have hnoContrib : ∀ j, j < t.length → 1 ≤ j →
      (Applies t e j → lastSet (ownSets dirs (t.node j)) d = none) →
      ∀ v', ¬ Contrib t e dirs d j v' := by
    intro j hj _ h v' hcv
    have := h ((spec_true_iff_applies hwf e j hj).mp hcv.1)
    rw [hcv.2] at this; cases this
  have hmem : ∀ j ∈ (List.range t.length).drop 1, 1 ≤ j ∧ j < t.length := by
    intro j hj
    have h1 : j < t.length := by simpa using List.mem_of_mem_drop hj
    refine ⟨?_, h1⟩
    rcases Nat.eq_zero_or_pos j with h | h
    · subst h
      exfalso
      have hpw : (List.range t.length).Pairwise (· < ·) := List.pairwise_lt_range
      have hsplit := List.take_append_drop 1 (List.range t.length)
      rw [← hsplit, List.pairwise_append] at hpw
      have h0 : 0 ∈ (List.range t.length).take 1 := by
        rw [List.mem_iff_getElem]
        exact ⟨0, by simp; omega, by simp⟩
      exact absurd (hpw.2.2 0 h0 0 hj) (by omega)
    · exact h
  constructor
  · intro i v hi hap hset hlater
    rw [hp]
    rcases Nat.eq_zero_or_pos i with h0 | hpos
    · subst h0
      rw [specMerge_none t e dirs d _ _ (fun j hj v' =>
        hnoContrib j (hmem j hj).2 (hmem j hj).1
          (fun ha => hlater j (by have := (hmem j hj).1; omega) (hmem j hj).2 ha) v')]
      rw [mergeSets_eq, hset]; rfl
    · have ha : Applies t e i := by
        rcases hap with h | h
        · omega
        · exact h
      obtain ⟨L1, L2, hL, hL2⟩ := range_split hpos hi
      rw [hL]
      exact specMerge_last t e dirs d L1 L2 i v _
        ⟨(spec_true_iff_applies hwf e i hi).mpr ha, hset⟩
        (fun j hj v' => hnoContrib j (hL2 j hj).2 (by have := (hL2 j hj).1; omega)
          (fun ha' => hlater j (hL2 j hj).1 (hL2 j hj).2 ha') v')
  · intro hnone
    rw [hp, specMerge_none t e dirs d _ _ (fun j hj v' =>
      hnoContrib j (hmem j hj).2 (hmem j hj).1 (fun ha => hnone j (hmem j hj).2 (Or.inr ha)) v')]
    rw [mergeSets_eq, hnone 0 hn (Or.inl rfl)]; rfl

/-! ## 3. CIDR matching (sock_addr_is_addr_eq_bits) -/

/-- IPv4 network / IPv4 peer: equal iff the first `n` bits agree. -/
theorem c14_cidr_v4 (a b : List UInt8) (n : Nat) (ha : a.length = 4) (hb : b.length = 4)
    (h1 : 1 ≤ n) (h2 : n ≤ 32) :
    addrEqBits (.v4 a) (.v4 b) n = true ↔ beVal a >>> (32 - n) = beVal b >>> (32 - n) :=
  addrEqBits_v4_iff ha hb h1 h2

/-- IPv6 network / IPv6 peer: equal iff the first `n` bits agree. -/
theorem c14_cidr_v6 (a b : List UInt8) (n : Nat) (ha : a.length = 16) (hb : b.length = 16)
    (h1 : 1 ≤ n) (h2 : n ≤ 128) :
    addrEqBits (.v6 a) (.v6 b) n = true ↔ beVal a >>> (128 - n) = beVal b >>> (128 - n) :=
  addrEqBits_v6_iff ha hb h1 h2

/-- IPv4 network / IPv6 peer: matches iff the peer is IPv4-mapped and its embedded IPv4
    address matches. -/
theorem c14_cidr_v4_net_mapped_peer (a b : List UInt8) (n : Nat) :
    addrEqBits (.v4 a) (.v6 b) n = (isV4Mapped b && addrEqBits (.v4 a) (.v4 (low4 b)) n) := rfl

/-- IPv6 network / IPv4 peer: the peer is compared as its IPv4-mapped form ::ffff:a.b.c.d
    (and never matches a network whose base address is not IPv4-mapped). -/
theorem c14_cidr_mapped_net_v4_peer (a b : List UInt8) (n : Nat) (ha : a.length = 16)
    (hb : b.length = 4) (h1 : 1 ≤ n) (h2 : n ≤ 128) :
    addrEqBits (.v6 a) (.v4 b) n = (isV4Mapped a && addrEqBits (.v6 a) (.v6 (v4mapped b)) n) := by
  cases hm : isV4Mapped a with
  | true => rw [addrEqBits_v6_v4 ha hb h1 h2 hm]; simp
  | false => rw [addrEqBits_v6_v4_unmapped hm]; simp

/-- what a `$HTTP["remoteip"] == "net/bits"` block tests -/
theorem c14_cidr_cond (nd : Node) (e : Env) (a : SockAddr) (bits : Nat)
    (hc : nd.comp = .remoteIp) (ho : nd.cond = .eq) (hs : nd.str.head? ≠ some slash)
    (hn : nd.cidr = some (a, bits)) :
    evalLocal nd e = if bits ≠ 0 then a.addrEqBits e.addr bits else a.addrEq e.addr := by
  simp [evalLocal, eqLike, hc, ho, hs, hn]

/-! ## 4. host[:port] -/

/-- `$HTTP["host"] == "d"` holds iff the request's authority equals `d`, or is `d` plus a
    ":port" suffix of at most 5 characters, or `d` is the authority plus a ":port" suffix —
    and in no other case; `!=` is the exact negation. -/
theorem c14_host_port_rule (nd : Node) (e : Env) (hc : nd.comp = .host)
    (hs : nd.str.head? ≠ some slash) :
    (nd.cond = .eq → (evalLocal nd e = true ↔
      e.host = nd.str ∨
      (e.host ≠ [] ∧ ((∃ p, e.host = nd.str ++ colon :: p ∧ p.length ≤ 5) ∨
                      (∃ p, nd.str = e.host ++ colon :: p))))) ∧
    (nd.cond = .ne → evalLocal nd e = !(eqLike nd e)) := by
  constructor
  · intro ho
    rw [← host_eq_iff nd e hc hs]
    simp [evalLocal, ho, hc]
  · intro ho
    simp [evalLocal, ho, hc]

/-! ## 5. the selective reset must walk the whole else-chain
   (scenario `Ex.tree`, `Ex.ops` in Proofs/Cond.lean:
    `$HTTP["host"] == "h2" { $HTTP["url"] =^ "/a" {…} else $HTTP["url"] =^ "/b" {…} }`,
    request host h1 url /b/x; the else-branch is evaluated; host rewritten to h2 + reset_item;
    the else-branch is evaluated again) -/


/-- With the walk of config_cond_clear_node() as it was before fix f0e74a5 (stop at a node
    that is already unset, without following `next`), the cache is NOT coherent: in the
    scenario `Ex.ops` the else-branch keeps a stale "skip" although the block applies.
    (So `c14_cache_coherent` does not hold for `run false`; the theorem is about the
    walk that always follows the else-chain.) -/
theorem c14_old_clear_walk_stale :
    Ex.lastResult (run false Ex.tree [Req.fresh Ex.tree.length] Ex.ops) = some .skip ∧
    Ex.lastResult (run true Ex.tree [Req.fresh Ex.tree.length] Ex.ops) = some .true_ := by
  decide

/-! ## non-vacuity -/

example : WF Ex.tree := by decide
example : AllCoh Ex.tree [Req.fresh Ex.tree.length] := by
  intro rq hrq
  simp only [List.mem_singleton] at hrq
  subst hrq
  exact coh_empty _ _
/-- the interesting run really produces observations, and block 3 applies at its end -/
example : (run true Ex.tree [Req.fresh Ex.tree.length] Ex.ops).length = 4 := by decide
example : evalLocal (Ex.tree.node 3) { host := ofString "h2", url := ofString "/b/x" } = true := by decide
example : evalLocal (Ex.tree.node 2) { host := ofString "h2", url := ofString "/b/x" } = false := by decide
example : evalLocal (Ex.tree.node 1) { host := ofString "h2:8080", url := ofString "/b/x" } = true := by decide
-- merge: a block that assigns directive 0
example : lastSet (ownSets [0, 1, 2] { sets := [(0, 7), (3, 9), (0, 8)] }) 0 = some 8 := by decide
-- CIDR: 10.1.2.3 is inside 10.0.0.0/8, 11.0.0.1 is not; ::ffff:10.1.2.3 is, as a mapped peer
example : addrEqBits (.v4 [10, 0, 0, 0]) (.v4 [10, 1, 2, 3]) 8 = true := by decide
example : addrEqBits (.v4 [10, 0, 0, 0]) (.v4 [11, 0, 0, 1]) 8 = false := by decide
example : addrEqBits (.v4 [10, 0, 0, 0]) (.v6 [0,0,0,0,0,0,0,0,0,0,0xff,0xff,10,1,2,3]) 8 = true := by decide
example : addrEqBits (.v6 [0,0,0,0,0,0,0,0,0,0,0xff,0xff,10,1,2,0]) (.v4 [10,1,2,77]) 120 = true := by decide
example : isV4Mapped (v4mapped [10, 1, 2, 3]) = true := by decide

end LtVerif.C14
