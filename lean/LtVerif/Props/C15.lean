/-
  C15 — Range and conditional GET follow RFC 9110 for every header and length;
  emitted dates parse back to the same instant in all three HTTP-date formats.
  Property theorems only (helper lemmas live in LtVerif/Proofs/{Range,RangeWalk,Date,Cond304}.lean).

  Vocabulary (defined next to the lemmas):
    Range.slice rep a b          bytes a..b of the representation
    Range.multipartBody          multipart/byteranges body in the shape of RFC 2046 5.1.1
    Range.Spec / Elem / rangeSetText   the byte-range grammar of RFC 9110 14.1.1 (numbers as
                                 arbitrary digit strings: leading zeros, any magnitude)
    Range.Spec.sem               RFC 9110 14.1.2 meaning of a range-spec for a length
    Range.Applicable             all preconditions of http_range_rfc7233()
    Cond.ETag / etagListText     the entity-tag list grammar of RFC 9110 8.8.3 / 13.1.2
-/
import LtVerif.Proofs.Range
import LtVerif.Proofs.RangeWalk
import LtVerif.Proofs.Date
import LtVerif.Proofs.Cond304
namespace LtVerif.C15
open LtVerif B Date Range Cond

/-! ## 206: every part carries exactly the declared bytes -/

/-- A 206 answer of http_range_process() consists of the ranges `parts` computed by
    http_range_parse(); every part lies inside the representation; a single part
    is announced by `Content-Range: bytes a-b/len` and the body is exactly bytes
    a..b; several parts form a multipart/byteranges body in which each part
    announces its own `a-b/len` and carries exactly bytes a..b, with consistent
    delimiters; `Content-Length` is the decimal length of the body — for every
    header, every representation and every chunk layout of the write queue. -/
theorem c15_parts_exact (rs : Resp) (hdr : Bytes) (h200 : rs.status = 200)
    (h206 : (process rs hdr).status = 206) :
    let rep := rs.body.flatten
    let out := process rs hdr
    let parts := (parse (hdr.drop 6) rep.length).map toNatRng
    parts ≠ [] ∧
    (∀ p ∈ parts, p.1 ≤ p.2 ∧ p.2 < rep.length) ∧
    out.contentLength = some (natDec out.body.flatten.length) ∧
    ((∃ a b, parts = [(a, b)] ∧ out.contentRange = some (contentRange a b rep.length) ∧
        out.contentType = rs.contentType ∧ out.body.flatten = slice rep a b) ∨
     (2 ≤ parts.length ∧ out.contentRange = rs.contentRange ∧
        out.contentType = some multipartType ∧
        out.body.flatten = multipartBody rep rs.contentType parts)) := by
  intro rep out parts
  have hlenpos : (0 : Int) < (cqLen rs.body : Int) ∨ cqLen rs.body = 0 := by omega
  have hinb : ∀ r ∈ parse (hdr.drop 6) (cqLen rs.body), 0 < cqLen rs.body →
      (toNatRng r).1 ≤ (toNatRng r).2 ∧ (toNatRng r).2 < rs.body.flatten.length := by
    intro r hr hpos
    have := parse_inB (hdr.drop 6) (cqLen rs.body) (by omega) r hr
    simp only [InB, cqLen] at this
    simp only [toNatRng]
    omega
  rcases process_cases rs hdr with ⟨_, he⟩ | ⟨hne, hub, hc⟩
  · rw [he, h200] at h206; omega
  · have hpos : 0 < cqLen rs.body := by omega
    rcases hc with ⟨_, he⟩ | ⟨r, hp, he⟩ | ⟨h2, he⟩
    · rw [he] at h206; simp [resp416] at h206
    · have hparts : parts = [toNatRng r] := by
        show (parse (hdr.drop 6) rs.body.flatten.length).map toNatRng = _
        have : (rs.body.flatten.length : Int) = (cqLen rs.body : Int) := rfl
        rw [this, hp]; rfl
      have hb := hinb r (by rw [hp]; simp) hpos
      refine ⟨by rw [hparts]; simp, ?_, ?_, ?_⟩
      · intro p hp'; rw [hparts] at hp'; simp only [List.mem_singleton] at hp'; rw [hp']; exact hb
      · show (process rs hdr).contentLength = some (natDec (process rs hdr).body.flatten.length)
        rw [he]; rfl
      · left
        refine ⟨(toNatRng r).1, (toNatRng r).2, hparts, ?_, ?_, ?_⟩
        · show (process rs hdr).contentRange = _
          rw [he]; rfl
        · show (process rs hdr).contentType = _
          rw [he]; rfl
        · show (process rs hdr).body.flatten = _
          rw [he]; exact single_flatten _ _ _
    · have hparts : parts = (parse (hdr.drop 6) (cqLen rs.body)).map toNatRng := rfl
      have hb : ∀ p ∈ parts, p.1 ≤ p.2 ∧ p.2 < rs.body.flatten.length := by
        intro p hp'
        rw [hparts] at hp'
        simp only [List.mem_map] at hp'
        obtain ⟨r, hr, rfl⟩ := hp'
        exact hinb r hr hpos
      refine ⟨?_, hb, ?_, ?_⟩
      · intro e
        have : parts.length = (parse (hdr.drop 6) (cqLen rs.body)).length := by
          rw [hparts]; simp
        rw [e] at this; simp at this; omega
      · show (process rs hdr).contentLength = some (natDec (process rs hdr).body.flatten.length)
        rw [he]; rfl
      · right
        refine ⟨by rw [hparts]; simpa using h2, ?_, ?_, ?_⟩
        · show (process rs hdr).contentRange = _
          rw [he]; rfl
        · show (process rs hdr).contentType = _
          rw [he]; rfl
        · show (process rs hdr).body.flatten = _
          rw [he]
          exact multi_flatten rs.body rs.contentType _ hb

/-- what `slice` means, byte by byte -/
theorem c15_slice_bytes (rep : Bytes) (a b : Nat) (h1 : a ≤ b) (h2 : b < rep.length) :
    (slice rep a b).length = b - a + 1 ∧ ∀ i, i ≤ b - a → (slice rep a b)[i]? = rep[a + i]? :=
  ⟨slice_length h1 h2, fun i hi => slice_getElem? i hi⟩

/-- the decimal numbers in Content-Range / Content-Length denote the numbers
    they were rendered from (digits only, reading them back gives `n`) -/
theorem c15_numbers_exact (n : Nat) :
    decVal (natDec n) = n ∧ natDec n ≠ [] ∧ ∀ d ∈ natDec n, isDigit d = true :=
  ⟨decVal_natDec n, natDec_digits n⟩

/-- the chunk-queue operations used to cut the body are byte-exact whatever the
    chunk layout: mark_written drops, steal takes, append_cq_range copies a slice -/
theorem c15_chunk_layout_independent (cq : Cq) (off n : Nat) :
    (cqDrop n cq).flatten = cq.flatten.drop n ∧ (cqTake n cq).flatten = cq.flatten.take n ∧
    cqRange cq off n = (cq.flatten.drop off).take n :=
  ⟨cqDrop_flatten n cq, cqTake_flatten n cq, cqRange_flatten cq off n⟩

/-! ## the parser implements the RFC meaning of every range-spec -/

/-- For every grammatical range-spec (first-last, first-, -suffix) with optional
    whitespace around it, leading zeros and digit strings of ANY length:
    http_range_parse_next() yields exactly the byte range RFC 9110 14.1.2 assigns
    to it for this representation length — or nothing when the RFC calls it
    unsatisfiable (or first-pos > last-pos).  Numbers beyond the off_t range are
    clamped by strtoll and the proof shows the clamp is harmless. -/
theorem c15_spec_is_rfc (len : Int) (hlen : 0 < len) (hmax : len ≤ LLONG_MAX) (e : Elem)
    (hwf : e.WF) : parseSpec e.text len = e.spec.sem len :=
  parseSpec_elem len hlen hmax e hwf

/-! ## every satisfiable requested range is contained in some part -/

/-- For a grammatical range-set of at most 10 (RMAX_UNSORTED) specs, in any order,
    with optional whitespace, leading zeros and first positions of any magnitude:
    every spec that RFC 9110 calls satisfiable for this length is contained in one
    of the ranges the response carries.  No bound on the numbers: see
    `c15_overflow_numbers_clamped`. -/
theorem c15_satisfiable_covered (len : Nat) (hlen : 0 < len) (hmax : (len : Int) ≤ LLONG_MAX)
    (es : List Elem) (hne : es ≠ []) (hwf : ∀ e ∈ es, e.WF)
    (hcount : es.length ≤ 10) :
    ∀ e ∈ es, ∀ r, e.spec.sem len = some r →
      ∃ p ∈ parse (rangeSetText es) len, p.1 ≤ r.1 ∧ r.2 ≤ p.2 := by
  intro e he r hr
  have hsplit := splitOn_rangeSet es hne hwf
  have hcov := parse_cov_small (s := rangeSetText es) (len := (len : Int))
    (by rw [hsplit]; simpa using hcount) e.text (by rw [hsplit]; exact List.mem_map_of_mem he) r
    (by rw [parseSpec_elem len (by omega) hmax e (hwf e he)]; exact hr)
  exact hcov

/-- The same for up to 128 (RMAX) specs whose satisfiable ranges are listed with
    ascending first positions. -/
theorem c15_satisfiable_covered_ascending (len : Nat) (hlen : 0 < len)
    (hmax : (len : Int) ≤ LLONG_MAX)
    (es : List Elem) (hne : es ≠ []) (hwf : ∀ e ∈ es, e.WF)
    (hcount : es.length ≤ 128)
    (hasc : (es.filterMap (fun e => e.spec.sem len)).Pairwise (fun a b => a.1 ≤ b.1)) :
    ∀ e ∈ es, ∀ r, e.spec.sem len = some r →
      ∃ p ∈ parse (rangeSetText es) len, p.1 ≤ r.1 ∧ r.2 ≤ p.2 := by
  intro e he r hr
  have hsplit := splitOn_rangeSet es hne hwf
  have hv : validRanges len (es.map Elem.text) = es.filterMap (fun e => e.spec.sem len) :=
    validRanges_elems len (by omega) hmax es hwf
  have hcov := parse_cov_sorted (s := rangeSetText es) (len := (len : Int))
    (by rw [hsplit]; simpa using hcount) (by rw [hsplit, hv]; exact hasc) r
    (by rw [hsplit, hv]; exact List.mem_filterMap.mpr ⟨e, he, hr⟩)
  exact hcov

/-- Beyond the two limits nothing already accepted is lost: for a range-set
    `pre ++ post` of ANY length, if the first part `pre` has at most 128 specs whose
    satisfiable ranges ascend, every satisfiable spec of `pre` is contained in an
    output range, whatever follows in `post` (more specs, out of order, junk; those
    may be ignored — "additional ranges are ignored" in http_range.c). -/
theorem c15_satisfiable_covered_prefix (len : Nat) (hlen : 0 < len)
    (hmax : (len : Int) ≤ LLONG_MAX)
    (pre post : List Elem) (hne : pre ≠ []) (hwf : ∀ e ∈ pre ++ post, e.WF)
    (hcount : pre.length ≤ 128)
    (hasc : (pre.filterMap (fun e => e.spec.sem len)).Pairwise (fun a b => a.1 ≤ b.1)) :
    ∀ e ∈ pre, ∀ r, e.spec.sem len = some r →
      ∃ p ∈ parse (rangeSetText (pre ++ post)) len, p.1 ≤ r.1 ∧ r.2 ≤ p.2 := by
  intro e he r hr
  have hsplit := splitOn_rangeSet (pre ++ post) (by simp [hne]) hwf
  rw [List.map_append] at hsplit
  have hwfp : ∀ e ∈ pre, e.WF := fun x hx => hwf x (by simp [hx])
  have hv : validRanges len (pre.map Elem.text) = pre.filterMap (fun e => e.spec.sem len) :=
    validRanges_elems len (by omega) hmax pre hwfp
  exact parse_cov_prefix (s := rangeSetText (pre ++ post)) (len := (len : Int))
    (pre.map Elem.text) (post.map Elem.text) hsplit (by simpa using hcount)
    (by rw [hv]; exact hasc) r (by rw [hv]; exact List.mem_filterMap.mpr ⟨e, he, hr⟩)

/-! ## 416 only when nothing is satisfiable -/

/-- Whatever the request and the header (grammatical or junk): a response turns
    into 416 only if every precondition for Range holds, the unit is bytes, the
    representation is non-empty and *no* piece of the header yields a range. -/
theorem c15_416_only_if (rq : Req) (rs : Resp) (h : (rfc7233 rq rs).status = 416)
    (h0 : rs.status ≠ 416) :
    ∃ hdr, Applicable rq rs hdr ∧ UnitBytes hdr ∧ rs.body.flatten ≠ [] ∧
      (∀ p ∈ splitOn 44 (hdr.drop 6), parseSpec p rs.body.flatten.length = none) ∧
      (rfc7233 rq rs).contentRange = some (contentRangeUnsat rs.body.flatten.length) ∧
      (rfc7233 rq rs).body = rs.body := by
  rcases rfc7233_cases rq rs with hs | ⟨hdr, happ, he⟩
  · rw [hs.1] at h; exact absurd h h0
  · have hb : (withAcceptRanges rs).body = rs.body := (same_withAcceptRanges rs).2.1
    have hst : (withAcceptRanges rs).status = rs.status := (same_withAcceptRanges rs).1
    refine ⟨hdr, happ, ?_⟩
    rw [he] at h ⊢
    rcases process_cases (withAcceptRanges rs) hdr with ⟨_, hp⟩ | ⟨hne, hub, hc⟩
    · rw [hp, hst] at h; exact absurd h h0
    · rw [hb] at hne hc
      rcases hc with ⟨hnil, hp⟩ | ⟨r, _, hp⟩ | ⟨_, hp⟩
      · refine ⟨hub, ?_, ?_, ?_, ?_⟩
        · intro e; apply hne; simp [cqLen, e]
        · exact (parse_eq_nil_iff _ _).mp hnil
        · rw [hp]; simp [resp416, hb, cqLen]
        · rw [hp]; simp [resp416, hb]
      · rw [hp] at h; simp [respSingle] at h
      · rw [hp] at h; simp [respMulti] at h

/-- For a grammatical range-set (any number of specs) under all preconditions:
    the answer is 416 exactly when no spec is satisfiable, and 206 otherwise. -/
theorem c15_416_iff (rq : Req) (rs : Resp) (unit : Bytes) (es : List Elem)
    (happ : Applicable rq rs (unit ++ rangeSetText es))
    (hunit : unit.length = 6 ∧ eqIcase unit bytesEq = true)
    (hne : es ≠ []) (hwf : ∀ e ∈ es, e.WF)
    (hlen : rs.body.flatten ≠ []) (hmax : (rs.body.flatten.length : Int) ≤ LLONG_MAX) :
    ((rfc7233 rq rs).status = 416 ↔ ∀ e ∈ es, e.spec.sem rs.body.flatten.length = none) ∧
    ((rfc7233 rq rs).status = 206 ↔ ∃ e ∈ es, (e.spec.sem rs.body.flatten.length).isSome) := by
  have hb : (withAcceptRanges rs).body = rs.body := (same_withAcceptRanges rs).2.1
  have hst : (withAcceptRanges rs).status = 200 := by
    rw [(same_withAcceptRanges rs).1]; exact happ.2.1
  have hpos : 0 < rs.body.flatten.length := by
    cases hh : rs.body.flatten with
    | nil => exact absurd hh hlen
    | cons x xs => simp
  have hdrop : (unit ++ rangeSetText es).drop 6 = rangeSetText es := by
    rw [← hunit.1]; simp
  have htake : (unit ++ rangeSetText es).take 6 = unit := by
    rw [← hunit.1]; simp
  have hub : UnitBytes (unit ++ rangeSetText es) := by
    refine ⟨by simp [hunit.1], ?_⟩
    rw [htake]; exact hunit.2
  have hsplit := splitOn_rangeSet es hne hwf
  have hnil : parse (rangeSetText es) rs.body.flatten.length = [] ↔
      ∀ e ∈ es, e.spec.sem rs.body.flatten.length = none := by
    rw [parse_eq_nil_iff, hsplit]
    constructor
    · intro hall e he
      have := hall e.text (List.mem_map_of_mem he)
      rwa [parseSpec_elem _ (by omega) hmax e (hwf e he)] at this
    · intro hall p hp
      simp only [List.mem_map] at hp
      obtain ⟨e, he, rfl⟩ := hp
      rw [parseSpec_elem _ (by omega) hmax e (hwf e he)]
      exact hall e he
  have hnone_some : (¬ ∀ e ∈ es, e.spec.sem rs.body.flatten.length = none) ↔
      ∃ e ∈ es, (e.spec.sem rs.body.flatten.length).isSome := by
    constructor
    · intro hn
      apply Classical.byContradiction
      intro hne'
      apply hn
      intro e he
      cases hs : e.spec.sem rs.body.flatten.length with
      | none => rfl
      | some r => exact absurd ⟨e, he, by rw [hs]; rfl⟩ hne'
    · intro ⟨e, he, hs⟩ hall
      rw [hall e he] at hs; simp at hs
  rw [rfc7233_applicable happ]
  rcases process_cases (withAcceptRanges rs) (unit ++ rangeSetText es) with ⟨hor, _⟩ | ⟨_, _, hc⟩
  · exfalso
    rcases hor with h0 | h0
    · rw [hb] at h0; simp only [cqLen] at h0; omega
    · exact h0 hub
  · rw [hb, hdrop] at hc
    have hcq : (cqLen rs.body : Int) = (rs.body.flatten.length : Int) := rfl
    rw [hcq] at hc
    rcases hc with ⟨hp, he⟩ | ⟨r, hp, he⟩ | ⟨h2, he⟩
    · rw [he]
      refine ⟨⟨fun _ => hnil.mp hp, fun _ => by simp [resp416]⟩, ?_⟩
      constructor
      · intro h; simp [resp416] at h
      · intro h; exact absurd (hnil.mp hp) (hnone_some.mpr h)
    · rw [he]
      have hnn : ¬ parse (rangeSetText es) rs.body.flatten.length = [] := by rw [hp]; simp
      refine ⟨⟨fun h => by simp [respSingle] at h, fun h => absurd (hnil.mpr h) hnn⟩, ?_⟩
      constructor
      · intro _; exact hnone_some.mp (fun h => hnn (hnil.mpr h))
      · intro _; simp [respSingle]
    · rw [he]
      have hnn : ¬ parse (rangeSetText es) rs.body.flatten.length = [] := by
        intro e; rw [e] at h2; simp at h2
      refine ⟨⟨fun h => by simp [respMulti] at h, fun h => absurd (hnil.mpr h) hnn⟩, ?_⟩
      constructor
      · intro _; exact hnone_some.mp (fun h => hnn (hnil.mpr h))
      · intro _; simp [respMulti]

/-- The whole statement at the outermost function, for a grammatical Range header
    of at most 10 specs on a request that satisfies every precondition: if some
    spec is satisfiable the answer is 206, its parts are in bounds, every
    satisfiable requested range lies inside a part, and the body consists of
    exactly the representation's bytes of those parts (one part: the slice itself;
    several: the multipart/byteranges framing of `multipartBody`). -/
theorem c15_range_response (rq : Req) (rs : Resp) (unit : Bytes) (es : List Elem)
    (happ : Applicable rq rs (unit ++ rangeSetText es))
    (hunit : unit.length = 6 ∧ eqIcase unit bytesEq = true)
    (hne : es ≠ []) (hwf : ∀ e ∈ es, e.WF)
    (hcount : es.length ≤ 10)
    (hlen : rs.body.flatten ≠ []) (hmax : (rs.body.flatten.length : Int) ≤ LLONG_MAX)
    (hsat : ∃ e ∈ es, (e.spec.sem rs.body.flatten.length).isSome) :
    let out := rfc7233 rq rs
    let rep := rs.body.flatten
    let parts := (parse (rangeSetText es) rep.length).map toNatRng
    out.status = 206 ∧
    (∀ p ∈ parts, p.1 ≤ p.2 ∧ p.2 < rep.length) ∧
    (∀ e ∈ es, ∀ r, e.spec.sem rep.length = some r →
        ∃ p ∈ parts, (p.1 : Int) ≤ r.1 ∧ r.2 ≤ (p.2 : Int)) ∧
    out.contentLength = some (natDec out.body.flatten.length) ∧
    ((∃ a b, parts = [(a, b)] ∧ out.contentRange = some (contentRange a b rep.length) ∧
        out.body.flatten = slice rep a b) ∨
     (2 ≤ parts.length ∧ out.contentType = some multipartType ∧
        out.body.flatten = multipartBody rep rs.contentType parts)) := by
  intro out rep parts
  have h206 : (rfc7233 rq rs).status = 206 :=
    (c15_416_iff rq rs unit es happ hunit hne hwf hlen hmax).2.mpr hsat
  have hb : (withAcceptRanges rs).body = rs.body := (same_withAcceptRanges rs).2.1
  have hct : (withAcceptRanges rs).contentType = rs.contentType := (same_withAcceptRanges rs).2.2.2.2.1
  have hst : (withAcceptRanges rs).status = 200 := by
    rw [(same_withAcceptRanges rs).1]; exact happ.2.1
  have hdrop : (unit ++ rangeSetText es).drop 6 = rangeSetText es := by
    rw [← hunit.1]; simp
  have hpos : 0 < rs.body.flatten.length := by
    cases hh : rs.body.flatten with
    | nil => exact absurd hh hlen
    | cons x xs => simp
  have he := rfc7233_applicable happ
  have hpe := c15_parts_exact (withAcceptRanges rs) (unit ++ rangeSetText es) hst (by rw [← he]; exact h206)
  simp only [hb, hct, hdrop, ← he] at hpe
  obtain ⟨_, hbounds, hcl, hshape⟩ := hpe
  refine ⟨h206, hbounds, ?_, hcl, ?_⟩
  · intro e he' r hr
    obtain ⟨p, hp, h1, h2⟩ := c15_satisfiable_covered rs.body.flatten.length hpos hmax es hne hwf
      hcount e he' r hr
    have hin := parse_inB (rangeSetText es) rs.body.flatten.length (by omega) p hp
    refine ⟨toNatRng p, List.mem_map_of_mem hp, ?_, ?_⟩
    · simp only [toNatRng, InB] at hin ⊢; omega
    · simp only [toNatRng, InB] at hin ⊢; omega
  · rcases hshape with ⟨a, b, h1, h2, _, h4⟩ | ⟨h1, _, h3, h4⟩
    · left; exact ⟨a, b, h1, h2, h4⟩
    · right; exact ⟨h1, h3, h4⟩

/-- The same headline for up to 128 specs whose satisfiable ranges ascend, on a request that satisfies every precondition: if some
    spec is satisfiable the answer is 206, its parts are in bounds, every
    satisfiable requested range lies inside a part, and the body consists of
    exactly the representation's bytes of those parts (one part: the slice itself;
    several: the multipart/byteranges framing of `multipartBody`). -/
theorem c15_range_response_ascending (rq : Req) (rs : Resp) (unit : Bytes) (es : List Elem)
    (happ : Applicable rq rs (unit ++ rangeSetText es))
    (hunit : unit.length = 6 ∧ eqIcase unit bytesEq = true)
    (hne : es ≠ []) (hwf : ∀ e ∈ es, e.WF)
    (hcount : es.length ≤ 128)
    (hasc : (es.filterMap (fun e => e.spec.sem rs.body.flatten.length)).Pairwise
      (fun a b => a.1 ≤ b.1))
    (hlen : rs.body.flatten ≠ []) (hmax : (rs.body.flatten.length : Int) ≤ LLONG_MAX)
    (hsat : ∃ e ∈ es, (e.spec.sem rs.body.flatten.length).isSome) :
    let out := rfc7233 rq rs
    let rep := rs.body.flatten
    let parts := (parse (rangeSetText es) rep.length).map toNatRng
    out.status = 206 ∧
    (∀ p ∈ parts, p.1 ≤ p.2 ∧ p.2 < rep.length) ∧
    (∀ e ∈ es, ∀ r, e.spec.sem rep.length = some r →
        ∃ p ∈ parts, (p.1 : Int) ≤ r.1 ∧ r.2 ≤ (p.2 : Int)) ∧
    out.contentLength = some (natDec out.body.flatten.length) ∧
    ((∃ a b, parts = [(a, b)] ∧ out.contentRange = some (contentRange a b rep.length) ∧
        out.body.flatten = slice rep a b) ∨
     (2 ≤ parts.length ∧ out.contentType = some multipartType ∧
        out.body.flatten = multipartBody rep rs.contentType parts)) := by
  intro out rep parts
  have h206 : (rfc7233 rq rs).status = 206 :=
    (c15_416_iff rq rs unit es happ hunit hne hwf hlen hmax).2.mpr hsat
  have hb : (withAcceptRanges rs).body = rs.body := (same_withAcceptRanges rs).2.1
  have hct : (withAcceptRanges rs).contentType = rs.contentType := (same_withAcceptRanges rs).2.2.2.2.1
  have hst : (withAcceptRanges rs).status = 200 := by
    rw [(same_withAcceptRanges rs).1]; exact happ.2.1
  have hdrop : (unit ++ rangeSetText es).drop 6 = rangeSetText es := by
    rw [← hunit.1]; simp
  have hpos : 0 < rs.body.flatten.length := by
    cases hh : rs.body.flatten with
    | nil => exact absurd hh hlen
    | cons x xs => simp
  have he := rfc7233_applicable happ
  have hpe := c15_parts_exact (withAcceptRanges rs) (unit ++ rangeSetText es) hst (by rw [← he]; exact h206)
  simp only [hb, hct, hdrop, ← he] at hpe
  obtain ⟨_, hbounds, hcl, hshape⟩ := hpe
  refine ⟨h206, hbounds, ?_, hcl, ?_⟩
  · intro e he' r hr
    obtain ⟨p, hp, h1, h2⟩ := c15_satisfiable_covered_ascending rs.body.flatten.length hpos hmax es hne
      hwf hcount hasc e he' r hr
    have hin := parse_inB (rangeSetText es) rs.body.flatten.length (by omega) p hp
    refine ⟨toNatRng p, List.mem_map_of_mem hp, ?_, ?_⟩
    · simp only [toNatRng, InB] at hin ⊢; omega
    · simp only [toNatRng, InB] at hin ⊢; omega
  · rcases hshape with ⟨a, b, h1, h2, _, h4⟩ | ⟨h1, _, h3, h4⟩
    · left; exact ⟨a, b, h1, h2, h4⟩
    · right; exact ⟨h1, h3, h4⟩

/-- Numbers beyond the off_t range are harmless (RFC 9110 14.1.1: "recipients MUST
    anticipate potentially large decimal numerals"): a last-pos of 2^63-1 or more
    means "to the end", an overflowing suffix-length means "everything", an
    overflowing first-pos is unsatisfiable.  (Before the fix of
    http_range_parse_next() the first two made the spec invalid, so
    `bytes=0-9223372036854775807` was answered 416.) -/
theorem c15_overflow_numbers_clamped :
    parseSpec (ofString "0-9223372036854775807") 10 = some (0, 9) ∧
    parseSpec (ofString "2-99999999999999999999999") 10 = some (2, 9) ∧
    parseSpec (ofString "-9223372036854775808") 10 = some (0, 9) ∧
    parseSpec (ofString "-99999999999999999999999") 10 = some (0, 9) ∧
    parseSpec (ofString "9223372036854775807-") 10 = none ∧
    (process exResp (ofString "bytes=0-9223372036854775807")).status = 206 := by
  decide

/-! ## Range is ignored (200, full body) when it must be -/

/-- Methods other than GET, HTTP/1.0 (unless explicitly enabled), no Range header,
    an unknown range unit, or an If-Range that does not match the current
    validator exactly: status, body and representation headers are untouched. -/
theorem c15_ignored (rq : Req) (rs : Resp)
    (h : rq.method ≠ 0 ∨ (rq.version < 1 ∧ rq.allow10 = false) ∨ rq.range = none ∨
         (∃ hdr, rq.range = some hdr ∧ ¬ UnitBytes hdr) ∨
         (∃ ir, rq.ifRange = some ir ∧
            (if ir.head? = some 34 then rs.etag else rs.lastModified) ≠ some ir)) :
    SameRepresentation (rfc7233 rq rs) rs := by
  rcases rfc7233_cases rq rs with hs | ⟨hdr, happ, he⟩
  · exact hs
  · obtain ⟨h1, h2, h3, h4, h5, h6, h7, h8⟩ := happ
    rcases h with h | h | h | h | h
    · exact absurd h3 h
    · rcases h4 with d | d
      · omega
      · rw [d] at h; simp at h
    · rw [h] at h7; simp at h7
    · obtain ⟨hdr', hr, hub⟩ := h
      rw [hr] at h7
      simp only [Option.some.injEq] at h7
      subst h7
      rw [he]
      rcases process_cases (withAcceptRanges rs) hdr' with ⟨_, hp⟩ | ⟨_, hub', _⟩
      · rw [hp]; exact same_withAcceptRanges rs
      · exact absurd hub' hub
    · obtain ⟨ir, hir, hneq⟩ := h
      rw [hir] at h8
      simp only [ifRangePass, decide_eq_true_eq] at h8
      exact absurd h8 hneq

/-! ## conditional GET / HEAD -/

/-- A GET or HEAD on a representation that has an entity tag and whose
    Last-Modified field is the date lighttpd renders from the modification time
    (what http_response_send_file() builds) is answered 304 exactly when
    If-None-Match matches the tag (weak comparison; strong when a Range header is
    present), or, in the absence of If-None-Match, If-Modified-Since parses as an
    HTTP-date that is not earlier than the modification time.  (`t ≠ -1`,
    `lmtime ≠ -1`: the code cannot tell the instant -1, one second before the
    epoch, from timegm() failure.) -/
theorem c15_304_iff (now : Int) (rq : CondReq) (et : Bytes) (lmtime : Int)
    (hm : rq.method ≤ 1) (h0 : -30610224000 ≤ lmtime) (h1 : lmtime ≤ 253402300799)
    (hne : lmtime ≠ -1) :
    handleCachable now rq (some et) (some (timeToStr lmtime)) lmtime = .notModified ↔
      (∃ inm, rq.ifNoneMatch = some inm ∧ etagMatches et inm (!rq.hasRange) = true) ∨
      (rq.ifNoneMatch = none ∧ ∃ ims t, rq.ifModifiedSince = some ims ∧
         dateToTime now ims = some t ∧ lmtime ≤ t ∧ t ≠ -1) :=
  handleCachable_304_iff_emitted now rq et lmtime hm h0 h1 hne

/-- The decision for an ARBITRARY Last-Modified field (`lmod` and `lmtime`
    unrelated, e.g. set by a backend): the code additionally answers 304 when
    If-Modified-Since equals that field byte for byte, whatever it contains. -/
theorem c15_304_iff_general (now : Int) (rq : CondReq) (et : Bytes) (lmod : Option Bytes) (lmtime : Int)
    (hm : rq.method ≤ 1) :
    handleCachable now rq (some et) lmod lmtime = .notModified ↔
      (∃ inm, rq.ifNoneMatch = some inm ∧ etagMatches et inm (!rq.hasRange) = true) ∨
      (rq.ifNoneMatch = none ∧ ∃ ims lm, rq.ifModifiedSince = some ims ∧ lmod = some lm ∧
         (ims = lm ∨ ∃ t, dateToTime now ims = some t ∧ lmtime ≤ t ∧ t ≠ -1)) :=
  handleCachable_304_iff now rq et lmod lmtime hm

/-- What "matches" means: on a well-formed entity-tag list (tags separated by
    commas with optional whitespace and empty elements, any mix of weak and
    strong tags) http_etag_matches() is true exactly when some listed tag
    compares equal to the current one under RFC 9110 8.8.3.2 — weak comparison
    (opaque parts equal) when `weakOk`, strong comparison (equal and neither
    weak) otherwise.  Listed tags must not contain ',' SP or HTAB inside the
    quotes (`NoDelim`; RFC 9110 allows ',' there, the code would stop at it —
    lighttpd's own tags are `"digits"`); the current tag may be anything quoted. -/
theorem c15_etag_list (et : ETag) (het : et.WF) (weakOk : Bool) (sep0 : Bytes)
    (items : List (ETag × Bytes)) (h0 : AllDelim sep0) (hok : ItemsOk items) :
    etagMatches et.text (etagListText sep0 items) weakOk =
      items.any (fun x => ETag.cmp weakOk et x.1) :=
  etagMatches_list et het weakOk sep0 items h0 hok

/-- `If-None-Match: *` matches any current entity tag. -/
theorem c15_etag_star (etag : Bytes) (weakOk : Bool) : etagMatches etag [42] weakOk = true :=
  etagMatches_star etag weakOk

/-! ## dates -/

/-- Every date lighttpd emits (IMF-fixdate of an instant in the years 1000..9999, i.e.
    every four-digit year, before and after the epoch; HTTP_DATE_SZ is the extracted
    buffer size) is 29 bytes
    long and parses back to the same instant. -/
theorem c15_date_roundtrip_imf (now t : Int) (h0 : -30610224000 ≤ t) (h1 : t ≤ 253402300799) :
    timeToStr t = renderIMF t ∧ (renderIMF t).length = 29 ∧
    dateToTime now (timeToStr t) = some t := by
  obtain ⟨hl, hr⟩ := imf_roundtrip now t h0 h1
  have : timeToStr t = renderIMF t := timeToStr_eq t h0 h1
  exact ⟨this, hl, by rw [this]; exact hr⟩

/-- The same instant written in asctime() format parses back to it. -/
theorem c15_date_roundtrip_asctime (now t : Int) (h0 : -30610224000 ≤ t) (h1 : t ≤ 253402300799) :
    dateToTime now (renderAsctime t) = some t :=
  (asctime_roundtrip now t h0 h1).2

/- Planned: RFC 850 round trip for every instant within 50 years of the clock.
   Proved: for instants whose year is at most 49 years back, at most 50 years
   ahead *and not past the end of the current century* (`InWindow850`).  Missing:
   years in the next century when the clock is in the second half of a century —
   there the code (it only tries the current century and the one before) reads
   e.g. "10" in 2090 as 2010 where RFC 9110 5.6.7 says 2110. -/
theorem c15_date_roundtrip_rfc850_partial (now t : Int) (h0 : -30610224000 ≤ t)
    (h1 : t ≤ 253402300799)
    (hwin : InWindow850 (yearOf now) (gmtime t).1.year) :
    dateToTime now (renderRFC850 t) = some t :=
  (rfc850_roundtrip now t h0 h1 hwin).2

/-- libc's gmtime()/timegm() as modelled are mutually inverse on every instant,
    and the broken-down fields are in range: the civil-date bijection, proved
    arithmetically for all integers (no finite enumeration). -/
theorem c15_civil_bijection (t : Int) :
    timegm (gmtime t).1 = t ∧
    1 ≤ (civilFromDays (t / 86400)).2.1 ∧ (civilFromDays (t / 86400)).2.1 ≤ 12 ∧
    1 ≤ (civilFromDays (t / 86400)).2.2 ∧ (civilFromDays (t / 86400)).2.2 ≤ 31 :=
  ⟨timegm_gmtime t, civil_month_day (t / 86400)⟩

/-- If-Modified-Since carrying an emitted date: "modified" iff the file is newer. -/
theorem c15_if_modified_since_exact (now t lmtime : Int) (h0 : -30610224000 ≤ t)
    (h1 : t ≤ 253402300799) (hne1 : t ≠ -1) :
    ifModifiedSince now (renderIMF t) lmtime = decide (lmtime > t) ∧
    ifModifiedSince now (renderAsctime t) lmtime = decide (lmtime > t) := by
  have hne : (t == -1) = false := by
    simp only [beq_eq_false_iff_ne, ne_eq]; omega
  constructor
  · simp only [ifModifiedSince, (imf_roundtrip now t h0 h1).2, hne, Bool.or_false]
  · simp only [ifModifiedSince, (asctime_roundtrip now t h0 h1).2, hne, Bool.or_false]

/-! ## the C pointer walk over the whole header = the ','-split model -/

/-- http_range_parse_next() never reads past a ',': handed the whole remaining header
    `p , rest` it produces the range it produces on `p` alone and returns the same
    position (the returned text is the one for `p` followed by `, rest`) — for every
    `p` (even one that itself contains ','), every `rest` and every length. -/
theorem c15_parse_next_stops_at_comma (p rest : Bytes) (len : Int) :
    parseNext (p ++ 44 :: rest) len
      = ((parseNext p len).1, (parseNext p len).2 ++ 44 :: rest) :=
  parseNext_append p rest len

/-- the pointer returned by http_range_parse_next() is a position inside the text
    it was given (so the walk of http_range_parse() only moves forward and ends) -/
theorem c15_parse_next_returns_suffix (s : Bytes) (len : Int) : (parseNext s len).2 <:+ s :=
  parseNext_suffix s len

/-- http_range_parse() as written in C — ONE string walked with a pointer: parse_next on
    the whole remainder, the `(*s == 0 || *s == ',') && ranges[n+1] != -1` test, the
    skip-to-',' loop for invalid specs, `*s++` and `n < lim`, `break` past 10 unsorted
    ranges (`parsePtr`, Model/RangeWalk.lean) — yields exactly the ranges of the
    ','-split model `parse` that all theorems above are stated over, for EVERY header
    text (grammatical or junk, any number of commas) and every length.  Hence every
    theorem about `parse`/`process`/`rfc7233` holds of the pointer-level code too. -/
theorem c15_pointer_walk_refines (s : Bytes) (len : Int) : parsePtr s len = parse s len :=
  parsePtr_eq_parse s len

/-- … and so for the response: http_range_process() over the pointer walk -/
theorem c15_process_pointer_walk (rs : Resp) (hdr : Bytes) : processPtr rs hdr = process rs hdr :=
  processPtr_eq_process rs hdr

/-! ## non-vacuity -/

/-- junk piece skipped, inner blanks, trailing ',' and an empty piece: the walk visits 5 pieces -/
example : parsePtr (ofString "0-0 ,x-1,, 100-100 ,") 200 = [(0, 0), (100, 100)] ∧
    parseNext (ofString "0-0 ,x-1") 200 = (some (0, 0), ofString ",x-1") ∧
    walkItem 200 { rs := [], lim := RMAX } (ofString "x-1,, 100-100 ,")
      = ({ rs := [], lim := RMAX }, false, ofString ",, 100-100 ,") := by
  decide +kernel

example : (rfc7233 exReq exResp).status = 206 ∧
    (rfc7233 exReq exResp).contentRange = some (ofString "bytes 2-5/12") ∧
    (rfc7233 exReq exResp).body.flatten = ofString "llo " := by decide
example : exResp.status = 200 ∧ (process exResp (ofString "bytes=2-5")).status = 206 := by decide
/-- two ranges more than 80 bytes apart on a 200-byte body in two chunks: a multipart answer -/
example : (process { exResp with body := [List.replicate 100 65, List.replicate 100 66] }
      (ofString "bytes=0-0, 100-100")).contentType = some multipartType ∧
    (parse (ofString "0-0, 100-100") 200).map toNatRng = [(0, 0), (100, 100)] ∧
    (process { exResp with body := [List.replicate 100 65, List.replicate 100 66] }
      (ofString "bytes=0-0, 100-100")).body.flatten =
      multipartBody (List.replicate 100 65 ++ List.replicate 100 66) none [(0, 0), (100, 100)] := by
  decide +kernel
example : slice (ofString "hello world!") 2 5 = ofString "llo " := by decide
example : natDec 12 = ofString "12" := by decide
example : cqRange [ofString "hello ", ofString "world!"] 4 4 = ofString "o wo" := by decide
example : exElem.WF ∧ exElem.spec.sem 12 = some (9, 11) := by
  refine ⟨⟨?_, ?_, ?_, ?_⟩, by decide⟩
  · show ∀ b ∈ [(32 : UInt8)], isBlank b = true; decide
  · show ∀ b ∈ [(9 : UInt8)], isBlank b = true; decide
  · show ofString "03" ≠ []; decide
  · show ∀ d ∈ ofString "03", isDigit d = true; decide
example : Applicable exReq exResp (ofString "bytes=2-5") := by
  refine ⟨rfl, rfl, rfl, Or.inl (by decide), rfl, by decide, rfl, rfl⟩
example : ofString "bytes=2-5" = ofString "bytes=" ++ rangeSetText [⟨[], .range (ofString "2") (ofString "5"), []⟩]
    ∧ (Spec.range (ofString "2") (ofString "5")).sem 12 = some (2, 5) := by decide
example : (rfc7233 { exReq with range := some (ofString "bytes=12-") } exResp).status = 416 := by decide
example : SameRepresentation (rfc7233 { exReq with method := 1 } exResp) exResp := by
  unfold SameRepresentation; decide
example : exCondReq.method ≤ 1 ∧
    handleCachable 0 exCondReq (some (ofString "\"x\"")) none 5 = .notModified := by
  refine ⟨by decide, ?_⟩
  rw [c15_304_iff_general 0 exCondReq _ none 5 (by decide)]
  left
  refine ⟨ofString "W/\"x\"", rfl, ?_⟩
  have h := c15_etag_list ⟨false, ofString "x"⟩ (by unfold ETag.WF; decide) true []
    [(⟨true, ofString "x"⟩, [])] (by unfold AllDelim; decide)
    (by simp only [ItemsOk, ETag.WF, ETag.NoDelim, AllDelim]; decide)
  have e1 : (⟨false, ofString "x"⟩ : ETag).text = ofString "\"x\"" := by decide
  have e2 : etagListText [] [((⟨true, ofString "x"⟩ : ETag), ([] : Bytes))] = ofString "W/\"x\"" := by
    decide
  rw [e1, e2] at h
  rw [show (!exCondReq.hasRange) = true from rfl, h]
  decide
example : (⟨false, ofString "x"⟩ : ETag).WF ∧ AllDelim [32] ∧ ItemsOk exItems ∧
    etagListText [32] exItems = ofString " W/\"y\", W/\"x\"" ∧
    exItems.any (fun x => ETag.cmp true ⟨false, ofString "x"⟩ x.1) = true := by
  refine ⟨by unfold ETag.WF; decide, by unfold AllDelim; decide, ?_, by decide, by decide⟩
  simp only [exItems, ItemsOk, ETag.WF, ETag.NoDelim, AllDelim]
  decide
example : exCondReqIms.method ≤ 1 ∧
    handleCachable 0 exCondReqIms (some (ofString "\"x\"")) (some (timeToStr 784111777)) 784111777
      = .notModified ∧
    handleCachable 0 exCondReqIms (some (ofString "\"x\"")) (some (timeToStr 784111778)) 784111778
      = .goOn := by decide
example : timeToStr (-86400) = ofString "Wed, 31 Dec 1969 00:00:00 GMT" ∧
    dateToTime 0 (ofString "Wed, 31 Dec 1969 00:00:00 GMT") = some (-86400) ∧
    (timeToStr (-30610224000)).length = 29 := by decide
example : renderIMF 784111777 = ofString "Sun, 06 Nov 1994 08:49:37 GMT" := by decide
example : dateToTime 1790000000 (ofString "Sunday, 06-Nov-94 08:49:37 GMT") = some 784111777 := by decide
example : InWindow850 (yearOf 1790000000) (gmtime 784111777).1.year := by
  unfold InWindow850; decide
example : dateToTime 0 (ofString "Sun Nov  6 08:49:37 1994") = some 784111777 := by decide

end LtVerif.C15
