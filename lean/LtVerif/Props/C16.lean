/-
  C16 — only valid credentials of an authorized user open a protected URL.
  Property theorems only (helper lemmas: LtVerif/Proofs/Auth.lean; the vocabulary `BasicValid`,
  `DigestValid`, `NonceFresh`, `DigestWellFormed` is defined at the end of LtVerif/Model/Auth.lean).

  All theorems hold for every digest function `P.H`, every cache-key hash `P.hash` (hence for
  every pattern of key collisions), every configuration (rules, backend scopes, user files) and
  every history `ops` since server start (`init`: empty cache) of requests by any users against
  any rules under any backend scope, server-loop iterations and wall-clock steps.

  "Valid credentials" are read with lighttpd's own parsers (`basicCreds`, `parseAuthorization`):
  what a header MEANS is the model's transcription of the C parser, validated against the C by
  the correspondence run and against an independent RFC 7616/7617 reading only by the Python oracle.
-/
import LtVerif.Proofs.Auth
import LtVerif.Proofs.AuthSplayCleanup
namespace LtVerif.C16
open LtVerif B LtVerif.Auth

/-- Basic, soundness: whatever happened before, a request under a Basic rule is served only if
    its Authorization header decodes to `user:password`, the rule authorizes the user, and the
    password matches the user's record at a backend scope `s'` — the scope the request's own
    conditions select, or a scope under which an earlier request of the history filled the
    shared cache.  (With one backend behind all scopes: c16_basic_sound_one_backend.) -/
theorem c16_basic_sound (P : Prims) (cfg : Cfg) (m e : Int) (ops : List Op) (req : Req)
    (ridx : Nat) (rule : Rule) (u : Bytes) (d n : Bool)
    (hf : findRule cfg.rules req.path 0 = some (ridx, rule)) (hs : rule.scheme = .basic)
    (h : (serve P cfg (run P cfg (init m e) ops) req).2 = .go u d n) :
    ∃ hdr s', req.auth = some hdr ∧ (s' = req.scope ∨ s' ∈ usedScopes ops) ∧
      BasicValid P (cfg.at s') rule hdr u := by
  obtain ⟨hdr, s', hh, hs', hv⟩ := serve_go (run_cacheOkS ops cacheOkS_nil) hf h
  refine ⟨hdr, s', hh, ?_, ?_⟩
  · rcases hs' with h | ⟨p, hp, rfl⟩
    · exact Or.inl h
    · right
      simpa using run_scopes (P := P) (cfg := cfg) ops (st := init m e) [] (fun _ h => by cases h) p hp
  · rcases hv with ⟨_, _, hv⟩ | ⟨hd, _, _⟩
    · exact hv
    · rw [hs] at hd; cases hd

/-- Digest, soundness: a request under a Digest rule is served only if its parameters name the
    rule's realm and the request's own request-target, the nonce carries a timestamp within
    [now − 600, now] (and, with nonce-secret, is exactly a nonce mod_auth_append_nonce() issues),
    the algorithm is one the rule allows, the response equals KD(H(A1), …, H(method:uri)) for
    the H(A1) a backend scope `s'` (as in c16_basic_sound) holds for the claimed user and for
    the request's own method, and the rule authorizes that user — `DigestValid`, evaluated at
    the wall clock of the request. -/
theorem c16_digest_sound (P : Prims) (cfg : Cfg) (m e : Int) (ops : List Op) (req : Req)
    (ridx : Nat) (rule : Rule) (u : Bytes) (d n : Bool)
    (hf : findRule cfg.rules req.path 0 = some (ridx, rule)) (hs : rule.scheme = .digest)
    (h : (serve P cfg (run P cfg (init m e) ops) req).2 = .go u d n) :
    ∃ hdr s', req.auth = some hdr ∧ (s' = req.scope ∨ s' ∈ usedScopes ops) ∧
      DigestValid P (cfg.at s') rule (run P cfg (init m e) ops).epoch req hdr u := by
  obtain ⟨hdr, s', hh, hs', hv⟩ := serve_go (run_cacheOkS ops cacheOkS_nil) hf h
  refine ⟨hdr, s', hh, ?_, ?_⟩
  · rcases hs' with h | ⟨p, hp, rfl⟩
    · exact Or.inl h
    · right
      simpa using run_scopes (P := P) (cfg := cfg) ops (st := init m e) [] (fun _ h => by cases h) p hp
  · rcases hv with ⟨hd, _, _⟩ | ⟨_, _, hv⟩
    · rw [hs] at hd; cases hd
    · exact hv

/-- … and when every request of the history ran under a scope with the same backend and user
    file as this request's (in particular: no auth.backend / userfile inside conditions), the
    credentials are valid for the request's own backend. -/
theorem c16_basic_sound_one_backend (P : Prims) (cfg : Cfg) (m e : Int) (ops : List Op) (req : Req)
    (ridx : Nat) (rule : Rule) (u : Bytes) (d n : Bool)
    (hf : findRule cfg.rules req.path 0 = some (ridx, rule)) (hs : rule.scheme = .basic)
    (hone : ∀ s' ∈ usedScopes ops, SameBackend cfg s' req.scope)
    (h : (serve P cfg (run P cfg (init m e) ops) req).2 = .go u d n) :
    ∃ hdr, req.auth = some hdr ∧ BasicValid P (cfg.at req.scope) rule hdr u := by
  obtain ⟨hdr, s', hh, hs', hv⟩ := c16_basic_sound P cfg m e ops req ridx rule u d n hf hs h
  refine ⟨hdr, hh, ?_⟩
  rcases hs' with rfl | hs'
  · exact hv
  · exact basicValid_congr (hone s' hs').1 (hone s' hs').2 hv

theorem c16_digest_sound_one_backend (P : Prims) (cfg : Cfg) (m e : Int) (ops : List Op) (req : Req)
    (ridx : Nat) (rule : Rule) (u : Bytes) (d n : Bool)
    (hf : findRule cfg.rules req.path 0 = some (ridx, rule)) (hs : rule.scheme = .digest)
    (hone : ∀ s' ∈ usedScopes ops, SameBackend cfg s' req.scope)
    (h : (serve P cfg (run P cfg (init m e) ops) req).2 = .go u d n) :
    ∃ hdr, req.auth = some hdr ∧
      DigestValid P (cfg.at req.scope) rule (run P cfg (init m e) ops).epoch req hdr u := by
  obtain ⟨hdr, s', hh, hs', hv⟩ := c16_digest_sound P cfg m e ops req ridx rule u d n hf hs h
  refine ⟨hdr, hh, ?_⟩
  rcases hs' with rfl | hs'
  · exact hv
  · exact digestValid_congr (hone s' hs').1 (hone s' hs').2 hv

/-- Completeness, Basic: valid credentials of an authorized user ARE served — from an empty
    cache (server start, or after c16_cache_forgets) a request under a Basic rule whose header
    is `BasicValid` for the backend its conditions select is served as that user.  (With a
    non-empty cache the statement is false in one corner the code has: a cached password is
    compared byte for byte, the backend compares C strings, so `pw\0x` after `pw` gets 401.) -/
theorem c16_basic_valid_served (P : Prims) (cfg : Cfg) (st : St) (req : Req)
    (ridx : Nat) (rule : Rule) (hdr u : Bytes)
    (hf : findRule cfg.rules req.path 0 = some (ridx, rule)) (hs : rule.scheme = .basic)
    (hh : req.auth = some hdr) (hv : BasicValid P (cfg.at req.scope) rule hdr u) :
    (serve P cfg { st with cache := [] } req).2 = .go u false false :=
  basic_valid_served (cfg := cfg.at req.scope) (by rw [at_rules]; exact hf) hs hh hv

/-- Completeness, Digest: a header that is `DigestValid` at the current wall clock for the
    backend the request's conditions select and `DigestWellFormed` (required parameters present,
    qop ≠ auth-int, -sess with cnonce, response of the digest's length) is served as that user. -/
theorem c16_digest_valid_served (P : Prims) (cfg : Cfg) (st : St) (req : Req)
    (ridx : Nat) (rule : Rule) (hdr u : Bytes)
    (hf : findRule cfg.rules req.path 0 = some (ridx, rule)) (hs : rule.scheme = .digest)
    (hh : req.auth = some hdr) (hv : DigestValid P (cfg.at req.scope) rule st.epoch req hdr u)
    (hw : DigestWellFormed (parseAuthorization (hdr.drop 7))) :
    ∃ nn, (serve P cfg { st with cache := [] } req).2 = .go u true nn :=
  digest_valid_served (cfg := cfg.at req.scope) (by rw [at_rules]; exact hf) hs hh hv hw

/-- PARTIAL.  Full statement: "the credential cache never converts a refused credential into
    an accepted one": served from the cache reached by ANY history ⇒ served from an empty cache.
    Proved: under the hypothesis that all requests of the history ran under scopes with this
    request's backend and user file — then it holds across users, realms, rules and arbitrary
    key collisions.  Missing: the case of auth.backend / auth.backend.*.userfile set inside
    conditions while auth.require and auth.cache are global; there the statement is FALSE of the
    code (c16_cache_upgrades_across_backend_scopes; open finding, see known_findings.json). -/
theorem c16_cache_never_upgrades_partial (P : Prims) (cfg : Cfg) (m e : Int) (ops : List Op) (req : Req)
    (u : Bytes) (d n : Bool)
    (hone : ∀ s' ∈ usedScopes ops, SameBackend cfg s' req.scope)
    (h : (serve P cfg (run P cfg (init m e) ops) req).2 = .go u d n) :
    (serve P cfg { run P cfg (init m e) ops with cache := [] } req).2 = .go u d n := by
  apply serve_go_nocache (run_cacheOkS ops cacheOkS_nil) _ h
  intro p hp
  apply hone
  simpa using run_scopes (P := P) (cfg := cfg) ops (st := init m e) [] (fun _ h => by cases h) p hp

/-- Witness of the negation of the full statement: two backend scopes with different user
    files behind one rule and one cache.  alice's scope-0 password is refused under scope 1 by
    a server with an empty cache, and served under scope 1 once scope 0 has verified it. -/
theorem c16_cache_upgrades_across_backend_scopes :
    ∃ (P : Prims) (cfg : Cfg) (ops : List Op) (req : Req),
      (serve P cfg (run P cfg (init 1000 1700000000) ops) req).2.served = true ∧
      (serve P cfg { run P cfg (init 1000 1700000000) ops with cache := [] } req).2.served = false :=
  ⟨Ex.P, Ex.cfg2, [.request (Ex.basicReqAt 0 "YWxpY2U6d29uZGVy")], Ex.basicReqAt 1 "YWxpY2U6d29uZGVy",
   by decide, by decide⟩

/-- What the cache holds, in every reachable state: only restatements of backend records — a
    Basic entry is a (user, password) pair, a Digest entry the (user name, H(A1)), that the
    backend scope which vouched for the entry holds under the entry's rule (`EntryOk` at
    `cfg.at e.scope`).  Nothing a failed attempt supplied is ever stored. -/
theorem c16_cache_holds_only_backend_records (P : Prims) (cfg : Cfg) (m e : Int) (ops : List Op)
    (p : Int × Entry) (hp : p ∈ (run P cfg (init m e) ops).cache) :
    EntryOk P (cfg.at p.2.scope) p.2 ∧ p.2.scope ∈ usedScopes ops :=
  ⟨run_cacheOkS ops cacheOkS_nil p hp,
   by simpa using run_scopes (P := P) (cfg := cfg) ops (st := init m e) [] (fun _ h => by cases h) p hp⟩

/-- Entries are forgotten after max-age — with the bound the code really has, and under the
    assumption it needs: mod_auth has no age test on a cache hit; entries disappear only when
    mod_auth_periodic() runs, which the server loop calls once per iteration BEFORE updating the
    clock (so it sees the second that is ending).  While the loop wakes up at least once per
    second (`Steady`: no iteration finds the clock ≥ 2 s ahead), every entry of every reachable
    state is at most max-age + 8 seconds old. -/
theorem c16_cache_expires (P : Prims) (cfg : Cfg) (ma m e : Int) (ops : List Op)
    (hma : cfg.cacheMaxAge = some ma) (hst : Steady ops) (p : Int × Entry)
    (hp : p ∈ (run P cfg (init m e) ops).cache) :
    p.2.ctime ≤ (run P cfg (init m e) ops).mono ∧
    (run P cfg (init m e) ops).mono - p.2.ctime ≤ max ma 0 + 8 := by
  obtain ⟨h1, h2⟩ := run_ageOk hma ops hst init_ageOk p hp
  constructor <;> omega

/-- … and max-age + 9 seconds of a steadily running loop without a request empty the cache. -/
theorem c16_cache_forgets (P : Prims) (cfg : Cfg) (ma m e : Int) (ops : List Op) (n : Nat)
    (hma : cfg.cacheMaxAge = some ma) (hst : Steady ops) (hn : max ma 0 + 9 ≤ n) :
    (secs cfg n (run P cfg (init m e) ops)).cache = [] := by
  cases hc : (secs cfg n (run P cfg (init m e) ops)).cache with
  | nil => rfl
  | cons p ps =>
    exfalso
    have hp : p ∈ (secs cfg n (run P cfg (init m e) ops)).cache := by rw [hc]; exact List.mem_cons_self
    have hold := run_ageOk hma ops hst init_ageOk p (secs_mem n hp)
    have hnew := secs_ageOk hma n (run_ageOk hma ops hst init_ageOk) p hp
    rw [secs_mono] at hnew
    omega

/-- Witness that the assumption is needed: when one loop iteration finds the clock far ahead
    (the loop stalled: e.g. a long blocking operation) the cleanup is skipped, and an entry
    older than max-age + 8 s is still in the cache — and would still answer a request. -/
theorem c16_cache_outlives_max_age_when_loop_stalls :
    ∃ (P : Prims) (cfg : Cfg) (ma : Int) (ops : List Op), cfg.cacheMaxAge = some ma ∧
      ∃ p ∈ (run P cfg (init 1000 1700000000) ops).cache,
        (run P cfg (init 1000 1700000000) ops).mono - p.2.ctime > max ma 0 + 8 :=
  ⟨Ex.P, Ex.cfg, 600, [.request (Ex.basicReq "YWxpY2U6d29uZGVy"), .adv 1, .adv 700], rfl, by decide +kernel⟩

/-- A nonce lighttpd issues (mod_auth_append_nonce() at time `ts`, any random number, with or
    without nonce-secret) passes the nonce validation for the following 600 seconds — so
    `NonceFresh` describes exactly the issued nonces' shape, not an unsatisfiable condition —
    and asks the client to move to a new nonce after 540 seconds. -/
theorem c16_issued_nonce_accepted (P : Prims) (rule : Rule) (epoch ts : Int) (rnd dalgo : Nat)
    (h0 : 0 ≤ ts) (h63 : ts < 2 ^ 63) (hle : ts ≤ epoch) (hage : epoch - ts ≤ 600) (hrnd : rnd < 2 ^ 32) :
    validateNonce P rule epoch (appendNonce P ts rule.secret rnd) dalgo = .ok (decide (epoch - ts > 540)) :=
  validateNonce_appendNonce P rule epoch ts rnd dalgo h0 h63 hle hage hrnd

/-- Everything else is refused: the answer to a request for a path under a rule is never
    "pass through"; it is either served — and then carries valid credentials of an authorized
    user for the rule's scheme (at a backend scope as in c16_basic_sound) — or one of the
    refusals 401 (with challenge) / 400, or 500 only when the backend in effect cannot do the
    rule's scheme. -/
theorem c16_reject_status (P : Prims) (cfg : Cfg) (m e : Int) (ops : List Op) (req : Req)
    (ridx : Nat) (rule : Rule)
    (hf : findRule cfg.rules req.path 0 = some (ridx, rule)) :
    match (serve P cfg (run P cfg (init m e) ops) req).2 with
    | .pass => False
    | .go u _ _ => ∃ hdr s', req.auth = some hdr ∧ (s' = req.scope ∨ s' ∈ usedScopes ops) ∧
        ((rule.scheme = .basic ∧ BasicValid P (cfg.at s') rule hdr u) ∨
         (rule.scheme = .digest ∧ DigestValid P (cfg.at s') rule (run P cfg (init m e) ops).epoch req hdr u))
    | .refuse r => r = .s400 ∨ (∃ ka, r = .s401b ka) ∨ (∃ s ka, r = .s401d s ka) ∨
        (r = .s500 ∧ ((cfg.at req.scope).backend = .none ∨
                      (rule.scheme = .digest ∧ (cfg.at req.scope).backend = .htpasswd))) := by
  have hf' : findRule (cfg.at req.scope).rules req.path 0 = some (ridx, rule) := by rw [at_rules]; exact hf
  cases ho : (serve P cfg (run P cfg (init m e) ops) req).2 with
  | pass => exact absurd ho (handle_ne_pass hf')
  | go u d n =>
    cases hs : rule.scheme with
    | basic =>
      obtain ⟨hdr, s', hh, hs', hv⟩ := c16_basic_sound P cfg m e ops req ridx rule u d n hf hs ho
      exact ⟨hdr, s', hh, hs', Or.inl ⟨rfl, hv⟩⟩
    | digest =>
      obtain ⟨hdr, s', hh, hs', hv⟩ := c16_digest_sound P cfg m e ops req ridx rule u d n hf hs ho
      exact ⟨hdr, s', hh, hs', Or.inr ⟨rfl, hv⟩⟩
  | refuse r =>
    cases r with
    | s400 => exact Or.inl rfl
    | s401b ka => exact Or.inr (Or.inl ⟨ka, rfl⟩)
    | s401d s ka => exact Or.inr (Or.inr (Or.inl ⟨s, ka, rfl⟩))
    | s500 => exact Or.inr (Or.inr (Or.inr ⟨rfl, handle_500 hf' ho⟩))

/-- The refusal classes the property names, for a Digest rule: a digest computed for another
    URI (uri ≠ request-target), for another realm, with a stale, future-dated or malformed
    nonce, or — under nonce-secret — with a nonce the server did not issue, is never served,
    whatever the cache holds. -/
theorem c16_digest_replay_refused (P : Prims) (cfg : Cfg) (m e : Int) (ops : List Op) (req : Req)
    (ridx : Nat) (rule : Rule) (hdr : Bytes)
    (hf : findRule cfg.rules req.path 0 = some (ridx, rule)) (hs : rule.scheme = .digest)
    (hh : req.auth = some hdr)
    (hbad : (parseAuthorization (hdr.drop 7)).uri ≠ some req.target
          ∨ (parseAuthorization (hdr.drop 7)).realm ≠ some rule.realm
          ∨ ¬ NonceFresh P rule (run P cfg (init m e) ops).epoch ((parseAuthorization (hdr.drop 7)).nonce.getD [])) :
    (serve P cfg (run P cfg (init m e) ops) req).2.served = false := by
  cases ho : (serve P cfg (run P cfg (init m e) ops) req).2 with
  | pass => exact absurd ho (handle_ne_pass (cfg := cfg.at req.scope) (by rw [at_rules]; exact hf))
  | refuse r => rfl
  | go u d n =>
    exfalso
    obtain ⟨hdr', s', hh', _, hv⟩ := c16_digest_sound P cfg m e ops req ridx rule u d n hf hs ho
    rw [hh] at hh'
    simp only [Option.some.injEq] at hh'
    subst hh'
    obtain ⟨_, dp, nonce, dalgo, dlen, name, hA1, hdp, hrealm, huri, hnonce, hfresh, _⟩ := hv
    subst hdp
    rcases hbad with hb | hb | hb
    · exact hb huri
    · exact hb hrealm
    · rw [hnonce] at hb; exact hb hfresh

/-- Digest responses are bound to the request's own method, with the request taken from what
    the client actually sent: for an HTTP/2 request built by the real header path
    (`h2Request`, any parse options `o`: http_request_parse_header() per field,
    http_request_validate_pseudohdrs(), http_request_parse()), a served request's response
    equals KD(…, H(method:uri)) for the ":method" of its header list.  The one exception is the
    RFC 8441 extended CONNECT — the list contains ":method: CONNECT" AND ":protocol: websocket"
    — whose response may be bound to "GET" instead.  A ":protocol" next to any other method,
    before or after ":method", opens nothing.  (HTTP/1.x: the method is the request line's, C01.) -/
theorem c16_digest_method_bound (P : Prims) (cfg : Cfg) (m e : Int) (ops : List Op) (o : Opts)
    (fields : List (Bytes × Bytes)) (req : Req) (ridx : Nat) (rule : Rule) (u : Bytes) (d n : Bool)
    (hreq : h2Request o fields = .ok req)
    (hf : findRule cfg.rules req.path 0 = some (ridx, rule)) (hs : rule.scheme = .digest)
    (h : (serve P cfg (run P cfg (init m e) ops) req).2 = .go u d n) :
    (ofString ":method", req.method) ∈ fields ∧
    ∃ hdr dalgo hA1, req.auth = some hdr ∧
      (hex2bin ((parseAuthorization (hdr.drop 7)).response.getD [])
          = some (kd P dalgo hA1 (parseAuthorization (hdr.drop 7)) req.method)
       ∨ (req.method = ofString "CONNECT" ∧ (ofString ":protocol", ofString "websocket") ∈ fields ∧
          hex2bin ((parseAuthorization (hdr.drop 7)).response.getD [])
            = some (kd P dalgo hA1 (parseAuthorization (hdr.drop 7)) (ofString "GET")))) := by
  obtain ⟨hmeth, hproto⟩ := h2Request_from hreq
  obtain ⟨hdr, s', hh, _, hv⟩ := c16_digest_sound P cfg m e ops req ridx rule u d n hf hs h
  obtain ⟨_, dp, nonce, dalgo, dlen, name, hA1, hdp, _, _, _, _, _, _, _, _, hresp, _⟩ := hv
  subst hdp
  refine ⟨hmeth, hdr, dalgo, hA1, hh, ?_⟩
  rcases responseMatches_bound hresp with h1 | ⟨h1, h2, h3⟩
  · exact Or.inl h1
  · exact Or.inr ⟨h1, hproto h2, h3⟩

/-- The extracted base64 table (base64.c, regenerated on every run) inverts the standard
    alphabet and marks '=' as padding: the decoder reads credentials the way RFC 4648 writes them. -/
theorem c16_base64_table_inverse :
    (∀ i : Fin 64, b64Class (Extracted.b64StdAlphabet.getD i.val 0).toUInt8 = (i.val : Int)) ∧
    b64Class 61 = -3 ∧ Extracted.b64StdAlphabet.length = 65 := by
  refine ⟨by decide, by decide, by decide⟩

/-! ### non-vacuity: concrete instances (toy digest `Ex.H`, all cache keys colliding) -/

-- valid Basic credentials are served, as that user (c16_basic_sound, c16_basic_valid_served, c16_reject_status)
example : (serve Ex.P Ex.cfg Ex.st0 (Ex.basicReq "YWxpY2U6d29uZGVy")).2 = .go (ofString "alice") false false := by
  decide
example : (findRule Ex.cfg.rules (Ex.basicReq "YWxpY2U6d29uZGVy").path 0).map (·.1) = some 0 := by decide
-- wrong password, unknown user, malformed base64: refused
example : (serve Ex.P Ex.cfg Ex.st0 (Ex.basicReq "YWxpY2U6d29uZGU=")).2 = .refuse (.s401b false) := by decide
example : (serve Ex.P Ex.cfg Ex.st0 (Ex.basicReq "bWFsbG9yeTp3b25kZXI=")).2 = .refuse (.s401b false) := by decide
example : (serve Ex.P Ex.cfg Ex.st0 (Ex.basicReq "YWxpY2U6d29uZGVy!!junk")).2 = .refuse .s400 := by decide
-- valid Digest credentials are served (c16_digest_sound, c16_digest_valid_served)
example : (serve Ex.P Ex.cfg Ex.st0 (Ex.digestReq "GET" "alice" "/dig/x" "f74d7460a65e2bc2f0d9787b75f3d477")).2
    = .go (ofString "alice") true false := by decide +kernel
-- the same digest replayed with another method, for another URI, ten minutes later: refused
example : (serve Ex.P Ex.cfg Ex.st0 (Ex.digestReq "POST" "alice" "/dig/x" "f74d7460a65e2bc2f0d9787b75f3d477")).2
    = .refuse (.s401d 0 false) := by decide +kernel
example : (serve Ex.P Ex.cfg Ex.st0 (Ex.digestReq "GET" "alice" "/dig/y" "f74d7460a65e2bc2f0d9787b75f3d477")).2
    = .refuse .s400 := by decide +kernel
example : (serve Ex.P Ex.cfg (secs Ex.cfg 601 Ex.st0)
             (Ex.digestReq "GET" "alice" "/dig/x" "f74d7460a65e2bc2f0d9787b75f3d477")).2
    = .refuse (.s401d 2 true) := by decide +kernel
-- c16_digest_method_bound: over HTTP/2, alice's GET-bound digest with ":method: POST" followed by
-- ":protocol: websocket" is refused; the same digest on a genuine extended CONNECT is served
example : ((h2Request h2Opts (Ex.h2Fields [(":method", "POST"), (":protocol", "websocket"), (":scheme", "https"),
              (":path", "/dig/x"), (":authority", "h")] "f74d7460a65e2bc2f0d9787b75f3d477")).toOption.map
            fun r => (serve Ex.P Ex.cfg Ex.st0 r).2) = some (.refuse (.s401d 0 false)) := by decide +kernel
example : ((h2Request h2Opts (Ex.h2Fields [(":protocol", "websocket"), (":method", "CONNECT"), (":scheme", "https"),
              (":path", "/dig/x"), (":authority", "h")] "f74d7460a65e2bc2f0d9787b75f3d477")).toOption.map
            fun r => (serve Ex.P Ex.cfg Ex.st0 r).2) = some (.go (ofString "alice") true false) := by decide +kernel
-- bob authenticates but the rule authorizes only alice: refused (and cached H(A1) does not help him)
example : (serve Ex.P Ex.cfg Ex.st0 (Ex.digestReq "GET" "bob" "/dig/x" "9fe9b187d0dc3112020e9162e9613e7c")).2
    = .refuse (.s401d 0 true) := by decide +kernel
-- c16_cache_never_upgrades_partial: after alice was served (entry cached under the colliding key 0),
-- bob's wrong password is still refused; the cache holds alice's verified password only
example : (serve Ex.P Ex.cfg (run Ex.P Ex.cfg Ex.st0 [.request (Ex.basicReq "YWxpY2U6d29uZGVy")])
             (Ex.basicReq "Ym9iOndvbmRlcg==")).2 = .refuse (.s401b false) := by decide
example : (run Ex.P Ex.cfg Ex.st0 [.request (Ex.basicReq "YWxpY2U6d29uZGVy"),
             .request (Ex.basicReq "Ym9iOndvbmRlcg==")]).cache.map (fun p => (p.2.username, p.2.pw, p.2.scope))
    = [(ofString "alice", ofString "wonder", 0)] := by decide
-- the one-backend hypothesis is satisfiable with several scopes: scope 0 and an unlisted scope of Ex.cfg
example : SameBackend Ex.cfg 0 7 := ⟨by decide, by decide⟩
-- c16_issued_nonce_accepted: a nonce issued under a nonce-secret, checked 541 s later
example : (validateNonce Ex.P Ex.secretRule 1700000541
            (appendNonce Ex.P 1700000000 (some (ofString "s3cr3t")) 12345) 2).toOption = some true := by
  decide +kernel
-- c16_cache_expires / c16_cache_forgets: a steady history; the entry is gone after 609 one-second iterations
example : Steady [.request (Ex.basicReq "YWxpY2U6d29uZGVy"), .secs 609, .adv 1, .adv 0, .epochShift (-5)] := by simp [Steady]
example : (run Ex.P Ex.cfg Ex.st0 [.request (Ex.basicReq "YWxpY2U6d29uZGVy"), .secs 608]).cache.length = 1 := by
  decide +kernel
example : (run Ex.P Ex.cfg Ex.st0 [.request (Ex.basicReq "YWxpY2U6d29uZGVy"), .secs 609]).cache = [] := by
  decide +kernel

/-! ### The container behind auth.cache (algo_splaytree.c, http_auth_cache_query / _insert, the delete
    step of mod_auth_periodic_cleanup) refines the finite map `Cache` the theorems above are stated on.
    `Model/AuthSplay.lean` transcribes the C (top-down splay with its two assembly trees, rotate / link /
    assemble; insert_splayed; delete_splayed_node with its OVERWRITE of `x->right`).
    mod_auth_tag_old_entries' post-order walk with its 8192-key batch limit and the do-while around it
    (`tagOld`, `deleteKeys`, `periodicCleanup`) are proved equal to `Cache.cleanup` for every batch size > 0.
    NOT covered: splaytree_insert / splaytree_delete (unused by mod_auth), amortised cost, memory safety
    of the pointer code (ASan in the correspondence run). -/

open LtVerif.AuthSplay in
/-- the tree holds exactly the entries of the abstract cache, in search-tree order -/
def TreeRep (t : Tree Entry) (c : Cache) : Prop := Sorted t ∧ ∀ p, p ∈ t.inorder ↔ p ∈ c

open LtVerif.AuthSplay in
/-- splaying (any tree — search tree or not —, any key, present or not) neither loses, duplicates,
    reorders nor changes an entry: the in-order sequence of (key, data) is unchanged -/
theorem c16_splay_keeps_entries {α : Type} (t : Tree α) (i : Int) :
    (splay t i).inorder = t.inorder ∧ (splayNonnull t i).inorder = t.inorder :=
  ⟨inorder_splay t i, inorder_splayNonnull t i⟩

open LtVerif.AuthSplay in
/-- http_auth_cache_query() on a search tree is the finite-map lookup: it answers `v` exactly when
    (key, v) is stored (under any shape the earlier operations left), keeps the contents, and leaves a
    neighbour of the key at the root (what http_auth_cache_insert() relies on without splaying again) -/
theorem c16_tree_query_is_map_lookup {α : Type} (t : Tree α) (key : Int) (hs : Sorted t) :
    (cacheQuery t key).1.inorder = t.inorder ∧ Sorted (cacheQuery t key).1 ∧ Near key (cacheQuery t key).1 ∧
    ∀ v, (cacheQuery t key).2 = some v ↔ (key, v) ∈ t.inorder :=
  ⟨cacheQuery_inorder t key, sorted_of_inorder_eq (cacheQuery_inorder t key) hs, cacheQuery_near t key hs,
   fun v => cacheQuery_found t key v hs⟩

open LtVerif.AuthSplay in
/-- query-then-insert (the order mod_auth_check_basic() / mod_auth_digest_get() use) refines
    `Cache.insert`: new key → new node, equal key (hash collision or refresh) → data replaced, every
    other entry kept, search-tree order kept -/
theorem c16_tree_insert_refines_cache (t : Tree Entry) (c : Cache) (key : Int) (e : Entry)
    (h : TreeRep t c) : TreeRep (cacheInsert (cacheQuery t key).1 key e) (c.insert key e) := by
  obtain ⟨hs, hm⟩ := h
  obtain ⟨hi, hs', hn, _⟩ := c16_tree_query_is_map_lookup t key hs
  obtain ⟨h1, h2⟩ := cacheInsert_spec _ key e hs' hn
  refine ⟨h1, fun p => ?_⟩
  rw [h2 p, hi, hm p]
  simp [Cache.insert, List.mem_filter]

open LtVerif.AuthSplay in
/-- the body of the delete loop of mod_auth_periodic_cleanup() (splay to a tagged key, delete the root)
    removes exactly that entry from a search tree — although splaytree_delete_splayed_node() overwrites
    `x->right`: that pointer is NULL because the splay brought the maximum of the left part up -/
theorem c16_tree_delete_exact {α : Type} (t : Tree α) (key : Int) (w : α) (hs : Sorted t)
    (hm : (key, w) ∈ t.inorder) :
    (deleteSplayedNode (splayNonnull t key)).inorder = t.inorder.filter (fun p => p.1 ≠ key) ∧
    Sorted (deleteSplayedNode (splayNonnull t key)) := by
  have h := deleteKey_inorder t key w hs hm
  refine ⟨h, ?_⟩
  unfold Sorted at *
  rw [h]
  exact hs.filter _

open LtVerif.AuthSplay in
/-- http_auth_cache_query() = `Cache.lookup` (the lookup `basicHit` / `digestHitEntry` start from), for
    caches with distinct keys — which `Cache.insert` / `Cache.cleanup` keep (c16_cache_keys_distinct_kept) -/
theorem c16_tree_query_refines_cache_lookup (t : Tree Entry) (c : Cache) (key : Int)
    (h : TreeRep t c) (hd : c.Pairwise (fun a b => a.1 ≠ b.1)) :
    (cacheQuery t key).2 = c.lookup key ∧ TreeRep (cacheQuery t key).1 c := by
  obtain ⟨hs, hm⟩ := h
  have hk : ∀ v, (cacheQuery t key).2 = some v ↔ c.lookup key = some v := fun v => by
    rw [cacheQuery_found t key v hs, hm, lookup_iff_mem c hd]
  refine ⟨?_, sorted_of_inorder_eq (cacheQuery_inorder t key) hs, fun p => by rw [cacheQuery_inorder, hm]⟩
  cases h1 : (cacheQuery t key).2 with
  | none =>
    cases h2 : c.lookup key with
    | none => rfl
    | some w => have := (hk w).2 h2; rw [h1] at this; cases this
  | some v => exact ((hk v).1 h1).symm

theorem c16_cache_keys_distinct_kept (c : Cache) (key : Int) (e : Entry) (maxAge cur : Int)
    (hd : c.Pairwise (fun a b => a.1 ≠ b.1)) :
    (c.insert key e).Pairwise (fun a b => a.1 ≠ b.1) ∧ (c.cleanup maxAge cur).Pairwise (fun a b => a.1 ≠ b.1) := by
  refine ⟨?_, hd.filter _⟩
  simp only [Cache.insert, List.pairwise_cons]
  refine ⟨fun a ha => ?_, hd.filter _⟩
  simp only [List.mem_filter, decide_eq_true_eq] at ha
  exact fun h => ha.2 h.symm

open LtVerif.AuthSplay in
/-- mod_auth_periodic_cleanup() — tag up to `cap` (8192 in the C) expired keys in post-order, splay to and
    delete each, repeat while the batch was full — refines `Cache.cleanup`: exactly the entries with
    cur − ctime > max-age go, whatever the tree shape, the number of expired entries and the batch size -/
theorem c16_tree_cleanup_refines_cache (t : Tree Entry) (c : Cache) (maxAge cur : Int) (cap : Nat)
    (hcap : 0 < cap) (h : TreeRep t c) :
    TreeRep (periodicCleanup (fun e => decide (cur - e.ctime > maxAge)) cap t) (c.cleanup maxAge cur) := by
  obtain ⟨hs, hm⟩ := h
  obtain ⟨e, s⟩ := periodicCleanup_inorder (fun e : Entry => decide (cur - e.ctime > maxAge)) cap hcap t hs
  refine ⟨s, fun p => ?_⟩
  rw [e]
  simp [Cache.cleanup, List.mem_filter, hm]

/-! non-vacuity: a tree built by the modelled operations themselves (keys 5, 3, 8, 4, then 3 replaced) -/
namespace ExSplay
open LtVerif.AuthSplay
def ins (t : Tree Nat) (k : Int) (v : Nat) : Tree Nat := cacheInsert (cacheQuery t k).1 k v
def t4 : Tree Nat := ins (ins (ins (ins .nil 5 50) 3 30) 8 80) 4 40
end ExSplay
open LtVerif.AuthSplay in
example : Sorted ExSplay.t4 ∧ ExSplay.t4.inorder = [(3, 30), (4, 40), (5, 50), (8, 80)] := by
  constructor
  · unfold Sorted; decide
  · decide
open LtVerif.AuthSplay in
example : ((splay ExSplay.t4 8).inorder, (cacheQuery ExSplay.t4 8).2, (cacheQuery ExSplay.t4 7).2)
    = ([(3, 30), (4, 40), (5, 50), (8, 80)], some 80, none) := by decide
open LtVerif.AuthSplay in
example : (ExSplay.ins ExSplay.t4 3 31).inorder = [(3, 31), (4, 40), (5, 50), (8, 80)] := by decide
open LtVerif.AuthSplay in
example : (deleteSplayedNode (splayNonnull ExSplay.t4 5)).inorder = [(3, 30), (4, 40), (8, 80)] := by decide
open LtVerif.AuthSplay in
-- cleanup with a batch limit of 2 and three expired entries (two rounds of the do-while)
example : (periodicCleanup (fun v : Nat => decide (v < 80)) 2 ExSplay.t4).inorder = [(8, 80)] ∧
    tagOld (fun v : Nat => decide (v < 80)) 2 ExSplay.t4 [] = [3, 5] := by decide
open LtVerif.AuthSplay in
example : TreeRep (.nil : Tree Entry) [] := ⟨by simp [Sorted, Tree.inorder], by simp [Tree.inorder]⟩

end LtVerif.C16
