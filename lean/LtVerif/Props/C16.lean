/-
  C16 — only valid credentials of an authorized user open a protected URL.
  Property theorems only (helper lemmas: LtVerif/Proofs/Auth.lean; the vocabulary
  `BasicValid`, `DigestValid`, `NonceFresh` is defined at the end of LtVerif/Model/Auth.lean).

  All theorems hold for every digest function `P.H`, every cache-key hash `P.hash`
  (hence for every pattern of key collisions), every configuration and user file, and
  every history `ops` of requests by any users against any rules, clock ticks and
  wall-clock steps since server start (`init`: empty cache).
-/
import LtVerif.Proofs.Auth
namespace LtVerif.C16
open LtVerif B LtVerif.Auth

/-- Basic: whatever happened before, a request under a Basic rule is served only if its
    Authorization header decodes to `user:password`, the backend's record for that user
    matches the password, and the rule authorizes the user (also when the answer comes
    from the credential cache). -/
theorem c16_basic_sound (P : Prims) (cfg : Cfg) (m e : Int) (ops : List Op) (req : Req)
    (ridx : Nat) (rule : Rule) (u : Bytes) (d n : Bool)
    (hf : findRule cfg.rules req.path 0 = some (ridx, rule)) (hs : rule.scheme = .basic)
    (h : (handle P cfg (run P cfg (init m e) ops) req).2 = .go u d n) :
    ∃ hdr, req.auth = some hdr ∧ BasicValid P cfg rule hdr u := by
  obtain ⟨hdr, hh, hv⟩ := handle_go (run_cacheOk ops init_cacheOk) hf h
  rcases hv with ⟨_, _, hv⟩ | ⟨hd, _, _⟩
  · exact ⟨hdr, hh, hv⟩
  · rw [hs] at hd; cases hd

/-- Digest: a request under a Digest rule is served only if its parameters name the rule's
    realm and the request's own request-target, the nonce carries a timestamp within
    [now − 600, now] (and, with nonce-secret, is exactly a nonce mod_auth_append_nonce() issues),
    the algorithm is one the rule allows, the response equals KD(H(A1), …, H(method:uri)) for
    the backend's H(A1) of the claimed user and the request's own method, and the rule
    authorizes that user — `DigestValid`, evaluated at the wall clock of the request. -/
theorem c16_digest_sound (P : Prims) (cfg : Cfg) (m e : Int) (ops : List Op) (req : Req)
    (ridx : Nat) (rule : Rule) (u : Bytes) (d n : Bool)
    (hf : findRule cfg.rules req.path 0 = some (ridx, rule)) (hs : rule.scheme = .digest)
    (h : (handle P cfg (run P cfg (init m e) ops) req).2 = .go u d n) :
    ∃ hdr, req.auth = some hdr ∧
      DigestValid P cfg rule (run P cfg (init m e) ops).epoch req hdr u := by
  obtain ⟨hdr, hh, hv⟩ := handle_go (run_cacheOk ops init_cacheOk) hf h
  rcases hv with ⟨hd, _, _⟩ | ⟨_, _, hv⟩
  · rw [hs] at hd; cases hd
  · exact ⟨hdr, hh, hv⟩

/-- The credential cache never converts a refused credential into an accepted one: if a
    request is served in a state reached by any history, then a server with an empty cache
    (same clocks) serves it too, as the same user.  No assumption on the hash: keys of
    different users, realms and rules may collide arbitrarily. -/
theorem c16_cache_never_upgrades (P : Prims) (cfg : Cfg) (m e : Int) (ops : List Op) (req : Req)
    (u : Bytes) (d n : Bool)
    (h : (handle P cfg (run P cfg (init m e) ops) req).2 = .go u d n) :
    (handle P cfg { run P cfg (init m e) ops with cache := [] } req).2 = .go u d n :=
  handle_go_nocache (run_cacheOk ops init_cacheOk) h

/-- A cache hit requires the same rule, the same user bytes and (Digest) the same algorithm
    and kind of key, whatever the cache contains and whatever key was computed: a colliding
    entry is not a hit and the backend is asked. -/
theorem c16_cache_hit_same_rule_user_algorithm (c : Cache) (key : Int) (ridx : Nat) (user : Bytes)
    (ai : AI) (e : Entry) :
    (basicHit c key ridx user = some e → e.rule = ridx ∧ e.username = user) ∧
    (digestHitEntry c key ridx ai user = some e →
       e.rule = ridx ∧ e.k = user ∧ e.dalgo = ai.dalgo ∧ e.dlen = ai.dlen ∧ e.kIsUser = !ai.userhash) := by
  constructor
  · intro h; exact (basicHit_some h).2
  · intro h
    have := (digestHitEntry_some h).2
    simp only [digestHit, Bool.and_eq_true, decide_eq_true_eq] at this
    obtain ⟨⟨⟨⟨h1, h2⟩, h3⟩, h4⟩, h5⟩ := this
    exact ⟨h1, h4, h2, h3, h5⟩

/-- Entries are forgotten after max-age: in every reachable state every cache entry was
    created in the past and is at most max-age (+ the 8-second period of the cleanup
    trigger) old; older credentials can therefore never be answered from the cache. -/
theorem c16_cache_expires (P : Prims) (cfg : Cfg) (ma m e : Int) (ops : List Op)
    (hma : cfg.cacheMaxAge = some ma) (p : Int × Entry)
    (hp : p ∈ (run P cfg (init m e) ops).cache) :
    p.2.ctime ≤ (run P cfg (init m e) ops).mono ∧
    (run P cfg (init m e) ops).mono - p.2.ctime ≤ max ma 0 + 7 := by
  obtain ⟨h1, h2⟩ := run_ageOk hma ops init_ageOk p hp
  constructor <;> omega

/-- … and max-age + 8 seconds without a request empty the cache completely. -/
theorem c16_cache_forgets (P : Prims) (cfg : Cfg) (ma m e : Int) (ops : List Op) (dt : Nat)
    (hma : cfg.cacheMaxAge = some ma) (hdt : max ma 0 + 8 ≤ dt) :
    (advance cfg dt (run P cfg (init m e) ops)).cache = [] := by
  cases hc : (advance cfg dt (run P cfg (init m e) ops)).cache with
  | nil => rfl
  | cons p ps =>
    exfalso
    have hp : p ∈ (advance cfg dt (run P cfg (init m e) ops)).cache := by rw [hc]; exact List.mem_cons_self
    have hold := run_ageOk hma ops init_ageOk p (advance_mem dt hp)
    have hnew := advance_ageOk hma dt (run_ageOk hma ops init_ageOk) p hp
    rw [advance_mono] at hnew
    omega

/-- What the cache holds, in every reachable state: only restatements of backend records —
    a Basic entry is a (user, password) pair the backend accepts under the entry's rule, a
    Digest entry is the backend's (user name, H(A1)) for the entry's key, realm and digest
    length (`EntryOk`).  Nothing a failed attempt supplied is ever stored. -/
theorem c16_cache_holds_only_backend_records (P : Prims) (cfg : Cfg) (m e : Int) (ops : List Op)
    (p : Int × Entry) (hp : p ∈ (run P cfg (init m e) ops).cache) : EntryOk P cfg p.2 :=
  run_cacheOk ops init_cacheOk p hp

/-- A nonce lighttpd issues (mod_auth_append_nonce() at time `ts`, any random number, with or
    without nonce-secret) passes the nonce validation for the following 600 seconds — so
    `NonceFresh` describes exactly the issued nonces' shape, not an unsatisfiable condition —
    and asks the client to move to a new nonce after 540 seconds. -/
theorem c16_issued_nonce_accepted (P : Prims) (rule : Rule) (epoch ts : Int) (rnd dalgo : Nat)
    (h0 : 0 ≤ ts) (h63 : ts < 2 ^ 63) (hle : ts ≤ epoch) (hage : epoch - ts ≤ 600) (hrnd : rnd < 2 ^ 32) :
    validateNonce P rule epoch (appendNonce P ts rule.secret rnd) dalgo = .ok (decide (epoch - ts > 540)) :=
  validateNonce_appendNonce P rule epoch ts rnd dalgo h0 h63 hle hage hrnd

/-- Everything else is refused: the answer to a request for a path under a rule is never
    "pass through"; it is either served — and then carries valid credentials of an authorized
    user for the rule's scheme — or one of the refusals 401 (with challenge) / 400, or 500
    only when no backend able to do the rule's scheme is configured. -/
theorem c16_reject_status (P : Prims) (cfg : Cfg) (m e : Int) (ops : List Op) (req : Req)
    (ridx : Nat) (rule : Rule)
    (hf : findRule cfg.rules req.path 0 = some (ridx, rule)) :
    match (handle P cfg (run P cfg (init m e) ops) req).2 with
    | .pass => False
    | .go u _ _ => ∃ hdr, req.auth = some hdr ∧
        ((rule.scheme = .basic ∧ BasicValid P cfg rule hdr u) ∨
         (rule.scheme = .digest ∧ DigestValid P cfg rule (run P cfg (init m e) ops).epoch req hdr u))
    | .refuse r => r = .s400 ∨ (∃ ka, r = .s401b ka) ∨ (∃ s ka, r = .s401d s ka) ∨
        (r = .s500 ∧ (cfg.backend = .none ∨ (rule.scheme = .digest ∧ cfg.backend = .htpasswd))) := by
  cases ho : (handle P cfg (run P cfg (init m e) ops) req).2 with
  | pass => exact absurd ho (handle_ne_pass hf)
  | go u d n =>
    obtain ⟨hdr, hh, hv⟩ := handle_go (run_cacheOk ops init_cacheOk) hf ho
    refine ⟨hdr, hh, ?_⟩
    rcases hv with ⟨h1, _, h3⟩ | ⟨h1, _, h3⟩
    · exact Or.inl ⟨h1, h3⟩
    · exact Or.inr ⟨h1, h3⟩
  | refuse r =>
    cases r with
    | s400 => exact Or.inl rfl
    | s401b ka => exact Or.inr (Or.inl ⟨ka, rfl⟩)
    | s401d s ka => exact Or.inr (Or.inr (Or.inl ⟨s, ka, rfl⟩))
    | s500 => exact Or.inr (Or.inr (Or.inr ⟨rfl, handle_500 hf ho⟩))

/-- The refusal classes the property names, for a Digest rule: a digest computed for another
    URI (uri ≠ request-target), for another realm, with a stale, future-dated or malformed
    nonce, or — under nonce-secret — with a nonce the server did not issue, is never served. -/
theorem c16_digest_replay_refused (P : Prims) (cfg : Cfg) (m e : Int) (ops : List Op) (req : Req)
    (ridx : Nat) (rule : Rule) (hdr : Bytes)
    (hf : findRule cfg.rules req.path 0 = some (ridx, rule)) (hs : rule.scheme = .digest)
    (hh : req.auth = some hdr)
    (hbad : (parseAuthorization (hdr.drop 7)).uri ≠ some req.target
          ∨ (parseAuthorization (hdr.drop 7)).realm ≠ some rule.realm
          ∨ ¬ NonceFresh P rule (run P cfg (init m e) ops).epoch ((parseAuthorization (hdr.drop 7)).nonce.getD [])) :
    (handle P cfg (run P cfg (init m e) ops) req).2.served = false := by
  cases ho : (handle P cfg (run P cfg (init m e) ops) req).2 with
  | pass => exact absurd ho (handle_ne_pass hf)
  | refuse r => rfl
  | go u d n =>
    exfalso
    obtain ⟨hdr', hh', hv⟩ := c16_digest_sound P cfg m e ops req ridx rule u d n hf hs ho
    rw [hh] at hh'
    simp only [Option.some.injEq] at hh'
    subst hh'
    obtain ⟨_, dp, nonce, dalgo, dlen, name, hA1, hdp, hrealm, huri, hnonce, hfresh, _⟩ := hv
    subst hdp
    rcases hbad with hb | hb | hb
    · exact hb huri
    · exact hb hrealm
    · rw [hnonce] at hb; exact hb hfresh

/-- Digest responses are bound to the request's own method, with the request taken from what
    the client actually sent: for an HTTP/2 request built by the real header path
    (`h2Request`: http_request_parse_header() per field, http_request_validate_pseudohdrs(),
    http_request_parse()), a served request's response equals KD(…, H(method:uri)) for the
    ":method" of its header list.  The one exception is the RFC 8441 extended CONNECT — the
    list contains ":method: CONNECT" AND ":protocol: websocket" — whose response may be bound
    to "GET" instead.  A ":protocol" next to any other method, before or after ":method",
    opens nothing. -/
theorem c16_digest_method_bound (P : Prims) (cfg : Cfg) (m e : Int) (ops : List Op)
    (fields : List (Bytes × Bytes)) (req : Req) (ridx : Nat) (rule : Rule) (u : Bytes) (d n : Bool)
    (hreq : h2Request fields = .ok req)
    (hf : findRule cfg.rules req.path 0 = some (ridx, rule)) (hs : rule.scheme = .digest)
    (h : (handle P cfg (run P cfg (init m e) ops) req).2 = .go u d n) :
    (ofString ":method", req.method) ∈ fields ∧
    ∃ hdr dalgo hA1, req.auth = some hdr ∧
      (hex2bin ((parseAuthorization (hdr.drop 7)).response.getD [])
          = some (kd P dalgo hA1 (parseAuthorization (hdr.drop 7)) req.method)
       ∨ (req.method = ofString "CONNECT" ∧ (ofString ":protocol", ofString "websocket") ∈ fields ∧
          hex2bin ((parseAuthorization (hdr.drop 7)).response.getD [])
            = some (kd P dalgo hA1 (parseAuthorization (hdr.drop 7)) (ofString "GET")))) := by
  obtain ⟨hmeth, hproto⟩ := h2Request_from hreq
  obtain ⟨hdr, hh, hv⟩ := c16_digest_sound P cfg m e ops req ridx rule u d n hf hs h
  obtain ⟨_, dp, nonce, dalgo, dlen, name, hA1, hdp, _, _, _, _, _, _, _, _, hresp, _⟩ := hv
  subst hdp
  refine ⟨hmeth, hdr, dalgo, hA1, hh, ?_⟩
  rcases responseMatches_bound hresp with h1 | ⟨h1, h2, h3⟩
  · exact Or.inl h1
  · exact Or.inr ⟨h1, hproto h2, h3⟩

/-- The extracted base64 table (base64.c, regenerated on every run) inverts the standard
    alphabet and marks '=' as padding: the decoder reads credentials the way RFC 4648 writes them. -/
theorem c16_base64_table_inverse :
    (∀ i : Fin 64, b64Class (Extracted.b64StdAlphabet.getD i.val 0).toUInt8 = (i.val : Int)) ∧
    b64Class 61 = -3 ∧ Extracted.b64StdAlphabet.length = 65 := by
  refine ⟨by decide, by decide, by decide⟩

/-! ### non-vacuity: concrete instances (toy digest `Ex.H`, all cache keys colliding) -/

-- valid Basic credentials are served, as that user; c16_basic_sound / c16_reject_status apply
example : (handle Ex.P Ex.cfg Ex.st0 (Ex.basicReq "YWxpY2U6d29uZGVy")).2 = .go (ofString "alice") false false := by
  decide
example : (findRule Ex.cfg.rules (Ex.basicReq "YWxpY2U6d29uZGVy").path 0).map (·.1) = some 0 := by decide
-- wrong password, unknown user, malformed base64: refused
example : (handle Ex.P Ex.cfg Ex.st0 (Ex.basicReq "YWxpY2U6d29uZGU=")).2 = .refuse (.s401b false) := by decide
example : (handle Ex.P Ex.cfg Ex.st0 (Ex.basicReq "bWFsbG9yeTp3b25kZXI=")).2 = .refuse (.s401b false) := by decide
example : (handle Ex.P Ex.cfg Ex.st0 (Ex.basicReq "YWxpY2U6d29uZGVy!!junk")).2 = .refuse .s400 := by decide
-- valid Digest credentials are served; c16_digest_sound applies
example : (handle Ex.P Ex.cfg Ex.st0 (Ex.digestReq "GET" "alice" "/dig/x" "f74d7460a65e2bc2f0d9787b75f3d477")).2
    = .go (ofString "alice") true false := by decide +kernel
-- the same digest replayed with another method, for another URI, ten minutes later: refused
example : (handle Ex.P Ex.cfg Ex.st0 (Ex.digestReq "POST" "alice" "/dig/x" "f74d7460a65e2bc2f0d9787b75f3d477")).2
    = .refuse (.s401d 0 false) := by decide +kernel
example : (handle Ex.P Ex.cfg Ex.st0 (Ex.digestReq "GET" "alice" "/dig/y" "f74d7460a65e2bc2f0d9787b75f3d477")).2
    = .refuse .s400 := by decide +kernel
example : (handle Ex.P Ex.cfg (advance Ex.cfg 601 Ex.st0)
             (Ex.digestReq "GET" "alice" "/dig/x" "f74d7460a65e2bc2f0d9787b75f3d477")).2
    = .refuse (.s401d 2 true) := by decide +kernel
-- c16_digest_method_bound: over HTTP/2, alice's GET-bound digest with ":method: POST" followed by
-- ":protocol: websocket" is refused; the same digest on a genuine extended CONNECT is served
example : ((h2Request (Ex.h2Fields [(":method", "POST"), (":protocol", "websocket"), (":scheme", "https"),
              (":path", "/dig/x"), (":authority", "h")] "f74d7460a65e2bc2f0d9787b75f3d477")).toOption.map
            fun r => (handle Ex.P Ex.cfg Ex.st0 r).2) = some (.refuse (.s401d 0 false)) := by decide +kernel
example : ((h2Request (Ex.h2Fields [(":protocol", "websocket"), (":method", "CONNECT"), (":scheme", "https"),
              (":path", "/dig/x"), (":authority", "h")] "f74d7460a65e2bc2f0d9787b75f3d477")).toOption.map
            fun r => (handle Ex.P Ex.cfg Ex.st0 r).2) = some (.go (ofString "alice") true false) := by decide +kernel
-- bob authenticates but the rule authorizes only alice: refused (and cached H(A1) does not help him)
example : (handle Ex.P Ex.cfg Ex.st0 (Ex.digestReq "GET" "bob" "/dig/x" "9fe9b187d0dc3112020e9162e9613e7c")).2
    = .refuse (.s401d 0 true) := by decide +kernel
-- c16_cache_never_upgrades / c16_cache_hit…: after alice was served (entry cached under the
-- colliding key 0), bob's wrong password is still refused and alice's entry is replaced
example : (handle Ex.P Ex.cfg (run Ex.P Ex.cfg Ex.st0 [.request (Ex.basicReq "YWxpY2U6d29uZGVy")])
             (Ex.basicReq "Ym9iOndvbmRlcg==")).2 = .refuse (.s401b false) := by decide
example : (run Ex.P Ex.cfg Ex.st0 [.request (Ex.basicReq "YWxpY2U6d29uZGVy")]).cache.length = 1 := by decide
-- c16_cache_holds_only_backend_records: the one entry is alice's verified password
example : (run Ex.P Ex.cfg Ex.st0 [.request (Ex.basicReq "YWxpY2U6d29uZGVy"),
             .request (Ex.basicReq "Ym9iOndvbmRlcg==")]).cache.map (fun p => (p.2.username, p.2.pw))
    = [(ofString "alice", ofString "wonder")] := by decide
-- c16_issued_nonce_accepted: a nonce issued under a nonce-secret, checked 541 s later
example : (validateNonce Ex.P Ex.secretRule 1700000541
            (appendNonce Ex.P 1700000000 (some (ofString "s3cr3t")) 12345) 2).toOption = some true := by
  decide +kernel
-- c16_cache_expires / c16_cache_forgets: the entry is gone 608 s later
example : (run Ex.P Ex.cfg Ex.st0 [.request (Ex.basicReq "YWxpY2U6d29uZGVy"), .adv 608]).cache = [] := by decide +kernel

end LtVerif.C16
