/-
  C16 — only valid credentials of an authorized user open a protected URL.
  Property theorems only (helper lemmas: LtVerif/Proofs/Auth.lean; the vocabulary `BasicValid`,
  `DigestValid`, `NonceFresh`, `DigestWellFormed` is defined at the end of LtVerif/Model/Auth.lean).

  All theorems hold for every digest function `P.H`, every cache-key hash `P.hash` (hence for
  every pattern of key collisions), every configuration (rules, backend scopes, user files) and
  every history `ops` since server start (`init`: empty cache) of requests by any users against
  any rules under any backend scope, server-loop iterations and wall-clock steps.

  "Valid credentials" are read with lighttpd's own parsers (`basicCreds`, `parseAuthorization`):
  what a header MEANS is the model's transcription of the C parser, validated against the C by
  the correspondence run and against an independent RFC 7616/7617 reading only by the Python oracle.
-/
import LtVerif.Proofs.Auth
namespace LtVerif.C16
open LtVerif B LtVerif.Auth

/-- Basic, soundness: whatever happened before, a request under a Basic rule is served only if
    its Authorization header decodes to `user:password`, the rule authorizes the user, and the
    password matches the user's record at a backend scope `s'` — the scope the request's own
    conditions select, or a scope under which an earlier request of the history filled the
    shared cache.  (With one backend behind all scopes: c16_basic_sound_one_backend.) -/
theorem c16_basic_sound (P : Prims) (cfg : Cfg) (m e : Int) (ops : List Op) (req : Req)
    (ridx : Nat) (rule : Rule) (u : Bytes) (d n : Bool)
    (hf : findRule cfg.rules req.path 0 = some (ridx, rule)) (hs : rule.scheme = .basic)
    (h : (serve P cfg (run P cfg (init m e) ops) req).2 = .go u d n) :
    ∃ hdr s', req.auth = some hdr ∧ (s' = req.scope ∨ s' ∈ usedScopes ops) ∧
      BasicValid P (cfg.at s') rule hdr u := by
  obtain ⟨hdr, s', hh, hs', hv⟩ := serve_go (run_cacheOkS ops cacheOkS_nil) hf h
  refine ⟨hdr, s', hh, ?_, ?_⟩
  · rcases hs' with h | ⟨p, hp, rfl⟩
    · exact Or.inl h
    · right
      simpa using run_scopes (P := P) (cfg := cfg) ops (st := init m e) [] (fun _ h => by cases h) p hp
  · rcases hv with ⟨_, _, hv⟩ | ⟨hd, _, _⟩
    · exact hv
    · rw [hs] at hd; cases hd

/-- Digest, soundness: a request under a Digest rule is served only if its parameters name the
    rule's realm and the request's own request-target, the nonce carries a timestamp within
    [now − 600, now] (and, with nonce-secret, is exactly a nonce mod_auth_append_nonce() issues),
    the algorithm is one the rule allows, the response equals KD(H(A1), …, H(method:uri)) for
    the H(A1) a backend scope `s'` (as in c16_basic_sound) holds for the claimed user and for
    the request's own method, and the rule authorizes that user — `DigestValid`, evaluated at
    the wall clock of the request. -/
theorem c16_digest_sound (P : Prims) (cfg : Cfg) (m e : Int) (ops : List Op) (req : Req)
    (ridx : Nat) (rule : Rule) (u : Bytes) (d n : Bool)
    (hf : findRule cfg.rules req.path 0 = some (ridx, rule)) (hs : rule.scheme = .digest)
    (h : (serve P cfg (run P cfg (init m e) ops) req).2 = .go u d n) :
    ∃ hdr s', req.auth = some hdr ∧ (s' = req.scope ∨ s' ∈ usedScopes ops) ∧
      DigestValid P (cfg.at s') rule (run P cfg (init m e) ops).epoch req hdr u := by
  obtain ⟨hdr, s', hh, hs', hv⟩ := serve_go (run_cacheOkS ops cacheOkS_nil) hf h
  refine ⟨hdr, s', hh, ?_, ?_⟩
  · rcases hs' with h | ⟨p, hp, rfl⟩
    · exact Or.inl h
    · right
      simpa using run_scopes (P := P) (cfg := cfg) ops (st := init m e) [] (fun _ h => by cases h) p hp
  · rcases hv with ⟨hd, _, _⟩ | ⟨_, _, hv⟩
    · rw [hs] at hd; cases hd
    · exact hv

/-- … and when every request of the history ran under a scope with the same backend and user
    file as this request's (in particular: no auth.backend / userfile inside conditions), the
    credentials are valid for the request's own backend. -/
theorem c16_basic_sound_one_backend (P : Prims) (cfg : Cfg) (m e : Int) (ops : List Op) (req : Req)
    (ridx : Nat) (rule : Rule) (u : Bytes) (d n : Bool)
    (hf : findRule cfg.rules req.path 0 = some (ridx, rule)) (hs : rule.scheme = .basic)
    (hone : ∀ s' ∈ usedScopes ops, SameBackend cfg s' req.scope)
    (h : (serve P cfg (run P cfg (init m e) ops) req).2 = .go u d n) :
    ∃ hdr, req.auth = some hdr ∧ BasicValid P (cfg.at req.scope) rule hdr u := by
  obtain ⟨hdr, s', hh, hs', hv⟩ := c16_basic_sound P cfg m e ops req ridx rule u d n hf hs h
  refine ⟨hdr, hh, ?_⟩
  rcases hs' with rfl | hs'
  · exact hv
  · exact basicValid_congr (hone s' hs').1 (hone s' hs').2 hv

theorem c16_digest_sound_one_backend (P : Prims) (cfg : Cfg) (m e : Int) (ops : List Op) (req : Req)
    (ridx : Nat) (rule : Rule) (u : Bytes) (d n : Bool)
    (hf : findRule cfg.rules req.path 0 = some (ridx, rule)) (hs : rule.scheme = .digest)
    (hone : ∀ s' ∈ usedScopes ops, SameBackend cfg s' req.scope)
    (h : (serve P cfg (run P cfg (init m e) ops) req).2 = .go u d n) :
    ∃ hdr, req.auth = some hdr ∧
      DigestValid P (cfg.at req.scope) rule (run P cfg (init m e) ops).epoch req hdr u := by
  obtain ⟨hdr, s', hh, hs', hv⟩ := c16_digest_sound P cfg m e ops req ridx rule u d n hf hs h
  refine ⟨hdr, hh, ?_⟩
  rcases hs' with rfl | hs'
  · exact hv
  · exact digestValid_congr (hone s' hs').1 (hone s' hs').2 hv

/-- Completeness, Basic: valid credentials of an authorized user ARE served — from an empty
    cache (server start, or after c16_cache_forgets) a request under a Basic rule whose header
    is `BasicValid` for the backend its conditions select is served as that user.  (With a
    non-empty cache the statement is false in one corner the code has: a cached password is
    compared byte for byte, the backend compares C strings, so `pw\0x` after `pw` gets 401.) -/
theorem c16_basic_valid_served (P : Prims) (cfg : Cfg) (st : St) (req : Req)
    (ridx : Nat) (rule : Rule) (hdr u : Bytes)
    (hf : findRule cfg.rules req.path 0 = some (ridx, rule)) (hs : rule.scheme = .basic)
    (hh : req.auth = some hdr) (hv : BasicValid P (cfg.at req.scope) rule hdr u) :
    (serve P cfg { st with cache := [] } req).2 = .go u false false :=
  basic_valid_served (cfg := cfg.at req.scope) (by rw [at_rules]; exact hf) hs hh hv

/-- Completeness, Digest: a header that is `DigestValid` at the current wall clock for the
    backend the request's conditions select and `DigestWellFormed` (required parameters present,
    qop ≠ auth-int, -sess with cnonce, response of the digest's length) is served as that user. -/
theorem c16_digest_valid_served (P : Prims) (cfg : Cfg) (st : St) (req : Req)
    (ridx : Nat) (rule : Rule) (hdr u : Bytes)
    (hf : findRule cfg.rules req.path 0 = some (ridx, rule)) (hs : rule.scheme = .digest)
    (hh : req.auth = some hdr) (hv : DigestValid P (cfg.at req.scope) rule st.epoch req hdr u)
    (hw : DigestWellFormed (parseAuthorization (hdr.drop 7))) :
    ∃ nn, (serve P cfg { st with cache := [] } req).2 = .go u true nn :=
  digest_valid_served (cfg := cfg.at req.scope) (by rw [at_rules]; exact hf) hs hh hv hw

/-- PARTIAL.  Full statement: "the credential cache never converts a refused credential into
    an accepted one": served from the cache reached by ANY history ⇒ served from an empty cache.
    Proved: under the hypothesis that all requests of the history ran under scopes with this
    request's backend and user file — then it holds across users, realms, rules and arbitrary
    key collisions.  Missing: the case of auth.backend / auth.backend.*.userfile set inside
    conditions while auth.require and auth.cache are global; there the statement is FALSE of the
    code (c16_cache_upgrades_across_backend_scopes; open finding, see known_findings.json). -/
theorem c16_cache_never_upgrades_partial (P : Prims) (cfg : Cfg) (m e : Int) (ops : List Op) (req : Req)
    (u : Bytes) (d n : Bool)
    (hone : ∀ s' ∈ usedScopes ops, SameBackend cfg s' req.scope)
    (h : (serve P cfg (run P cfg (init m e) ops) req).2 = .go u d n) :
    (serve P cfg { run P cfg (init m e) ops with cache := [] } req).2 = .go u d n := by
  apply serve_go_nocache (run_cacheOkS ops cacheOkS_nil) _ h
  intro p hp
  apply hone
  simpa using run_scopes (P := P) (cfg := cfg) ops (st := init m e) [] (fun _ h => by cases h) p hp

/-- Witness of the negation of the full statement: two backend scopes with different user
    files behind one rule and one cache.  alice's scope-0 password is refused under scope 1 by
    a server with an empty cache, and served under scope 1 once scope 0 has verified it. -/
theorem c16_cache_upgrades_across_backend_scopes :
    ∃ (P : Prims) (cfg : Cfg) (ops : List Op) (req : Req),
      (serve P cfg (run P cfg (init 1000 1700000000) ops) req).2.served = true ∧
      (serve P cfg { run P cfg (init 1000 1700000000) ops with cache := [] } req).2.served = false :=
  ⟨Ex.P, Ex.cfg2, [.request (Ex.basicReqAt 0 "YWxpY2U6d29uZGVy")], Ex.basicReqAt 1 "YWxpY2U6d29uZGVy",
   by decide, by decide⟩

/-- What the cache holds, in every reachable state: only restatements of backend records — a
    Basic entry is a (user, password) pair, a Digest entry the (user name, H(A1)), that the
    backend scope which vouched for the entry holds under the entry's rule (`EntryOk` at
    `cfg.at e.scope`).  Nothing a failed attempt supplied is ever stored. -/
theorem c16_cache_holds_only_backend_records (P : Prims) (cfg : Cfg) (m e : Int) (ops : List Op)
    (p : Int × Entry) (hp : p ∈ (run P cfg (init m e) ops).cache) :
    EntryOk P (cfg.at p.2.scope) p.2 ∧ p.2.scope ∈ usedScopes ops :=
  ⟨run_cacheOkS ops cacheOkS_nil p hp,
   by simpa using run_scopes (P := P) (cfg := cfg) ops (st := init m e) [] (fun _ h => by cases h) p hp⟩

/-- Entries are forgotten after max-age — with the bound the code really has, and under the
    assumption it needs: mod_auth has no age test on a cache hit; entries disappear only when
    mod_auth_periodic() runs, which the server loop calls once per iteration BEFORE updating the
    clock (so it sees the second that is ending).  While the loop wakes up at least once per
    second (`Steady`: no iteration finds the clock ≥ 2 s ahead), every entry of every reachable
    state is at most max-age + 8 seconds old. -/
theorem c16_cache_expires (P : Prims) (cfg : Cfg) (ma m e : Int) (ops : List Op)
    (hma : cfg.cacheMaxAge = some ma) (hst : Steady ops) (p : Int × Entry)
    (hp : p ∈ (run P cfg (init m e) ops).cache) :
    p.2.ctime ≤ (run P cfg (init m e) ops).mono ∧
    (run P cfg (init m e) ops).mono - p.2.ctime ≤ max ma 0 + 8 := by
  obtain ⟨h1, h2⟩ := run_ageOk hma ops hst init_ageOk p hp
  constructor <;> omega

/-- … and max-age + 9 seconds of a steadily running loop without a request empty the cache. -/
theorem c16_cache_forgets (P : Prims) (cfg : Cfg) (ma m e : Int) (ops : List Op) (n : Nat)
    (hma : cfg.cacheMaxAge = some ma) (hst : Steady ops) (hn : max ma 0 + 9 ≤ n) :
    (secs cfg n (run P cfg (init m e) ops)).cache = [] := by
  cases hc : (secs cfg n (run P cfg (init m e) ops)).cache with
  | nil => rfl
  | cons p ps =>
    exfalso
    have hp : p ∈ (secs cfg n (run P cfg (init m e) ops)).cache := by rw [hc]; exact List.mem_cons_self
    have hold := run_ageOk hma ops hst init_ageOk p (secs_mem n hp)
    have hnew := secs_ageOk hma n (run_ageOk hma ops hst init_ageOk) p hp
    rw [secs_mono] at hnew
    omega

/-- Witness that the assumption is needed: when one loop iteration finds the clock far ahead
    (the loop stalled: e.g. a long blocking operation) the cleanup is skipped, and an entry
    older than max-age + 8 s is still in the cache — and would still answer a request. -/
theorem c16_cache_outlives_max_age_when_loop_stalls :
    ∃ (P : Prims) (cfg : Cfg) (ma : Int) (ops : List Op), cfg.cacheMaxAge = some ma ∧
      ∃ p ∈ (run P cfg (init 1000 1700000000) ops).cache,
        (run P cfg (init 1000 1700000000) ops).mono - p.2.ctime > max ma 0 + 8 :=
  ⟨Ex.P, Ex.cfg, 600, [.request (Ex.basicReq "YWxpY2U6d29uZGVy"), .adv 1, .adv 700], rfl, by decide +kernel⟩

/-- A nonce lighttpd issues (mod_auth_append_nonce() at time `ts`, any random number, with or
    without nonce-secret) passes the nonce validation for the following 600 seconds — so
    `NonceFresh` describes exactly the issued nonces' shape, not an unsatisfiable condition —
    and asks the client to move to a new nonce after 540 seconds. -/
theorem c16_issued_nonce_accepted (P : Prims) (rule : Rule) (epoch ts : Int) (rnd dalgo : Nat)
    (h0 : 0 ≤ ts) (h63 : ts < 2 ^ 63) (hle : ts ≤ epoch) (hage : epoch - ts ≤ 600) (hrnd : rnd < 2 ^ 32) :
    validateNonce P rule epoch (appendNonce P ts rule.secret rnd) dalgo = .ok (decide (epoch - ts > 540)) :=
  validateNonce_appendNonce P rule epoch ts rnd dalgo h0 h63 hle hage hrnd

/-- Everything else is refused: the answer to a request for a path under a rule is never
    "pass through"; it is either served — and then carries valid credentials of an authorized
    user for the rule's scheme (at a backend scope as in c16_basic_sound) — or one of the
    refusals 401 (with challenge) / 400, or 500 only when the backend in effect cannot do the
    rule's scheme. -/
theorem c16_reject_status (P : Prims) (cfg : Cfg) (m e : Int) (ops : List Op) (req : Req)
    (ridx : Nat) (rule : Rule)
    (hf : findRule cfg.rules req.path 0 = some (ridx, rule)) :
    match (serve P cfg (run P cfg (init m e) ops) req).2 with
    | .pass => False
    | .go u _ _ => ∃ hdr s', req.auth = some hdr ∧ (s' = req.scope ∨ s' ∈ usedScopes ops) ∧
        ((rule.scheme = .basic ∧ BasicValid P (cfg.at s') rule hdr u) ∨
         (rule.scheme = .digest ∧ DigestValid P (cfg.at s') rule (run P cfg (init m e) ops).epoch req hdr u))
    | .refuse r => r = .s400 ∨ (∃ ka, r = .s401b ka) ∨ (∃ s ka, r = .s401d s ka) ∨
        (r = .s500 ∧ ((cfg.at req.scope).backend = .none ∨
                      (rule.scheme = .digest ∧ (cfg.at req.scope).backend = .htpasswd))) := by
  have hf' : findRule (cfg.at req.scope).rules req.path 0 = some (ridx, rule) := by rw [at_rules]; exact hf
  cases ho : (serve P cfg (run P cfg (init m e) ops) req).2 with
  | pass => exact absurd ho (handle_ne_pass hf')
  | go u d n =>
    cases hs : rule.scheme with
    | basic =>
      obtain ⟨hdr, s', hh, hs', hv⟩ := c16_basic_sound P cfg m e ops req ridx rule u d n hf hs ho
      exact ⟨hdr, s', hh, hs', Or.inl ⟨rfl, hv⟩⟩
    | digest =>
      obtain ⟨hdr, s', hh, hs', hv⟩ := c16_digest_sound P cfg m e ops req ridx rule u d n hf hs ho
      exact ⟨hdr, s', hh, hs', Or.inr ⟨rfl, hv⟩⟩
  | refuse r =>
    cases r with
    | s400 => exact Or.inl rfl
    | s401b ka => exact Or.inr (Or.inl ⟨ka, rfl⟩)
    | s401d s ka => exact Or.inr (Or.inr (Or.inl ⟨s, ka, rfl⟩))
    | s500 => exact Or.inr (Or.inr (Or.inr ⟨rfl, handle_500 hf' ho⟩))

/-- The refusal classes the property names, for a Digest rule: a digest computed for another
    URI (uri ≠ request-target), for another realm, with a stale, future-dated or malformed
    nonce, or — under nonce-secret — with a nonce the server did not issue, is never served,
    whatever the cache holds. -/
theorem c16_digest_replay_refused (P : Prims) (cfg : Cfg) (m e : Int) (ops : List Op) (req : Req)
    (ridx : Nat) (rule : Rule) (hdr : Bytes)
    (hf : findRule cfg.rules req.path 0 = some (ridx, rule)) (hs : rule.scheme = .digest)
    (hh : req.auth = some hdr)
    (hbad : (parseAuthorization (hdr.drop 7)).uri ≠ some req.target
          ∨ (parseAuthorization (hdr.drop 7)).realm ≠ some rule.realm
          ∨ ¬ NonceFresh P rule (run P cfg (init m e) ops).epoch ((parseAuthorization (hdr.drop 7)).nonce.getD [])) :
    (serve P cfg (run P cfg (init m e) ops) req).2.served = false := by
  cases ho : (serve P cfg (run P cfg (init m e) ops) req).2 with
  | pass => exact absurd ho (handle_ne_pass (cfg := cfg.at req.scope) (by rw [at_rules]; exact hf))
  | refuse r => rfl
  | go u d n =>
    exfalso
    obtain ⟨hdr', s', hh', _, hv⟩ := c16_digest_sound P cfg m e ops req ridx rule u d n hf hs ho
    rw [hh] at hh'
    simp only [Option.some.injEq] at hh'
    subst hh'
    obtain ⟨_, dp, nonce, dalgo, dlen, name, hA1, hdp, hrealm, huri, hnonce, hfresh, _⟩ := hv
    subst hdp
    rcases hbad with hb | hb | hb
    · exact hb huri
    · exact hb hrealm
    · rw [hnonce] at hb; exact hb hfresh

/-- Digest responses are bound to the request's own method, with the request taken from what
    the client actually sent: for an HTTP/2 request built by the real header path
    (`h2Request`, any parse options `o`: http_request_parse_header() per field,
    http_request_validate_pseudohdrs(), http_request_parse()), a served request's response
    equals KD(…, H(method:uri)) for the ":method" of its header list.  The one exception is the
    RFC 8441 extended CONNECT — the list contains ":method: CONNECT" AND ":protocol: websocket"
    — whose response may be bound to "GET" instead.  A ":protocol" next to any other method,
    before or after ":method", opens nothing.  (HTTP/1.x: the method is the request line's, C01.) -/
theorem c16_digest_method_bound (P : Prims) (cfg : Cfg) (m e : Int) (ops : List Op) (o : Opts)
    (fields : List (Bytes × Bytes)) (req : Req) (ridx : Nat) (rule : Rule) (u : Bytes) (d n : Bool)
    (hreq : h2Request o fields = .ok req)
    (hf : findRule cfg.rules req.path 0 = some (ridx, rule)) (hs : rule.scheme = .digest)
    (h : (serve P cfg (run P cfg (init m e) ops) req).2 = .go u d n) :
    (ofString ":method", req.method) ∈ fields ∧
    ∃ hdr dalgo hA1, req.auth = some hdr ∧
      (hex2bin ((parseAuthorization (hdr.drop 7)).response.getD [])
          = some (kd P dalgo hA1 (parseAuthorization (hdr.drop 7)) req.method)
       ∨ (req.method = ofString "CONNECT" ∧ (ofString ":protocol", ofString "websocket") ∈ fields ∧
          hex2bin ((parseAuthorization (hdr.drop 7)).response.getD [])
            = some (kd P dalgo hA1 (parseAuthorization (hdr.drop 7)) (ofString "GET")))) := by
  obtain ⟨hmeth, hproto⟩ := h2Request_from hreq
  obtain ⟨hdr, s', hh, _, hv⟩ := c16_digest_sound P cfg m e ops req ridx rule u d n hf hs h
  obtain ⟨_, dp, nonce, dalgo, dlen, name, hA1, hdp, _, _, _, _, _, _, _, _, hresp, _⟩ := hv
  subst hdp
  refine ⟨hmeth, hdr, dalgo, hA1, hh, ?_⟩
  rcases responseMatches_bound hresp with h1 | ⟨h1, h2, h3⟩
  · exact Or.inl h1
  · exact Or.inr ⟨h1, hproto h2, h3⟩

/-- The extracted base64 table (base64.c, regenerated on every run) inverts the standard
    alphabet and marks '=' as padding: the decoder reads credentials the way RFC 4648 writes them. -/
theorem c16_base64_table_inverse :
    (∀ i : Fin 64, b64Class (Extracted.b64StdAlphabet.getD i.val 0).toUInt8 = (i.val : Int)) ∧
    b64Class 61 = -3 ∧ Extracted.b64StdAlphabet.length = 65 := by
  refine ⟨by decide, by decide, by decide⟩

/-! ### non-vacuity: concrete instances (toy digest `Ex.H`, all cache keys colliding) -/

-- valid Basic credentials are served, as that user (c16_basic_sound, c16_basic_valid_served, c16_reject_status)
example : (serve Ex.P Ex.cfg Ex.st0 (Ex.basicReq "YWxpY2U6d29uZGVy")).2 = .go (ofString "alice") false false := by
  decide
example : (findRule Ex.cfg.rules (Ex.basicReq "YWxpY2U6d29uZGVy").path 0).map (·.1) = some 0 := by decide
-- wrong password, unknown user, malformed base64: refused
example : (serve Ex.P Ex.cfg Ex.st0 (Ex.basicReq "YWxpY2U6d29uZGU=")).2 = .refuse (.s401b false) := by decide
example : (serve Ex.P Ex.cfg Ex.st0 (Ex.basicReq "bWFsbG9yeTp3b25kZXI=")).2 = .refuse (.s401b false) := by decide
example : (serve Ex.P Ex.cfg Ex.st0 (Ex.basicReq "YWxpY2U6d29uZGVy!!junk")).2 = .refuse .s400 := by decide
-- valid Digest credentials are served (c16_digest_sound, c16_digest_valid_served)
example : (serve Ex.P Ex.cfg Ex.st0 (Ex.digestReq "GET" "alice" "/dig/x" "f74d7460a65e2bc2f0d9787b75f3d477")).2
    = .go (ofString "alice") true false := by decide +kernel
-- the same digest replayed with another method, for another URI, ten minutes later: refused
example : (serve Ex.P Ex.cfg Ex.st0 (Ex.digestReq "POST" "alice" "/dig/x" "f74d7460a65e2bc2f0d9787b75f3d477")).2
    = .refuse (.s401d 0 false) := by decide +kernel
example : (serve Ex.P Ex.cfg Ex.st0 (Ex.digestReq "GET" "alice" "/dig/y" "f74d7460a65e2bc2f0d9787b75f3d477")).2
    = .refuse .s400 := by decide +kernel
example : (serve Ex.P Ex.cfg (secs Ex.cfg 601 Ex.st0)
             (Ex.digestReq "GET" "alice" "/dig/x" "f74d7460a65e2bc2f0d9787b75f3d477")).2
    = .refuse (.s401d 2 true) := by decide +kernel
-- c16_digest_method_bound: over HTTP/2, alice's GET-bound digest with ":method: POST" followed by
-- ":protocol: websocket" is refused; the same digest on a genuine extended CONNECT is served
example : ((h2Request h2Opts (Ex.h2Fields [(":method", "POST"), (":protocol", "websocket"), (":scheme", "https"),
              (":path", "/dig/x"), (":authority", "h")] "f74d7460a65e2bc2f0d9787b75f3d477")).toOption.map
            fun r => (serve Ex.P Ex.cfg Ex.st0 r).2) = some (.refuse (.s401d 0 false)) := by decide +kernel
example : ((h2Request h2Opts (Ex.h2Fields [(":protocol", "websocket"), (":method", "CONNECT"), (":scheme", "https"),
              (":path", "/dig/x"), (":authority", "h")] "f74d7460a65e2bc2f0d9787b75f3d477")).toOption.map
            fun r => (serve Ex.P Ex.cfg Ex.st0 r).2) = some (.go (ofString "alice") true false) := by decide +kernel
-- bob authenticates but the rule authorizes only alice: refused (and cached H(A1) does not help him)
example : (serve Ex.P Ex.cfg Ex.st0 (Ex.digestReq "GET" "bob" "/dig/x" "9fe9b187d0dc3112020e9162e9613e7c")).2
    = .refuse (.s401d 0 true) := by decide +kernel
-- c16_cache_never_upgrades_partial: after alice was served (entry cached under the colliding key 0),
-- bob's wrong password is still refused; the cache holds alice's verified password only
example : (serve Ex.P Ex.cfg (run Ex.P Ex.cfg Ex.st0 [.request (Ex.basicReq "YWxpY2U6d29uZGVy")])
             (Ex.basicReq "Ym9iOndvbmRlcg==")).2 = .refuse (.s401b false) := by decide
example : (run Ex.P Ex.cfg Ex.st0 [.request (Ex.basicReq "YWxpY2U6d29uZGVy"),
             .request (Ex.basicReq "Ym9iOndvbmRlcg==")]).cache.map (fun p => (p.2.username, p.2.pw, p.2.scope))
    = [(ofString "alice", ofString "wonder", 0)] := by decide
-- the one-backend hypothesis is satisfiable with several scopes: scope 0 and an unlisted scope of Ex.cfg
example : SameBackend Ex.cfg 0 7 := ⟨by decide, by decide⟩
-- c16_issued_nonce_accepted: a nonce issued under a nonce-secret, checked 541 s later
example : (validateNonce Ex.P Ex.secretRule 1700000541
            (appendNonce Ex.P 1700000000 (some (ofString "s3cr3t")) 12345) 2).toOption = some true := by
  decide +kernel
-- c16_cache_expires / c16_cache_forgets: a steady history; the entry is gone after 609 one-second iterations
example : Steady [.request (Ex.basicReq "YWxpY2U6d29uZGVy"), .secs 609, .adv 1, .adv 0, .epochShift (-5)] := by simp [Steady]
example : (run Ex.P Ex.cfg Ex.st0 [.request (Ex.basicReq "YWxpY2U6d29uZGVy"), .secs 608]).cache.length = 1 := by
  decide +kernel
example : (run Ex.P Ex.cfg Ex.st0 [.request (Ex.basicReq "YWxpY2U6d29uZGVy"), .secs 609]).cache = [] := by
  decide +kernel

end LtVerif.C16
