/-
  C17 — the chunk queue is an exact FIFO byte stream under all operations and
  temp-file write faults.  Property theorems only (helper lemmas, the system
  invariant `Inv` and the reference semantics `specStep` live in
  LtVerif/Proofs/Cq.lean).

  The theorems are about the closed system `Sys` of two chunk queues over one
  `World` (file store, chunk pool, upload dirs and the scripted results of the
  temp-file syscalls).  `step : Sys → Op → Sys × Res` is one operation of
  src/chunk.c, `run` a whole history.  Fault schedules are part of the world
  (`wsched`, `msched`): a theorem about all `s : Sys` is a theorem about all
  fault schedules.
-/
import LtVerif.Proofs.CqRes
namespace LtVerif.C17
open LtVerif LtVerif.Cq

/-- the empty system: no files, two empty queues; `w` carries the configuration
    and the fault schedules -/
def init (w : World) (_ : w.nfiles = 0) : Sys := { w := w, q0 := {}, q1 := {} }

/-- Exact accounting, for every history and every fault schedule: after any
    sequence of operations (successful or failed) the length each queue reports
    (bytes_in − bytes_out) is the number of bytes it still holds, every chunk's
    offset lies inside the chunk and every file chunk lies inside its file. -/
theorem c17_length_exact (s : Sys) (ops : List Op) (h : Inv s)
    (hops : ∀ (pre : List Op) (op : Op) (post : List Op), ops = pre ++ op :: post → OpOK (run s pre) op)
    (i : Bool) :
    Inv (run s ops) ∧ ((run s ops).get i).length = (((run s ops).abs i).length : Int) := by
  have hi := run_inv s ops h hops
  exact ⟨hi, hi.length_abs i⟩

/-- One operation, any fault schedule: the invariant is kept. -/
theorem c17_step_inv (s : Sys) (op : Op) (h : Inv s) (hop : OpOK s op) : Inv (step s op).1 :=
  step_inv s op h hop

/-- FIFO refinement: every operation that does not write temp files acts on
    the queued bytes exactly like the byte-string reference queue `specStep`
    (append at the tail, consume at the head, transfers move a prefix of the
    source to the tail of the destination, compaction / squash / removal of
    empty chunks change nothing), and peek/read hand out the head of the
    queue unmodified.
    PARTIAL: the two spilling operations (append_mem_to_tempfile,
    steal_with_tempfiles) are covered by `c17_length_exact` only; the full
    statement is the same equation without `hns`. -/
theorem c17_refines_fifo_partial (s : Sys) (op : Op) (h : Inv s) (hop : OpOK s op)
    (hns : op.spills = false) :
    ((step s op).1.abs op.qi, (step s op).1.abs (!op.qi)) =
        specStep (fun fid => (s.w.files fid).content) (s.abs op.qi) (s.abs (!op.qi)) op (step s op).2 ∧
      resOK (s.abs op.qi) op (step s op).2 :=
  step_refines s op h hop hns

/-- chunkqueue_steal(): the first min(n, |src|) bytes of src move to the tail
    of dest, in order and unmodified; nothing else changes. -/
theorem c17_steal_fifo (s : Sys) (i : Bool) (n : Nat) (h : Inv s) :
    (step s (.steal i n)).1.abs i = s.abs i ++ (s.abs (!i)).take n ∧
      (step s (.steal i n)).1.abs (!i) = (s.abs (!i)).drop n := by
  have := (step_refines s (.steal i n) h trivial rfl).1
  simp only [specStep, Op.qi, Prod.mk.injEq] at this
  exact this

/-- chunkqueue_read_data(): on success the caller gets exactly the first n
    queued bytes and they are consumed; on failure nothing is consumed. -/
theorem c17_read_data (s : Sys) (i : Bool) (n : Nat) (h : Inv s) :
    match (step s (.readData i n)).2 with
    | .read (some d) => d = (s.abs i).take n ∧ d.length = n ∧ (step s (.readData i n)).1.abs i = (s.abs i).drop n
    | _ => (step s (.readData i n)).1.abs i = s.abs i := by
  obtain ⟨h1, h2⟩ := step_refines s (.readData i n) h trivial rfl
  generalize (step s (.readData i n)).2 = r at h1 h2
  cases r with
  | read d =>
    cases d with
    | some d =>
      simp only [specStep, Op.qi, Prod.mk.injEq, resOK] at h1 h2
      exact ⟨h2.1, h2.2, h1.1⟩
    | none =>
      simp only [specStep, Op.qi, Prod.mk.injEq] at h1
      exact h1.1
  | _ =>
    simp only [specStep, Op.qi, Prod.mk.injEq] at h1
    exact h1.1

/-- chunkqueue_reset(): the queue is empty, its counters are zero. -/
theorem c17_reset_empties (s : Sys) (i : Bool) :
    ((step s (.reset i)).1.get i).chunks = [] ∧ ((step s (.reset i)).1.get i).bytesIn = 0 ∧
      ((step s (.reset i)).1.get i).bytesOut = 0 := by
  cases i <;> exact ⟨rfl, rfl, rfl⟩

/-- No leak, no double release, for every history and every fault schedule:
    in a well-accounted system (every open descriptor is held by a chunk; a
    temp file's name exists iff a temp chunk owns it) every operation, failed
    or not, leaves the system well-accounted. -/
theorem c17_resources_conserved (base : Nat → Int) (s : Sys) (ops : List Op) (h : Acct base s) :
    Acct base (run s ops) :=
  h.of_conserve (run_conserve s ops)

/-- chunkqueue_reset() releases exactly what the queue holds: afterwards every
    descriptor and every temp-file name that is left belongs to the other
    queue. -/
theorem c17_reset_releases (base : Nat → Int) (s : Sys) (i : Bool) (h : Acct base s) (f : Nat) :
    ((step s (.reset i)).1.w.files f).nfd = csum false f (s.get (!i)).chunks ∧
      ((step s (.reset i)).1.w.files f).nlink = base f + csum true f (s.get (!i)).chunks := by
  have h' := h.of_conserve (step_conserve s (.reset i)) f
  cases i
  · simpa [Sys.chunks, step, reset, Sys.get, Sys.set] using h'
  · simpa [Sys.chunks, step, reset, Sys.get, Sys.set] using h'

/-- After both queues are reset nothing the queues created is left: no open
    descriptor, no temp file (the names that remain are the `base` ones). -/
theorem c17_reset_releases_all (base : Nat → Int) (s : Sys) (ops : List Op) (h : Acct base s) (f : Nat) :
    ((run s (ops ++ [.reset false, .reset true])).w.files f).nfd = 0 ∧
      ((run s (ops ++ [.reset false, .reset true])).w.files f).nlink = base f := by
  have h' := c17_resources_conserved base s (ops ++ [.reset false, .reset true]) h f
  have hc : (run s (ops ++ [.reset false, .reset true])).chunks = [] := by
    have : ∀ (t : Sys), (run t [.reset false, .reset true]).chunks = [] := fun t => rfl
    have hrun : ∀ (a b : List Op) (t : Sys), run t (a ++ b) = run (run t a) b := by
      intro a
      induction a with
      | nil => intro b t; rfl
      | cons x xs ih => intro b t; exact ih b _
    rw [hrun]; exact this _
  rw [hc] at h'
  simpa using h'

/-! ### non-vacuity -/

/-- the invariant holds initially, whatever the configuration and schedules -/
example (w : World) (h : w.nfiles = 0) (hfiles : ∀ fid, (w.files fid).content = []) : Inv (init w h) :=
  ⟨fun fid _ => by simp [sz, hfiles, init], ⟨ValidAll.nil _, rfl⟩, ⟨ValidAll.nil _, rfl⟩⟩

/-- a concrete history: append, spill to a temp file under a short write
    followed by ENOSPC with a second upload dir, steal, read -/
def demoWorld : World := { cs := 1024, defTempSize := 4096, ndirs := 2, wsched := [.short 2, .enospc] }

def demoOps : List Op :=
  [.appendMem false [1, 2, 3, 4, 5], .stealWithTempfiles true 4, .steal false 1, .readData true 2]

example : (run (init demoWorld rfl) demoOps).abs true = [4] := by decide
example : (run (init demoWorld rfl) demoOps).abs false = [5, 1] := by decide
example : ((run (init demoWorld rfl) demoOps).get true).length = 1 := by decide
example : OpOK (init demoWorld rfl) (.appendMem false [1, 2, 3]) := trivial
/-- the initial system is well-accounted (no names, no descriptors, no chunks) -/
example : Acct (fun _ => 0) (init demoWorld rfl) := fun _ => ⟨rfl, rfl⟩
/-- the demo history really creates temp files (two of them, the second after
    ENOSPC; the first one is unlinked again once its last byte is consumed) -/
example : ((run (init demoWorld rfl) demoOps).w.files 0).nlink = 0 ∧
    ((run (init demoWorld rfl) demoOps).w.files 1).nlink = 1 ∧ (run (init demoWorld rfl) demoOps).w.nfiles = 2 := by
  decide
example : (Op.steal true 4).spills = false := rfl

end LtVerif.C17
