/-
  C17 — the chunk queue is an exact FIFO byte stream under all operations and
  temp-file write faults.  Property theorems only (helper lemmas live in
  LtVerif/Proofs/Cq.lean).
-/
import LtVerif.Model.Cq
namespace LtVerif.C17
open LtVerif LtVerif.Cq

theorem c17_placeholder (w : World) (q : Cq) : (reset w q).2.chunks = [] := rfl

end LtVerif.C17
