/-
  C17 — the chunk queue is an exact FIFO byte stream under all operations and
  temp-file write faults.  Property theorems only (helper lemmas, the system
  invariants `Inv` / `FInv` / `Acct` and the reference semantics `specStep`
  live in LtVerif/Proofs/Cq*.lean).

  The theorems are about the closed system `Sys` of two chunk queues over one
  `World` (file store, chunk pool, upload dirs and the scripted results of the
  temp-file syscalls).  `step : Sys → Op → Sys × Res` is one operation of
  src/chunk.c, `run` a whole history.  Fault schedules are part of the world
  (`wsched`, `msched`): a theorem about all `s : Sys` is a theorem about all
  fault schedules.  `s.abs i` are the bytes queue `i` holds.
-/
import LtVerif.Proofs.CqSpill
namespace LtVerif.C17
open LtVerif LtVerif.Cq

/-- the empty system: no files, two empty queues; `w` carries the configuration
    and the fault schedules -/
def init (w : World) (_ : w.nfiles = 0) : Sys := { w := w, q0 := {}, q1 := {} }

/-- The invariant behind everything below is inductive: every operation, under
    every fault schedule, successful or failed, keeps it (exact counters, chunks
    inside their files, one owning chunk per temp file spanning the whole file,
    names and ghost lengths accounted for). -/
theorem c17_invariant (base : Nat → Int) (s : Sys) (ops : List Op) (h : FInv base s)
    (hops : ∀ (pre : List Op) (op : Op) (post : List Op), ops = pre ++ op :: post → OpOK (run s pre) op) :
    FInv base (run s ops) :=
  run_finv s ops h hops

/-- Exact accounting, for every history and every fault schedule: after any
    sequence of operations (successful or failed) the length each queue reports
    (bytes_in − bytes_out) is the number of bytes it still holds. -/
theorem c17_length_exact (s : Sys) (ops : List Op) (h : Inv s)
    (hops : ∀ (pre : List Op) (op : Op) (post : List Op), ops = pre ++ op :: post → OpOK (run s pre) op)
    (i : Bool) :
    Inv (run s ops) ∧ ((run s ops).get i).length = (((run s ops).abs i).length : Int) := by
  have hi := run_inv s ops h hops
  exact ⟨hi, hi.length_abs i⟩

/-- FIFO refinement, all operations: unless a spilling operation reports an
    error (see `c17_fault_safe`), every operation acts on the queued bytes
    exactly like the byte-string reference queue `specStep` — append at the
    tail, consume at the head, transfers (with or without spilling to temp
    files, under short writes, EINTR and ENOSPC fallback) move a prefix of the
    source to the tail of the destination, compaction / squash / removal of
    empty chunks change nothing — and peek/read hand out the head of the queue
    unmodified. -/
theorem c17_refines_fifo (base : Nat → Int) (s : Sys) (op : Op) (h : FInv base s) (hop : OpOK s op)
    (hok : op.spills = true → (step s op).2 = .rc true) :
    ((step s op).1.abs op.qi, (step s op).1.abs (!op.qi)) =
        specStep (fun fid => (s.w.files fid).content) (s.abs op.qi) (s.abs (!op.qi)) op (step s op).2 ∧
      resOK (s.abs op.qi) op (step s op).2 := by
  by_cases hns : op.spills = false
  · exact step_refines s op h.inv hop hns
  · have hsp : op.spills = true := by cases hb : op.spills <;> simp_all
    have hres := (step_finv s op h hop).2
    have hrc := hok hsp
    cases op with
    | appendMemToTempfile qi d =>
      simp only [SpillRes, hrc, AppOrPrefix, if_true] at hres
      simp only [hrc, specStep, Op.qi, resOK, and_true]
      exact Prod.ext hres.1 hres.2
    | stealWithTempfiles qi n =>
      simp only [SpillRes, hrc, Transfer, if_true] at hres
      obtain ⟨k, k1, k2, k3, k4, k5⟩ := hres
      simp only [hrc, specStep, Op.qi, resOK, and_true]
      refine Prod.ext ?_ ?_
      · simp only [k5, k4]
        congr 1
        rw [List.take_eq_take_iff]; omega
      · simp only [k3, k4]
        by_cases hle : n ≤ (s.abs (!qi)).length
        · rw [Nat.min_eq_left hle]
        · rw [Nat.min_eq_right (by omega), List.drop_of_length_le (Nat.le_refl _),
            List.drop_of_length_le (by omega)]
    | _ => cases hsp

/-- Fault safety: when a spilling operation reports an error, nothing is
    duplicated or reordered.  append_mem_to_tempfile leaves a prefix of (old
    bytes ++ offered bytes); steal_with_tempfiles has taken exactly some k ≤ n
    bytes out of the source and the destination holds a prefix of (old bytes ++
    those k bytes); the other queue is untouched.  (On success the same facts
    hold with equality: `ok = true`.)  The invariant survives: the error is
    surfaced, the queues stay consistent. -/
theorem c17_fault_safe (base : Nat → Int) (s : Sys) (h : FInv base s) (qi : Bool) :
    (∀ d ok, (step s (.appendMemToTempfile qi d)).2 = .rc ok →
      FInv base (step s (.appendMemToTempfile qi d)).1 ∧
      (if ok then (step s (.appendMemToTempfile qi d)).1.abs qi = s.abs qi ++ d
        else (step s (.appendMemToTempfile qi d)).1.abs qi <+: s.abs qi ++ d) ∧
      (step s (.appendMemToTempfile qi d)).1.abs (!qi) = s.abs (!qi)) ∧
    (∀ n ok, (step s (.stealWithTempfiles qi n)).2 = .rc ok →
      FInv base (step s (.stealWithTempfiles qi n)).1 ∧
      ∃ k, k ≤ n ∧ k ≤ (s.abs (!qi)).length ∧
        (step s (.stealWithTempfiles qi n)).1.abs (!qi) = (s.abs (!qi)).drop k ∧
        (if ok then k = min n (s.abs (!qi)).length ∧
            (step s (.stealWithTempfiles qi n)).1.abs qi = s.abs qi ++ (s.abs (!qi)).take k
          else (step s (.stealWithTempfiles qi n)).1.abs qi <+: s.abs qi ++ (s.abs (!qi)).take k)) := by
  refine ⟨fun d ok hrc => ?_, fun n ok hrc => ?_⟩
  · obtain ⟨hf, hres⟩ := step_finv s (.appendMemToTempfile qi d) h trivial
    simp only [SpillRes, hrc, AppOrPrefix] at hres
    exact ⟨hf, hres.1, hres.2⟩
  · obtain ⟨hf, hres⟩ := step_finv s (.stealWithTempfiles qi n) h trivial
    simp only [SpillRes, hrc, Transfer] at hres
    exact ⟨hf, hres⟩

/-- chunkqueue_steal(): the first min(n, |src|) bytes of src move to the tail
    of dest, in order and unmodified; nothing else changes. -/
theorem c17_steal_fifo (s : Sys) (i : Bool) (n : Nat) (h : Inv s) :
    (step s (.steal i n)).1.abs i = s.abs i ++ (s.abs (!i)).take n ∧
      (step s (.steal i n)).1.abs (!i) = (s.abs (!i)).drop n := by
  have := (step_refines s (.steal i n) h trivial rfl).1
  simp only [specStep, Op.qi, Prod.mk.injEq] at this
  exact this

/-- chunkqueue_read_data(): on success the caller gets exactly the first n
    queued bytes and they are consumed; on failure nothing is consumed. -/
theorem c17_read_data (s : Sys) (i : Bool) (n : Nat) (h : Inv s) :
    match (step s (.readData i n)).2 with
    | .read (some d) => d = (s.abs i).take n ∧ d.length = n ∧ (step s (.readData i n)).1.abs i = (s.abs i).drop n
    | _ => (step s (.readData i n)).1.abs i = s.abs i := by
  obtain ⟨h1, h2⟩ := step_refines s (.readData i n) h trivial rfl
  generalize (step s (.readData i n)).2 = r at h1 h2
  cases r with
  | read d =>
    cases d with
    | some d =>
      simp only [specStep, Op.qi, Prod.mk.injEq, resOK] at h1 h2
      exact ⟨h2.1, h2.2, h1.1⟩
    | none =>
      simp only [specStep, Op.qi, Prod.mk.injEq] at h1
      exact h1.1
  | _ =>
    simp only [specStep, Op.qi, Prod.mk.injEq] at h1
    exact h1.1

/-- chunkqueue_reset(): the queue is empty, its counters are zero. -/
theorem c17_reset_empties (s : Sys) (i : Bool) :
    ((step s (.reset i)).1.get i).chunks = [] ∧ ((step s (.reset i)).1.get i).bytesIn = 0 ∧
      ((step s (.reset i)).1.get i).bytesOut = 0 := by
  cases i <;> exact ⟨rfl, rfl, rfl⟩

/-- No leak, no double release, for every history and every fault schedule:
    in a well-accounted system (every open descriptor is held by a chunk; a
    temp file's name exists iff a temp chunk owns it) every operation, failed
    or not, leaves the system well-accounted. -/
theorem c17_resources_conserved (base : Nat → Int) (s : Sys) (ops : List Op) (h : Acct base s) :
    Acct base (run s ops) :=
  h.of_conserve (run_conserve s ops)

/-- chunkqueue_reset() releases exactly what the queue holds: afterwards every
    descriptor and every temp-file name that is left belongs to the other
    queue. -/
theorem c17_reset_releases (base : Nat → Int) (s : Sys) (i : Bool) (h : Acct base s) (f : Nat) :
    ((step s (.reset i)).1.w.files f).nfd = csum .fd f (s.get (!i)).chunks ∧
      ((step s (.reset i)).1.w.files f).nlink = base f + csum .name f (s.get (!i)).chunks := by
  have h' := h.of_conserve (step_conserve s (.reset i)) f
  cases i
  · have := h'; simp only [Sys.chunks, step, reset, Sys.get, Sys.set] at this; simp at this; exact ⟨this.1, this.2.1⟩
  · have := h'; simp only [Sys.chunks, step, reset, Sys.get, Sys.set] at this; simp at this; exact ⟨this.1, this.2.1⟩

/-- After both queues are reset nothing the queues created is left: no open
    descriptor, no temp file (the names that remain are the `base` ones). -/
theorem c17_reset_releases_all (base : Nat → Int) (s : Sys) (ops : List Op) (h : Acct base s) (f : Nat) :
    ((run s (ops ++ [.reset false, .reset true])).w.files f).nfd = 0 ∧
      ((run s (ops ++ [.reset false, .reset true])).w.files f).nlink = base f := by
  have h' := c17_resources_conserved base s (ops ++ [.reset false, .reset true]) h f
  have hc : (run s (ops ++ [.reset false, .reset true])).chunks = [] := by
    have : ∀ (t : Sys), (run t [.reset false, .reset true]).chunks = [] := fun t => rfl
    have hrun : ∀ (a b : List Op) (t : Sys), run t (a ++ b) = run (run t a) b := by
      intro a
      induction a with
      | nil => intro b t; rfl
      | cons x xs ih => intro b t; exact ih b _
    rw [hrun]; exact this _
  rw [hc] at h'
  simp at h'
  exact ⟨h'.1, h'.2.1⟩

/-! ### non-vacuity -/

/-- a concrete configuration: 1 KiB chunks, two upload dirs, and a write
    schedule with a short write followed by ENOSPC -/
def demoWorld : World := { cs := 1024, defTempSize := 4096, ndirs := 2, wsched := [.short 2, .enospc] }

/-- the invariants hold initially -/
example : Inv (init demoWorld rfl) :=
  ⟨fun fid _ => rfl, ⟨ValidAll.nil _, rfl⟩, ⟨ValidAll.nil _, rfl⟩⟩

example : FInv (fun _ => 0) (init demoWorld rfl) :=
  ⟨⟨fun fid _ => rfl, ⟨ValidAll.nil _, rfl⟩, ⟨ValidAll.nil _, rfl⟩⟩,
   ⟨fun fid _ => rfl,
    ⟨fun f => by simp [init, demoWorld], fun f _ => by simp [init, demoWorld],
     fun f hf => by simp [init, demoWorld] at hf⟩,
    ValidAll.nil _, fun f => ⟨rfl, rfl⟩⟩,
   fun f => ⟨Int.le_refl _, fun hf => by simp [init, demoWorld] at hf⟩⟩

example : Acct (fun _ => 0) (init demoWorld rfl) := fun _ => ⟨rfl, rfl, rfl⟩

/-- a concrete history: append, spill to a temp file under a short write
    followed by ENOSPC with a second upload dir, steal, read -/
def demoOps : List Op :=
  [.appendMem false [1, 2, 3, 4, 5], .stealWithTempfiles true 4, .steal false 1, .readData true 2]

example : (run (init demoWorld rfl) demoOps).abs true = [4] := by decide
example : (run (init demoWorld rfl) demoOps).abs false = [5, 1] := by decide
example : ((run (init demoWorld rfl) demoOps).get true).length = 1 := by decide
example : OpOK (init demoWorld rfl) (.appendMem false [1, 2, 3]) := trivial
/-- the demo history really creates temp files (two of them, the second after
    ENOSPC; the first one is unlinked again once its last byte is consumed) -/
example : ((run (init demoWorld rfl) demoOps).w.files 0).nlink = 0 ∧
    ((run (init demoWorld rfl) demoOps).w.files 1).nlink = 1 ∧ (run (init demoWorld rfl) demoOps).w.nfiles = 2 := by
  decide
/-- a spill that fails: every upload dir is full (ENOSPC twice with two dirs):
    the error is reported and the three bytes that made it stay a prefix -/
def failWorld : World := { cs := 1024, ndirs := 2, wsched := [.short 3, .enospc, .enospc] }
example : (step (step (init failWorld rfl) (.appendMem false [1, 2, 3, 4, 5])).1 (.stealWithTempfiles true 5)).2 =
    .rc false := by decide
example : (step (step (init failWorld rfl) (.appendMem false [1, 2, 3, 4, 5])).1
    (.stealWithTempfiles true 5)).1.abs true = [1, 2, 3] := by decide
example : (step (step (init failWorld rfl) (.appendMem false [1, 2, 3, 4, 5])).1
    (.stealWithTempfiles true 5)).1.abs false = [4, 5] := by decide

end LtVerif.C17
