/-
  C17 — the chunk queue is an exact FIFO byte stream under all operations and
  temp-file write faults.  Property theorems only (helper lemmas, the system
  invariants `Inv` / `FInv` / `Acct` and the reference semantics `specStep`
  live in LtVerif/Proofs/Cq*.lean).

  The theorems are about the closed system `Sys` of two chunk queues over one
  `World` (file store, chunk pool, upload dirs and the scripted results of the
  temp-file syscalls).  `step : Sys → Op → Sys × Res` is one operation of
  src/chunk.c, `run` a whole history.  Fault schedules are part of the world
  (`wsched`, `msched`): a theorem about all `s : Sys` is a theorem about all
  fault schedules.  `s.abs i` are the bytes queue `i` holds, read off the
  model's file store (which keeps the content of unlinked files);
  `c17_read_progress` / `c17_peek_progress` show that these are exactly the
  bytes a reader gets: the read operations of the model fail, like the C, on a
  chunk whose file can no longer be opened, and under the invariant they do not
  fail.
-/
import LtVerif.Proofs.CqRead
import LtVerif.Proofs.CqLive
import LtVerif.Proofs.CqFuel
import LtVerif.Proofs.CqKeep
import LtVerif.Proofs.CqSplice
namespace LtVerif.C17
open LtVerif LtVerif.Cq

/-- the empty system: no files, two empty queues; `w` carries the configuration
    and the fault schedules -/
def init (w : World) (_ : w.nfiles = 0) : Sys := { w := w, q0 := {}, q1 := {} }

/-- The invariant behind everything below is inductive: every operation, under
    every fault schedule, successful or failed, keeps it (exact counters, chunks
    inside their files, every file chunk readable — it holds a descriptor, owns
    its temp file's name, or names a file of the application —, one owning chunk
    per temp file spanning the whole file, names and ghost lengths accounted
    for). -/
theorem c17_invariant (base : Nat → Int) (s : Sys) (ops : List Op) (h : FInv base s)
    (hops : ∀ (pre : List Op) (op : Op) (post : List Op), ops = pre ++ op :: post → OpOK (run s pre) op) :
    FInv base (run s ops) :=
  run_finv s ops h hops

/-- Exact accounting, for every history and every fault schedule: after any
    sequence of operations (successful or failed) the length each queue reports
    (bytes_in − bytes_out) is the number of bytes it still holds. -/
theorem c17_length_exact (s : Sys) (ops : List Op) (h : Inv s)
    (hops : ∀ (pre : List Op) (op : Op) (post : List Op), ops = pre ++ op :: post → OpOK (run s pre) op)
    (i : Bool) :
    Inv (run s ops) ∧ ((run s ops).get i).length = (((run s ops).abs i).length : Int) := by
  have hi := run_inv s ops h hops
  exact ⟨hi, hi.length_abs i⟩

/-- FIFO refinement, all operations: unless a spilling operation reports an
    error (see `c17_fault_safe`), every operation acts on the queued bytes
    exactly like the byte-string reference queue `specStep` — append at the
    tail, consume at the head, transfers (with or without spilling to temp
    files, under short writes, EINTR and ENOSPC fallback) move a prefix of the
    source to the tail of the destination, compaction / squash / removal of
    empty chunks change nothing — and peek/read hand out the head of the queue
    unmodified. -/
theorem c17_refines_fifo (base : Nat → Int) (s : Sys) (op : Op) (h : FInv base s) (hop : OpOK s op)
    (hok : op.spills = true → (step s op).2 = .rc true) :
    ((step s op).1.abs op.qi, (step s op).1.abs (!op.qi)) =
        specStep (fun fid => (s.w.files fid).content) (s.abs op.qi) (s.abs (!op.qi)) op (step s op).2 ∧
      resOK (s.abs op.qi) op (step s op).2 := by
  by_cases hns : op.spills = false
  · exact step_refines s op h.inv hop hns
  · have hsp : op.spills = true := by cases hb : op.spills <;> simp_all
    have hres := (step_finv s op h hop).2
    have hrc := hok hsp
    cases op with
    | appendMemToTempfile qi d =>
      simp only [SpillRes, hrc, AppOrPrefix, if_true] at hres
      simp only [hrc, specStep, Op.qi, resOK, and_true]
      exact Prod.ext hres.1 hres.2
    | stealWithTempfiles qi n =>
      simp only [SpillRes, hrc, Transfer, if_true] at hres
      obtain ⟨k, k1, k2, k3, k4, k5⟩ := hres
      simp only [hrc, specStep, Op.qi, resOK, and_true]
      refine Prod.ext ?_ ?_
      · simp only [k5, k4]
        congr 1
        rw [List.take_eq_take_iff]; omega
      · simp only [k3, k4]
        by_cases hle : n ≤ (s.abs (!qi)).length
        · rw [Nat.min_eq_left hle]
        · rw [Nat.min_eq_right (by omega), List.drop_of_length_le (Nat.le_refl _),
            List.drop_of_length_le (by omega)]
    | _ => cases hsp

/-- Fault safety: when a spilling operation reports an error, nothing is
    duplicated, reordered or modified.  append_mem_to_tempfile leaves a prefix
    of (old bytes ++ offered bytes); steal_with_tempfiles has taken exactly some
    k ≤ n bytes out of the source and the destination holds a prefix of (old
    bytes ++ those k bytes); the other queue is untouched.  (On success the same
    facts hold with equality: `ok = true`.)  The invariant survives: the error
    is surfaced, the queues stay consistent.
    NOT claimed: that the destination keeps the bytes it held before the failed
    call.  chunkqueue_to_tempfiles() releases what is left of its private copy
    of the queue when a write fails, so bytes queued in MEM chunks of the
    destination before the call can be gone afterwards (the caller is told -1
    and gives the request up): `c17_fault_drops_queued_bytes` below is a witness.
    The loss is always a suffix (what stays is a prefix), and it is reported;
    it is confined to destinations that hold MEM chunks: `c17_fault_keeps`. -/
theorem c17_fault_safe (base : Nat → Int) (s : Sys) (h : FInv base s) (qi : Bool) :
    (∀ d ok, (step s (.appendMemToTempfile qi d)).2 = .rc ok →
      FInv base (step s (.appendMemToTempfile qi d)).1 ∧
      (if ok then (step s (.appendMemToTempfile qi d)).1.abs qi = s.abs qi ++ d
        else (step s (.appendMemToTempfile qi d)).1.abs qi <+: s.abs qi ++ d) ∧
      (step s (.appendMemToTempfile qi d)).1.abs (!qi) = s.abs (!qi)) ∧
    (∀ n ok, (step s (.stealWithTempfiles qi n)).2 = .rc ok →
      FInv base (step s (.stealWithTempfiles qi n)).1 ∧
      ∃ k, k ≤ n ∧ k ≤ (s.abs (!qi)).length ∧
        (step s (.stealWithTempfiles qi n)).1.abs (!qi) = (s.abs (!qi)).drop k ∧
        (if ok then k = min n (s.abs (!qi)).length ∧
            (step s (.stealWithTempfiles qi n)).1.abs qi = s.abs qi ++ (s.abs (!qi)).take k
          else (step s (.stealWithTempfiles qi n)).1.abs qi <+: s.abs qi ++ (s.abs (!qi)).take k)) := by
  refine ⟨fun d ok hrc => ?_, fun n ok hrc => ?_⟩
  · obtain ⟨hf, hres⟩ := step_finv s (.appendMemToTempfile qi d) h trivial
    simp only [SpillRes, hrc, AppOrPrefix] at hres
    exact ⟨hf, hres.1, hres.2⟩
  · obtain ⟨hf, hres⟩ := step_finv s (.stealWithTempfiles qi n) h trivial
    simp only [SpillRes, hrc, Transfer] at hres
    exact ⟨hf, hres⟩

/-- What a failed spill keeps.  The bytes `c17_fault_safe` allows to disappear
    are those chunkqueue_to_tempfiles() held in its private copy, and that
    function is entered only for MEM chunks of the destination.  When the
    destination holds no MEM chunk (the usual state of a request body queue that
    is being spilled: temp-file chunks only) a reported error loses nothing:
    append_mem_to_tempfile keeps every byte the queue held (plus a prefix of the
    offered bytes), and steal_with_tempfiles has moved exactly k ≤ n bytes — the
    source lost them, the destination holds all of them behind its old bytes. -/
theorem c17_fault_keeps (base : Nat → Int) (s : Sys) (h : FInv base s) (qi : Bool)
    (hn : ∀ c ∈ (s.get qi).chunks, c.isMem = false) :
    (∀ d, (step s (.appendMemToTempfile qi d)).2 = .rc false →
      s.abs qi <+: (step s (.appendMemToTempfile qi d)).1.abs qi) ∧
    (∀ n, (step s (.stealWithTempfiles qi n)).2 = .rc false →
      ∃ k, k ≤ n ∧ k ≤ (s.abs (!qi)).length ∧
        (step s (.stealWithTempfiles qi n)).1.abs (!qi) = (s.abs (!qi)).drop k ∧
        (step s (.stealWithTempfiles qi n)).1.abs qi = s.abs qi ++ (s.abs (!qi)).take k) := by
  have hfs := c17_fault_safe base s h qi
  refine ⟨fun d hrc => ?_, fun n hrc => ?_⟩
  · obtain ⟨hf', hpre, _⟩ := hfs.1 d false hrc
    simp only [Bool.false_eq_true, if_false] at hpre
    refine List.prefix_of_prefix_length_le (List.prefix_append _ _) hpre ?_
    have l0 := h.inv.length_abs qi
    have l1 := hf'.inv.length_abs qi
    have hk := appendMemToTempfile_keeps s.w (s.get qi) d hn
    have hget : (step s (.appendMemToTempfile qi d)).1.get qi = (appendMemToTempfile s.w (s.get qi) d).2.1 := by
      simp only [step]; cases qi <;> rfl
    rw [hget] at l1
    omega
  · obtain ⟨hf', k, k1, k2, k3, k4⟩ := hfs.2 n false hrc
    simp only [Bool.false_eq_true, if_false] at k4
    refine ⟨k, k1, k2, k3, List.IsPrefix.eq_of_length k4 ?_⟩
    have a0 := h.inv.length_abs qi
    have b0 := h.inv.length_abs (!qi)
    have a1 := hf'.inv.length_abs qi
    have b1 := hf'.inv.length_abs (!qi)
    have hk := stealWithTempfiles_keeps s.w (s.get qi) (s.get (!qi)) n hn
    have hget : (step s (.stealWithTempfiles qi n)).1.get qi = (stealWithTempfiles s.w (s.get qi) (s.get (!qi)) n).2.1 ∧
        (step s (.stealWithTempfiles qi n)).1.get (!qi) = (stealWithTempfiles s.w (s.get qi) (s.get (!qi)) n).2.2.1 := by
      simp only [step]; cases qi <;> exact ⟨rfl, rfl⟩
    rw [hget.1] at a1
    rw [hget.2] at b1
    rw [k3, List.length_drop] at b1
    rw [List.length_append, List.length_take, Nat.min_eq_left k2]
    omega

/-- Retryable write results never surface as an error: when every scripted
    result of the temp-file writes is ok, a short write (of any length), EINTR
    or ENOSPC (anything but EIO), no mkostemp() fails, the destination queue has
    more upload dirs left than ENOSPC results are to come (with `$TMPDIR` only:
    none comes) and no temp chunk holds a read-only descriptor (a closed temp
    file re-opened by a reader: the kernel answers EBADF), then
    append_mem_to_tempfile and steal_with_tempfiles report success — short
    writes are continued, EINTR retried, ENOSPC falls back to the next upload
    dir — for every layout of both queues, every length, every such schedule.
    In particular the iteration bounds (`fuel`) of the model's retry loops are
    never the reason for a reported error under these schedules, and the nested
    chunkqueue_to_tempfiles() never needs a second nesting. -/
theorem c17_retryable_never_fails (s : Sys) (qi : Bool)
    (hws : ∀ f ∈ s.w.wsched, f ≠ .eio)
    (hms : ∀ b ∈ s.w.msched, b = false)
    (hdir : (s.w.ndirs = 0 ∧ s.w.wsched.count .enospc = 0) ∨
      (s.get qi).tdIdx + s.w.wsched.count .enospc < s.w.ndirs)
    (hro : ∀ fid off len, Chunk.file fid off len true .ro ∉ s.chunks) :
    (∀ d, (step s (.appendMemToTempfile qi d)).2 = .rc true) ∧
      (∀ n, (step s (.stealWithTempfiles qi n)).2 = .rc true) := by
  have hb : Benign s.w := by
    refine ⟨fun f hf => ?_, hms⟩
    have := hws f hf
    cases f <;> first | rfl | exact absurd rfl this
  have hwr : ∀ i, AllWr (s.get i).chunks := by
    intro i c hc
    have hm := Sys.mem_chunks i hc
    cases c with
    | mem d off cap => trivial
    | file fid off len t fd =>
      cases t
      · cases fd <;> trivial
      · cases fd
        · trivial
        · exact absurd hm (hro fid off len)
        · trivial
  have hg : Good s.w (s.get qi) := ⟨hb, hdir, hwr qi⟩
  refine ⟨fun d => ?_, fun n => ?_⟩
  · have := appendMemToTempfile_good d hg
    simp only [step]
    exact congrArg Res.rc this
  · have := stealWithTempfiles_good (src := s.get (!qi)) n hg (hwr (!qi))
    simp only [step]
    exact congrArg Res.rc this

/-- … hence under such schedules the spilling operations are exact FIFO
    transfers, unconditionally (no "unless an error is reported"). -/
theorem c17_retryable_fifo (base : Nat → Int) (s : Sys) (qi : Bool) (h : FInv base s)
    (hws : ∀ f ∈ s.w.wsched, f ≠ .eio)
    (hms : ∀ b ∈ s.w.msched, b = false)
    (hdir : (s.w.ndirs = 0 ∧ s.w.wsched.count .enospc = 0) ∨
      (s.get qi).tdIdx + s.w.wsched.count .enospc < s.w.ndirs)
    (hro : ∀ fid off len, Chunk.file fid off len true .ro ∉ s.chunks) :
    (∀ d, (step s (.appendMemToTempfile qi d)).1.abs qi = s.abs qi ++ d ∧
      (step s (.appendMemToTempfile qi d)).1.abs (!qi) = s.abs (!qi)) ∧
    (∀ n, (step s (.stealWithTempfiles qi n)).1.abs qi = s.abs qi ++ (s.abs (!qi)).take n ∧
      (step s (.stealWithTempfiles qi n)).1.abs (!qi) = (s.abs (!qi)).drop n) := by
  obtain ⟨r1, r2⟩ := c17_retryable_never_fails s qi hws hms hdir hro
  refine ⟨fun d => ?_, fun n => ?_⟩
  · have := (c17_refines_fifo base s (.appendMemToTempfile qi d) h trivial (fun _ => r1 d)).1
    rw [r1 d] at this
    simp only [specStep, Op.qi, Prod.mk.injEq] at this
    exact this
  · have := (c17_refines_fifo base s (.stealWithTempfiles qi n) h trivial (fun _ => r2 n)).1
    rw [r2 n] at this
    simp only [specStep, Op.qi, Prod.mk.injEq] at this
    exact this

/-- The iteration bounds (`fuel`) the model gives to the loops of
    chunkqueue_steal_with_tempfiles() (outer call and the call nested in
    chunkqueue_to_tempfiles()) and chunkqueue_append_mem_to_tempfile() are never
    reached, whatever the fault schedule and the queues: with `k` more turns the
    loops return the same result.  (Every turn consumes a scripted write result,
    a byte of `len` or a chunk of the source.)  So an error the model reports is
    never an artefact of the bound — the C loops have none. -/
theorem c17_fuel_sufficient (w : World) (dest src q : Cq) (len : Nat) (d : Bytes) (k : Nat) :
    swLoop toTempfiles (swFuel w src len + k) w dest src len = stealWithTempfiles w dest src len ∧
      swLoop toTempStub (swFuel w src len + k) w dest src len = swInner w dest src len ∧
      mtLoop (w.wsched.length + 1 + k) w q d = mtLoop (w.wsched.length + 1) w q d :=
  ⟨swLoop_fuel toTempfiles_calm _ k w dest src len (by unfold swFuel; omega),
   swLoop_fuel (fun w _ => Calm.refl w) _ k w dest src len (by unfold swFuel; omega),
   mtLoop_fuel _ k w q d (Nat.le_refl _)⟩

/-- chunkqueue_steal(): the first min(n, |src|) bytes of src move to the tail
    of dest, in order and unmodified; nothing else changes. -/
theorem c17_steal_fifo (s : Sys) (i : Bool) (n : Nat) (h : Inv s) :
    (step s (.steal i n)).1.abs i = s.abs i ++ (s.abs (!i)).take n ∧
      (step s (.steal i n)).1.abs (!i) = (s.abs (!i)).drop n := by
  have := (step_refines s (.steal i n) h trivial rfl).1
  simp only [specStep, Op.qi, Prod.mk.injEq] at this
  exact this

/-- chunkqueue_read_data(): on success the caller gets exactly the first n
    queued bytes and they are consumed; on failure nothing is consumed. -/
theorem c17_read_data (s : Sys) (i : Bool) (n : Nat) (h : Inv s) :
    match (step s (.readData i n)).2 with
    | .read (some d) => d = (s.abs i).take n ∧ d.length = n ∧ (step s (.readData i n)).1.abs i = (s.abs i).drop n
    | _ => (step s (.readData i n)).1.abs i = s.abs i := by
  obtain ⟨h1, h2⟩ := step_refines s (.readData i n) h trivial rfl
  generalize (step s (.readData i n)).2 = r at h1 h2
  cases r with
  | read d =>
    cases d with
    | some d =>
      simp only [specStep, Op.qi, Prod.mk.injEq, resOK] at h1 h2
      exact ⟨h2.1, h2.2, h1.1⟩
    | none =>
      simp only [specStep, Op.qi, Prod.mk.injEq] at h1
      exact h1.1
  | _ =>
    simp only [specStep, Op.qi, Prod.mk.injEq] at h1
    exact h1.1

/-- chunkqueue_read_data() / chunkqueue_peek_data() make progress: in a system
    that satisfies the invariant, reading n ≤ length bytes succeeds, hands out
    exactly the first n queued bytes and consumes them.  No queued byte is ever
    unreachable (the temp file of a chunk without descriptor still has its name,
    a file chunk copied out of a temp chunk holds a descriptor of its own).
    Read faults (pread/open errors) are outside the model. -/
theorem c17_read_progress (base : Nat → Int) (s : Sys) (i : Bool) (n : Nat) (h : FInv base s)
    (hn : 0 < n) (hle : n ≤ (s.abs i).length) :
    (step s (.readData i n)).2 = .read (some ((s.abs i).take n)) ∧
      (step s (.readData i n)).1.abs i = (s.abs i).drop n := by
  have hr : (step s (.readData i n)).2 = .read (some ((s.abs i).take n)) := by
    have := readData_ok s.w (s.get i) n (h.inv.get i) (fun c hc => h.openable c (Sys.mem_chunks i hc)) hn hle
    simp only [step]
    exact congrArg Res.read this
  refine ⟨hr, ?_⟩
  have := c17_read_data s i n h.inv
  rw [hr] at this
  exact this.2.2

theorem c17_peek_progress (base : Nat → Int) (s : Sys) (i : Bool) (n : Nat) (h : FInv base s) (hn : 0 < n) :
    (step s (.peekData i n)).2 = .peeked true ((s.abs i).take n) := by
  obtain ⟨a, b⟩ := peekData_ok s.w (s.get i) n (h.inv.get i) (fun c hc => h.openable c (Sys.mem_chunks i hc)) hn
  simp only [step]
  rw [a, b]
  rfl

/-- The FIFO refinement holds at every point of every history (any fault
    schedule): whatever operations ran before, the next one acts on the queued
    bytes like the reference queue (spilling operations: unless they report an
    error, see `c17_fault_safe`). -/
theorem c17_history_refines (base : Nat → Int) (s : Sys) (ops : List Op) (h : FInv base s)
    (hops : ∀ (pre : List Op) (op : Op) (post : List Op), ops = pre ++ op :: post → OpOK (run s pre) op)
    (pre : List Op) (op : Op) (post : List Op) (e : ops = pre ++ op :: post)
    (hok : op.spills = true → (step (run s pre) op).2 = .rc true) :
    ((step (run s pre) op).1.abs op.qi, (step (run s pre) op).1.abs (!op.qi)) =
        specStep (fun fid => ((run s pre).w.files fid).content) ((run s pre).abs op.qi)
          ((run s pre).abs (!op.qi)) op (step (run s pre) op).2 ∧
      resOK ((run s pre).abs op.qi) op (step (run s pre) op).2 := by
  have hrun : ∀ (a b : List Op) (t : Sys), run t (a ++ b) = run (run t a) b := by
    intro a
    induction a with
    | nil => intro b t; rfl
    | cons x xs ih => intro b t; exact ih b _
  have hpre : FInv base (run s pre) := by
    refine run_finv s pre h ?_
    intro p o q e'
    have := hops p o (q ++ op :: post) (by rw [e, e']; simp)
    exact this
  exact c17_refines_fifo base (run s pre) op hpre (hops pre op post e) hok

/-- reference step on the pair (bytes of queue 0, bytes of queue 1) -/
def specPair (files : Nat → Bytes) (p : Bytes × Bytes) (op : Op) (r : Res) : Bytes × Bytes :=
  if op.qi then ((specStep files p.2 p.1 op r).2, (specStep files p.2 p.1 op r).1)
  else specStep files p.1 p.2 op r

/-- reference run: the fold of `specStep` over the operations, each with the
    result it reported and the file contents at that time (what append_file
    refers to) -/
def specRun : Bytes × Bytes → List (Op × Res × (Nat → Bytes)) → Bytes × Bytes
  | p, [] => p
  | p, (op, r, files) :: t => specRun (specPair files p op r) t

/-- what a history lets its caller see: per operation the result reported -/
def trace (s : Sys) : List Op → List (Op × Res × (Nat → Bytes))
  | [] => []
  | op :: ops => (op, (step s op).2, fun fid => (s.w.files fid).content) :: trace (step s op).1 ops

def spillsOk : List (Op × Res × (Nat → Bytes)) → Prop
  | [] => True
  | (op, r, _) :: t => (op.spills = true → r = .rc true) ∧ spillsOk t

/-- History-level refinement: after any history in which no spilling operation
    reported an error, under any fault schedule, the two queues hold exactly
    what the byte-string reference queues hold after the same operations with
    the same reported results. -/
theorem c17_run_refines (base : Nat → Int) (s : Sys) (ops : List Op) (h : FInv base s)
    (hops : ∀ (pre : List Op) (op : Op) (post : List Op), ops = pre ++ op :: post → OpOK (run s pre) op)
    (hok : spillsOk (trace s ops)) :
    ((run s ops).abs false, (run s ops).abs true) = specRun (s.abs false, s.abs true) (trace s ops) := by
  induction ops generalizing s with
  | nil => rfl
  | cons op ops ih =>
    simp only [run, trace, specRun]
    simp only [trace, spillsOk] at hok
    have hop := hops [] op ops rfl
    have hstep := (c17_refines_fifo base s op h hop hok.1).1
    have hpair : specPair (fun fid => (s.w.files fid).content) (s.abs false, s.abs true) op (step s op).2 =
        ((step s op).1.abs false, (step s op).1.abs true) := by
      unfold specPair
      cases hq : op.qi with
      | false =>
        rw [hq] at hstep
        simp only [Bool.false_eq_true, if_false]
        exact hstep.symm
      | true =>
        rw [hq] at hstep
        simp only [if_true]
        simp only [Bool.not_true] at hstep
        rw [← hstep]
    rw [hpair]
    refine ih (step s op).1 (step_finv s op h hop).1 ?_ hok.2
    intro pre op' post e
    have := hops (op :: pre) op' post (by rw [e]; rfl)
    simpa [run] using this

/-- No leak, no double release, for every history and every fault schedule:
    in a well-accounted system (every open descriptor is held by a chunk; a
    temp file's name exists iff a temp chunk owns it) every operation, failed
    or not, leaves the system well-accounted. -/
theorem c17_resources_conserved (base : Nat → Int) (s : Sys) (ops : List Op) (h : Acct base s) :
    Acct base (run s ops) :=
  h.of_conserve (run_conserve s ops)

/-- chunkqueue_reset() releases exactly what the queue holds: afterwards every
    descriptor and every temp-file name that is left belongs to the other
    queue. -/
theorem c17_reset_releases (base : Nat → Int) (s : Sys) (i : Bool) (h : Acct base s) (f : Nat) :
    ((step s (.reset i)).1.w.files f).nfd = csum .fd f (s.get (!i)).chunks ∧
      ((step s (.reset i)).1.w.files f).nlink = base f + csum .name f (s.get (!i)).chunks := by
  have h' := h.of_conserve (step_conserve s (.reset i)) f
  cases i
  · have := h'; simp only [Sys.chunks, step, reset, Sys.get, Sys.set] at this; simp at this; exact ⟨this.1, this.2.1⟩
  · have := h'; simp only [Sys.chunks, step, reset, Sys.get, Sys.set] at this; simp at this; exact ⟨this.1, this.2.1⟩

/-- After both queues are reset nothing the queues created is left: no open
    descriptor, no temp file (the names that remain are the `base` ones). -/
theorem c17_reset_releases_all (base : Nat → Int) (s : Sys) (ops : List Op) (h : Acct base s) (f : Nat) :
    ((run s (ops ++ [.reset false, .reset true])).w.files f).nfd = 0 ∧
      ((run s (ops ++ [.reset false, .reset true])).w.files f).nlink = base f := by
  have h' := c17_resources_conserved base s (ops ++ [.reset false, .reset true]) h f
  have hc : (run s (ops ++ [.reset false, .reset true])).chunks = [] := by
    have : ∀ (t : Sys), (run t [.reset false, .reset true]).chunks = [] := fun t => rfl
    have hrun : ∀ (a b : List Op) (t : Sys), run t (a ++ b) = run (run t a) b := by
      intro a
      induction a with
      | nil => intro b t; rfl
      | cons x xs ih => intro b t; exact ih b _
    rw [hrun]; exact this _
  rw [hc] at h'
  simp at h'
  exact ⟨h'.1, h'.2.1⟩

/-! ### non-vacuity -/

/-- a concrete configuration: 1 KiB chunks, two upload dirs, and a write
    schedule with a short write followed by ENOSPC -/
def demoWorld : World := { cs := 1024, defTempSize := 4096, ndirs := 2, wsched := [.short 2, .enospc] }

/-- the invariants hold initially -/
example : Inv (init demoWorld rfl) :=
  ⟨fun fid _ => rfl, ⟨ValidAll.nil _, rfl⟩, ⟨ValidAll.nil _, rfl⟩⟩

example : FInv (fun _ => 0) (init demoWorld rfl) :=
  ⟨⟨fun fid _ => rfl, ⟨ValidAll.nil _, rfl⟩, ⟨ValidAll.nil _, rfl⟩⟩,
   ⟨fun fid _ => rfl,
    ⟨fun f => by simp [init, demoWorld], fun f _ => by simp [init, demoWorld],
     fun f hf => by simp [init, demoWorld] at hf⟩,
    ValidAll.nil _, fun f => ⟨rfl, rfl⟩⟩,
   fun f => ⟨Int.le_refl _, fun hf => by simp [init, demoWorld] at hf⟩⟩

example : Acct (fun _ => 0) (init demoWorld rfl) := fun _ => ⟨rfl, rfl, rfl⟩

/-- a concrete history: append, spill to a temp file under a short write
    followed by ENOSPC with a second upload dir, steal, read -/
def demoOps : List Op :=
  [.appendMem false [1, 2, 3, 4, 5], .stealWithTempfiles true 4, .steal false 1, .readData true 2]

example : (run (init demoWorld rfl) demoOps).abs true = [4] := by decide
example : (run (init demoWorld rfl) demoOps).abs false = [5, 1] := by decide
example : ((run (init demoWorld rfl) demoOps).get true).length = 1 := by decide
example : OpOK (init demoWorld rfl) (.appendMem false [1, 2, 3]) := trivial
/-- the hypothesis of `c17_run_refines` holds for the demo history (its spill,
    under a short write and ENOSPC with a second dir, reports success) -/
example : spillsOk (trace (init demoWorld rfl) demoOps) := by
  simp only [demoOps, trace, spillsOk]
  exact ⟨fun h => (by cases h), fun _ => (by decide), fun h => (by cases h), fun h => (by cases h), trivial⟩
/-- the demo history really creates temp files (two of them, the second after
    ENOSPC; the first one is unlinked again once its last byte is consumed) -/
example : ((run (init demoWorld rfl) demoOps).w.files 0).nlink = 0 ∧
    ((run (init demoWorld rfl) demoOps).w.files 1).nlink = 1 ∧ (run (init demoWorld rfl) demoOps).w.nfiles = 2 := by
  decide
/-- a spill that fails: every upload dir is full (ENOSPC twice with two dirs):
    the error is reported and the three bytes that made it stay a prefix -/
def failWorld : World := { cs := 1024, ndirs := 2, wsched := [.short 3, .enospc, .enospc] }
example : (step (step (init failWorld rfl) (.appendMem false [1, 2, 3, 4, 5])).1 (.stealWithTempfiles true 5)).2 =
    .rc false := by decide
example : (step (step (init failWorld rfl) (.appendMem false [1, 2, 3, 4, 5])).1
    (.stealWithTempfiles true 5)).1.abs true = [1, 2, 3] := by decide
example : (step (step (init failWorld rfl) (.appendMem false [1, 2, 3, 4, 5])).1
    (.stealWithTempfiles true 5)).1.abs false = [4, 5] := by decide

/-- the error case of `c17_fault_safe` can drop bytes the destination held
    before the call: dest [1,2,3] (MEM), src [4,5], one byte reaches the temp
    file, then the only upload dir is full: -1 is reported, dest holds [1], src
    is untouched (chunkqueue_to_tempfiles() released its copy of [2,3]) -/
def dropWorld : World := { cs := 1024, ndirs := 1, wsched := [.short 1, .enospc] }
def dropSys : Sys := (step (step (init dropWorld rfl) (.appendMem true [1, 2, 3])).1 (.appendMem false [4, 5])).1
theorem c17_fault_drops_queued_bytes :
    dropSys.abs true = [1, 2, 3] ∧ (step dropSys (.stealWithTempfiles true 2)).2 = .rc false ∧
      (step dropSys (.stealWithTempfiles true 2)).1.abs true = [1] ∧
      (step dropSys (.stealWithTempfiles true 2)).1.abs false = [4, 5] := by decide

/-- chunkqueue_reset(): the queue is empty, its counters are zero (by definition
    of the model's reset; what it releases is `c17_reset_releases`) -/
example (s : Sys) (i : Bool) :
    ((step s (.reset i)).1.get i).chunks = [] ∧ ((step s (.reset i)).1.get i).bytesIn = 0 ∧
      ((step s (.reset i)).1.get i).bytesOut = 0 := by
  cases i <;> exact ⟨rfl, rfl, rfl⟩

/-- `c17_retryable_never_fails` is not vacuous: short writes, EINTR and an
    ENOSPC (two upload dirs) in the schedule, MEM chunks in both queues, a temp
    file that fills up -/
def retryWorld : World :=
  { cs := 1024, defTempSize := 3, ndirs := 2,
    wsched := [.short 1, .enospc, .eintr, .short 2, .short 0, .ok, .eintr] }
def retrySys : Sys :=
  (step (step (init retryWorld rfl) (.appendMem true [1, 2, 3])).1 (.appendMem false [4, 5, 6, 7])).1
example : (step retrySys (.stealWithTempfiles true 3)).2 = .rc true ∧
    (step retrySys (.stealWithTempfiles true 3)).1.abs true = [1, 2, 3, 4, 5, 6] ∧
    (step retrySys (.stealWithTempfiles true 3)).1.abs false = [7] ∧
    (step retrySys (.stealWithTempfiles true 3)).1.w.wsched = [.eintr] ∧
    (step retrySys (.stealWithTempfiles true 3)).1.w.nfiles = 2 ∧
    ((step retrySys (.stealWithTempfiles true 3)).1.get true).tdIdx = 1 := by decide

/-- a system with one file of the application (five bytes, one name) -/
def srcWorld : World :=
  { cs := 1024, defTempSize := 2, ndirs := 1, nfiles := 1, nsrc := 1,
    files := fun f => if f = 0 then { content := [10, 11, 12, 13, 14], nlink := 1 } else {} }
def srcBase : Nat → Int := fun f => if f = 0 then 1 else 0
def srcSys : Sys := { w := srcWorld, q0 := {}, q1 := {} }

example : FInv srcBase srcSys := by
  have hfresh : Fresh srcWorld := by
    intro fid hle
    have : fid ≠ 0 := by simp only [srcWorld] at hle; omega
    simp [sz, srcWorld, this]
  refine ⟨⟨hfresh, ⟨ValidAll.nil _, rfl⟩, ⟨ValidAll.nil _, rfl⟩⟩, ⟨hfresh, ⟨fun f => ?_, fun f hle => ?_, fun f hf => ?_⟩,
    ValidAll.nil _, fun f => ?_⟩, fun f => ?_⟩
  · by_cases h0 : f = 0 <;> simp [srcSys, srcWorld, srcBase, h0]
  · have h0 : f ≠ 0 := by simp only [srcSys, srcWorld] at hle; omega
    simp [srcSys, srcWorld, srcBase, h0]
  · by_cases h0 : f = 0 <;> simp [srcSys, srcWorld, srcBase, h0] at hf
  · by_cases h0 : f = 0 <;> simp [srcSys, srcWorld, srcBase, h0, Sys.chunks]
  · by_cases h0 : f = 0 <;> simp [srcSys, srcWorld, srcBase, h0]

example : OpOK srcSys (.appendFile false 0 1 3 false) := by
  simp [OpOK, srcSys, srcWorld, sz]

/-- file chunks by name and by descriptor, range copy, get_memory/use_memory,
    compaction, squash, peek: every operation family on a concrete history -/
def srcOps : List Op :=
  [.appendFile false 0 1 3 false, .appendMem false [1, 2], .appendFile false 0 0 2 true,
   .appendCqRange true false 2 4, .getUseMemory true 8 [7, 8], .compactMem true 6,
   .appendMemToTempfile false [3, 4, 5], .steal true 9, .readSquash true]

example : (run srcSys srcOps).abs true = [13, 1, 2, 10, 7, 8, 11, 12, 13, 1, 2, 10, 11, 3, 4] := by decide
example : (run srcSys srcOps).abs false = [5] := by decide
example : (step (run srcSys srcOps) (.peekData true 4)).2 = .peeked true [13, 1, 2, 10] := by decide
example : (step (run srcSys srcOps) (.readData true 20)).2 = .read none := by decide

/-- the S1 history: a partial steal out of a closed temp chunk, then the owner
    is consumed and unlinks the file: the stolen bytes are still handed out -/
def s1World : World := { cs := 1024, defTempSize := 2, ndirs := 1 }
def s1Ops : List Op :=
  [.appendMemToTempfile false [1, 2, 3, 4, 5], .appendMemToTempfile false [6], .steal true 2, .markWritten false 3]
example : ((run (init s1World rfl) s1Ops).w.files 0).nlink = 0 := by decide
example : (step (run (init s1World rfl) s1Ops) (.readData true 2)).2 = .read (some [1, 2]) := by decide

/-- The splice() path: chunkqueue_append_splice_pipe_tempfile(cq, pipe, len) with `d` in the
    pipe (`spliceStep`, Model/CqSplice.lean) is not an `Op`; with no scripted write result
    pending (splice() itself never takes one; the pwritev() calls of the preceding
    chunkqueue_to_tempfiles() would) it IS the pwrite() path — the octets go to file position
    `file.length` of the tail temp chunk, whatever part of that chunk has been consumed
    (`offset`) — so `c17_fault_safe` transfers: the queue's byte stream is the old one followed
    by `d` (a prefix of that when -1 is returned: mkostemp failure / EBADF), the other queue
    and the invariants are untouched. -/
theorem c17_splice_fifo (base : Nat → Int) (s : Sys) (h : FInv base s) (qi : Bool) (d : Bytes)
    (hw : s.w.wsched = []) :
    spliceStep s qi d = step s (.appendMemToTempfile qi d) ∧
    ∀ ok, (spliceStep s qi d).2 = .rc ok →
      FInv base (spliceStep s qi d).1 ∧
      (if ok then (spliceStep s qi d).1.abs qi = s.abs qi ++ d
        else (spliceStep s qi d).1.abs qi <+: s.abs qi ++ d) ∧
      (spliceStep s qi d).1.abs (!qi) = s.abs (!qi) := by
  have e : spliceStep s qi d = step s (.appendMemToTempfile qi d) := by
    unfold spliceStep
    rw [appendSplice_eq _ _ _ hw]
    rfl
  refine ⟨e, fun ok hrc => ?_⟩
  rw [e] at hrc ⊢
  exact (c17_fault_safe base s h qi).1 d ok hrc

/-- splice 5 octets, 2 of them are sent, splice 2 more: the 3 unsent ones are still in front
    (the tail temp chunk had offset 2, length 5 when the second splice appended at position 5) -/
def spliceWorld : World := { cs := 1024, defTempSize := 100, ndirs := 1 }
def spliceSys : Sys :=
  (step (spliceStep (init spliceWorld rfl) false [1, 2, 3, 4, 5]).1 (.markWritten false 2)).1
example : spliceSys.w.wsched = [] := rfl
example : (spliceStep spliceSys false [6, 7]).2 = .rc true := by decide
example : (spliceStep spliceSys false [6, 7]).1.abs false = [3, 4, 5, 6, 7] := by decide
example : (spliceStep spliceSys false [6, 7]).1.q0.chunks = [.file 0 2 7 true .rw] := by decide

end LtVerif.C17
