/-
  C18 — WebDAV operations match a reference tree; PUT is all-or-nothing.
  Property theorems only (helper lemmas live in LtVerif/Proofs/Dav*.lean).

  Part 1 is about the tree model `Dav.step` (one request = one transition of the collection),
  part 2 about the system-call protocol of PUT (`DavPut.stepEv`), where an event list is an
  arbitrary schedule of write sizes, failures and client aborts and every prefix is a crash point.
-/
import LtVerif.Proofs.DavSeq
import LtVerif.Proofs.DavStatus
import LtVerif.Proofs.DavDest
import LtVerif.Proofs.DavPut
import LtVerif.Proofs.DavExamples
import LtVerif.Proofs.DavCond
namespace LtVerif.C18
open LtVerif LtVerif.B LtVerif.Dav

/-! ## 1. the tree -/

/-- A request that is not answered 2xx leaves the tree unchanged — for every tree, every method
    and every header combination (the model returns the very same tree, not merely an equal one). -/
theorem c18_error_unchanged (t : Tree) (r : Req) (h : ¬ Success (step t r).1) : (step t r).2 = t :=
  step_error h

example : (step Ex.t0 Ex.putBad).1 = 409 ∧ ¬ Success (step Ex.t0 Ex.putBad).1 := by decide

/-- A request answered 2xx (other than 207 Multi-Status) has exactly the effect RFC 4918 prescribes:
    for every well-formed tree and every request the reference covers (`Conforming`: the
    destination of a COPY/MOVE is not an existing non-empty collection — lighttpd's documented
    merge — and a file is not copied "into" a collection). -/
theorem c18_success_effect (t : Tree) (r : Req) (hwf : WF t) (hc : Conforming t r)
    (hs : Success (step t r).1) (h207 : (step t r).1 ≠ 207) :
    ∀ q, get (step t r).2 q = rfcEffect (get t) r q :=
  step_effect hwf hc hs h207

example : WF Ex.t0 := wfb_sound (by decide)
example : Conforming Ex.t0 Ex.copyDtoF := by decide
example : Success (step Ex.t0 Ex.copyDtoF).1 ∧ (step Ex.t0 Ex.copyDtoF).1 ≠ 207 ∧
    get (step Ex.t0 Ex.copyDtoF).2 (Ex.p ["f", "x"]) = some (.file (ofString "dx")) := by decide

/-- WHICH status must occur: a covered request is answered with success (2xx other than 207) exactly
    when the RFC 4918 preconditions hold — `rfcPre`, an independent specification stated on the
    lookup function alone (parent collection exists, target/destination kind, Overwrite, source ≠
    destination, Depth and slash rules, conditional headers).  An implementation model that refused
    everything, or accepted too much, would not satisfy this. -/
theorem c18_status_rfc (t : Tree) (r : Req) (hwf : WF t) (hc : Conforming t r) (hg : r.m ≠ .get) :
    isSuccess (step t r).1 = rfcPre (get t) r :=
  step_status hwf hc hg

example : rfcPre (get Ex.t0) Ex.putA = true ∧ rfcPre (get Ex.t0) Ex.putBad = false ∧
    rfcPre (get Ex.t0) Ex.moveAtoDz = true := by decide

/-- For a covered request 207 Multi-Status only reports a refusal at the top level: the tree is the
    very same tree (partial effects exist only in lighttpd's merge, which is not covered). -/
theorem c18_multistatus_unchanged (t : Tree) (r : Req) (hc : Conforming t r) (h : (step t r).1 = 207) :
    (step t r).2 = t :=
  step_207_unchanged hc h

/-- Only the subtrees of the request target and of the destination change. -/
theorem c18_frame (t : Tree) (r : Req) (q : Path) (hs : under r.src.segs q = false)
    (hd : ∀ d, r.dst = .ok d → under d.segs q = false) : get (step t r).2 q = get t q :=
  step_frame hs hd

/-- Nothing outside the WebDAV root is touched by any sequence of requests addressed below the
    root (and `mkDest` only produces destinations below the root). -/
theorem c18_confined (root : Path) (t : Tree) (reqs : List Req) (hb : ∀ r ∈ reqs, Below root r)
    (q : Path) (hq : under root q = false) : get (run t reqs) q = get t q :=
  run_confined reqs t hb hq

example : get (run Ex.t0 Ex.seq1) [Ex.sg "canary"] = some (.file (ofString "C")) ∧
    under Ex.R [Ex.sg "canary"] = false := by decide

/-- PARTIAL.  The same statement for a URL space narrower than the document root (the part of the
    tree where `webdav.activate` / `!webdav.is-readonly` holds): nothing outside `scope` changes —
    provided every Destination lies in `scope` as well.  What is missing for the full clause
    "nothing outside the configured WebDAV tree is touched": mod_webdav_copymove_b never re-evaluates
    the configuration for the Destination (documented upstream), so that proviso is not enforced by
    the code; see the witness below. -/
theorem c18_confined_scope_partial (scope : Path) (t : Tree) (r : Req) (hs : under scope r.src.segs = true)
    (hd : ∀ d, r.dst = .ok d → under scope d.segs = true) (q : Path) (hq : under scope q = false) :
    get (step t r).2 q = get t q :=
  step_confined ⟨hs, hd⟩ hq

/-- Witness of the negation without the proviso: a COPY addressed inside the scope `/d/` whose
    Destination `/a` lies outside of it (inside the document root) is accepted and overwrites `/a`. -/
theorem c18_destination_scope_unchecked :
    under Ex.scope Ex.copyDxToA.src.segs = true ∧ under Ex.scope (Ex.p ["a"]) = false ∧
    isSuccess (step Ex.t0 Ex.copyDxToA).1 = true ∧
    get (step Ex.t0 Ex.copyDxToA).2 (Ex.p ["a"]) ≠ get Ex.t0 (Ex.p ["a"]) := by
  decide

/-- Every Destination value that mod_webdav_copymove_b accepts is a canonical absolute path: its
    segments are non-empty, not "." or "..", and free of '/', and the physical destination is the
    root followed by these segments. -/
theorem c18_dest_contained (root : Path) (scheme authority raw : Bytes) (d : RPath)
    (h : mkDest root scheme authority (some raw) = .ok d) :
    under root d.segs = true ∧ ∃ p, parseDest scheme authority raw = .ok p ∧ CanonicalAbs p ∧
      d.segs = root ++ (toRPath p).segs ∧ AllClean (toRPath p).segs := by
  refine ⟨mkDest_below h, ?_⟩
  unfold mkDest at h
  simp only at h
  split at h
  · simp at h
  · rename_i p hp
    simp only [Dest.ok.injEq] at h
    subst h
    exact ⟨p, hp, parseDest_canonical hp, rfl, toRPath_clean (parseDest_canonical hp)⟩

example : mkDest Ex.R (ofString "http") (ofString "dav.test") (some (ofString "http://dav.test/x/../../%2e%2e/b?q"))
    = .ok ⟨Ex.p ["b"], false⟩ := by decide

/-- Well-formedness (every entry's parent is a collection) is an invariant of the covered requests. -/
theorem c18_wf_preserved (t : Tree) (r : Req) (hwf : WF t) (hc : Conforming t r) : WF (step t r).2 :=
  step_wf hwf hc

/-- After any sequence of covered requests the tree is the RFC 4918 reference tree of that sequence,
    where the reference decides by itself (`rfcPre`) which requests take effect — it does not consume
    the statuses of the implementation — and the success/failure answers are exactly the reference's
    decisions (sequences without GET, whose status is about the read, not the tree). -/
theorem c18_matches_reference (t : Tree) (reqs : List Req) (hwf : WF t) (hc : CoveredRun t reqs) :
    get (run t reqs) = refRunPre (get t) reqs ∧ WF (run t reqs) ∧
    ((∀ r ∈ reqs, r.m ≠ .get) → (statuses t reqs).map isSuccess = refDecisions (get t) reqs) :=
  ⟨(run_matches_pre reqs t hwf hc).1, (run_matches_pre reqs t hwf hc).2, run_decisions reqs t hwf hc⟩

example : CoveredRun Ex.t0 Ex.seq1 := by decide
example : statuses Ex.t0 Ex.seq1 = [204, 409, 201, 200, 201, 204] := by decide
example : refDecisions (get Ex.t0) Ex.seq1 = [true, false, true, true, true, true] := by decide

/-- The documented exception is real: a collection copied onto an existing non-empty collection
    is merged (here `/e/y` survives), which is not the RFC 4918 effect. -/
theorem c18_merge_not_reference :
    Success (step Ex.t0 Ex.copyDtoE).1 ∧
    get (step Ex.t0 Ex.copyDtoE).2 (Ex.p ["e", "y"]) ≠ rfcEffect (get Ex.t0) Ex.copyDtoE (Ex.p ["e", "y"]) := by
  decide

/-- …and in a merge a member that cannot be placed (file onto a collection) is reported (207) and,
    for MOVE, stays at the source (the repaired behaviour; see the C18 report). -/
theorem c18_merge_member_failure :
    (step Ex.t0 Ex.moveDtoE).1 = 207 ∧
    get (step Ex.t0 Ex.moveDtoE).2 (Ex.p ["d", "x"]) = some (.file (ofString "dx")) := by
  decide

/-! ## 2. PUT as a system-call protocol -/

open LtVerif.DavPut

/-- At every state of every run — any schedule of write sizes, failed system calls and client
    aborts — the target name holds its complete previous content or the complete new content. -/
theorem c18_put_atomic (c : Cfg) (evs : List Ev) (s : PSt) (h : runEvs c (init c) evs = some s) :
    s.read = c.old ∨ s.read = some c.new :=
  (inv_run (inv_init c) (invS_init c) h).1.1

/-- Every instant of an accepted run (a crash or SIGKILL after the k-th system call) is such a
    state: acceptance is prefix closed. -/
theorem c18_put_atomic_at_crash (c : Cfg) (evs : List Ev) (s : PSt) (h : runEvs c (init c) evs = some s)
    (k : Nat) : ∃ s', runEvs c (init c) (evs.take k) = some s' ∧ (s'.read = c.old ∨ s'.read = some c.new) := by
  obtain ⟨s', hs'⟩ := runEvs_take k h
  exact ⟨s', hs', c18_put_atomic c _ s' hs'⟩

example : (runEvs Ex.cRepl (init Ex.cRepl) Ex.runRepl).map (·.read) = some (some (ofString "hello")) := by decide
example : (runEvs Ex.cRepl (init Ex.cRepl) (Ex.runRepl.take 5)).map (·.read) = some (some (ofString "old")) := by
  decide

/-- A completed or aborted (not crashed) upload leaves neither a staged name nor the anonymous
    staging file behind. -/
theorem c18_no_tmp_left (c : Cfg) (evs : List Ev) (s : PSt) (h : runEvs c (init c) evs = some s)
    (hd : s.pc = .done) : s.tmp = none ∧ s.anon = none := by
  have := (inv_run (inv_init c) (invS_init c) h).1.2
  rw [hd] at this
  exact this

example : (runEvs Ex.cRepl (init Ex.cRepl) Ex.runEnospc).map (fun s => (s.pc, s.tmp, s.anon, s.read)) =
    some (.done, none, none, some (ofString "old")) := by decide
example : (runEvs Ex.cNew (init Ex.cNew) Ex.runAbort).map (fun s => (s.pc, s.tmp, s.anon, s.read)) =
    some (.done, none, none, none) := by decide
example : (runEvs Ex.cNew (init Ex.cNew) Ex.runByName).map (fun s => (s.pc, s.tmp, s.anon, s.read)) =
    some (.done, none, none, some (ofString "hello")) := by decide

/-- Success is decided exactly when the new content has been published: status class 2 means the
    target holds the new content, anything else means it still holds the old content. -/
theorem c18_put_status_exact (c : Cfg) (evs : List Ev) (s : PSt) (h : runEvs c (init c) evs = some s) :
    (s.status = 2 → s.read = some c.new) ∧ (s.status ≠ 2 → s.read = c.old) := by
  have := (inv_run (inv_init c) (invS_init c) h).2
  exact ⟨fun h2 => (this.1 h2).1, this.2⟩

/-- While the staged name of the O_TMPFILE protocol exists it holds the complete new content (a
    crash leaves at most that name, never a partial file under it). -/
theorem c18_put_staged_complete (c : Cfg) (evs : List Ev) (s : PSt) (h : runEvs c (init c) evs = some s)
    (hp : s.pc = .linked ∨ s.pc = .needRename ∨ s.pc = .byNameC) : s.tmp = some c.new := by
  have := (inv_run (inv_init c) (invS_init c) h).1.2
  rcases hp with hp | hp | hp <;> rw [hp] at this <;> exact this

/-- Progress / totality of the code-shaped reading of the automaton: under EVERY schedule of
    kernel answers (any call may fail, writes transfer any positive number of bytes, the client may
    abort while the body is received) every call the code issues (`next`) is accepted, and the
    request terminates in state `done` within `21·span` calls — where no staged name and no staging
    file is left, the target is complete-old or complete-new, and the status says which. -/
theorem c18_put_progress (c : Cfg) (res : Nat → Res) :
    ∃ s, runGen c res (21 * span c) 0 (init c) = some s ∧ s.pc = .done ∧ s.tmp = none ∧ s.anon = none ∧
      (s.read = c.old ∨ s.read = some c.new) ∧ (s.status = 2 → s.read = some c.new) ∧
      (s.status ≠ 2 → s.read = c.old) := by
  obtain ⟨s, h1, h2, h3, h4⟩ := runGen_done res (21 * span c) 0 (init c) (inv_init c) (invS_init c) (rank_init c)
  have hp := h3.2
  rw [h2] at hp
  exact ⟨s, h1, h2, hp.1, hp.2, h3.1, fun h => (h4.1 h).1, h4.2⟩

example : (runGen Ex.cRepl (fun _ => {}) (21 * span Ex.cRepl) 0 (init Ex.cRepl)).map (fun s => (s.pc, s.status, s.read)) =
    some (.done, 2, some (ofString "hello")) := by decide
example : (runGen Ex.cRepl Ex.sched (21 * span Ex.cRepl) 0 (init Ex.cRepl)).map (fun s => (s.pc, s.status, s.read)) =
    some (.done, 4, some (ofString "old")) := by decide

/-- Witnesses about the shape of the protocol: Content-Range PUT (copy, modify, close, rename) and
    zero-length replacement are accepted and atomic, also with a failed write or a failed close();
    what the code as found did — rename after a failed write, rename before close(), truncating the
    target in place — is not a word of the protocol. -/
theorem c18_put_protocol_witnesses :
    (runEvs Ex.cPart (init Ex.cPart) Ex.runPart).map (·.read) = some (some (ofString "0AB3")) ∧
    (runEvs Ex.cPart (init Ex.cPart) Ex.runPartFail).map (fun s => (s.pc, s.tmp, s.read)) =
      some (.done, none, some (ofString "0123")) ∧
    (runEvs Ex.cPart (init Ex.cPart) Ex.runPartCloseFail).map (fun s => (s.pc, s.tmp, s.status, s.read)) =
      some (.done, none, 4, some (ofString "0123")) ∧
    runEvs Ex.cPart (init Ex.cPart) Ex.runPartBug = none ∧
    runEvs Ex.cPart (init Ex.cPart) Ex.runPartBug2 = none ∧
    (runEvs Ex.cZero (init Ex.cZero) Ex.runZero).map (fun s => (s.pc, s.tmp, s.read)) = some (.done, none, some []) ∧
    runEvs Ex.cZero (init Ex.cZero) Ex.runZeroBug = none := by
  refine ⟨by decide, by decide, by decide, by decide, by decide, by decide, by decide⟩

/-! ## 3. conditional request headers (webdav_if_match_or_unmodified_since, http_etag_create)

  `DavCond.precond` is the C function on concrete header bytes, a concrete `struct stat` / errno and the
  configured etag flags; part 1 uses only the truth values (`Dav.Pre`).  The theorems below say what
  those truth values are, for ALL header values, stat records, flags and clocks. -/

section Conditional
open DavCond Cond Date

/-- The Bool record `Dav.Pre` of the tree model is exactly the verdict of the C function: with entity
    tags enabled, If-None-Match absent or "*", and a lookup that found the resource or failed with
    ENOENT/ENOTDIR, the function answers 0 iff `Pre.holds` of the abstracted truth values
    (If-Match: strong match of the current ETag; If-Unmodified-Since: not modified since) holds —
    so `c18_status_rfc`/`c18_matches_reference` speak about the real evaluation. -/
theorem c18_precond_refines_pre (now : Int) (flags : Nat) (im inm ius : Option Bytes) (lk : Lk)
    (hf : flags ≠ 0) (hlk : lk ≠ .other) (hinm : inm = none ∨ inm = some [42]) :
    precond now flags im inm ius lk = 0 ↔ (toPre now flags im inm ius lk).holds lk.ex = true := by
  rw [precond_zero_iff now flags im inm ius lk hf]
  rcases hinm with rfl | rfl <;> cases im <;> cases ius <;> cases lk <;>
    simp_all [toPre, Dav.Pre.holds, imFails, inmFails, iusFails, Lk.ex, etagMatches_star]

example : precond 0 7 (some (ofString "\"1\"")) (some [42]) none .enoent = 412 ∧
    (toPre 0 7 (some (ofString "\"1\"")) (some [42]) none .enoent).holds false = false := by decide

/-- No conditional header: never 412 (whatever the lookup says). -/
theorem c18_precond_none (now : Int) (flags : Nat) (lk : Lk) : precond now flags none none none lk = 0 := by
  simp [precond]

example : precond 5 7 none none none .other = 0 := by decide

/-- If-Match with a well-formed entity-tag list (RFC 9110 `#entity-tag`, any separators/whitespace, weak
    and strong members) on an existing resource passes iff some listed tag is STRONG and has the opaque
    tag of the current validator (RFC 9110 13.1.1, strong comparison) — for every stat record and flags. -/
theorem c18_ifmatch_list (now : Int) (flags : Nat) (st : Stat) (hf : flags ≠ 0) (sep0 : Bytes)
    (items : List (ETag × Bytes)) (h0 : AllDelim sep0) (hok : ItemsOk items) :
    precond now flags (some (etagListText sep0 items)) none none (.found st) = 0 ↔
      items.any (fun x => ETag.cmp false (curTag st flags) x.1) = true := by
  rw [precond_zero_iff _ _ _ _ _ _ hf]
  simp only [imFails, inmFails, iusFails, and_true, Bool.not_eq_false']
  rw [etagCreate_text st flags hf, etagMatches_list _ (curTag_wf st flags) false sep0 items h0 hok]

/-- If-None-Match with a well-formed list on an existing resource passes iff NO listed tag (weak
    comparison) has the opaque tag of the current validator. -/
theorem c18_ifnonematch_list (now : Int) (flags : Nat) (st : Stat) (hf : flags ≠ 0) (sep0 : Bytes)
    (items : List (ETag × Bytes)) (h0 : AllDelim sep0) (hok : ItemsOk items) :
    precond now flags none (some (etagListText sep0 items)) none (.found st) = 0 ↔
      items.any (fun x => ETag.cmp true (curTag st flags) x.1) = false := by
  rw [precond_zero_iff _ _ _ _ _ _ hf]
  simp only [imFails, inmFails, iusFails, and_true, true_and]
  rw [etagCreate_text st flags hf, etagMatches_list _ (curTag_wf st flags) true sep0 items h0 hok]

example : AllDelim (ofString " ") ∧
    ItemsOk [(⟨true, ofString "7"⟩, ofString ", "), (curTag ⟨1, 2, 3, 4⟩ 7, [])] := by
  refine ⟨by unfold AllDelim; decide, by unfold ETag.WF; decide, by unfold ETag.NoDelim; decide,
    by unfold AllDelim; decide, fun _ => by decide, single_ok _ _⟩

/-- The entity tag the server hands out for the current state passes If-Match on that state … -/
theorem c18_ifmatch_current (now : Int) (flags : Nat) (st : Stat) (hf : flags ≠ 0) :
    precond now flags (some (etagCreate st flags)) none none (.found st) = 0 := by
  rw [precond_zero_iff _ _ _ _ _ _ hf]
  simp [imFails, inmFails, iusFails, etagMatches_cur st st flags hf]

/-- … and an entity tag handed out for a state whose tag differs from the current one is refused with
    412 whatever the other two headers say (lost-update protection: the PUT/DELETE/MOVE handlers return
    before touching the tree, `c18_error_unchanged`).  The hypothesis is about TAGS, not states:
    see `c18_etag_not_injective`. -/
theorem c18_ifmatch_stale (now : Int) (flags : Nat) (st0 st : Stat) (inm ius : Option Bytes) (hf : flags ≠ 0)
    (hne : etagCreate st flags ≠ etagCreate st0 flags) :
    precond now flags (some (etagCreate st0 flags)) inm ius (.found st) = 412 := by
  have h : imFails flags (some (etagCreate st0 flags)) (.found st) = true := by
    simp [imFails, etagMatches_cur st st0 flags hf, hne]
  unfold precond
  simp [hf, h]

example : etagCreate ⟨1234, 11, 1700000000, 0⟩ 7 ≠ etagCreate ⟨1234, 10, 1700000000, 0⟩ 7 := by decide +kernel

/-- The validator is a 32-bit rotate-xor hash of (inode, size, mtime, nanoseconds), linear over GF(2):
    different states can carry the same entity tag, so If-Match is a probabilistic guard.  Witness with the
    default flags: same inode and second, 10 bytes vs 14 bytes written 33.554432 ms later. -/
theorem c18_etag_not_injective :
    etagCreate ⟨1234, 10, 1700000000, 0⟩ 7 = etagCreate ⟨1234, 14, 1700000000, 33554432⟩ 7 ∧
    precond 0 7 (some (etagCreate ⟨1234, 10, 1700000000, 0⟩ 7)) none none
      (.found ⟨1234, 14, 1700000000, 33554432⟩) = 0 := by
  refine ⟨by decide +kernel, by decide +kernel⟩

/-- `If-Match: *` passes exactly on an existing resource, `If-None-Match: *` exactly when the lookup failed
    with ENOENT/ENOTDIR (create-only PUT; any other lstat error is answered 412). -/
theorem c18_star_iff_exists (now : Int) (flags : Nat) (lk : Lk) (hf : flags ≠ 0) :
    (precond now flags (some [42]) none none lk = 0 ↔ lk.ex = true) ∧
    (precond now flags none (some [42]) none lk = 0 ↔ (lk = .enoent ∨ lk = .enotdir)) := by
  constructor
  · rw [precond_zero_iff _ _ _ _ _ _ hf]
    cases lk <;> simp [imFails, inmFails, iusFails, Lk.ex, etagMatches_star]
  · rw [precond_zero_iff _ _ _ _ _ _ hf]
    cases lk <;> simp [imFails, inmFails, iusFails, etagMatches_star]

example : precond 0 2 none (some [42]) none .other = 412 ∧ precond 0 2 none (some [42]) none .enotdir = 0 := by
  decide

/-- If-Unmodified-Since alone (independent of the etag flags) passes iff the resource exists, the value
    parses as an HTTP-date `t` (any of the three formats) ≠ -1 and the modification time is not later. -/
theorem c18_ius_iff (now : Int) (flags : Nat) (d : Bytes) (lk : Lk) :
    precond now flags none none (some d) lk = 0 ↔
      ∃ st t, lk = .found st ∧ dateToTime now d = some t ∧ st.mtime ≤ t ∧ t ≠ -1 := by
  have h : precond now flags none none (some d) lk = if iusFails now (some d) lk then 412 else 0 := by
    unfold precond
    by_cases hf : flags = 0 <;> simp [hf, imFails, inmFails]
  rw [h]
  cases lk with
  | found st =>
    simp only [iusFails]
    by_cases hm : ifModifiedSince now d st.mtime = true
    · simp only [hm, if_true]
      constructor
      · intro h; exact absurd h (by decide)
      · rintro ⟨st', t, hst, h1, h2, h3⟩
        cases hst
        have := (ifModifiedSince_false_iff now d st.mtime).2 ⟨t, h1, h2, h3⟩
        rw [this] at hm; cases hm
    · have hm' : ifModifiedSince now d st.mtime = false := by simpa using hm
      obtain ⟨t, h1, h2, h3⟩ := (ifModifiedSince_false_iff now d st.mtime).1 hm'
      simp only [hm', Bool.false_eq_true, if_false, true_iff]
      exact ⟨st, t, rfl, h1, h2, h3⟩
  | enoent => simp [iusFails]
  | enotdir => simp [iusFails]
  | other => simp [iusFails]

/-- With the date the server itself renders (http_date_time_to_str, years 1000–9999) the test is the
    comparison of instants: a client echoing Last-Modified of the current state passes, one echoing an
    older Last-Modified gets 412. -/
theorem c18_ius_rendered (now : Int) (flags : Nat) (st : Stat) (t : Int)
    (h0 : -30610224000 ≤ t) (h1 : t ≤ 253402300799) (hm1 : t ≠ -1) :
    precond now flags none none (some (timeToStr t)) (.found st) = 0 ↔ st.mtime ≤ t := by
  rw [c18_ius_iff, timeToStr_eq t h0 h1]
  have hr := (imf_roundtrip now t h0 h1).2
  constructor
  · rintro ⟨st', t', hst, hd, hle, _⟩
    cases hst
    rw [hr] at hd
    cases hd
    exact hle
  · intro hle
    exact ⟨st, t, rfl, hr, hle, hm1⟩

example : precond 0 0 none none (some (timeToStr 1700000000)) (.found ⟨1, 2, 1700000001, 0⟩) = 412 := by decide

/-- server.etag-flags empty (`etag_flags = 0`): If-Match and If-None-Match are not evaluated at all. -/
theorem c18_flags0_ignores_entity_tags (now : Int) (im inm ius : Option Bytes) (lk : Lk) :
    precond now 0 im inm ius lk = precond now 0 none none ius lk := by
  rw [precond_flags0, precond_flags0]

example : precond 0 0 (some (ofString "\"x\"")) none none .enoent = 0 := by decide

end Conditional

end LtVerif.C18
