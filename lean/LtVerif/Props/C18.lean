import LtVerif.Model.Dav
import LtVerif.Model.DavPut
namespace LtVerif.C18
end LtVerif.C18
