/-
  C18 — WebDAV operations match a reference tree; PUT is all-or-nothing.
  Property theorems only (helper lemmas live in LtVerif/Proofs/Dav*.lean).

  Part 1 is about the tree model `Dav.step` (one request = one transition of the collection),
  part 2 about the system-call protocol of PUT (`DavPut.stepEv`), where an event list is an
  arbitrary schedule of write sizes, failures and client aborts and every prefix is a crash point.
-/
import LtVerif.Proofs.DavSeq
import LtVerif.Proofs.DavStatus
import LtVerif.Proofs.DavDest
import LtVerif.Proofs.DavPut
import LtVerif.Proofs.DavExamples
namespace LtVerif.C18
open LtVerif LtVerif.B LtVerif.Dav

/-! ## 1. the tree -/

/-- A request that is not answered 2xx leaves the tree unchanged — for every tree, every method
    and every header combination (the model returns the very same tree, not merely an equal one). -/
theorem c18_error_unchanged (t : Tree) (r : Req) (h : ¬ Success (step t r).1) : (step t r).2 = t :=
  step_error h

example : (step Ex.t0 Ex.putBad).1 = 409 ∧ ¬ Success (step Ex.t0 Ex.putBad).1 := by decide

/-- A request answered 2xx (other than 207 Multi-Status) has exactly the effect RFC 4918 prescribes:
    for every well-formed tree and every request the reference covers (`Conforming`: the
    destination of a COPY/MOVE is not an existing non-empty collection — lighttpd's documented
    merge — and a file is not copied "into" a collection). -/
theorem c18_success_effect (t : Tree) (r : Req) (hwf : WF t) (hc : Conforming t r)
    (hs : Success (step t r).1) (h207 : (step t r).1 ≠ 207) :
    ∀ q, get (step t r).2 q = rfcEffect (get t) r q :=
  step_effect hwf hc hs h207

example : WF Ex.t0 := wfb_sound (by decide)
example : Conforming Ex.t0 Ex.copyDtoF := by decide
example : Success (step Ex.t0 Ex.copyDtoF).1 ∧ (step Ex.t0 Ex.copyDtoF).1 ≠ 207 ∧
    get (step Ex.t0 Ex.copyDtoF).2 (Ex.p ["f", "x"]) = some (.file (ofString "dx")) := by decide

/-- WHICH status must occur: a covered request is answered with success (2xx other than 207) exactly
    when the RFC 4918 preconditions hold — `rfcPre`, an independent specification stated on the
    lookup function alone (parent collection exists, target/destination kind, Overwrite, source ≠
    destination, Depth and slash rules, conditional headers).  An implementation model that refused
    everything, or accepted too much, would not satisfy this. -/
theorem c18_status_rfc (t : Tree) (r : Req) (hwf : WF t) (hc : Conforming t r) (hg : r.m ≠ .get) :
    isSuccess (step t r).1 = rfcPre (get t) r :=
  step_status hwf hc hg

example : rfcPre (get Ex.t0) Ex.putA = true ∧ rfcPre (get Ex.t0) Ex.putBad = false ∧
    rfcPre (get Ex.t0) Ex.moveAtoDz = true := by decide

/-- For a covered request 207 Multi-Status only reports a refusal at the top level: the tree is the
    very same tree (partial effects exist only in lighttpd's merge, which is not covered). -/
theorem c18_multistatus_unchanged (t : Tree) (r : Req) (hc : Conforming t r) (h : (step t r).1 = 207) :
    (step t r).2 = t :=
  step_207_unchanged hc h

/-- Only the subtrees of the request target and of the destination change. -/
theorem c18_frame (t : Tree) (r : Req) (q : Path) (hs : under r.src.segs q = false)
    (hd : ∀ d, r.dst = .ok d → under d.segs q = false) : get (step t r).2 q = get t q :=
  step_frame hs hd

/-- Nothing outside the WebDAV root is touched by any sequence of requests addressed below the
    root (and `mkDest` only produces destinations below the root). -/
theorem c18_confined (root : Path) (t : Tree) (reqs : List Req) (hb : ∀ r ∈ reqs, Below root r)
    (q : Path) (hq : under root q = false) : get (run t reqs) q = get t q :=
  run_confined reqs t hb hq

example : get (run Ex.t0 Ex.seq1) [Ex.sg "canary"] = some (.file (ofString "C")) ∧
    under Ex.R [Ex.sg "canary"] = false := by decide

/-- PARTIAL.  The same statement for a URL space narrower than the document root (the part of the
    tree where `webdav.activate` / `!webdav.is-readonly` holds): nothing outside `scope` changes —
    provided every Destination lies in `scope` as well.  What is missing for the full clause
    "nothing outside the configured WebDAV tree is touched": mod_webdav_copymove_b never re-evaluates
    the configuration for the Destination (documented upstream), so that proviso is not enforced by
    the code; see the witness below. -/
theorem c18_confined_scope_partial (scope : Path) (t : Tree) (r : Req) (hs : under scope r.src.segs = true)
    (hd : ∀ d, r.dst = .ok d → under scope d.segs = true) (q : Path) (hq : under scope q = false) :
    get (step t r).2 q = get t q :=
  step_confined ⟨hs, hd⟩ hq

/-- Witness of the negation without the proviso: a COPY addressed inside the scope `/d/` whose
    Destination `/a` lies outside of it (inside the document root) is accepted and overwrites `/a`. -/
theorem c18_destination_scope_unchecked :
    under Ex.scope Ex.copyDxToA.src.segs = true ∧ under Ex.scope (Ex.p ["a"]) = false ∧
    isSuccess (step Ex.t0 Ex.copyDxToA).1 = true ∧
    get (step Ex.t0 Ex.copyDxToA).2 (Ex.p ["a"]) ≠ get Ex.t0 (Ex.p ["a"]) := by
  decide

/-- Every Destination value that mod_webdav_copymove_b accepts is a canonical absolute path: its
    segments are non-empty, not "." or "..", and free of '/', and the physical destination is the
    root followed by these segments. -/
theorem c18_dest_contained (root : Path) (scheme authority raw : Bytes) (d : RPath)
    (h : mkDest root scheme authority (some raw) = .ok d) :
    under root d.segs = true ∧ ∃ p, parseDest scheme authority raw = .ok p ∧ CanonicalAbs p ∧
      d.segs = root ++ (toRPath p).segs ∧ AllClean (toRPath p).segs := by
  refine ⟨mkDest_below h, ?_⟩
  unfold mkDest at h
  simp only at h
  split at h
  · simp at h
  · rename_i p hp
    simp only [Dest.ok.injEq] at h
    subst h
    exact ⟨p, hp, parseDest_canonical hp, rfl, toRPath_clean (parseDest_canonical hp)⟩

example : mkDest Ex.R (ofString "http") (ofString "dav.test") (some (ofString "http://dav.test/x/../../%2e%2e/b?q"))
    = .ok ⟨Ex.p ["b"], false⟩ := by decide

/-- Well-formedness (every entry's parent is a collection) is an invariant of the covered requests. -/
theorem c18_wf_preserved (t : Tree) (r : Req) (hwf : WF t) (hc : Conforming t r) : WF (step t r).2 :=
  step_wf hwf hc

/-- After any sequence of covered requests the tree is the RFC 4918 reference tree of that sequence,
    where the reference decides by itself (`rfcPre`) which requests take effect — it does not consume
    the statuses of the implementation — and the success/failure answers are exactly the reference's
    decisions (sequences without GET, whose status is about the read, not the tree). -/
theorem c18_matches_reference (t : Tree) (reqs : List Req) (hwf : WF t) (hc : CoveredRun t reqs) :
    get (run t reqs) = refRunPre (get t) reqs ∧ WF (run t reqs) ∧
    ((∀ r ∈ reqs, r.m ≠ .get) → (statuses t reqs).map isSuccess = refDecisions (get t) reqs) :=
  ⟨(run_matches_pre reqs t hwf hc).1, (run_matches_pre reqs t hwf hc).2, run_decisions reqs t hwf hc⟩

example : CoveredRun Ex.t0 Ex.seq1 := by decide
example : statuses Ex.t0 Ex.seq1 = [204, 409, 201, 200, 201, 204] := by decide
example : refDecisions (get Ex.t0) Ex.seq1 = [true, false, true, true, true, true] := by decide

/-- The documented exception is real: a collection copied onto an existing non-empty collection
    is merged (here `/e/y` survives), which is not the RFC 4918 effect. -/
theorem c18_merge_not_reference :
    Success (step Ex.t0 Ex.copyDtoE).1 ∧
    get (step Ex.t0 Ex.copyDtoE).2 (Ex.p ["e", "y"]) ≠ rfcEffect (get Ex.t0) Ex.copyDtoE (Ex.p ["e", "y"]) := by
  decide

/-- …and in a merge a member that cannot be placed (file onto a collection) is reported (207) and,
    for MOVE, stays at the source (the repaired behaviour; see the C18 report). -/
theorem c18_merge_member_failure :
    (step Ex.t0 Ex.moveDtoE).1 = 207 ∧
    get (step Ex.t0 Ex.moveDtoE).2 (Ex.p ["d", "x"]) = some (.file (ofString "dx")) := by
  decide

/-! ## 2. PUT as a system-call protocol -/

open LtVerif.DavPut

/-- At every state of every run — any schedule of write sizes, failed system calls and client
    aborts — the target name holds its complete previous content or the complete new content. -/
theorem c18_put_atomic (c : Cfg) (evs : List Ev) (s : PSt) (h : runEvs c (init c) evs = some s) :
    s.read = c.old ∨ s.read = some c.new :=
  (inv_run (inv_init c) (invS_init c) h).1.1

/-- Every instant of an accepted run (a crash or SIGKILL after the k-th system call) is such a
    state: acceptance is prefix closed. -/
theorem c18_put_atomic_at_crash (c : Cfg) (evs : List Ev) (s : PSt) (h : runEvs c (init c) evs = some s)
    (k : Nat) : ∃ s', runEvs c (init c) (evs.take k) = some s' ∧ (s'.read = c.old ∨ s'.read = some c.new) := by
  obtain ⟨s', hs'⟩ := runEvs_take k h
  exact ⟨s', hs', c18_put_atomic c _ s' hs'⟩

example : (runEvs Ex.cRepl (init Ex.cRepl) Ex.runRepl).map (·.read) = some (some (ofString "hello")) := by decide
example : (runEvs Ex.cRepl (init Ex.cRepl) (Ex.runRepl.take 5)).map (·.read) = some (some (ofString "old")) := by
  decide

/-- A completed or aborted (not crashed) upload leaves neither a staged name nor the anonymous
    staging file behind. -/
theorem c18_no_tmp_left (c : Cfg) (evs : List Ev) (s : PSt) (h : runEvs c (init c) evs = some s)
    (hd : s.pc = .done) : s.tmp = none ∧ s.anon = none := by
  have := (inv_run (inv_init c) (invS_init c) h).1.2
  rw [hd] at this
  exact this

example : (runEvs Ex.cRepl (init Ex.cRepl) Ex.runEnospc).map (fun s => (s.pc, s.tmp, s.anon, s.read)) =
    some (.done, none, none, some (ofString "old")) := by decide
example : (runEvs Ex.cNew (init Ex.cNew) Ex.runAbort).map (fun s => (s.pc, s.tmp, s.anon, s.read)) =
    some (.done, none, none, none) := by decide
example : (runEvs Ex.cNew (init Ex.cNew) Ex.runByName).map (fun s => (s.pc, s.tmp, s.anon, s.read)) =
    some (.done, none, none, some (ofString "hello")) := by decide

/-- Success is decided exactly when the new content has been published: status class 2 means the
    target holds the new content, anything else means it still holds the old content. -/
theorem c18_put_status_exact (c : Cfg) (evs : List Ev) (s : PSt) (h : runEvs c (init c) evs = some s) :
    (s.status = 2 → s.read = some c.new) ∧ (s.status ≠ 2 → s.read = c.old) := by
  have := (inv_run (inv_init c) (invS_init c) h).2
  exact ⟨fun h2 => (this.1 h2).1, this.2⟩

/-- While the staged name of the O_TMPFILE protocol exists it holds the complete new content (a
    crash leaves at most that name, never a partial file under it). -/
theorem c18_put_staged_complete (c : Cfg) (evs : List Ev) (s : PSt) (h : runEvs c (init c) evs = some s)
    (hp : s.pc = .linked ∨ s.pc = .needRename ∨ s.pc = .byNameC) : s.tmp = some c.new := by
  have := (inv_run (inv_init c) (invS_init c) h).1.2
  rcases hp with hp | hp | hp <;> rw [hp] at this <;> exact this

/-- Progress / totality of the code-shaped reading of the automaton: under EVERY schedule of
    kernel answers (any call may fail, writes transfer any positive number of bytes, the client may
    abort while the body is received) every call the code issues (`next`) is accepted, and the
    request terminates in state `done` within `21·span` calls — where no staged name and no staging
    file is left, the target is complete-old or complete-new, and the status says which. -/
theorem c18_put_progress (c : Cfg) (res : Nat → Res) :
    ∃ s, runGen c res (21 * span c) 0 (init c) = some s ∧ s.pc = .done ∧ s.tmp = none ∧ s.anon = none ∧
      (s.read = c.old ∨ s.read = some c.new) ∧ (s.status = 2 → s.read = some c.new) ∧
      (s.status ≠ 2 → s.read = c.old) := by
  obtain ⟨s, h1, h2, h3, h4⟩ := runGen_done res (21 * span c) 0 (init c) (inv_init c) (invS_init c) (rank_init c)
  have hp := h3.2
  rw [h2] at hp
  exact ⟨s, h1, h2, hp.1, hp.2, h3.1, fun h => (h4.1 h).1, h4.2⟩

example : (runGen Ex.cRepl (fun _ => {}) (21 * span Ex.cRepl) 0 (init Ex.cRepl)).map (fun s => (s.pc, s.status, s.read)) =
    some (.done, 2, some (ofString "hello")) := by decide
example : (runGen Ex.cRepl Ex.sched (21 * span Ex.cRepl) 0 (init Ex.cRepl)).map (fun s => (s.pc, s.status, s.read)) =
    some (.done, 4, some (ofString "old")) := by decide

/-- Witnesses about the shape of the protocol: Content-Range PUT (copy, modify, close, rename) and
    zero-length replacement are accepted and atomic, also with a failed write or a failed close();
    what the code as found did — rename after a failed write, rename before close(), truncating the
    target in place — is not a word of the protocol. -/
theorem c18_put_protocol_witnesses :
    (runEvs Ex.cPart (init Ex.cPart) Ex.runPart).map (·.read) = some (some (ofString "0AB3")) ∧
    (runEvs Ex.cPart (init Ex.cPart) Ex.runPartFail).map (fun s => (s.pc, s.tmp, s.read)) =
      some (.done, none, some (ofString "0123")) ∧
    (runEvs Ex.cPart (init Ex.cPart) Ex.runPartCloseFail).map (fun s => (s.pc, s.tmp, s.status, s.read)) =
      some (.done, none, 4, some (ofString "0123")) ∧
    runEvs Ex.cPart (init Ex.cPart) Ex.runPartBug = none ∧
    runEvs Ex.cPart (init Ex.cPart) Ex.runPartBug2 = none ∧
    (runEvs Ex.cZero (init Ex.cZero) Ex.runZero).map (fun s => (s.pc, s.tmp, s.read)) = some (.done, none, some []) ∧
    runEvs Ex.cZero (init Ex.cZero) Ex.runZeroBug = none := by
  refine ⟨by decide, by decide, by decide, by decide, by decide, by decide, by decide⟩

end LtVerif.C18
