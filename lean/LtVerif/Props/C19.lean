/-
  C19 — compressed responses decode to the identity body; the compression cache is never stale.
  Property theorems only (helper lemmas and the cache invariant live in LtVerif/Proofs/Deflate.lean).

  Claimed PARTIAL: zlib is external.  The coded form is a parameter `compress`; that it decodes
  to its input is a hypothesis of `c19_served_decodes_partial` and is validated end-to-end with an
  independent decoder, not proved.
-/
import LtVerif.Proofs.Deflate
namespace LtVerif.C19
open LtVerif B LtVerif.Deflate

/-! ## negotiation: mod_deflate_choose_encoding() -/

/-- The chosen coding is allowed by the configuration and listed by the client in an element
    whose weight is not zero (never one the client marked `q=0`); its label occurs literally
    in the header value. -/
theorem c19_encoding_listed_allowed (allowed : List CSet) (hdr : Bytes) (c : Coding)
    (h : chooseEncoding allowed hdr = some c) :
    (∃ x ∈ allowed, x.mem c = true) ∧
    (∃ e ∈ entries hdr, e.token = c.label ∧ e.q0 = false) ∧
    c.label <:+: hdr := by
  obtain ⟨pre, x, post, rfl, hx, hacc, _⟩ := chooseSet_spec h
  obtain ⟨e, he, hq, ht⟩ := acceptSet_mem hacc
  exact ⟨⟨x, by simp, hx⟩, ⟨e, he, ht, hq⟩, ht ▸ entries_token_infix hdr e he⟩

example : chooseEncoding (encodingsToFlags (some [Coding.gzip.label, Coding.deflate.label]))
    (ofString "gzip;q=0, deflate;q=0.5") = some .deflate := by decide
example : chooseEncoding (encodingsToFlags none) (ofString "br, gzip ;q=0") = none := by decide

/-- Server preference: the coding comes from the FIRST deflate.allowed-encodings entry that
    contains a coding the client accepts; no earlier entry contains an acceptable coding. -/
theorem c19_encoding_order (allowed : List CSet) (hdr : Bytes) (c : Coding)
    (h : chooseEncoding allowed hdr = some c) :
    ∃ pre x post, allowed = pre ++ x :: post ∧ x.mem c = true ∧
      ∀ y ∈ pre, ∀ d, y.mem d = true → ¬ ∃ e ∈ entries hdr, e.q0 = false ∧ e.token = d.label := by
  obtain ⟨pre, x, post, hsplit, hx, _, hpre⟩ := chooseSet_spec h
  refine ⟨pre, x, post, hsplit, hx, ?_⟩
  intro y hy d hyd hex
  have hacc := (acceptSet_mem_iff hdr d).mpr hex
  have := hpre y hy d
  simp [hyd, hacc] at this

example : chooseEncoding (encodingsToFlags (some [Coding.deflate.label, Coding.gzip.label]))
    (ofString "gzip, deflate") = some .deflate := by decide

/-- what a configured string must contain for a coding to be allowed -/
def Coding.base : Coding → Bytes
  | .gzip => Coding.gzip.label
  | .xgzip => Coding.gzip.label
  | .deflate => Coding.deflate.label

/-- Configuration level: with an explicit non-empty deflate.allowed-encodings list, the chosen
    coding is named by one of the configured strings ("x-gzip" is allowed through "gzip"). -/
theorem c19_encoding_config_allowed (l : List Bytes) (hl : l ≠ []) (hdr : Bytes) (c : Coding)
    (h : chooseEncoding (encodingsToFlags (some l)) hdr = some c) :
    ∃ v ∈ l, isInfix (Coding.base c) v = true := by
  obtain ⟨⟨x, hx, hm⟩, _, _⟩ := c19_encoding_listed_allowed _ _ _ h
  cases l with
  | nil => exact absurd rfl hl
  | cons a l =>
    simp only [encodingsToFlags, List.mem_flatMap, List.mem_append] at hx
    obtain ⟨v, hv, hx⟩ := hx
    refine ⟨v, hv, ?_⟩
    rcases hx with hx | hx
    · split at hx
      · rename_i hg
        simp only [List.mem_singleton] at hx
        subst hx
        cases c <;> simp_all [CSet.mem, Coding.base]
      · cases hx
    · split at hx
      · rename_i hd
        simp only [List.mem_singleton] at hx
        subst hx
        cases c <;> simp_all [CSet.mem, Coding.base]
      · cases hx

example : chooseEncoding (encodingsToFlags (some [ofString "deflate"])) (ofString "gzip, deflate") = some .deflate := by
  decide

/-! ## gating and header adjustments: mod_deflate_handle_response_start() -/

/-- A response is only ever coded when the module is enabled for its MIME type, its size is
    inside (min-compress-size, max-compress-size], it is complete, not a HEAD / 1xx / 204 / 205 /
    304, not already coded or chunked, and the client sent an Accept-Encoding from which the
    coding was negotiated. -/
theorem c19_gating (cfg : Cfg) (rq : Rq) (rs : Rs) (c : Coding) (h : selectCoding cfg rq rs = some c) :
    rs.finished = true ∧ rq.method ≠ .head ∧ rs.hasTE = false ∧ rs.hasCE = false ∧
    200 ≤ rs.status ∧ rs.status ≠ 204 ∧ rs.status ≠ 205 ∧ rs.status ≠ 304 ∧
    cfg.mimetypes ≠ [] ∧ cfg.minSize < rs.len ∧ (cfg.maxSizeKB = 0 ∨ rs.len ≤ cfg.maxSizeKB * 1024) ∧
    mimeOk cfg.mimetypes rs.contentType = true ∧
    ∃ ae, rq.acceptEncoding = some ae ∧ chooseEncoding cfg.allowed ae = some c := by
  unfold selectCoding at h
  split at h
  · cases h
  rename_i h1
  split at h
  · cases h
  rename_i h2
  split at h
  · cases h
  rename_i h3
  split at h
  · cases h
  rename_i h4
  split at h
  · cases h
  rename_i h5
  split at h
  · cases h
  rename_i ae hae
  split at h
  · cases h
  rename_i c' hc'
  split at h
  case isFalse => cases h
  rename_i hm
  cases h
  simp only [Bool.or_eq_true, Bool.not_eq_true', decide_eq_true_eq, not_or, Bool.not_eq_true] at h1 h2
  simp only [Bool.and_eq_true, ne_eq, decide_eq_true_eq, not_and, Nat.not_lt] at h5
  refine ⟨by simpa using h1.1.1.1, h1.1.1.2, h1.1.2, h1.2, by omega, h2.1.1.2, h2.1.2, h2.2, ?_, by omega, ?_, hm,
    ae, hae, hc'⟩
  · intro he; simp [he] at h3
  · by_cases hz : cfg.maxSizeKB = 0
    · exact Or.inl hz
    · exact Or.inr (by have := h5 hz; omega)

example : selectCoding { mimetypes := [ofString "text/"], minSize := 10 }
    { acceptEncoding := some (ofString "gzip") }
    { contentType := some (ofString "text/plain"), len := 11 } = some .gzip := by decide

/-- Whenever the body is coded: Vary names Accept-Encoding, Content-Encoding is the negotiated
    coding (listed by the client, allowed by the configuration), the identity Content-Length is
    gone, the status is unchanged, and an ETag (if any) is rewritten to a tag distinct from the
    identity one. -/
theorem c19_headers (cfg : Cfg) (rq : Rq) (rs : Rs) (c : Coding) (k : Bool)
    (h : (respStart cfg rq rs).verdict = .encode c k) :
    (∃ v, (respStart cfg rq rs).vary = some v ∧ containsToken v aeName = true) ∧
    (respStart cfg rq rs).contentEncoding = some c.label ∧
    (respStart cfg rq rs).hasCL = false ∧
    (respStart cfg rq rs).status = rs.status ∧
    (∀ e, rs.etag = some e → e ≠ [] →
      (respStart cfg rq rs).etag = some (suffixEtag e c.label) ∧ suffixEtag e c.label ≠ e) ∧
    selectCoding cfg rq rs = some c := by
  obtain ⟨hs, hi, _⟩ := respStart_verdict_encode h
  rw [respStart_encode_eq hs hi]
  refine ⟨⟨_, rfl, varyAdjust_hasToken _⟩, rfl, rfl, rfl, ?_, hs⟩
  intro e he hne
  constructor
  · simp [encodeOut, he, hne]
  · intro heq
    have := suffixEtag_length e c.label hne
    rw [heq] at this
    omega

example : (respStart { mimetypes := [ofString "text/"], minSize := 0 }
    { acceptEncoding := some (ofString "deflate, gzip") }
    { contentType := some (ofString "text/css"), etag := some (ofString "\"77\""), len := 5 }) =
    ⟨.encode .gzip false, 200, some (ofString "\"77-gzip\""), some aeName, some (ofString "gzip"), false⟩ := by
  decide

/-- The coded tags of one identity tag are pairwise distinct (and distinct from it). -/
theorem c19_etag_distinct (e : Bytes) (c d : Coding) (he : e ≠ [])
    (h : suffixEtag e c.label = suffixEtag e d.label) : c = d := by
  have h1 := suffixEtag_length e c.label he
  have h2 := suffixEtag_length e d.label he
  rw [h] at h1
  exact label_length_inj (by omega)

/-- Revalidation: repeating the request with If-None-Match set to the entity tag the coded
    response carried yields 304 with that same tag and Vary: Accept-Encoding, no body coding
    (2xx responses, GET / QUERY); for other methods 412. -/
theorem c19_revalidation_304 (cfg : Cfg) (rq : Rq) (rs : Rs) (c : Coding) (k : Bool) (e : Bytes)
    (h : (respStart cfg rq rs).verdict = .encode c k)
    (he : rs.etag = some e) (hne : e ≠ []) (hst : rs.status < 300)
    (inm : Option Bytes) (hinm : inm = (respStart cfg rq rs).etag) :
    (rq.method ≠ .other →
      respStart cfg { rq with ifNoneMatch := inm } rs =
        ⟨.notModified, 304, inm, some (varyAdjust rs.vary), none, false⟩) ∧
    (rq.method = .other →
      respStart cfg { rq with ifNoneMatch := inm } rs =
        ⟨.precondFailed, 412, rs.etag, some (varyAdjust rs.vary), none, false⟩) ∧
    containsToken (varyAdjust rs.vary) aeName = true := by
  obtain ⟨_, _, _, _, hetag, hsel⟩ := c19_headers cfg rq rs c k h
  obtain ⟨hetag, _⟩ := hetag e he hne
  rw [hetag] at hinm
  subst hinm
  have hsel' : selectCoding cfg { rq with ifNoneMatch := some (suffixEtag e c.label) } rs = some c := hsel
  have hhit : inmHit { rq with ifNoneMatch := some (suffixEtag e c.label) } rs c = true := by
    unfold inmHit
    simp [he, hne, hst, inmMatches_suffix e c hne]
  rw [respStart_inm_eq hsel' hhit]
  refine ⟨?_, ?_, varyAdjust_hasToken _⟩
  · intro hm
    simp [hm, he]
  · intro hm
    simp [hm]

example : (respStart { mimetypes := [ofString "text/"], minSize := 0 }
    { acceptEncoding := some (ofString "gzip"), ifNoneMatch := some (ofString "\"77-gzip\"") }
    { contentType := some (ofString "text/css"), etag := some (ofString "\"77\""), len := 5 }) =
    ⟨.notModified, 304, some (ofString "\"77-gzip\""), some aeName, none, false⟩ := by
  decide

/-- A response that is not coded is not touched at all. -/
theorem c19_identity_untouched (cfg : Cfg) (rq : Rq) (rs : Rs) (h : selectCoding cfg rq rs = none) :
    respStart cfg rq rs = ⟨.pass, rs.status, rs.etag, rs.vary, none, rs.hasCL⟩ := by
  unfold respStart
  simp [h]

example : selectCoding { mimetypes := [ofString "text/"], minSize := 0 }
    { acceptEncoding := some (ofString "gzip;q=0") }
    { contentType := some (ofString "text/css"), len := 5 } = none := by decide

/-! ## the on-disk cache -/

/-- explicit assumption of the cache theorems: the validator distinguishes the versions of a
    source file — every version of `p` that ever carries validator `v` has content `contentOf p v` -/
def ValidatorDistinguishes (contentOf : Nat → Nat → Bytes) (ops : List Op) : Prop :=
  ∀ p v c, Op.modify p v c ∈ ops → c = contentOf p v

/-- For ALL histories of source modifications, requests (any coding, any process id incl.
    reuse), cache evictions and ALL fault schedules of the cache writer (open failure, short
    writes, EINTR, write failure, rename failure, process death before / after any system call):
    every body that is served — from the cache or freshly coded — is the complete coded form
    of the CURRENT content of the requested file. -/
theorem c19_cache_never_stale (compress : Coding → Bytes → Bytes) (contentOf : Nat → Nat → Bytes)
    (ops : List Op) (hv : ValidatorDistinguishes contentOf ops)
    (st : St) (p : Nat) (c : Coding) (pid : Pid) (plan : Plan) (body : Bytes) (hit : Bool)
    (h : (st, Op.request p c pid plan, Obs.served body hit) ∈ run compress {} ops) :
    ∃ v content, st.src p = some (v, content) ∧ body = compress c content :=
  (run_ok compress contentOf ops {} (srcOk_init _) (cacheOk_init _ _) hv _ h).2.2

/-- The same, reading "decodes to the identity body" — PARTIAL: correctness of the codec
    (zlib) is the hypothesis `hz`, validated by the correspondence checks, not proved. -/
theorem c19_served_decodes_partial (compress decode : Coding → Bytes → Bytes)
    (hz : ∀ c x, decode c (compress c x) = x)
    (contentOf : Nat → Nat → Bytes) (ops : List Op) (hv : ValidatorDistinguishes contentOf ops)
    (st : St) (p : Nat) (c : Coding) (pid : Pid) (plan : Plan) (body : Bytes) (hit : Bool)
    (h : (st, Op.request p c pid plan, Obs.served body hit) ∈ run compress {} ops) :
    ∃ v content, st.src p = some (v, content) ∧ decode c body = content := by
  obtain ⟨v, content, hs, rfl⟩ := c19_cache_never_stale compress contentOf ops hv st p c pid plan body hit h
  exact ⟨v, content, hs, hz c content⟩

/-- At every point of every such history, every published cache file is the complete coded
    form of the version named by its validator, and every temporary file (whatever a dead or
    failed writer left behind) is a prefix of the form it was meant to become. -/
theorem c19_cache_files_complete (compress : Coding → Bytes → Bytes) (contentOf : Nat → Nat → Bytes)
    (ops : List Op) (hv : ValidatorDistinguishes contentOf ops) :
    (∀ t ∈ run compress {} ops, CacheOk compress contentOf t.1.fs) ∧
    CacheOk compress contentOf (exec compress {} ops).fs :=
  ⟨fun t ht => (run_ok compress contentOf ops {} (srcOk_init _) (cacheOk_init _ _) hv t ht).2.1,
   (exec_ok compress contentOf ops {} (srcOk_init _) (cacheOk_init _ _) hv).2⟩

/-- A cache hit reads exactly the published name of the CURRENT validator and coding — never a
    temporary name and never another version's entry.  (Holds in every state.) -/
theorem c19_tmp_never_served (compress : Coding → Bytes → Bytes) (st : St) (p : Nat) (c : Coding)
    (pid : Pid) (plan : Plan) (body : Bytes)
    (h : (doRequest compress st p c pid plan).2 = .served body true) :
    ∃ v content, st.src p = some (v, content) ∧ fsGet st.fs (.final ⟨p, v, c⟩) = some body ∧
      (doRequest compress st p c pid plan).1 = st := by
  unfold doRequest at h ⊢
  cases hs : st.src p with
  | none => simp [hs] at h
  | some vc =>
    obtain ⟨v, content⟩ := vc
    simp only [hs] at h ⊢
    by_cases hca : plan.cacheable = true
    case neg => simp [hca] at h
    simp only [hca, Bool.not_true, Bool.false_eq_true, ↓reduceIte] at h ⊢
    cases hget : fsGet st.fs (Name.final ⟨p, v, c⟩) with
    | some b =>
      simp only [hget] at h ⊢
      split at h
      · cases h
      · rename_i hb
        simp only [Obs.served.injEq, and_true] at h
        subst h
        exact ⟨v, content, rfl, hget, by simp [hb]⟩
    | none =>
      simp only [hget] at h
      by_cases hop : plan.openOk = true
      case neg => simp [hop] at h
      simp only [hop, Bool.not_true, Bool.false_eq_true, ↓reduceIte] at h
      split at h
      · cases h
      · cases h
      · split at h <;> simp at h

/-- non-vacuity of the cache theorems: a history with a writer killed mid-write, a reused
    process id, a source modification and a cache hit, under a toy codec -/
def demoCompress (c : Coding) (x : Bytes) : Bytes := c.label ++ x
def demoOps : List Op :=
  [ .modify 0 1 (ofString "version one"),
    .request 0 .gzip 7 { writes := [.wr 2, .crash] },
    .request 0 .gzip 7 { writes := [.wr 0, .eintr, .wr 3] },
    .request 0 .gzip 9 {},
    .modify 0 2 (ofString "version two"),
    .request 0 .gzip 9 { rename := .crashBefore },
    .request 0 .gzip 7 { rename := .fail },
    .request 0 .gzip 7 {} ]
example : (run demoCompress {} demoOps).map (·.2.2) =
    [.quiet, .crashed, .served (ofString "gzipversion one") false, .served (ofString "gzipversion one") true,
     .quiet, .crashed, .error, .served (ofString "gzipversion two") false] := by decide
example : ValidatorDistinguishes (fun _ v => if v = 1 then ofString "version one" else ofString "version two")
    demoOps := by
  intro p v c h
  simp [demoOps] at h
  rcases h with ⟨_, rfl, rfl⟩ | ⟨_, rfl, rfl⟩ <;> simp

/-- The validator assumption is necessary (and the model is faithful about it): two versions
    sharing a validator make a cache hit serve the older one. -/
example : (run demoCompress {} [ .modify 0 1 (ofString "old"), .request 0 .gzip 7 {},
      .modify 0 1 (ofString "new"), .request 0 .gzip 7 {} ]).map (·.2.2) =
    [.quiet, .served (ofString "gzipold") false, .quiet, .served (ofString "gzipold") true] := by decide

/-! ## cache file names (byte level) -/

/-- The name of a temporary cache file (published name "." pid) can never be the published
    name of any coded response: published names end in the last letter of a coding label,
    temporary names in a decimal digit. -/
theorem c19_tmp_name_not_final (fn : Bytes) (pid : Nat) (dir path e : Bytes) (c : Coding) :
    tmpFileName fn pid ≠ cacheFileName dir path (suffixEtag e c.label) := by
  intro h
  have h1 := tmpFileName_getLast fn pid
  have h2 := cacheFileName_getLast dir path e c
  rw [h] at h1
  obtain ⟨d, hd, hdig⟩ := h1
  rw [h2] at hd
  cases c <;> simp [Coding.label] at hd <;> subst hd <;> simp [isDigit] at hdig

/-- The published cache file name determines the source path, the validator digits of the
    entity tag and the coding: two static resources / versions / codings never share a cache
    entry (entity tags of static files are '"' decimal digits '-' label '"'). -/
theorem c19_cache_name_injective (dir p1 p2 d1 d2 : Bytes) (c1 c2 : Coding)
    (hn1 : d1 ≠ []) (hn2 : d2 ≠ [])
    (hd1 : ∀ x ∈ d1, isDigit x = true) (hd2 : ∀ x ∈ d2, isDigit x = true)
    (h : cacheFileName dir p1 (staticEtag d1 c1) = cacheFileName dir p2 (staticEtag d2 c2)) :
    pathJoin dir p1 = pathJoin dir p2 ∧ d1 = d2 ∧ c1 = c2 :=
  cacheFileName_static_inj dir p1 p2 d1 d2 c1 c2 hn1 hn2 hd1 hd2 h

example : cacheFileName (ofString "/c") (ofString "/srv/a-1") (staticEtag (ofString "22") .gzip)
    = ofString "/c/srv/a-1-22-gzip" := by decide
example : suffixEtag (ofString "\"22\"") Coding.gzip.label = staticEtag (ofString "22") .gzip := by decide

example : tmpFileName (cacheFileName (ofString "/c") (ofString "/srv/a.txt") (ofString "\"12-gzip\"")) 4711
    = ofString "/c/srv/a.txt-12-gzip.4711" := by decide

end LtVerif.C19
