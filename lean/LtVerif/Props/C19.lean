/-
  C19 — compressed responses decode to the identity body; the compression cache is never stale.
  Property theorems only.  Helper lemmas, the cache invariant and plain readings of the model's
  decision ladder (`eligible_gates`, `respStart_ineligible`, `respStart_identity_eq`:
  worth exactly as much as the `rs` / `cache` correspondence, NOT counted as property theorems)
  live in LtVerif/Proofs/Deflate*.lean.

  Claimed PARTIAL: zlib is external.  What lighttpd does around the codec (every body byte is
  handed to it once and in order, every byte it writes reaches the client or the cache file once
  and in order, for every chunk layout, buffer size, read split and codec schedule) is proved
  (`c19_stream_assembly`); that the codec's output is the RFC 1950 / RFC 1952 container around a
  raw DEFLATE stream of what it consumed, and that raw DEFLATE round-trips, are the hypotheses of
  the `_partial` theorems and are validated with an independent decoder on every coded body.
-/
import LtVerif.Proofs.Deflate
import LtVerif.Proofs.DeflateStream
import LtVerif.Proofs.DeflateRfc
import LtVerif.Proofs.DeflateScan
namespace LtVerif.C19
open LtVerif B LtVerif.Deflate

/-! ## negotiation: mod_deflate_choose_encoding() -/

/-- Against RFC 9110 12.5.3 / 12.4.2 (independent specification `renderAE` / `listedAcceptable`
    in Proofs/DeflateRfc.lean): for EVERY Accept-Encoding value that is a list of
    `coding [ OWS ";" OWS "q=" qvalue ]` elements with arbitrary optional white space, the coding
    chosen is allowed by the configuration and explicitly listed by the client with a non-zero
    weight; and no coding is chosen only if no allowed coding is so listed.  (`*` and `identity`
    are never used to justify or to refuse a coding: lighttpd may always answer with the identity
    representation, which RFC 9110 permits unless `identity;q=0` — not honoured, see design ±.) -/
theorem c19_negotiation_rfc (allowed : List CSet) (l : List AEItem) (hl : ∀ it ∈ l, it.wf) :
    (∀ c, chooseEncoding allowed (renderAE l) = some c →
      (∃ x ∈ allowed, x.mem c = true) ∧ listedAcceptable l c) ∧
    (chooseEncoding allowed (renderAE l) = none →
      ∀ x ∈ allowed, ∀ c, x.mem c = true → ¬ listedAcceptable l c) := by
  constructor
  · intro c h
    obtain ⟨pre, x, post, rfl, hx, hacc, _⟩ := chooseSet_spec h
    exact ⟨⟨x, by simp, hx⟩, (acceptSet_renderAE l hl c).mp hacc⟩
  · intro h x hx c hxc hlist
    have hacc := (acceptSet_renderAE l hl c).mpr hlist
    unfold chooseEncoding chooseSet at h
    split at h
    · rename_i y hy
      -- an entry was found, so `pick` of a non-empty intersection cannot be none
      have hne := List.find?_some hy
      rw [pick_none h] at hne
      cases hne
    · rename_i hnone
      have := List.find?_eq_none.mp hnone x hx
      simp only [CSet.isEmpty, CSet.inter, Bool.not_not, Bool.or_eq_true, Bool.and_eq_true, not_or, not_and,
        Bool.not_eq_true] at this
      cases c <;> simp_all [CSet.mem]

/-- a rendered value: " gzip ;q=0 , deflate; Q=0.5,br" -/
def demoAE : List AEItem :=
  [ ⟨[sp], Coding.gzip.label, some ([sp], [], false, ⟨false, none⟩), [sp]⟩,
    ⟨[sp], Coding.deflate.label, some ([], [sp], true, ⟨false, some [53]⟩), []⟩,
    ⟨[], ofString "br", none, []⟩ ]
example : renderAE demoAE = ofString " gzip ;q=0 , deflate; Q=0.5,br" := by decide
example : chooseEncoding (encodingsToFlags none) (renderAE demoAE) = some .deflate := by decide
example : ∀ it ∈ demoAE, it.wf := by
  intro it h
  simp only [demoAE, List.mem_cons, List.not_mem_nil, or_false] at h
  rcases h with rfl | rfl | rfl <;>
    simp [AEItem.wf, isOws, isTokenish, QValue.wf, Coding.label, sp, ht, comma, semi, isDigit, ofString]

/-- The scan loop of mod_deflate_choose_encoding AS THE C POINTER LOOP IT IS (`Scan.scanLoop` /
    `Scan.paramLoop` / `Scan.qZeroAt` in Model/DeflateScan.lean: skip SP/HTAB/',', token up to
    SP/HTAB/','/';'/NUL, memcmp ladder, skip SP/HTAB, `while (*value == ';')` with the
    `q=0[.0*]` look-ahead through a second pointer and the skip to the next ';' / ',' / NUL,
    `accept_encoding |= enc`) computes, for EVERY byte string (NUL-cut like a C string), exactly the
    accept set of the specification-style scanner all other negotiation theorems speak about.
    Hence every theorem stated over `chooseEncoding` / `acceptSet` holds of the loop. -/
theorem c19_scan_loop_refines (hdr : Bytes) (allowed : List CSet) :
    Scan.scanC hdr = acceptSet hdr ∧
    Scan.chooseEncodingC allowed hdr = chooseEncoding allowed hdr :=
  ⟨Scan.scanC_eq_acceptSet hdr, Scan.chooseEncodingC_eq allowed hdr⟩

example : Scan.scanC (ofString " gzip ;q=0 , deflate; Q=0.5,x-gzip;x;q=0.000;y,gzip deflate;q=0. ,br") =
    { deflate := true, gzip := true } := by decide
example : Scan.scanC (ofString "gzip;q=0.0001,deflate;q=0,x-gzip;q=00") = { gzip := true, xgzip := true } := by decide
example : Scan.scanC ((ofString "deflate;q=0.0") ++ [0] ++ ofString ",gzip") = {} := by decide

/-- The listed / allowed clause for the C loop itself: for every RFC 9110 12.5.3 list (any optional
    white space, any weights), what the pointer loop followed by the selection loop answers is
    allowed and explicitly listed with a non-zero weight; it answers nothing only if no allowed coding
    is so listed.  (`c19_negotiation_rfc` transported along `c19_scan_loop_refines`.) -/
theorem c19_negotiation_rfc_loop (allowed : List CSet) (l : List AEItem) (hl : ∀ it ∈ l, it.wf) :
    (∀ c, Scan.chooseEncodingC allowed (renderAE l) = some c →
      (∃ x ∈ allowed, x.mem c = true) ∧ listedAcceptable l c) ∧
    (Scan.chooseEncodingC allowed (renderAE l) = none →
      ∀ x ∈ allowed, ∀ c, x.mem c = true → ¬ listedAcceptable l c) := by
  rw [Scan.chooseEncodingC_eq]
  exact c19_negotiation_rfc allowed l hl

example : Scan.chooseEncodingC (encodingsToFlags none) (renderAE demoAE) = some .deflate := by decide

/-- For ARBITRARY header bytes (also values outside the RFC grammar): the chosen coding is in an
    allowed entry, some scanned element carries its label with a weight that is not zero, and
    the label occurs literally in the value. -/
theorem c19_encoding_listed_allowed (allowed : List CSet) (hdr : Bytes) (c : Coding)
    (h : chooseEncoding allowed hdr = some c) :
    (∃ x ∈ allowed, x.mem c = true) ∧
    (∃ e ∈ entries hdr, e.token = c.label ∧ e.q0 = false) ∧
    c.label <:+: hdr := by
  obtain ⟨pre, x, post, rfl, hx, hacc, _⟩ := chooseSet_spec h
  obtain ⟨e, he, hq, ht⟩ := acceptSet_mem hacc
  exact ⟨⟨x, by simp, hx⟩, ⟨e, he, ht, hq⟩, ht ▸ entries_token_infix hdr e he⟩

example : chooseEncoding (encodingsToFlags (some [Coding.gzip.label, Coding.deflate.label]))
    (ofString "gzip;q=0, deflate;q=0.5") = some .deflate := by decide
example : chooseEncoding (encodingsToFlags none) (ofString "br, gzip ;q=0") = none := by decide

/-- Server preference: the coding comes from the FIRST deflate.allowed-encodings entry that
    contains a coding the client accepts; no earlier entry contains an acceptable coding. -/
theorem c19_encoding_order (allowed : List CSet) (hdr : Bytes) (c : Coding)
    (h : chooseEncoding allowed hdr = some c) :
    ∃ pre x post, allowed = pre ++ x :: post ∧ x.mem c = true ∧
      ∀ y ∈ pre, ∀ d, y.mem d = true → ¬ ∃ e ∈ entries hdr, e.q0 = false ∧ e.token = d.label := by
  obtain ⟨pre, x, post, hsplit, hx, _, hpre⟩ := chooseSet_spec h
  refine ⟨pre, x, post, hsplit, hx, ?_⟩
  intro y hy d hyd hex
  have hacc := (acceptSet_mem_iff hdr d).mpr hex
  have := hpre y hy d
  simp [hyd, hacc] at this

example : chooseEncoding (encodingsToFlags (some [Coding.deflate.label, Coding.gzip.label]))
    (ofString "gzip, deflate") = some .deflate := by decide

/-- what a configured string must contain for a coding to be allowed -/
def Coding.base : Coding → Bytes
  | .gzip => Coding.gzip.label
  | .xgzip => Coding.gzip.label
  | .deflate => Coding.deflate.label

/-- Configuration level: with an explicit non-empty deflate.allowed-encodings list, the chosen
    coding is named by one of the configured strings ("x-gzip" is allowed through "gzip"). -/
theorem c19_encoding_config_allowed (l : List Bytes) (hl : l ≠ []) (hdr : Bytes) (c : Coding)
    (h : chooseEncoding (encodingsToFlags (some l)) hdr = some c) :
    ∃ v ∈ l, isInfix (Coding.base c) v = true := by
  obtain ⟨⟨x, hx, hm⟩, _, _⟩ := c19_encoding_listed_allowed _ _ _ h
  cases l with
  | nil => exact absurd rfl hl
  | cons a l =>
    simp only [encodingsToFlags, List.mem_flatMap, List.mem_append] at hx
    obtain ⟨v, hv, hx⟩ := hx
    refine ⟨v, hv, ?_⟩
    rcases hx with hx | hx
    · split at hx
      · rename_i hg
        simp only [List.mem_singleton] at hx
        subst hx
        cases c <;> simp_all [CSet.mem, Coding.base]
      · cases hx
    · split at hx
      · rename_i hd
        simp only [List.mem_singleton] at hx
        subst hx
        cases c <;> simp_all [CSet.mem, Coding.base]
      · cases hx

example : chooseEncoding (encodingsToFlags (some [ofString "deflate"])) (ofString "gzip, deflate") = some .deflate := by
  decide

/-! ## header adjustments: mod_deflate_handle_response_start() -/

/-- "Responses that may differ by coding carry Vary: Accept-Encoding" — ALL variants: if the
    response to some request for this resource (same configuration, same response of the content
    handler, same method) is coded, then the response to EVERY request with that method — the
    identity variant for a client without Accept-Encoding, with only refused or unknown codings,
    the 304 and the 412 included — carries Vary with the token Accept-Encoding. -/
theorem c19_vary_all_variants (cfg : Cfg) (rs : Rs) (rq1 rq : Rq) (c : Coding) (k : Bool)
    (hm : rq.method = rq1.method) (h1 : (respStart cfg rq1 rs).verdict = .encode c k) :
    ∃ v, (respStart cfg rq rs).vary = some v ∧ containsToken v aeName = true := by
  obtain ⟨hs, _, _⟩ := respStart_verdict_encode h1
  obtain ⟨he1, _⟩ := selectCoding_some hs
  have he : eligible cfg rq rs = true := by rw [eligible_congr cfg rq rq1 rs hm]; exact he1
  cases hn : negotiate cfg rq with
  | none =>
    rw [respStart_identity_eq he hn]
    exact ⟨_, rfl, varyAdjust_hasToken _⟩
  | some c' =>
    have hs' : selectCoding cfg rq rs = some c' := by unfold selectCoding; simp [he, hn]
    cases hi : inmHit rq rs c' with
    | true =>
      rw [respStart_inm_eq hs' hi]
      split <;> exact ⟨_, rfl, varyAdjust_hasToken _⟩
    | false =>
      rw [respStart_encode_eq hs' hi]
      exact ⟨_, rfl, varyAdjust_hasToken _⟩

/-- the identity variant of a compressible resource (client sends no Accept-Encoding) -/
example : (respStart { mimetypes := [ofString "text/"], minSize := 0 } {}
    { contentType := some (ofString "text/css"), etag := some (ofString "\"77\""), len := 5 }) =
    ⟨.pass, 200, some (ofString "\"77\""), some aeName, none, true⟩ := by decide

/-- RFC 9110 8.8.3: entity-tag = [ "W/" ] DQUOTE *etagc DQUOTE -/
def etagc (b : UInt8) : Bool := b = 0x21 || (0x23 ≤ b && b ≤ 0x7e) || 0x80 ≤ b
def IsOpaqueTag (e : Bytes) : Prop := ∃ m, e = dquote :: m ++ [dquote] ∧ ∀ x ∈ m, etagc x = true
def IsEntityTag (e : Bytes) : Prop := IsOpaqueTag e ∨ ∃ o, e = 87 :: 47 :: o ∧ IsOpaqueTag o

/-- The rewritten ETag of a coded response is again a syntactically valid entity-tag (strong
    stays strong, weak stays weak) whenever the identity one is. -/
theorem c19_etag_wellformed (e : Bytes) (c : Coding) (h : IsEntityTag e) : IsEntityTag (suffixEtag e c.label) := by
  have hlab : ∀ x ∈ dash :: c.label, etagc x = true := by cases c <;> decide
  have key : ∀ o, IsOpaqueTag o → ∀ p, IsOpaqueTag ((p ++ o).dropLast.drop p.length ++ dash :: c.label ++ [dquote]) := by
    rintro o ⟨m, rfl, hm⟩ p
    refine ⟨m ++ dash :: c.label, ?_, ?_⟩
    · have : p ++ (dquote :: m ++ [dquote]) = (p ++ dquote :: m) ++ [dquote] := by simp
      rw [this, List.dropLast_concat, List.drop_left]
      simp
    · intro x hx
      rcases List.mem_append.mp hx with hx | hx
      · exact hm x hx
      · exact hlab x hx
  rcases h with h | ⟨o, rfl, ho⟩
  · left
    have := key e h []
    simpa [suffixEtag] using this
  · right
    refine ⟨(([87, 47] : Bytes) ++ o).dropLast.drop 2 ++ dash :: c.label ++ [dquote], ?_, key o ho [87, 47]⟩
    obtain ⟨m, rfl, _⟩ := ho
    have : (87 : UInt8) :: 47 :: (dquote :: m ++ [dquote]) = (87 :: 47 :: dquote :: m) ++ [dquote] := by simp
    simp only [suffixEtag]
    rw [this, List.dropLast_concat]
    have h2 : ([87, 47] : Bytes) ++ (dquote :: m ++ [dquote]) = (87 :: 47 :: dquote :: m) ++ [dquote] := by simp
    rw [h2, List.dropLast_concat]
    simp

example : IsEntityTag (ofString "\"1802567732\"") := Or.inl ⟨ofString "1802567732", by decide, by decide⟩

/-- Whenever the body is coded: Vary names Accept-Encoding, Content-Encoding is the negotiated
    coding (`selectCoding`, hence listed by the client with non-zero weight and allowed:
    c19_negotiation_rfc / c19_encoding_listed_allowed), the identity Content-Length is gone, the
    status is unchanged, and an ETag (if any) is rewritten to a tag distinct from the identity one.
    (Only the Vary and the ETag conjuncts say more than the model's record; the others are read
    off it and are worth what the `rs` correspondence is worth.) -/
theorem c19_headers (cfg : Cfg) (rq : Rq) (rs : Rs) (c : Coding) (k : Bool)
    (h : (respStart cfg rq rs).verdict = .encode c k) :
    (∃ v, (respStart cfg rq rs).vary = some v ∧ containsToken v aeName = true) ∧
    (respStart cfg rq rs).contentEncoding = some c.label ∧
    (respStart cfg rq rs).hasCL = false ∧
    (respStart cfg rq rs).status = rs.status ∧
    (∀ e, rs.etag = some e → e ≠ [] →
      (respStart cfg rq rs).etag = some (suffixEtag e c.label) ∧ suffixEtag e c.label ≠ e) ∧
    selectCoding cfg rq rs = some c := by
  obtain ⟨hs, hi, _⟩ := respStart_verdict_encode h
  rw [respStart_encode_eq hs hi]
  refine ⟨⟨_, rfl, varyAdjust_hasToken _⟩, rfl, rfl, rfl, ?_, hs⟩
  intro e he hne
  constructor
  · simp [encodeOut, he, hne]
  · intro heq
    have := suffixEtag_length e c.label hne
    rw [heq] at this
    omega

example : (respStart { mimetypes := [ofString "text/"], minSize := 0 }
    { acceptEncoding := some (ofString "deflate, gzip") }
    { contentType := some (ofString "text/css"), etag := some (ofString "\"77\""), len := 5 }) =
    ⟨.encode .gzip false, 200, some (ofString "\"77-gzip\""), some aeName, some (ofString "gzip"), false⟩ := by
  decide

/-- The coded tags of one identity tag are pairwise distinct (and distinct from it). -/
theorem c19_etag_distinct (e : Bytes) (c d : Coding) (he : e ≠ [])
    (h : suffixEtag e c.label = suffixEtag e d.label) : c = d := by
  have h1 := suffixEtag_length e c.label he
  have h2 := suffixEtag_length e d.label he
  rw [h] at h1
  exact label_length_inj (by omega)

/-- Revalidation: repeating the request with If-None-Match set to the entity tag the coded
    response carried yields 304 with that same tag and Vary: Accept-Encoding, no body coding
    (2xx responses, GET / QUERY); for other methods 412. -/
theorem c19_revalidation_304 (cfg : Cfg) (rq : Rq) (rs : Rs) (c : Coding) (k : Bool) (e : Bytes)
    (h : (respStart cfg rq rs).verdict = .encode c k)
    (he : rs.etag = some e) (hne : e ≠ []) (hst : rs.status < 300)
    (inm : Option Bytes) (hinm : inm = (respStart cfg rq rs).etag) :
    (rq.method ≠ .other →
      respStart cfg { rq with ifNoneMatch := inm } rs =
        ⟨.notModified, 304, inm, some (varyAdjust rs.vary), none, false⟩) ∧
    (rq.method = .other →
      respStart cfg { rq with ifNoneMatch := inm } rs =
        ⟨.precondFailed, 412, rs.etag, some (varyAdjust rs.vary), none, false⟩) ∧
    containsToken (varyAdjust rs.vary) aeName = true := by
  obtain ⟨_, _, _, _, hetag, hsel⟩ := c19_headers cfg rq rs c k h
  obtain ⟨hetag, _⟩ := hetag e he hne
  rw [hetag] at hinm
  subst hinm
  have hsel' : selectCoding cfg { rq with ifNoneMatch := some (suffixEtag e c.label) } rs = some c := hsel
  have hhit : inmHit { rq with ifNoneMatch := some (suffixEtag e c.label) } rs c = true := by
    unfold inmHit
    simp [he, hne, hst, inmMatches_suffix e c hne]
  rw [respStart_inm_eq hsel' hhit]
  refine ⟨?_, ?_, varyAdjust_hasToken _⟩
  · intro hm
    simp [hm, he]
  · intro hm
    simp [hm]

example : (respStart { mimetypes := [ofString "text/"], minSize := 0 }
    { acceptEncoding := some (ofString "gzip"), ifNoneMatch := some (ofString "\"77-gzip\"") }
    { contentType := some (ofString "text/css"), etag := some (ofString "\"77\""), len := 5 }) =
    ⟨.notModified, 304, some (ofString "\"77-gzip\""), some aeName, none, false⟩ := by
  decide

/-! ## the coded body: stream assembly around the codec -/

open LtVerif.DeflateStream in
/-- For EVERY body queue (memory and file chunks at any offsets, files longer than their chunk),
    output buffer capacity, read block size, schedule of short reads and schedule of codec answers
    (how much zlib consumes and writes per call, when it reports Z_STREAM_END): whenever
    deflate_compress_response() succeeds, the codec has been handed exactly the identity body
    (each byte once, in order), and what has been appended to the write queue / cache file is
    exactly what the codec wrote (each byte once, in order) with nothing left in the buffer. -/
theorem c19_stream_assembly (cap blk : Nat) (cq : List Chunk) (rsz : List Nat) (zs zs' : List ZR) (s : DeflateStream.St)
    (h : compressResponse cap blk cq rsz zs = .ok (s, zs')) :
    s.fed = body cq ∧ s.sink ++ s.obuf = s.outs.reverse.flatten ∧ (body cq ≠ [] → s.obuf = []) :=
  compressResponse_spec cap blk cq rsz zs zs' s h

open LtVerif.DeflateStream in
/-- a 12-byte body in a memory chunk and a file chunk at offset 3 of a longer file, 5-byte output
    buffer, short reads, a codec that dribbles -/
example : (match compressResponse 5 4 [.mem [1, 2, 3, 4], .file [9, 9, 9, 5, 6, 7, 8, 10, 11, 12, 13, 99] 3 8] [1, 0]
    [⟨4, [0xa], .ok⟩, ⟨1, [0xb, 0xc, 0xd, 0xe], .ok⟩, ⟨1, [], .ok⟩, ⟨1, [0xf], .ok⟩, ⟨4, [], .ok⟩, ⟨1, [], .ok⟩,
     ⟨0, [1, 2, 3, 4], .ok⟩, ⟨0, [5], .streamEnd⟩] with
    | .ok (s, _) => some (s.fed, s.sink)
    | .error _ => none) =
    some ([1, 2, 3, 4, 5, 6, 7, 8, 10, 11, 12, 13], [0xa, 0xb, 0xc, 0xd, 0xe, 0xf, 1, 2, 3, 4, 5]) := by decide

open LtVerif.DeflateStream in
/-- RFC 1950 / RFC 1952 containers: the strict decoder inverts the encoder, given only that raw
    DEFLATE is self-delimiting and round-trips. -/
theorem c19_framing_roundtrip (k : RawCodec) (sm : Sums) (f : Framing) (x : Bytes)
    (hk : ∀ x t, k.inflateRaw (k.deflateRaw x ++ t) = some (x, t)) :
    unframe k sm f (frame k sm f x) = some x := by
  cases f with
  | gzip =>
    have h1 : (gzipHeader ++ (k.deflateRaw x ++ (le32 (sm.crc32 x) ++ le32 x.length))).take 10 = gzipHeader := by
      simp [gzipHeader]
    have h2 : (gzipHeader ++ (k.deflateRaw x ++ (le32 (sm.crc32 x) ++ le32 x.length))).drop 10
        = k.deflateRaw x ++ (le32 (sm.crc32 x) ++ le32 x.length) := by simp [gzipHeader]
    simp only [unframe, frame, h1, h2, hk, ↓reduceIte]
  | zlib =>
    have h1 : (zlibHeader ++ (k.deflateRaw x ++ be32 (sm.adler32 x))).take 2 = zlibHeader := by simp [zlibHeader]
    have h2 : (zlibHeader ++ (k.deflateRaw x ++ be32 (sm.adler32 x))).drop 2 = k.deflateRaw x ++ be32 (sm.adler32 x) := by
      simp [zlibHeader]
    simp only [unframe, frame, h1, h2, hk, ↓reduceIte]

/-- the container mod_deflate asks zlib for: gzip for "gzip" / "x-gzip", zlib for "deflate" -/
def framingOf : Coding → LtVerif.DeflateStream.Framing
  | .gzip => .gzip
  | .xgzip => .gzip
  | .deflate => .zlib

open LtVerif.DeflateStream in
/-- HEADLINE clause, PARTIAL: the body the client receives (or the cache file) decodes, with the
    declared coding, to exactly the identity body — for every chunk layout, buffer size, read
    split and codec schedule.  Missing from a full proof (= the assumptions on zlib): `hz` the
    bytes zlib wrote during the session are the container around a raw DEFLATE stream of the
    bytes it consumed; `hk` raw DEFLATE is self-delimiting and round-trips. -/
theorem c19_body_decodes_partial (k : RawCodec) (sm : Sums) (c : Coding)
    (hk : ∀ x t, k.inflateRaw (k.deflateRaw x ++ t) = some (x, t))
    (cap blk : Nat) (cq : List Chunk) (rsz : List Nat) (zs zs' : List ZR) (s : DeflateStream.St)
    (h : compressResponse cap blk cq rsz zs = .ok (s, zs')) (hne : body cq ≠ [])
    (hz : s.outs.reverse.flatten = frame k sm (framingOf c) s.fed) :
    unframe k sm (framingOf c) s.sink = some (body cq) := by
  obtain ⟨hfed, hsink, hobuf⟩ := c19_stream_assembly cap blk cq rsz zs zs' s h
  rw [hobuf hne, List.append_nil] at hsink
  rw [hsink, hz, hfed]
  exact c19_framing_roundtrip k sm _ _ hk

/-! ## the on-disk cache -/

/-- explicit assumption of the cache theorems: the validator distinguishes the versions of a
    source file — every version of `p` that ever carries validator `v` has content `contentOf p v` -/
def ValidatorDistinguishes (contentOf : Nat → Nat → Bytes) (ops : List Op) : Prop :=
  ∀ p v c, Op.modify p v c ∈ ops → c = contentOf p v

/-- For ALL histories of source modifications, requests (any coding, any process id incl.
    reuse), cache evictions and ALL fault schedules of the cache writer (open failure, short
    writes, EINTR, write failure, rename failure, process death before / after any system call):
    every body that is served — from the cache or freshly coded — is the complete coded form
    of the CURRENT content of the requested file. -/
theorem c19_cache_never_stale (compress : Coding → Bytes → Bytes) (contentOf : Nat → Nat → Bytes)
    (ops : List Op) (hv : ValidatorDistinguishes contentOf ops)
    (st : St) (p : Nat) (c : Coding) (pid : Pid) (plan : Plan) (body : Bytes) (hit : Bool)
    (h : (st, Op.request p c pid plan, Obs.served body hit) ∈ run compress {} ops) :
    ∃ v content, st.src p = some (v, content) ∧ body = compress c content :=
  (run_ok compress contentOf ops {} (srcOk_init _) (cacheOk_init _ _) (scOk_nil _ _) hv _ h).2.2

open LtVerif.DeflateStream in
/-- The same, reading "decodes to the identity body" — PARTIAL.  Assumptions on zlib made
    explicit by instantiating the coded form: (1) it is a FUNCTION of (coding, content) — same
    zlib, same deflate.compression-level / deflate.params for as long as the cache directory is in
    use, across processes and restarts (needed because a leftover temporary file is opened
    without O_TRUNC); (2) it is the RFC container around a raw DEFLATE stream; (3) `hk`. -/
theorem c19_served_decodes_partial (k : RawCodec) (sm : Sums)
    (hk : ∀ x t, k.inflateRaw (k.deflateRaw x ++ t) = some (x, t))
    (contentOf : Nat → Nat → Bytes) (ops : List Op) (hv : ValidatorDistinguishes contentOf ops)
    (st : Deflate.St) (p : Nat) (c : Coding) (pid : Pid) (plan : Plan) (body : Bytes) (hit : Bool)
    (h : (st, Op.request p c pid plan, Obs.served body hit) ∈
      run (fun c x => frame k sm (framingOf c) x) {} ops) :
    ∃ v content, st.src p = some (v, content) ∧ unframe k sm (framingOf c) body = some content := by
  obtain ⟨v, content, hs, rfl⟩ :=
    c19_cache_never_stale (fun c x => frame k sm (framingOf c) x) contentOf ops hv st p c pid plan body hit h
  exact ⟨v, content, hs, c19_framing_roundtrip k sm _ _ hk⟩

/-- At every point of every such history, every published cache file is the complete coded
    form of the version named by its validator, and every temporary file (whatever a dead or
    failed writer left behind) is a prefix of the form it was meant to become. -/
theorem c19_cache_files_complete (compress : Coding → Bytes → Bytes) (contentOf : Nat → Nat → Bytes)
    (ops : List Op) (hv : ValidatorDistinguishes contentOf ops) :
    (∀ t ∈ run compress {} ops, CacheOk compress contentOf t.1.fs) ∧
    CacheOk compress contentOf (exec compress {} ops).fs :=
  ⟨fun t ht => (run_ok compress contentOf ops {} (srcOk_init _) (cacheOk_init _ _) (scOk_nil _ _) hv t ht).2.1,
   (exec_ok compress contentOf ops {} (srcOk_init _) (cacheOk_init _ _) (scOk_nil _ _) hv).2⟩

/-- non-vacuity of the cache theorems: a history with a writer killed mid-write, a reused
    process id, a source modification and a cache hit, under a toy codec -/
def demoCompress (c : Coding) (x : Bytes) : Bytes := c.label ++ x
def demoOps : List Op :=
  [ .modify 0 1 (ofString "version one"),
    .request 0 .gzip 7 { writes := [.wr 2, .crash] },
    .request 0 .gzip 7 { writes := [.wr 0, .eintr, .wr 3] },
    .request 0 .gzip 9 {},
    .modify 0 2 (ofString "version two"),
    .request 0 .gzip 9 { rename := .crashBefore },
    .request 0 .gzip 7 { rename := .fail },
    .request 0 .gzip 7 {} ]
example : (run demoCompress {} demoOps).map (·.2.2) =
    [.quiet, .crashed, .served (ofString "gzipversion one") false, .served (ofString "gzipversion one") true,
     .quiet, .crashed, .error, .served (ofString "gzipversion two") false] := by decide
example : ValidatorDistinguishes (fun _ v => if v = 1 then ofString "version one" else ofString "version two")
    demoOps := by
  intro p v c h
  simp [demoOps] at h
  rcases h with ⟨_, rfl, rfl⟩ | ⟨_, rfl, rfl⟩ <;> simp

/-- The validator assumption is necessary (and the model is faithful about it): two versions
    sharing a validator make a cache hit serve the older one. -/
example : (run demoCompress {} [ .modify 0 1 (ofString "old"), .request 0 .gzip 7 {},
      .modify 0 1 (ofString "new"), .request 0 .gzip 7 {} ]).map (·.2.2) =
    [.quiet, .served (ofString "gzipold") false, .quiet, .served (ofString "gzipold") true] := by decide

/-! ## cache file names (byte level) -/

/-- The name of a temporary cache file (published name "." pid) can never be the published
    name of any coded response: published names end in the last letter of a coding label,
    temporary names in a decimal digit. -/
theorem c19_tmp_name_not_final (fn : Bytes) (pid : Nat) (dir path e : Bytes) (c : Coding) :
    tmpFileName fn pid ≠ cacheFileName dir path (suffixEtag e c.label) := by
  intro h
  have h1 := tmpFileName_getLast fn pid
  have h2 := cacheFileName_getLast dir path e c
  rw [h] at h1
  obtain ⟨d, hd, hdig⟩ := h1
  rw [h2] at hd
  cases c <;> simp [Coding.label] at hd <;> subst hd <;> simp [isDigit] at hdig

/-- The abstract cache directory of the cache theorems (objects `final (path, validator, coding)`
    / `tmp … pid`) is faithful to the real one: with the validator read as the number in the
    entity tag of a static file ('"' decimal '"'), a cache directory without trailing slash (as
    set_defaults leaves it) and distinct absolute physical paths, distinct abstract objects have
    distinct file names — published or temporary. -/
theorem c19_cache_names_faithful (dir : Bytes) (pathOf : Nat → Bytes) (hd : dir.getLast? ≠ some slash)
    (habs : ∀ p, (pathOf p).head? = some slash) (hinj : ∀ p q, pathOf p = pathOf q → p = q)
    (n1 n2 : Name) (h : nameBytes dir pathOf n1 = nameBytes dir pathOf n2) : n1 = n2 :=
  nameBytes_inj dir pathOf hd habs hinj n1 n2 h

example : nameBytes (ofString "/c") (fun _ => ofString "/srv/a.txt") (.tmp ⟨0, 12, .gzip⟩ 4711)
    = ofString "/c/srv/a.txt-12-gzip.4711" := by decide
example : suffixEtag (ofString "\"22\"") Coding.gzip.label = staticEtag (ofString "22") .gzip := by decide

end LtVerif.C19
