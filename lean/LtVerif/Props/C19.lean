/-
  C19 — compressed responses decode to the identity body; the compression cache is never stale.
  (property theorems: work in progress)
-/
import LtVerif.Model.Deflate
namespace LtVerif.C19
open LtVerif B LtVerif.Deflate

end LtVerif.C19
