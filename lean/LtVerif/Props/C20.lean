/-
  C20 — url.rewrite*, url.redirect, alias.url and the virtual-host modules map a request as
  their documented rules say.  Property theorems only (helper lemmas live in
  LtVerif/Proofs/KeyValue.lean).  The model (Model/KeyValue.lean, Model/BurlAppend.lean) is
  tied to keyvalue.c / burl.c / base64.c / mod_rewrite.c / mod_redirect.c / mod_alias.c /
  mod_simple_vhost.c / mod_evhost.c by the h_keyvalue correspondence; the modifier -> flag map
  and the base64url tables are regenerated from the C on every run (Extracted/KvModifiers.lean).
-/
import LtVerif.Proofs.KeyValue
namespace LtVerif.C20
open LtVerif B

/-! ## first matching rule -/

/-- pcre_keyvalue_buffer_process(): the first rule (in configuration order) whose pattern
    matches is the one that is applied — its template is expanded with its own captures; a
    blank template stops the search without a substitution; rules behind it are not
    consulted; if no pattern matches, nothing is applied. -/
theorem c20_first_match (cond : Option Caps) (url : UrlParts) (subject : Bytes)
    (pre post : List (Bytes × MatchRes)) (tmpl : Bytes) (ov : OVec)
    (hpre : ∀ r ∈ pre, r.2 = .nomatch) :
    process cond url subject (pre ++ (tmpl, .matched ov) :: post) =
      (if tmpl.isEmpty then .goOn (some pre.length)
       else .finished pre.length
              (subst { rule := { subject := subject, ovec := ov }, cond := cond, url := url } tmpl)) ∧
    process cond url subject pre = .goOn none := by
  constructor
  · unfold process
    rw [processFrom_skip cond url subject pre _ 0 hpre]
    simp [processFrom]
  · unfold process
    have := processFrom_skip cond url subject pre [] 0 hpre
    simp only [List.append_nil] at this
    rw [this]; simp [processFrom]

example : process none ⟨none, none, 80, ofString "/b/x", none⟩ (ofString "/b/x")
    [(ofString "/A/$1", .nomatch), (ofString "/B/$1", .matched [some (0, 4), some (3, 4)]),
     (ofString "/C/$1", .matched [some (0, 4), some (1, 4)])] = .finished 1 (ofString "/B/x") := by decide

/-- a PCRE2 error on a rule reached before any match is an error of the whole lookup (the
    request fails; no later rule is tried) -/
theorem c20_first_match_error (cond : Option Caps) (url : UrlParts) (subject : Bytes)
    (pre post : List (Bytes × MatchRes)) (tmpl : Bytes) (hpre : ∀ r ∈ pre, r.2 = .nomatch) :
    process cond url subject (pre ++ (tmpl, .error) :: post) = .error := by
  unfold process
  rw [processFrom_skip cond url subject pre _ 0 hpre]
  simp [processFrom]

example : process none ⟨none, none, 80, ofString "/x", none⟩ (ofString "/x")
    [(ofString "/A", .nomatch), (ofString "/B", .error), (ofString "/C", .matched [some (0, 2)])] = .error := by decide

/-- url.redirect: the Location header is the expansion of the first matching rule's template, the
    status is url.redirect-code if configured, else 301 for GET/HEAD or HTTP/1.0 requests and 308
    otherwise; no matching rule (or a blank template) means no redirect. -/
theorem c20_redirect (code : Nat) (getOrHead http10 : Bool) (cond : Option Caps) (url : UrlParts)
    (pre post : List (Bytes × MatchRes)) (tmpl : Bytes) (ov : OVec)
    (hpre : ∀ r ∈ pre, r.2 = .nomatch) (ht : tmpl ≠ []) :
    redirect code getOrHead http10 cond url (pre ++ (tmpl, .matched ov) :: post) =
      .ok (some (if code ≠ 0 then code else if getOrHead || http10 then 301 else 308,
                 subst { rule := { subject := url.path, ovec := ov }, cond := cond, url := url } tmpl)) ∧
    redirect code getOrHead http10 cond url pre = .ok none := by
  have h := c20_first_match cond url url.path pre post tmpl ov hpre
  have hne : tmpl.isEmpty = false := by cases tmpl <;> simp_all
  constructor
  · simp only [redirect, h.1, hne, Bool.false_eq_true, if_false, redirectStatus]
  · simp only [redirect, h.2]

example : (match redirect 0 false false none
                   ⟨some (ofString "http"), some (ofString "h"), 80, ofString "/old/x", none⟩
                   [(ofString "${url.scheme}://${url.authority}/new/$1", .matched [some (0, 6), some (5, 6)])] with
           | .ok r => r
           | .error _ => none) = some (308, ofString "http://h/new/x") := by decide

/-! ## modifiers -/

/-- The modifier-name -> recoding map of pcre_keyvalue_buffer_subst_ext(), *extracted from the C
    function of the current tree* (Extracted/KvModifiers.lean), is the documented one: esc/escape
    select "encode all", escnde "no double encoding", escpsnde the same preserving '/', noesc/noescape
    "no encoding", tolower / toupper the case mappings, encb64u / decb64u the base64url codec; and a
    capture without any modifier is recoded like escpsnde.  A wrong mapping in keyvalue.c (e.g.
    "upper:" selecting BURL_TOLOWER) makes exactly this theorem unprovable. -/
theorem c20_modifier_map : ModifierMapAsDocumented := by
  refine ⟨?_, by decide⟩
  intro m
  cases m <;> decide

/-- pcre_keyvalue_buffer_subst_ext(): every documented modifier name (`documentedModifiers` pairs
    each name with the burl.h recoding it is documented to select), at any position of the modifier
    list of a `${...}` / `%{...}`, selects exactly that recoding and consumes exactly its own name. -/
theorem c20_modifiers_as_named : ∀ m ∈ documentedModifiers,
    ∀ (env : Env) (sigil : UInt8) (out p : Bytes) (pos fl : Nat),
      extGo env sigil out (m.1 ++ p) 0 pos fl = extGo env sigil out p 0 (pos + m.1.length) (fl ||| m.2) := by
  intro m hm env sigil out p pos fl
  simp only [documentedModifiers, List.mem_map] at hm
  obtain ⟨md, _, rfl⟩ := hm
  rw [← c20_modifier_map.1 md]
  exact extGo_modifier md env sigil out p pos fl

example : (ofString "toupper:", Extracted.burlToUpper) ∈ documentedModifiers ∧
    (ofString "esc:", Extracted.burlEncodeAll) ∈ documentedModifiers := by decide

/-- `${toupper:noesc:1}` upper-cases the capture, `${tolower:noesc:1}` lower-cases it -/
example : subst ⟨⟨ofString "/Foo", [some (0, 4), some (1, 4)]⟩, none, ⟨none, none, 80, ofString "/Foo", none⟩⟩
    (ofString "/${toupper:noesc:1}/${tolower:noesc:1}") = ofString "/FOO/foo" := by decide

/-- `${noesc:…}`: the string is inserted unchanged -/
theorem c20_noesc_identity (s look : Bytes) : burlAppend Extracted.burlEncodeNone s look = s := by
  unfold burlAppend
  by_cases h : s = []
  · simp [h]
  · simp [h, burlEncode, flagSet, Extracted.burlEncodeNone, Extracted.burlToLower, Extracted.burlToUpper]

example : burlAppend Extracted.burlEncodeNone (ofString "a b/%zz?") [] = ofString "a b/%zz?" := by decide

/-- `${esc:…}`: the inserted string consists of unreserved characters and %HH triplets only -/
theorem c20_esc_output_safe (s look : Bytes) : PctSafe (burlAppend Extracted.burlEncodeAll s look) := by
  unfold burlAppend
  by_cases h : s = []
  · simp [h]; exact .nil
  · simp only [h, if_false]
    simp only [burlEncode, flagSet, Extracted.burlEncodeAll, Extracted.burlEncodeNone,
               Extracted.burlToLower, Extracted.burlToUpper]
    simpa using encAll_safe s

example : burlAppend Extracted.burlEncodeAll (ofString "a b/%41") [] = ofString "a%20b%2F%2541" := by decide

/-- `${tolower:…}` (with any encoder): what is inserted is the encoder's output with only the case of
    ASCII letters changed, and it has no upper-case ASCII letter outside %XX triplets;
    `${toupper:…}` likewise has no lower-case letter outside %XX triplets. -/
theorem c20_case_modifiers (flags : Nat) (s look : Bytes) (hs : s ≠ [])
    (hnul : (0 : UInt8) ∉ burlEncode flags s look) :
    (flagSet flags Extracted.burlToLower = true →
        NoUpperOutsidePct (burlAppend flags s look) ∧
        (burlAppend flags s look).map toLower = (burlEncode flags s look).map toLower) ∧
    (flagSet flags Extracted.burlToLower = false → flagSet flags Extracted.burlToUpper = true →
        NoLowerOutsidePct (burlAppend flags s look) ∧
        (burlAppend flags s look).map toLower = (burlEncode flags s look).map toLower) := by
  have hf : flags ≠ 0 ∨ flags = 0 := by omega
  constructor
  · intro hl
    have h0 : flags ≠ 0 := by
      intro e; subst e; simp [flagSet] at hl
    simp only [burlAppend, hs, h0, if_false, hl, if_true]
    exact ⟨lowerSkipPct_noUpper _ hnul, lowerSkipPct_caseOnly _ 0⟩
  · intro hl hu
    have h0 : flags ≠ 0 := by
      intro e; subst e; simp [flagSet] at hu
    simp only [burlAppend, hs, h0, if_false, hl, hu, if_true, Bool.false_eq_true]
    exact ⟨upperSkipPct_noLower _ hnul, upperSkipPct_caseOnly _ 0⟩

example : burlAppend (Extracted.burlToLower ||| Extracted.burlEncodePsnde) (ofString "/A b/%4A") []
    = ofString "/a%20b/j" := by decide
example : burlAppend (Extracted.burlToUpper ||| Extracted.burlEncodeAll) (ofString "a/b") []
    = ofString "A%2FB" := by decide

/-- `${decb64u:…}` inverts `${encb64u:…}` (base64url without padding, tables taken from base64.c) -/
theorem c20_b64u_roundtrip (x : Bytes) : b64uDec (b64uEnc x) = x := by
  simpa [b64uDec] using b64uDecGo_enc x []

example : b64uEnc (ofString "hello") = ofString "aGVsbG8" := by decide
example : b64uDec (ofString "aGVs!bG8") = [] := by decide

/-! ## the reference interpreter -/

/-- pcre_keyvalue_buffer_subst() IS the reference interpreter on every well-formed template:
    for every list of tokens — literal text, `$$` / `%%`, `$N` / `%N`, and `${…}` / `%{…}` with any
    sequence of documented modifiers in front of a capture number, `url.scheme|authority|port|path|
    query` or `qsa` — expanding the rendered template gives exactly what the token-by-token reference
    semantics (`Tok.interp`: captures, URL parts, query-string append, recoding selected by the
    modifiers) gives. -/
theorem c20_template_interpreter (env : Env) (toks : List Tok) (hw : ∀ tk ∈ toks, tk.WF) :
    subst env (toks.flatMap Tok.render) = interpret env toks [] := by
  have := substGo_interpret c20_modifier_map env toks hw [] []
  simpa [subst, substGo] using this

example : [Tok.lit (ofString "/n/"), .ext dollar [.tolower, .noesc] (.cap 49), .sigil pct, .raw pct 49,
           .ext dollar [.esc] .path, .ext dollar [] .qsa].flatMap Tok.render
    = ofString "/n/${tolower:noesc:1}%%%1${esc:url.path}${qsa}" := by decide
example : ∀ tk ∈ [Tok.lit (ofString "/n/"), .ext dollar [.tolower, .noesc] (.cap 49), .sigil pct, .raw pct 49,
                  .ext dollar [.esc] .path, .ext dollar [] .qsa], tk.WF := by
  intro tk h
  simp only [List.mem_cons, List.not_mem_nil, or_false] at h
  rcases h with h | h | h | h | h | h <;> subst h <;> simp [Tok.WF, Item.WF, isSigil, dollar, pct, isDigit, ofString]
example : interpret ⟨⟨ofString "/Foo/x", [some (0, 6), some (1, 4)]⟩, some ⟨ofString "www.h", [some (0, 5), some (0, 3)]⟩,
                     ⟨none, none, 80, ofString "/Foo/x?a=1", some (ofString "a=1")⟩⟩
    [Tok.lit (ofString "/n/"), .ext dollar [.tolower, .noesc] (.cap 49), .sigil pct, .raw pct 49,
     .ext dollar [.esc] .path, .ext dollar [] .qsa] []
    = ofString "/n/foo%www%2FFoo%2Fx?a=1" := by decide

/-! ## literals -/

/-- template text without `$` / `%` is copied verbatim (anywhere in a template) -/
theorem c20_literals (env : Env) (lit t out : Bytes) (h : ∀ c ∈ lit, c ≠ dollar ∧ c ≠ pct) :
    substGo env (lit ++ t) 0 out = substGo env t 0 (out ++ lit) ∧ subst env lit = lit := by
  have h' : ∀ c ∈ lit, isSigil c = false := by
    intro c hc; simp [isSigil, (h c hc).1, (h c hc).2]
  constructor
  · exact substGo_literal env lit t out h'
  · have := substGo_literal env lit [] [] h'
    simpa [subst, substGo] using this

/-- `$$` gives `$`, `%%` gives `%`; a `$` / `%` followed by anything but a digit, `{` or itself is
    literal together with that byte; a `$` / `%` at the very end is literal -/
theorem c20_escaped_sigils (env : Env) (c d : UInt8) (t out : Bytes) (hc : c = dollar ∨ c = pct)
    (hd : isDigit d = false) (hb : d ≠ lbrace) :
    substGo env (c :: d :: t) 0 out = substGo env t 0 (out ++ (if c = d then [c] else [c, d])) ∧
    substGo env [c] 0 out = out ++ [c] := by
  have hs : (c = dollar || c = pct) = true := by rcases hc with h | h <;> simp [h]
  constructor
  · conv => lhs; unfold substGo
    simp only [hs, if_true, hb, hd, if_false, Bool.false_eq_true]
    rw [substGo_skip]; simp
  · conv => lhs; unfold substGo
    simp [hs]

example : subst ⟨⟨[], []⟩, none, ⟨none, none, 80, [], none⟩⟩ (ofString "/a$$b%%c%zd$") = ofString "/a$b%c%zd$" := by
  decide

/-! ## captures -/

/-- `$N` inserts capture N of the matching rule, `%N` capture N of the enclosing condition (nothing
    if there is no enclosing condition), unmodified -/
theorem c20_captures (env : Env) (d : UInt8) (t out : Bytes) (hd : isDigit d = true) :
    substGo env (dollar :: d :: t) 0 out = substGo env t 0 (out ++ (env.rule.get (d.toNat - 48)).1) ∧
    substGo env (pct :: d :: t) 0 out =
      substGo env t 0 (out ++ (match env.cond with | some c => (c.get (d.toNat - 48)).1 | none => [])) := by
  have hb : d ≠ lbrace := by
    intro e; subst e; simp [isDigit, lbrace] at hd
  constructor
  · conv => lhs; unfold substGo
    simp only [dollar, pct] at *
    simp [hb, hd, capAppend, burlAppend_zero, substGo_skip, dollar]
  · conv => lhs; unfold substGo
    simp only [dollar, pct] at *
    simp [hb, hd, capAppend, substGo_skip, dollar]
    cases env.cond with
    | none => simp
    | some c => simp [burlAppend_zero]

/-- what "capture N" is: the bytes of the subject between the offsets PCRE2 reported for group N;
    empty if the group did not take part in the match or does not exist -/
theorem c20_capture_value (c : Caps) (k : Nat) :
    (∀ s e, c.ovec[k]? = some (some (s, e)) → (c.get k).1 = (c.subject.drop s).take (e - s)) ∧
    (c.ovec[k]? = some none → (c.get k).1 = []) ∧
    (c.ovec.length ≤ k → (c.get k).1 = []) := by
  refine ⟨?_, ?_, ?_⟩
  · intro s e h; simp [Caps.get, h]
  · intro h; simp [Caps.get, h]
  · intro h
    have : c.ovec[k]? = none := by simp [h]
    simp [Caps.get, this]

example : subst ⟨⟨ofString "/foo/bar", [some (0, 8), some (1, 4), none]⟩,
                 some ⟨ofString "www.example.com", [some (0, 15), some (0, 3)]⟩,
                 ⟨none, none, 80, ofString "/foo/bar", none⟩⟩
    (ofString "/$1-$2-$7-%1") = ofString "/foo---www" := by decide

/-- `${N}` (no modifier) inserts capture N with the default recoding, which is the one named
    escpsnde: percent-encode everything but unreserved characters and '/', keep existing %XX -/
theorem c20_braced_capture (env : Env) (d : UInt8) (t out : Bytes) (hd : isDigit d = true) :
    substGo env (dollar :: lbrace :: d :: rbrace :: t) 0 out =
      substGo env t 0 (out ++ burlAppend Extracted.burlEncodePsnde (env.rule.get (d.toNat - 48)).1
                                         (env.rule.get (d.toNat - 48)).2) := by
  rw [substGo_brace env dollar (by decide)]
  simp only [substExt, extGo, hd, if_true]
  simp [extNumber, isDigit, rbrace, idxOf?, capAppend, Extracted.kvMod_default,
        Extracted.burlEncodePsnde, dollar]

example : subst ⟨⟨ofString "/a b/%41%2f", [some (0, 11), some (1, 11)]⟩, none, ⟨none, none, 80, [], none⟩⟩
    (ofString "/${1}") = ofString "/a%20b/A%2f" := by decide

/-! ## ${qsa} and ${url.*} -/

/-- `${qsa}` appends the query string of the request: introduced by '?' if the result so far has
    no '?', by '&' otherwise (nothing if the query string is empty then); nothing at all if the
    request-target has no query part -/
theorem c20_qsa (env : Env) (t out : Bytes) (hnul : (0 : UInt8) ∉ out) :
    substGo env (ofString "${qsa}" ++ t) 0 out =
      substGo env t 0
        (match env.url.query with
         | none => out
         | some q =>
           if qmark ∈ out then (if q = [] then out else out ++ [38] ++ q)
           else out ++ [qmark] ++ q) := by
  have e : ofString "${qsa}" = dollar :: lbrace :: [113, 115, 97, 125] := by decide
  rw [e, List.cons_append, List.cons_append, substGo_brace env dollar (by decide)]
  have htw : cstr out = out := cstr_eq_self out hnul
  simp only [substExt, List.cons_append, List.nil_append]
  simp only [extGo, startsWith, sEsc, sNo, sTo, sUrlDot, sQsa, ofString, isDigit, rbrace]
  simp [qsaAppend, htw, burlAppend_zero]
  cases env.url.query with
  | none => simp
  | some q =>
    by_cases hq : qmark ∈ out <;> by_cases hqe : q = [] <;> simp [hq, hqe]

example : subst ⟨⟨[], []⟩, none, ⟨none, none, 80, ofString "/x?a=1", some (ofString "a=1")⟩⟩
    (ofString "/y?z${qsa}") = ofString "/y?z&a=1" := by decide
example : subst ⟨⟨[], []⟩, none, ⟨none, none, 80, ofString "/x?a=1", some (ofString "a=1")⟩⟩
    (ofString "/y${qsa}") = ofString "/y?a=1" := by decide

/-- `${url.scheme}`, `${url.authority}`, `${url.port}`, `${url.path}`, `${url.query}` insert the
    corresponding part of the request URL; the path is the request-target up to the first '?' -/
theorem c20_url_parts (env : Env) (t out : Bytes) :
    substGo env (ofString "${url.scheme}" ++ t) 0 out = substGo env t 0 (out ++ env.url.scheme.getD []) ∧
    substGo env (ofString "${url.authority}" ++ t) 0 out = substGo env t 0 (out ++ env.url.authority.getD []) ∧
    substGo env (ofString "${url.port}" ++ t) 0 out = substGo env t 0 (out ++ natToDec env.url.port) ∧
    substGo env (ofString "${url.path}" ++ t) 0 out =
      substGo env t 0 (out ++ env.url.path.takeWhile (· ≠ qmark)) ∧
    substGo env (ofString "${url.query}" ++ t) 0 out = substGo env t 0 (out ++ env.url.query.getD []) := by
  have e1 : ofString "${url.scheme}" = dollar :: lbrace :: [117, 114, 108, 46, 115, 99, 104, 101, 109, 101, 125] := by decide
  have e2 : ofString "${url.authority}" =
      dollar :: lbrace :: [117, 114, 108, 46, 97, 117, 116, 104, 111, 114, 105, 116, 121, 125] := by decide
  have e3 : ofString "${url.port}" = dollar :: lbrace :: [117, 114, 108, 46, 112, 111, 114, 116, 125] := by decide
  have e4 : ofString "${url.path}" = dollar :: lbrace :: [117, 114, 108, 46, 112, 97, 116, 104, 125] := by decide
  have e5 : ofString "${url.query}" = dollar :: lbrace :: [117, 114, 108, 46, 113, 117, 101, 114, 121, 125] := by decide
  refine ⟨?_, ?_, ?_, ?_, ?_⟩
  · rw [e1, List.cons_append, List.cons_append, substGo_brace env dollar (by decide)]
    simp only [substExt, List.cons_append, List.nil_append]
    simp only [extGo, startsWith, sEsc, sNo, sTo, sUrlDot, sScheme, ofString, isDigit, rbrace]
    cases env.url.scheme <;> simp [burlAppend_zero]
  · rw [e2, List.cons_append, List.cons_append, substGo_brace env dollar (by decide)]
    simp only [substExt, List.cons_append, List.nil_append]
    simp only [extGo, startsWith, sEsc, sNo, sTo, sUrlDot, sScheme, sAuthority, ofString, isDigit, rbrace]
    cases env.url.authority <;> simp [burlAppend_zero]
  · rw [e3, List.cons_append, List.cons_append, substGo_brace env dollar (by decide)]
    simp only [substExt, List.cons_append, List.nil_append]
    simp only [extGo, startsWith, sEsc, sNo, sTo, sUrlDot, sScheme, sAuthority, sPort, ofString, isDigit, rbrace]
    simp
  · rw [e4, List.cons_append, List.cons_append, substGo_brace env dollar (by decide)]
    simp only [substExt, List.cons_append, List.nil_append]
    simp only [extGo, startsWith, sEsc, sNo, sTo, sUrlDot, sScheme, sAuthority, sPort, sPath, ofString, isDigit, rbrace]
    simp [burlAppend_zero]
  · rw [e5, List.cons_append, List.cons_append, substGo_brace env dollar (by decide)]
    simp only [substExt, List.cons_append, List.nil_append]
    simp only [extGo, startsWith, sEsc, sNo, sTo, sUrlDot, sScheme, sAuthority, sPort, sPath, sQuery, ofString,
               isDigit, rbrace]
    cases env.url.query <;> simp [burlAppend_zero]

example : subst ⟨⟨[], []⟩, none, ⟨some (ofString "https"), some (ofString "h.example"), 8443, ofString "/p/q?x=1",
                                   some (ofString "x=1")⟩⟩
    (ofString "${url.scheme}://${url.authority}:${url.port}${url.path}?${url.query}")
    = ofString "https://h.example:8443/p/q?x=1" := by decide

/-! ## rewrite-once / rewrite-repeat -/

/-- The re-dispatch loop of url.rewrite-repeat is bounded for *every* rule list and every
    behaviour of the regular expressions: it ends within 102 calls of process_rewrite_rules
    (more fuel never changes the outcome) after at most 101 rewrites. -/
theorem c20_repeat_bounded (matcher : Bytes → List MatchRes) (templates : List Bytes) (repeatIdx : Nat)
    (cond : Option Caps) (opts : Opts) (scheme authority : Option Bytes) (port : Nat) (target : Bytes)
    (k : Nat) :
    rwRun matcher templates repeatIdx cond opts scheme authority port (102 + k) target none 0 =
      rwRun matcher templates repeatIdx cond opts scheme authority port 102 target none 0 ∧
    rwRun matcher templates repeatIdx cond opts scheme authority port 102 target none 0 ≠ .outOfFuel ∧
    (rwRun matcher templates repeatIdx cond opts scheme authority port 102 target none 0).rewrites ≤ 101 := by
  have := rwRun_bounded matcher templates repeatIdx cond opts scheme authority port 102 target none 0 k
    (by intro st h; cases h) (by simp [rwBudget])
  simpa [rwRewritesLeft] using this

/-- the bound is reached: a rewrite-repeat rule that always matches is stopped by the loop limit -/
example : rwRun (fun _ => [.matched [some (0, 1)]]) [ofString "/x"] 0 none ⟨0⟩ none none 80 200 (ofString "/a") none 0
    = .failed .loopError 101 := by decide

/-- url.rewrite-once: once a rule below `repeatIdx` has been applied, the request is not
    rewritten again — the next pass through mod_rewrite returns without consulting any rule
    (HANDLER_GO_ON; or the loop-limit error if the limit is exhausted at that very moment) -/
theorem c20_rewrite_once (repeatIdx : Nat) (cond : Option Caps) (url : UrlParts)
    (rules : List (Bytes × MatchRes)) (h h' : Option RwState) (t' : Bytes) (m : Nat)
    (hcall : rwCall repeatIdx cond url rules h = (.comeback t', h'))
    (hm : process cond url url.path rules = .finished m t') (honce : m < repeatIdx) :
    ∀ (url2 : UrlParts) (rules2 : List (Bytes × MatchRes)),
      (rwCall repeatIdx cond url2 rules2 h').1 = .goOn ∨
      (rwCall repeatIdx cond url2 rules2 h').1 = .loopError := by
  intro url2 rules2
  have key : ∃ c, h' = some { count := c, finished := true } := by
    unfold rwCall at hcall
    cases h with
    | none =>
      simp only [Option.map_none] at hcall
      obtain ⟨_, m', f, hp, hh, hf⟩ := rwCall_body_comeback hcall
      rw [hm] at hp
      simp only [ProcRes.finished.injEq] at hp
      have : f = true := hf (hp.1 ▸ honce)
      subst this
      exact ⟨_, hh⟩
    | some st =>
      simp only [Option.map_some] at hcall
      split at hcall
      · simp at hcall
      · split at hcall
        · simp at hcall
        · obtain ⟨_, m', f, hp, hh, hf⟩ := rwCall_body_comeback hcall
          rw [hm] at hp
          simp only [ProcRes.finished.injEq] at hp
          have : f = true := hf (hp.1 ▸ honce)
          subst this
          exact ⟨_, hh⟩
  obtain ⟨c, hc⟩ := key
  subst hc
  unfold rwCall
  simp only [Option.map_some]
  by_cases hl : c + 1 > rwLoopLimit
  · right; simp [hl]
  · left; simp [hl]

example : rwRun (fun t => if t = ofString "/a" then [.matched [some (0, 2)], .nomatch]
                          else [.nomatch, .matched [some (0, 2)]])
    [ofString "/b", ofString "/c"] 1 none ⟨0⟩ none none 80 200 (ofString "/a") none 0
    = .served (ofString "/b") 1 := by decide
example : rwRun (fun t => if t = ofString "/a" then [.matched [some (0, 2)], .nomatch]
                          else if t = ofString "/b" then [.nomatch, .matched [some (0, 2)]] else [.nomatch, .nomatch])
    [ofString "/b", ofString "/c"] 0 none ⟨0⟩ none none 80 200 (ofString "/a") none 0
    = .served (ofString "/c") 2 := by decide

/-- url.rewrite-if-not-file / url.rewrite-repeat-if-not-file (mod_rewrite_physical): the rules are
    applied — with exactly the first-match / once / repeat semantics of process_rewrite_rules — unless
    the physical path is a regular file; an existing directory (or any other non-regular object, or a
    missing path) does NOT exempt the request.  A regular file is served untouched whatever the rules. -/
theorem c20_if_not_file (kind : FsKind) (repeatIdx : Nat) (cond : Option Caps) (url : UrlParts)
    (rules : List (Bytes × MatchRes)) (h : Option RwState) :
    (kind = .regular → rwPhysical false kind repeatIdx cond url rules h = (.goOn, h)) ∧
    (kind ≠ .regular → rules ≠ [] →
        rwPhysical false kind repeatIdx cond url rules h = rwCall repeatIdx cond url rules h) := by
  constructor
  · intro hk
    unfold rwPhysical
    by_cases he : rules.isEmpty = true <;> simp [he, hk]
  · intro hk hr
    have he : rules.isEmpty = false := by cases rules <;> simp_all
    simp [rwPhysical, he, hk]

example : rwPhysical false .directory 1 none ⟨none, none, 80, ofString "/app/", none⟩
    [(ofString "/front.txt", .matched [some (0, 5)])] none
    = (.comeback (ofString "/front.txt"), some ⟨0, true⟩) := by decide
example : rwPhysical false .regular 1 none ⟨none, none, 80, ofString "/app/real.txt", none⟩
    [(ofString "/front.txt", .matched [some (0, 13)])] none = (.goOn, none) := by decide

/-! ## alias.url -/

/-- mod_alias_remap(): the alias applied is the first one (in configuration order) whose key is a
    prefix of the url-path; exactly the document root and that key are replaced by the alias
    value, everything behind the key is kept byte for byte; the value becomes the new basedir. -/
theorem c20_alias_exact_prefix (aliases : List (Bytes × Bytes)) (basedir path p' b' : Bytes)
    (h : aliasRemap false aliases basedir path = .remapped p' b') :
    ∃ (pre post : List (Bytes × Bytes)) (k v rest : Bytes),
      aliases = pre ++ (k, v) :: post ∧
      (∀ kv ∈ pre, ¬ kv.1 <+: path.drop (baseLen basedir)) ∧
      path.drop (baseLen basedir) = k ++ rest ∧ p' = v ++ rest ∧ b' = v := by
  unfold aliasRemap at h
  split at h
  · simp at h
  · cases hf : List.find? (aliasKeyMatches false (path.drop (baseLen basedir))) aliases with
    | none => simp [hf] at h
    | some kv =>
      obtain ⟨k, v⟩ := kv
      simp only [hf] at h
      split at h
      · simp at h
      · simp only [AliasRes.remapped.injEq] at h
        rw [List.find?_eq_some_iff_append] at hf
        obtain ⟨hm, pre, post, hl, hpre⟩ := hf
        simp only [aliasKeyMatches, Bool.false_eq_true, if_false, Bool.and_eq_true, decide_eq_true_eq,
                   beq_iff_eq] at hm
        refine ⟨pre, post, k, v, (path.drop (baseLen basedir)).drop k.length, hl, ?_, ?_, h.1.symm, h.2.symm⟩
        · intro kv hkv hpfx
          have := hpre kv hkv
          simp only [aliasKeyMatches, Bool.false_eq_true, if_false, Bool.not_eq_eq_eq_not, Bool.not_true,
                     Bool.and_eq_false_iff, decide_eq_false_iff_not, beq_eq_false_iff_ne] at this
          obtain ⟨r, hr⟩ := hpfx
          rcases this with h1 | h2
          · apply h1; rw [← hr]; simp
          · apply h2; rw [← hr]; simp
        · conv => lhs; rw [← List.take_append_drop k.length (path.drop (baseLen basedir))]
          rw [hm.2]

example : aliasRemap false [(ofString "/cgi-bin/", ofString "/usr/lib/cgi-bin/"), (ofString "/doc", ofString "/usr/share/doc")]
    (ofString "/var/www/") (ofString "/var/www/doc/x.html")
    = .remapped (ofString "/usr/share/doc/x.html") (ofString "/usr/share/doc") := by decide
example : aliasRemap false [(ofString "/doc", ofString "/usr/share/doc/")] (ofString "/var/www") (ofString "/var/www/doc../x")
    = .forbidden := by decide

/-! ## virtual hosts -/

/-- mod_simple_vhost: the document root is server-root ++ host name ++ (a tail that depends on
    simple-vhost.document-root only); the host name used is the Host value up to the port, so it
    contains no ':' and — the validated host containing no '/' — no '/' either: the request's
    host selects a single directory level below the server root. -/
theorem c20_simple_vhost_root (sroot host : Bytes) (droot : Option Bytes) :
    ∃ tail, simpleVhostRoot sroot (some host) droot = sroot ++ hostNoPort host ++ tail ∧
      (droot = none → tail = [] ∨ tail = [slash]) ∧
      (∀ d, droot = some d → tail = d ∨ tail = d.drop 1 ∨ tail = slash :: d) ∧
      hostNoPort host <+: host ∧ colon ∉ hostNoPort host ∧ (slash ∉ host → slash ∉ hostNoPort host) := by
  have hp : hostNoPort host <+: host := List.takeWhile_prefix _
  have hc : colon ∉ hostNoPort host := by
    intro hm
    have := mem_takeWhile_imp hm
    simp at this
  have hs : slash ∉ host → slash ∉ hostNoPort host := fun h hm => h (hp.subset hm)
  cases droot with
  | none =>
    simp only [simpleVhostRoot, appendSlash]
    split
    · exact ⟨[slash], by simp, by simp, by simp, hp, hc, hs⟩
    · exact ⟨[], by simp, by simp, by simp, hp, hc, hs⟩
  | some d =>
    simp only [simpleVhostRoot, appendPath]
    split
    · split
      · exact ⟨d.drop 1, by simp, by simp, by simp, hp, hc, hs⟩
      · exact ⟨d, by simp, by simp, by simp, hp, hc, hs⟩
    · split
      · exact ⟨d, by simp, by simp, by simp, hp, hc, hs⟩
      · exact ⟨slash :: d, by simp, by simp, by simp, hp, hc, hs⟩

example : simpleVhostRoot (ofString "/srv/www/") (some (ofString "example.com:8080")) (some (ofString "/htdocs/"))
    = ofString "/srv/www/example.com/htdocs/" := by decide

/-- mod_evhost: whatever a %-piece of evhost.path-pattern expands to (%0..%9, %{N}, %{N.M}, %_) is a
    part of the Host value — it contains no '/' when the validated host contains none — so only
    the literal text of the configured pattern decides how deep below which directory the
    document root lies. -/
theorem c20_evhost_pieces_from_host (authority piece : Bytes) (hs : slash ∉ authority)
    (hp : piece.head? = some pct) :
    slash ∉ evPiece (evParseHost authority) authority piece := by
  have hv : ∀ n v, evLookup (evParseHost authority) n = some v → slash ∉ v := by
    intro n v h
    obtain ⟨e, he, hev⟩ := evLookup_mem h
    exact hev ▸ not_mem_of_infix (evParseHost_infix authority e he) hs
  have hg : ∀ n, slash ∉ (evLookup (evParseHost authority) n).getD [] := by
    intro n
    cases h : evLookup (evParseHost authority) n with
    | none => simp
    | some v => simpa using hv n v h
  unfold evPiece
  split
  · rename_i p0 p1 rest
    simp only [List.head?_cons, Option.some.injEq] at hp
    subst hp
    simp only [ne_eq, not_true_eq_false, if_false]
    split
    · decide
    · split
      · exact fun hm => hs ((List.takeWhile_prefix _).subset hm)
      · split
        · split
          · rename_i x y z _
            cases h : evLookup (evParseHost authority) (x.toNat - 48) with
            | none => simp
            | some v =>
              simp only
              split
              · exact hv _ v h
              · split
                · rename_i hle
                  intro hm
                  simp only [List.mem_singleton] at hm
                  rcases getD_zero_or_mem v (z.toNat - 48 - 1) with h0 | hmem
                  · rw [h0] at hm; exact absurd hm (by decide)
                  · exact hv _ v h (hm ▸ hmem)
                · simp
          · exact hg _
          · simp
        · exact hg _
  · cases piece with
    | nil => simp
    | cons a t =>
      simp only [List.head?_cons, Option.some.injEq] at hp
      subst hp
      cases t with
      | nil => decide
      | cons b t' => rename_i hne; exact absurd rfl (hne pct b t')

example : (evParsePattern (ofString "/srv/%0/%3/%{2.1}/%_/%%")).map (fun p => evhostRoot p (ofString "sub2.sub1.domain.tld:81"))
    = some (ofString "/srv/domain.tld/sub1/d/sub2.sub1.domain.tld/%/") := by decide

end LtVerif.C20
