/-
  C20 — rewrite / redirect / alias / vhost rules map requests as documented.
  Property theorems only (helper lemmas live in LtVerif/Proofs/KeyValue.lean).
-/
import LtVerif.Model.KeyValue
namespace LtVerif.C20
open LtVerif B

theorem c20_placeholder : redirectStatus 0 true false = 301 := by decide

end LtVerif.C20
