/-
  C20 — url.rewrite*, url.redirect, alias.url and the virtual-host modules map a request as
  their documented rules say.  Property theorems only (helper lemmas live in
  LtVerif/Proofs/KeyValue.lean).  The model (Model/KeyValue.lean, Model/BurlAppend.lean) is
  tied to keyvalue.c / burl.c / base64.c / mod_rewrite.c / mod_redirect.c / mod_alias.c /
  mod_simple_vhost.c / mod_evhost.c by the h_keyvalue correspondence; the modifier -> flag map
  and the base64url tables are regenerated from the C on every run (Extracted/KvModifiers.lean).
-/
import LtVerif.Proofs.KeyValueSpec
namespace LtVerif.C20
open LtVerif B

/-! ## first matching rule -/

/-- pcre_keyvalue_buffer_process(): the first rule (in configuration order) whose pattern
    matches is the one that is applied — its template is expanded with its own captures; a
    blank template stops the search without a substitution; rules behind it are not
    consulted; if no pattern matches, nothing is applied. -/
theorem c20_first_match (cond : Option Caps) (url : UrlParts) (subject : Bytes)
    (pre post : List (Bytes × MatchRes)) (tmpl : Bytes) (ov : OVec)
    (hpre : ∀ r ∈ pre, r.2 = .nomatch) :
    process cond url subject (pre ++ (tmpl, .matched ov) :: post) =
      (if tmpl.isEmpty then .goOn (some pre.length)
       else .finished pre.length
              (subst { rule := { subject := subject, ovec := ov }, cond := cond, url := url } tmpl)) ∧
    process cond url subject pre = .goOn none := by
  constructor
  · unfold process
    rw [processFrom_skip cond url subject pre _ 0 hpre]
    simp [processFrom]
  · unfold process
    have := processFrom_skip cond url subject pre [] 0 hpre
    simp only [List.append_nil] at this
    rw [this]; simp [processFrom]

example : process none ⟨none, none, 80, ofString "/b/x", none⟩ (ofString "/b/x")
    [(ofString "/A/$1", .nomatch), (ofString "/B/$1", .matched [some (0, 4), some (3, 4)]),
     (ofString "/C/$1", .matched [some (0, 4), some (1, 4)])] = .finished 1 (ofString "/B/x") := by decide

/-- a PCRE2 error on a rule reached before any match is an error of the whole lookup (the
    request fails; no later rule is tried) -/
theorem c20_first_match_error (cond : Option Caps) (url : UrlParts) (subject : Bytes)
    (pre post : List (Bytes × MatchRes)) (tmpl : Bytes) (hpre : ∀ r ∈ pre, r.2 = .nomatch) :
    process cond url subject (pre ++ (tmpl, .error) :: post) = .error := by
  unfold process
  rw [processFrom_skip cond url subject pre _ 0 hpre]
  simp [processFrom]

example : process none ⟨none, none, 80, ofString "/x", none⟩ (ofString "/x")
    [(ofString "/A", .nomatch), (ofString "/B", .error), (ofString "/C", .matched [some (0, 2)])] = .error := by decide

/-- url.redirect: the Location header is the expansion of the first matching rule's template, the
    status is url.redirect-code if configured, else 301 for GET/HEAD or HTTP/1.0 requests and 308
    otherwise; no matching rule (or a blank template) means no redirect. -/
theorem c20_redirect (code : Nat) (getOrHead http10 : Bool) (cond : Option Caps) (url : UrlParts)
    (pre post : List (Bytes × MatchRes)) (tmpl : Bytes) (ov : OVec)
    (hpre : ∀ r ∈ pre, r.2 = .nomatch) (ht : tmpl ≠ []) :
    redirect code getOrHead http10 cond url (pre ++ (tmpl, .matched ov) :: post) =
      .ok (some (if code ≠ 0 then code else if getOrHead || http10 then 301 else 308,
                 subst { rule := { subject := url.path, ovec := ov }, cond := cond, url := url } tmpl)) ∧
    redirect code getOrHead http10 cond url pre = .ok none := by
  have h := c20_first_match cond url url.path pre post tmpl ov hpre
  have hne : tmpl.isEmpty = false := by cases tmpl <;> simp_all
  constructor
  · simp only [redirect, h.1, hne, Bool.false_eq_true, if_false, redirectStatus]
  · simp only [redirect, h.2]

example : (match redirect 0 false false none
                   ⟨some (ofString "http"), some (ofString "h"), 80, ofString "/old/x", none⟩
                   [(ofString "${url.scheme}://${url.authority}/new/$1", .matched [some (0, 6), some (5, 6)])] with
           | .ok r => r
           | .error _ => none) = some (308, ofString "http://h/new/x") := by decide

/-! ## modifiers -/

/-- The modifier-name -> recoding map of pcre_keyvalue_buffer_subst_ext(), *extracted from the C
    function of the current tree* (Extracted/KvModifiers.lean), is the documented one: esc/escape
    select "encode all", escnde "no double encoding", escpsnde the same preserving '/', noesc/noescape
    "no encoding", tolower / toupper the case mappings, encb64u / decb64u the base64url codec; a
    capture without any modifier is recoded like escpsnde, and so is a capture with only a case
    modifier (`${tolower:1}` reaches burl_append with tolower|escpsnde, observed on the real function).  A wrong mapping in keyvalue.c (e.g.
    "upper:" selecting BURL_TOLOWER) makes exactly this theorem unprovable. -/
theorem c20_modifier_map : ModifierMapAsDocumented := by
  refine ⟨?_, by decide, by decide, by decide⟩
  intro m
  cases m <;> decide

/-- pcre_keyvalue_buffer_subst_ext(): every documented modifier name (`documentedModifiers` pairs
    each name with the burl.h recoding it is documented to select), at any position of the modifier
    list of a `${...}` / `%{...}`, selects exactly that recoding and consumes exactly its own name. -/
theorem c20_modifiers_as_named : ∀ m ∈ documentedModifiers,
    ∀ (env : Env) (sigil : UInt8) (out p : Bytes) (pos fl : Nat),
      extGo env sigil out (m.1 ++ p) 0 pos fl = extGo env sigil out p 0 (pos + m.1.length) (fl ||| m.2) := by
  intro m hm env sigil out p pos fl
  simp only [documentedModifiers, List.mem_map] at hm
  obtain ⟨md, _, rfl⟩ := hm
  rw [← c20_modifier_map.1 md]
  exact extGo_modifier md env sigil out p pos fl

example : (ofString "toupper:", Extracted.burlToUpper) ∈ documentedModifiers ∧
    (ofString "esc:", Extracted.burlEncodeAll) ∈ documentedModifiers := by decide

/-- `${toupper:noesc:1}` upper-cases the capture, `${tolower:noesc:1}` lower-cases it -/
example : subst ⟨⟨ofString "/Foo", [some (0, 4), some (1, 4)]⟩, none, ⟨none, none, 80, ofString "/Foo", none⟩⟩
    (ofString "/${toupper:noesc:1}/${tolower:noesc:1}") = ofString "/FOO/foo" := by decide

/-- `${noesc:…}`: the string is inserted unchanged -/
theorem c20_noesc_identity (s look : Bytes) : burlAppend Extracted.burlEncodeNone s look = s := by
  unfold burlAppend
  by_cases h : s = []
  · simp [h]
  · simp [h, burlEncode, flagSet, Extracted.burlEncodeNone, Extracted.burlToLower, Extracted.burlToUpper]

example : burlAppend Extracted.burlEncodeNone (ofString "a b/%zz?") [] = ofString "a b/%zz?" := by decide

/-- `${esc:…}` / `${escape:…}`: what is inserted is the per-byte percent-encoding of the value (every
    byte that is not unreserved becomes %HH, '%' included); it consists of unreserved characters and
    %HH triplets only, and nothing is lost: percent-decoding it gives the value back -/
theorem c20_esc_transform (s look : Bytes) :
    burlAppend Extracted.burlEncodeAll s look = Spec.escAll s ∧
    PctSafe (burlAppend Extracted.burlEncodeAll s look) ∧
    Spec.decode (burlAppend Extracted.burlEncodeAll s look) = s := by
  have e : burlAppend Extracted.burlEncodeAll s look = Spec.escAll s := by
    unfold burlAppend
    by_cases h : s = []
    · simp [h, Spec.escAll]
    · simp only [h, if_false]
      simp only [burlEncode, flagSet, Extracted.burlEncodeAll, Extracted.burlEncodeNone,
                 Extracted.burlToLower, Extracted.burlToUpper]
      simpa using encAll_spec s
  refine ⟨e, ?_, ?_⟩
  · rw [e, ← encAll_spec]; exact encAll_safe s
  · rw [e]; exact decode_escAll s

/-- `${escnde:…}` / `${escpsnde:…}` (and `${N}` without modifier): the per-token recoding of the
    specification — existing %XX escapes are not encoded again (decoded when they stand for an
    unreserved character), all other bytes but unreserved ones (and '/' for escpsnde) become %HH — and
    the meaning is kept: the result percent-decodes to what the value percent-decodes to. -/
theorem c20_escnde_transform (s look : Bytes) :
    burlAppend Extracted.burlEncodeNde s look = Spec.escNde false s ∧
    burlAppend Extracted.burlEncodePsnde s look = Spec.escNde true s ∧
    Spec.decode (burlAppend Extracted.burlEncodeNde s look) = Spec.decode s ∧
    Spec.decode (burlAppend Extracted.burlEncodePsnde s look) = Spec.decode s := by
  have e1 : burlAppend Extracted.burlEncodeNde s look = Spec.escNde false s := by
    have := burlAppend_spec_url [.escnde] s look (by simp [Spec.caseOk, Spec.has])
    simpa [flagsOf, Modifier.flag, Spec.recode, Spec.caseMap, Spec.encode, Spec.has] using this
  have e2 : burlAppend Extracted.burlEncodePsnde s look = Spec.escNde true s := by
    have := burlAppend_spec_url [.escpsnde] s look (by simp [Spec.caseOk, Spec.has])
    simpa [flagsOf, Modifier.flag, Spec.recode, Spec.caseMap, Spec.encode, Spec.has] using this
  exact ⟨e1, e2, by rw [e1]; exact decode_escNde false s, by rw [e2]; exact decode_escNde true s⟩

/-- `$N` / `${…N}` insert the capture and nothing but the capture: what is appended for a string is the
    same whatever bytes follow it in the subject it is a slice of (burl_append never looks behind the
    `len` bytes it is given) — for every flag set.  E.g. the capture "x%" of the subject "x%41" expands
    to "x%25", not to "xA". -/
theorem c20_capture_only (flags : Nat) (s look look' : Bytes) :
    burlAppend flags s look = burlAppend flags s look' := by
  have h : ∀ l, burlEncode flags s l = burlEncode flags s [] := by
    intro l
    simp only [burlEncode, encNde_spec _ l s, encNde_spec _ [] s]
  simp only [burlAppend, h look, h look']

example : burlAppend Extracted.burlEncodePsnde (ofString "x%") (ofString "41") = ofString "x%25" := by decide

/-- `${tolower:…}` / `${toupper:…}` with any sequence of further modifiers, for URL parts (`flagsOf
    mods` are the flags pcre_keyvalue_buffer_subst_ext hands to burl_append): what is inserted is
    the case mapping of the specification (ASCII letters outside %XX escapes) applied to the encoded
    value — the value itself when no encoding modifier is given, never nothing; it has no upper-case
    (lower-case) letter outside %XX and differs from the encoded value in letter case only. -/
theorem c20_case_modifiers (mods : List Modifier) (s look : Bytes)
    (hnul : (0 : UInt8) ∉ Spec.encode id mods s) :
    (Spec.has mods .tolower = true →
        burlAppend (flagsOf mods) s look = Spec.lower (Spec.encode id mods s) ∧
        NoUpperOutsidePct (burlAppend (flagsOf mods) s look) ∧
        (burlAppend (flagsOf mods) s look).map toLower = (Spec.encode id mods s).map toLower) ∧
    (Spec.has mods .tolower = false → Spec.has mods .toupper = true →
        burlAppend (flagsOf mods) s look = Spec.upper (Spec.encode id mods s) ∧
        NoLowerOutsidePct (burlAppend (flagsOf mods) s look) ∧
        (burlAppend (flagsOf mods) s look).map toLower = (Spec.encode id mods s).map toLower) := by
  have h := burlAppend_spec_url mods s look (fun _ => hnul)
  constructor
  · intro hl
    have e : burlAppend (flagsOf mods) s look = Spec.lower (Spec.encode id mods s) := by
      rw [h]; simp [Spec.recode, Spec.caseMap, hl]
    refine ⟨e, ?_, ?_⟩
    · rw [e, ← lowerSkipPct_spec _ hnul]; exact lowerSkipPct_noUpper _ hnul
    · rw [e, ← lowerSkipPct_spec _ hnul]; exact lowerSkipPct_caseOnly _ 0
  · intro hl hu
    have e : burlAppend (flagsOf mods) s look = Spec.upper (Spec.encode id mods s) := by
      rw [h]; simp [Spec.recode, Spec.caseMap, hl, hu]
    refine ⟨e, ?_, ?_⟩
    · rw [e, ← upperSkipPct_spec _ hnul]; exact upperSkipPct_noLower _ hnul
    · rw [e, ← upperSkipPct_spec _ hnul]; exact upperSkipPct_caseOnly _ 0

/-- a case modifier ON ITS OWN transforms as named: `${tolower:url.authority}` inserts the lower-cased
    authority (same length, same letters up to case), `${tolower:N}` / `${toupper:N}` insert the
    case-mapped DEFAULT encoding (escpsnde) of the capture — not the empty string -/
theorem c20_bare_case_modifier (s look : Bytes) (hnul : (0 : UInt8) ∉ s) :
    burlAppend Extracted.burlToLower s look = Spec.lower s ∧
    (burlAppend Extracted.burlToLower s look).map toLower = s.map toLower ∧
    burlAppend Extracted.burlToUpper s look = Spec.upper s ∧
    (burlAppend Extracted.burlToUpper s look).map toLower = s.map toLower ∧
    burlAppend (capFlags Extracted.burlToLower) s look = Spec.lower (Spec.escNde true s) ∧
    burlAppend (capFlags Extracted.burlToUpper) s look = Spec.upper (Spec.escNde true s) := by
  have hl := (c20_case_modifiers [.tolower] s look (by simpa [Spec.encode, Spec.has] using hnul)).1
    (by simp [Spec.has])
  have hu := (c20_case_modifiers [.toupper] s look (by simpa [Spec.encode, Spec.has] using hnul)).2
    (by simp [Spec.has]) (by simp [Spec.has])
  simp only [flagsOf, List.foldl_cons, List.foldl_nil, Modifier.flag, Nat.zero_or, Spec.encode, Spec.has,
             List.any_cons, List.any_nil, id] at hl hu
  have hE1 : Spec.encode (Spec.escNde true) [.tolower] s = Spec.escNde true s := by simp [Spec.encode, Spec.has]
  have hE2 : Spec.encode (Spec.escNde true) [.toupper] s = Spec.escNde true s := by simp [Spec.encode, Spec.has]
  have c1 := burlAppend_spec_cap c20_modifier_map.2.1 [.tolower] s look
    (fun _ => by rw [hE1]; exact escNde_nul_free true s)
  have c2 := burlAppend_spec_cap c20_modifier_map.2.1 [.toupper] s look
    (fun _ => by rw [hE2]; exact escNde_nul_free true s)
  refine ⟨by simpa using hl.1, by simpa using hl.2.2, by simpa using hu.1, by simpa using hu.2.2, ?_, ?_⟩
  · simpa [flagsOf, Modifier.flag, Spec.recode, Spec.caseMap, Spec.encode, Spec.has] using c1
  · simpa [flagsOf, Modifier.flag, Spec.recode, Spec.caseMap, Spec.encode, Spec.has] using c2

example : subst ⟨⟨ofString "/Foo Bar", [some (0, 8), some (1, 8)]⟩, none,
                 ⟨none, some (ofString "Www.Example"), 80, ofString "/Foo Bar", none⟩⟩
    (ofString "/${tolower:1}|${toupper:1}|${tolower:url.authority}") = ofString "/foo%20bar|FOO%20BAR|www.example" := by
  decide

example : burlAppend (Extracted.burlToLower ||| Extracted.burlEncodePsnde) (ofString "/A b/%4A") []
    = ofString "/a%20b/j" := by decide
example : burlAppend (Extracted.burlToUpper ||| Extracted.burlEncodeAll) (ofString "a/b") []
    = ofString "A%2FB" := by decide

/-- `${decb64u:…}` inverts `${encb64u:…}` (base64url without padding, tables taken from base64.c) -/
theorem c20_b64u_roundtrip (x : Bytes) : b64uDec (b64uEnc x) = x := by
  simpa [b64uDec] using b64uDecGo_enc x []

example : b64uEnc (ofString "hello") = ofString "aGVsbG8" := by decide
example : b64uDec (ofString "aGVs!bG8") = [] := by decide

/-! ## the reference interpreter -/

/-- pcre_keyvalue_buffer_subst() equals the reference interpreter `Spec.interpret` on every
    well-formed template.  `Spec.interpret` (Proofs/KeyValueSpec.lean) is written from the documented
    semantics and shares no recoding code with the model: percent-escapes are found by a tokeniser,
    esc / escnde / escpsnde / tolower / toupper are per-token maps, modifiers are looked up by NAME in
    the modifier list (no flags), captures default to escpsnde and URL parts to no encoding, `${qsa}`
    joins with '?' or '&'.  Tokens: literal text, `$$` / `%%`, `$N` / `%N`, `${…}` / `%{…}` with ANY
    sequence of documented modifiers before N, NN, url.scheme|authority|port|path|query or qsa.
    Side condition (`Spec.tokOk`, decidable): a case modifier does not meet a NUL byte.  (base64url
    is the textbook codec of Model/BurlAppend.lean, characterised by `c20_b64u_roundtrip`.) -/
theorem c20_template_interpreter (env : Env) (toks : List Tok) (hw : ∀ tk ∈ toks, tk.WF)
    (hok : ∀ tk ∈ toks, Spec.tokOk env tk) :
    subst env (toks.flatMap Tok.render) = Spec.interpret env toks [] := by
  have h1 := substGo_interpret c20_modifier_map env toks hw [] []
  have h2 := interpret_spec c20_modifier_map.2.1 env toks [] hok
  rw [← h2]
  simpa [subst, substGo] using h1

example : [Tok.lit (ofString "/n/"), .ext dollar [.tolower, .noesc] (.cap 49), .sigil pct, .raw pct 49,
           .ext dollar [.esc] .path, .ext dollar [.toupper] (.cap 49), .ext dollar [] .qsa].flatMap Tok.render
    = ofString "/n/${tolower:noesc:1}%%%1${esc:url.path}${toupper:1}${qsa}" := by decide
example : ∀ tk ∈ [Tok.lit (ofString "/n/"), .ext dollar [.tolower, .noesc] (.cap 49), .sigil pct, .raw pct 49,
                  .ext dollar [.esc] .path, .ext dollar [.toupper] (.cap 49), .ext dollar [] .qsa], tk.WF := by
  intro tk h
  simp only [List.mem_cons, List.not_mem_nil, or_false] at h
  rcases h with h | h | h | h | h | h | h <;> subst h <;>
    simp [Tok.WF, Item.WF, isSigil, dollar, pct, isDigit, ofString]
example : Spec.interpret ⟨⟨ofString "/Foo/x", [some (0, 6), some (1, 4)]⟩, some ⟨ofString "www.h", [some (0, 5), some (0, 3)]⟩,
                     ⟨none, none, 80, ofString "/Foo/x?a=1", some (ofString "a=1")⟩⟩
    [Tok.lit (ofString "/n/"), .ext dollar [.tolower, .noesc] (.cap 49), .sigil pct, .raw pct 49,
     .ext dollar [.esc] .path, .ext dollar [.toupper] (.cap 49), .ext dollar [] .qsa] []
    = ofString "/n/foo%www%2FFoo%2FxFOO?a=1" := by decide

/-! ## literals -/

/-- template text without `$` / `%` is copied verbatim (anywhere in a template) -/
theorem c20_literals (env : Env) (lit t out : Bytes) (h : ∀ c ∈ lit, c ≠ dollar ∧ c ≠ pct) :
    substGo env (lit ++ t) 0 out = substGo env t 0 (out ++ lit) ∧ subst env lit = lit := by
  have h' : ∀ c ∈ lit, isSigil c = false := by
    intro c hc; simp [isSigil, (h c hc).1, (h c hc).2]
  constructor
  · exact substGo_literal env lit t out h'
  · have := substGo_literal env lit [] [] h'
    simpa [subst, substGo] using this

/-- `$$` gives `$`, `%%` gives `%`; a `$` / `%` followed by anything but a digit, `{` or itself is
    literal together with that byte; a `$` / `%` at the very end is literal -/
theorem c20_escaped_sigils (env : Env) (c d : UInt8) (t out : Bytes) (hc : c = dollar ∨ c = pct)
    (hd : isDigit d = false) (hb : d ≠ lbrace) :
    substGo env (c :: d :: t) 0 out = substGo env t 0 (out ++ (if c = d then [c] else [c, d])) ∧
    substGo env [c] 0 out = out ++ [c] := by
  have hs : (c = dollar || c = pct) = true := by rcases hc with h | h <;> simp [h]
  constructor
  · conv => lhs; unfold substGo
    simp only [hs, if_true, hb, hd, if_false, Bool.false_eq_true]
    rw [substGo_skip]; simp
  · conv => lhs; unfold substGo
    simp [hs]

example : subst ⟨⟨[], []⟩, none, ⟨none, none, 80, [], none⟩⟩ (ofString "/a$$b%%c%zd$") = ofString "/a$b%c%zd$" := by
  decide

/-! ## captures -/

/-- `$N` inserts capture N of the matching rule, `%N` capture N of the enclosing condition (nothing
    if there is no enclosing condition), unmodified -/
theorem c20_captures (env : Env) (d : UInt8) (t out : Bytes) (hd : isDigit d = true) :
    substGo env (dollar :: d :: t) 0 out = substGo env t 0 (out ++ (env.rule.get (d.toNat - 48)).1) ∧
    substGo env (pct :: d :: t) 0 out =
      substGo env t 0 (out ++ (match env.cond with | some c => (c.get (d.toNat - 48)).1 | none => [])) := by
  have hb : d ≠ lbrace := by
    intro e; subst e; simp [isDigit, lbrace] at hd
  constructor
  · conv => lhs; unfold substGo
    simp only [dollar, pct] at *
    simp [hb, hd, capAppend, burlAppend_zero, substGo_skip, dollar]
  · conv => lhs; unfold substGo
    simp only [dollar, pct] at *
    simp [hb, hd, capAppend, substGo_skip, dollar]
    cases env.cond with
    | none => simp
    | some c => simp [burlAppend_zero]

example : subst ⟨⟨ofString "/foo/bar", [some (0, 8), some (1, 4), none]⟩,
                 some ⟨ofString "www.example.com", [some (0, 15), some (0, 3)]⟩,
                 ⟨none, none, 80, ofString "/foo/bar", none⟩⟩
    (ofString "/$1-$2-$7-%1") = ofString "/foo---www" := by decide

/-- `${N}` (no modifier) inserts capture N with the default recoding, which is the one named
    escpsnde: percent-encode everything but unreserved characters and '/', keep existing %XX -/
theorem c20_braced_capture (env : Env) (d : UInt8) (t out : Bytes) (hd : isDigit d = true) :
    substGo env (dollar :: lbrace :: d :: rbrace :: t) 0 out =
      substGo env t 0 (out ++ burlAppend Extracted.burlEncodePsnde (env.rule.get (d.toNat - 48)).1
                                         (env.rule.get (d.toNat - 48)).2) := by
  rw [substGo_brace env dollar (by decide)]
  simp only [substExt, extGo, hd, if_true]
  have hc : capFlags 0 = Extracted.burlEncodePsnde := by decide
  simp [extNumber, isDigit, rbrace, idxOf?, capAppend, hc, dollar]

example : subst ⟨⟨ofString "/a b/%41%2f", [some (0, 11), some (1, 11)]⟩, none, ⟨none, none, 80, [], none⟩⟩
    (ofString "/${1}") = ofString "/a%20b/A%2f" := by decide

/-! ## ${qsa} and ${url.*} -/

/-- `${qsa}` appends the query string of the request: introduced by '?' if the result so far has
    no '?', by '&' otherwise (nothing if the query string is empty then); nothing at all if the
    request-target has no query part -/
theorem c20_qsa (env : Env) (t out : Bytes) (hnul : (0 : UInt8) ∉ out) :
    substGo env (ofString "${qsa}" ++ t) 0 out =
      substGo env t 0
        (match env.url.query with
         | none => out
         | some q =>
           if qmark ∈ out then (if q = [] then out else out ++ [38] ++ q)
           else out ++ [qmark] ++ q) := by
  have e : ofString "${qsa}" = dollar :: lbrace :: [113, 115, 97, 125] := by decide
  rw [e, List.cons_append, List.cons_append, substGo_brace env dollar (by decide)]
  have htw : cstr out = out := cstr_eq_self out hnul
  simp only [substExt, List.cons_append, List.nil_append]
  simp only [extGo, startsWith, sEsc, sNo, sTo, sUrlDot, sQsa, ofString, isDigit, rbrace]
  simp [qsaAppend, htw, burlAppend_zero]
  cases env.url.query with
  | none => simp
  | some q =>
    by_cases hq : qmark ∈ out <;> by_cases hqe : q = [] <;> simp [hq, hqe]

example : subst ⟨⟨[], []⟩, none, ⟨none, none, 80, ofString "/x?a=1", some (ofString "a=1")⟩⟩
    (ofString "/y?z${qsa}") = ofString "/y?z&a=1" := by decide
example : subst ⟨⟨[], []⟩, none, ⟨none, none, 80, ofString "/x?a=1", some (ofString "a=1")⟩⟩
    (ofString "/y${qsa}") = ofString "/y?a=1" := by decide

/-- `${url.scheme}`, `${url.authority}`, `${url.port}`, `${url.path}`, `${url.query}` insert the
    corresponding part of the request URL; the path is the request-target up to the first '?' -/
theorem c20_url_parts (env : Env) (t out : Bytes) :
    substGo env (ofString "${url.scheme}" ++ t) 0 out = substGo env t 0 (out ++ env.url.scheme.getD []) ∧
    substGo env (ofString "${url.authority}" ++ t) 0 out = substGo env t 0 (out ++ env.url.authority.getD []) ∧
    substGo env (ofString "${url.port}" ++ t) 0 out = substGo env t 0 (out ++ natToDec env.url.port) ∧
    substGo env (ofString "${url.path}" ++ t) 0 out =
      substGo env t 0 (out ++ env.url.path.takeWhile (· ≠ qmark)) ∧
    substGo env (ofString "${url.query}" ++ t) 0 out = substGo env t 0 (out ++ env.url.query.getD []) := by
  have e1 : ofString "${url.scheme}" = dollar :: lbrace :: [117, 114, 108, 46, 115, 99, 104, 101, 109, 101, 125] := by decide
  have e2 : ofString "${url.authority}" =
      dollar :: lbrace :: [117, 114, 108, 46, 97, 117, 116, 104, 111, 114, 105, 116, 121, 125] := by decide
  have e3 : ofString "${url.port}" = dollar :: lbrace :: [117, 114, 108, 46, 112, 111, 114, 116, 125] := by decide
  have e4 : ofString "${url.path}" = dollar :: lbrace :: [117, 114, 108, 46, 112, 97, 116, 104, 125] := by decide
  have e5 : ofString "${url.query}" = dollar :: lbrace :: [117, 114, 108, 46, 113, 117, 101, 114, 121, 125] := by decide
  refine ⟨?_, ?_, ?_, ?_, ?_⟩
  · rw [e1, List.cons_append, List.cons_append, substGo_brace env dollar (by decide)]
    simp only [substExt, List.cons_append, List.nil_append]
    simp only [extGo, startsWith, sEsc, sNo, sTo, sUrlDot, sScheme, ofString, isDigit, rbrace]
    cases env.url.scheme <;> simp [burlAppend_zero]
  · rw [e2, List.cons_append, List.cons_append, substGo_brace env dollar (by decide)]
    simp only [substExt, List.cons_append, List.nil_append]
    simp only [extGo, startsWith, sEsc, sNo, sTo, sUrlDot, sScheme, sAuthority, ofString, isDigit, rbrace]
    cases env.url.authority <;> simp [burlAppend_zero]
  · rw [e3, List.cons_append, List.cons_append, substGo_brace env dollar (by decide)]
    simp only [substExt, List.cons_append, List.nil_append]
    simp only [extGo, startsWith, sEsc, sNo, sTo, sUrlDot, sScheme, sAuthority, sPort, ofString, isDigit, rbrace]
    simp
  · rw [e4, List.cons_append, List.cons_append, substGo_brace env dollar (by decide)]
    simp only [substExt, List.cons_append, List.nil_append]
    simp only [extGo, startsWith, sEsc, sNo, sTo, sUrlDot, sScheme, sAuthority, sPort, sPath, ofString, isDigit, rbrace]
    simp [burlAppend_zero]
  · rw [e5, List.cons_append, List.cons_append, substGo_brace env dollar (by decide)]
    simp only [substExt, List.cons_append, List.nil_append]
    simp only [extGo, startsWith, sEsc, sNo, sTo, sUrlDot, sScheme, sAuthority, sPort, sPath, sQuery, ofString,
               isDigit, rbrace]
    cases env.url.query <;> simp [burlAppend_zero]

example : subst ⟨⟨[], []⟩, none, ⟨some (ofString "https"), some (ofString "h.example"), 8443, ofString "/p/q?x=1",
                                   some (ofString "x=1")⟩⟩
    (ofString "${url.scheme}://${url.authority}:${url.port}${url.path}?${url.query}")
    = ofString "https://h.example:8443/p/q?x=1" := by decide

/-! ## rewrite-once / rewrite-repeat / -if-not-file -/

/-- The rewrite stage is bounded for EVERY configuration and every behaviour of the regular
    expressions and of the filesystem: `pass target` may give a different pair of rule lists
    (url.rewrite-once and -repeat for the uri hook, the -if-not-file lists for the physical hook), other
    repeat indices, other %N captures and another file kind on every pass (after a rewrite other
    conditions may hold), yet the loop of HANDLER_COMEBACK re-dispatches ends within 102 passes (more
    fuel never changes the outcome) after at most 101 rewrites — both hooks count in the same
    per-request counter. -/
theorem c20_repeat_bounded (pass : Bytes → RwPass) (opts : Opts) (scheme authority serverName : Bytes)
    (port : Nat) (target : Bytes) (k : Nat) :
    rwRunG pass opts scheme authority serverName port (102 + k) target none 0 =
      rwRunG pass opts scheme authority serverName port 102 target none 0 ∧
    rwRunG pass opts scheme authority serverName port 102 target none 0 ≠ .outOfFuel ∧
    (rwRunG pass opts scheme authority serverName port 102 target none 0).rewrites ≤ 101 := by
  have := rwRunG_bounded pass opts scheme authority serverName port 102 target none 0 k
    (by intro st h; cases h) (by simp [rwBudget])
  simpa [rwRewritesLeft] using this

/-- the same for the loop the in-process correspondence drives (uri hook only, one rule list) -/
theorem c20_repeat_bounded_uri (matcher : Bytes → List MatchRes) (templates : List Bytes) (repeatIdx : Nat)
    (cond : Option Caps) (opts : Opts) (scheme authority serverName : Bytes) (port : Nat) (target : Bytes)
    (k : Nat) :
    rwRun matcher templates repeatIdx cond opts scheme authority serverName port (102 + k) target none 0 =
      rwRun matcher templates repeatIdx cond opts scheme authority serverName port 102 target none 0 ∧
    rwRun matcher templates repeatIdx cond opts scheme authority serverName port 102 target none 0 ≠ .outOfFuel ∧
    (rwRun matcher templates repeatIdx cond opts scheme authority serverName port 102 target none 0).rewrites ≤ 101 := by
  have := rwRun_bounded matcher templates repeatIdx cond opts scheme authority serverName port 102 target none 0 k
    (by intro st h; cases h) (by simp [rwBudget])
  simpa [rwRewritesLeft] using this

/-- the bound is reached: a rewrite-repeat rule that always matches is stopped by the loop limit;
    so is an -if-not-file repeat rule whose result never names a regular file -/
example : rwRun (fun _ => [.matched [some (0, 1)]]) [ofString "/x"] 0 none ⟨0⟩ (ofString "http") [] (ofString "srv") 80
    200 (ofString "/a") none 0 = .failed .loopError 101 := by decide
example : rwRunG (fun t => ⟨[], 0, [(ofString "/x", .matched [some (0, t.length)])], 0, none, false, .directory⟩)
    ⟨0⟩ (ofString "http") [] (ofString "srv") 80 200 (ofString "/a") none 0 = .failed .loopError 101 := by decide
-- `${url.authority}` is the server name when the request has no Host
example : rwRun (fun t => if t = ofString "/a" then [.matched [some (0, 2)]] else [.nomatch])
    [ofString "/${url.authority}"] 0 none ⟨0⟩ (ofString "http") [] (ofString "srv") 80 200 (ofString "/a") none 0
    = .served (ofString "/srv") 1 := by decide

/-- url.rewrite-once: once a rule below `repeatIdx` has been applied, the request is not
    rewritten again — the next pass through mod_rewrite returns without consulting any rule
    (HANDLER_GO_ON; or the loop-limit error if the limit is exhausted at that very moment) -/
theorem c20_rewrite_once (repeatIdx : Nat) (cond : Option Caps) (url : UrlParts)
    (rules : List (Bytes × MatchRes)) (h h' : Option RwState) (t' : Bytes) (m : Nat)
    (hcall : rwCall repeatIdx cond url rules h = (.comeback t', h'))
    (hm : process cond url url.path rules = .finished m t') (honce : m < repeatIdx) :
    ∀ (url2 : UrlParts) (rules2 : List (Bytes × MatchRes)),
      (rwCall repeatIdx cond url2 rules2 h').1 = .goOn ∨
      (rwCall repeatIdx cond url2 rules2 h').1 = .loopError := by
  intro url2 rules2
  have key : ∃ c, h' = some { count := c, finished := true } := by
    unfold rwCall at hcall
    cases h with
    | none =>
      simp only [Option.map_none] at hcall
      obtain ⟨_, m', f, hp, hh, hf⟩ := rwCall_body_comeback hcall
      rw [hm] at hp
      simp only [ProcRes.finished.injEq] at hp
      have : f = true := hf (hp.1 ▸ honce)
      subst this
      exact ⟨_, hh⟩
    | some st =>
      simp only [Option.map_some] at hcall
      split at hcall
      · simp at hcall
      · split at hcall
        · simp at hcall
        · obtain ⟨_, m', f, hp, hh, hf⟩ := rwCall_body_comeback hcall
          rw [hm] at hp
          simp only [ProcRes.finished.injEq] at hp
          have : f = true := hf (hp.1 ▸ honce)
          subst this
          exact ⟨_, hh⟩
  obtain ⟨c, hc⟩ := key
  subst hc
  unfold rwCall
  simp only [Option.map_some]
  by_cases hl : c + 1 > rwLoopLimit
  · right; simp [hl]
  · left; simp [hl]

example : rwRun (fun t => if t = ofString "/a" then [.matched [some (0, 2)], .nomatch]
                          else [.nomatch, .matched [some (0, 2)]])
    [ofString "/b", ofString "/c"] 1 none ⟨0⟩ (ofString "http") (ofString "h") [] 80 200 (ofString "/a") none 0
    = .served (ofString "/b") 1 := by decide
example : rwRun (fun t => if t = ofString "/a" then [.matched [some (0, 2)], .nomatch]
                          else if t = ofString "/b" then [.nomatch, .matched [some (0, 2)]] else [.nomatch, .nomatch])
    [ofString "/b", ofString "/c"] 0 none ⟨0⟩ (ofString "http") (ofString "h") [] 80 200 (ofString "/a") none 0
    = .served (ofString "/c") 2 := by decide

/-- url.rewrite-if-not-file / url.rewrite-repeat-if-not-file on the first pass of a request: the
    request is rewritten — to the expansion of the FIRST matching rule of the list, marked final if
    that rule is a rewrite-if-not-file (not -repeat-) rule — exactly when the physical path is NOT a
    regular file (a directory, a missing path, any other object do not exempt it) and no module has
    taken the request; a regular file is served untouched whatever the rules say. -/
theorem c20_if_not_file (handlerSet : Bool) (kind : FsKind) (repeatIdx : Nat) (cond : Option Caps) (url : UrlParts)
    (pre post : List (Bytes × MatchRes)) (tmpl : Bytes) (ov : OVec) (hpre : ∀ r ∈ pre, r.2 = .nomatch)
    (hres : (subst { rule := { subject := url.path, ovec := ov }, cond := cond, url := url } tmpl).head? = some slash) :
    rwPhysical handlerSet kind repeatIdx cond url (pre ++ (tmpl, .matched ov) :: post) none =
      if handlerSet || kind = .regular then (.goOn, none)
      else (.comeback (subst { rule := { subject := url.path, ovec := ov }, cond := cond, url := url } tmpl),
            some { count := 0, finished := pre.length < repeatIdx }) := by
  have hne : tmpl ≠ [] := by intro e; subst e; simp [subst, substGo] at hres
  have hte : tmpl.isEmpty = false := by cases tmpl <;> simp_all
  have hfm := (c20_first_match cond url url.path pre post tmpl ov hpre).1
  simp only [hte, Bool.false_eq_true, if_false] at hfm
  unfold rwPhysical
  by_cases hh : handlerSet = true
  · simp [hh]
  · by_cases hk : kind = .regular
    · have : (pre ++ (tmpl, MatchRes.matched ov) :: post).isEmpty = false := by simp
      simp [hh, hk, this]
    · have : (pre ++ (tmpl, MatchRes.matched ov) :: post).isEmpty = false := by simp
      simp only [hh, Bool.false_eq_true, if_false, this, hk, Bool.false_or, decide_false]
      unfold rwCall
      simp only [Option.map_none, rwCall.body, hfm, hres, if_true, Option.getD_none, Bool.false_or]

example : rwPhysical false .directory 1 none ⟨none, none, 80, ofString "/app/", none⟩
    [(ofString "/front.txt", .matched [some (0, 5)])] none
    = (.comeback (ofString "/front.txt"), some ⟨0, true⟩) := by decide
example : rwPhysical false .regular 1 none ⟨none, none, 80, ofString "/app/real.txt", none⟩
    [(ofString "/front.txt", .matched [some (0, 13)])] none = (.goOn, none) := by decide

/-! ## alias.url -/

/-- mod_alias_remap(): the alias applied is the first one (in configuration order) whose key is a
    prefix of the url-path — compared byte for byte, or ASCII-case-insensitively with
    server.force-lowercase-filenames (`nocase`); exactly the document root and the matched prefix `k'`
    (as long as the key) are replaced by the alias value, everything behind is kept byte for byte; the
    value becomes the new basedir. -/
theorem c20_alias_exact_prefix (nocase : Bool) (aliases : List (Bytes × Bytes)) (basedir path p' b' : Bytes)
    (h : aliasRemap nocase aliases basedir path = .remapped p' b') :
    ∃ (pre post : List (Bytes × Bytes)) (k v k' rest : Bytes),
      aliases = pre ++ (k, v) :: post ∧
      (∀ kv ∈ pre, ¬ ∃ k'' r, path.drop (baseLen basedir) = k'' ++ r ∧ k''.length = kv.1.length ∧
          (if nocase then eqIcase k'' kv.1 = true else k'' = kv.1)) ∧
      path.drop (baseLen basedir) = k' ++ rest ∧ k'.length = k.length ∧
      (if nocase then eqIcase k' k = true else k' = k) ∧ p' = v ++ rest ∧ b' = v := by
  unfold aliasRemap at h
  split at h
  · simp at h
  · cases hf : List.find? (aliasKeyMatches nocase (path.drop (baseLen basedir))) aliases with
    | none => simp [hf] at h
    | some kv =>
      obtain ⟨k, v⟩ := kv
      simp only [hf] at h
      split at h
      · simp at h
      · simp only [AliasRes.remapped.injEq] at h
        rw [List.find?_eq_some_iff_append] at hf
        obtain ⟨hm, pre, post, hl, hpre⟩ := hf
        simp only [aliasKeyMatches, Bool.and_eq_true, decide_eq_true_eq] at hm
        refine ⟨pre, post, k, v, (path.drop (baseLen basedir)).take k.length,
                (path.drop (baseLen basedir)).drop k.length, hl, ?_, ?_, ?_, ?_, h.1.symm, h.2.symm⟩
        · intro kv hkv hex
          obtain ⟨k'', r, hr, hlen, hcmp⟩ := hex
          have := hpre kv hkv
          simp only [aliasKeyMatches, Bool.not_eq_eq_eq_not, Bool.not_true, Bool.and_eq_false_iff,
                     decide_eq_false_iff_not] at this
          have htake : (path.drop (baseLen basedir)).take kv.1.length = k'' := by
            rw [hr, ← hlen]; simp
          rcases this with h1 | h2
          · apply h1; rw [hr, ← hlen]; simp
          · rw [htake] at h2
            cases nocase with
            | true => simp only [if_true] at hcmp h2; rw [hcmp] at h2; exact absurd h2 (by decide)
            | false =>
              simp only [Bool.false_eq_true, if_false] at hcmp h2
              subst hcmp; simp at h2
        · exact (List.take_append_drop _ _).symm
        · rw [List.length_take]; omega
        · cases nocase with
          | true => simpa using hm.2
          | false => simpa using hm.2

example : aliasRemap false [(ofString "/cgi-bin/", ofString "/usr/lib/cgi-bin/"), (ofString "/doc", ofString "/usr/share/doc")]
    (ofString "/var/www/") (ofString "/var/www/doc/x.html")
    = .remapped (ofString "/usr/share/doc/x.html") (ofString "/usr/share/doc") := by decide
example : aliasRemap false [(ofString "/doc", ofString "/usr/share/doc/")] (ofString "/var/www") (ofString "/var/www/doc../x")
    = .forbidden := by decide
example : aliasRemap true [(ofString "/Doc/", ofString "/usr/share/doc/")] (ofString "/var/www/") (ofString "/var/www/doc/X.html")
    = .remapped (ofString "/usr/share/doc/X.html") (ofString "/usr/share/doc/") := by decide

/-! ## virtual hosts -/

/-- mod_simple_vhost: the document root is server-root ++ host name ++ (a tail that depends on
    simple-vhost.document-root only); the host name used is the Host value up to the port, so it
    contains no ':' and — the validated host containing no '/' — no '/' either: the request's
    host selects a single directory level below the server root. -/
theorem c20_simple_vhost_root (sroot host : Bytes) (droot : Option Bytes) :
    ∃ tail, simpleVhostRoot sroot (some host) droot = sroot ++ hostNoPort host ++ tail ∧
      (droot = none → tail = [] ∨ tail = [slash]) ∧
      (∀ d, droot = some d → tail = d ∨ tail = d.drop 1 ∨ tail = slash :: d) ∧
      hostNoPort host <+: host ∧ colon ∉ hostNoPort host ∧ (slash ∉ host → slash ∉ hostNoPort host) := by
  have hp : hostNoPort host <+: host := List.takeWhile_prefix _
  have hc : colon ∉ hostNoPort host := by
    intro hm
    have := mem_takeWhile_imp hm
    simp at this
  have hs : slash ∉ host → slash ∉ hostNoPort host := fun h hm => h (hp.subset hm)
  cases droot with
  | none =>
    simp only [simpleVhostRoot, appendSlash]
    split
    · exact ⟨[slash], by simp, by simp, by simp, hp, hc, hs⟩
    · exact ⟨[], by simp, by simp, by simp, hp, hc, hs⟩
  | some d =>
    simp only [simpleVhostRoot, appendPath]
    split
    · split
      · exact ⟨d.drop 1, by simp, by simp, by simp, hp, hc, hs⟩
      · exact ⟨d, by simp, by simp, by simp, hp, hc, hs⟩
    · split
      · exact ⟨d, by simp, by simp, by simp, hp, hc, hs⟩
      · exact ⟨slash :: d, by simp, by simp, by simp, hp, hc, hs⟩

example : simpleVhostRoot (ofString "/srv/www/") (some (ofString "example.com:8080")) (some (ofString "/htdocs/"))
    = ofString "/srv/www/example.com/htdocs/" := by decide

/-- mod_evhost: whatever a %-piece of evhost.path-pattern expands to (%0..%9, %{N}, %{N.M}, %_) is a
    part of the Host value — it contains no '/' when the validated host contains none — so only
    the literal text of the configured pattern decides how deep below which directory the
    document root lies. -/
theorem c20_evhost_pieces_from_host (authority piece : Bytes) (hs : slash ∉ authority)
    (hp : piece.head? = some pct) :
    slash ∉ evPiece (evParseHost authority) authority piece := by
  have hv : ∀ n v, evLookup (evParseHost authority) n = some v → slash ∉ v := by
    intro n v h
    obtain ⟨e, he, hev⟩ := evLookup_mem h
    exact hev ▸ not_mem_of_infix (evParseHost_infix authority e he) hs
  have hg : ∀ n, slash ∉ (evLookup (evParseHost authority) n).getD [] := by
    intro n
    cases h : evLookup (evParseHost authority) n with
    | none => simp
    | some v => simpa using hv n v h
  unfold evPiece
  split
  · rename_i p0 p1 rest
    simp only [List.head?_cons, Option.some.injEq] at hp
    subst hp
    simp only [ne_eq, not_true_eq_false, if_false]
    split
    · decide
    · split
      · exact fun hm => hs ((List.takeWhile_prefix _).subset hm)
      · split
        · split
          · rename_i x y z _
            cases h : evLookup (evParseHost authority) (x.toNat - 48) with
            | none => simp
            | some v =>
              simp only
              split
              · exact hv _ v h
              · split
                · rename_i hle
                  intro hm
                  simp only [List.mem_singleton] at hm
                  rcases getD_zero_or_mem v (z.toNat - 48 - 1) with h0 | hmem
                  · rw [h0] at hm; exact absurd hm (by decide)
                  · exact hv _ v h (hm ▸ hmem)
                · simp
          · exact hg _
          · simp
        · exact hg _
  · cases piece with
    | nil => simp
    | cons a t =>
      simp only [List.head?_cons, Option.some.injEq] at hp
      subst hp
      cases t with
      | nil => decide
      | cons b t' => rename_i hne; exact absurd rfl (hne pct b t')

example : (evParsePattern (ofString "/srv/%0/%3/%{2.1}/%_/%%")).map (fun p => evhostRoot p (ofString "sub2.sub1.domain.tld:81"))
    = some (ofString "/srv/domain.tld/sub1/d/sub2.sub1.domain.tld/%/") := by decide

end LtVerif.C20
