#!/usr/bin/env python3
"""Single entry point:  tools/check.py Cnn --tier quick|thorough [--replay file]"""
import argparse, atexit, importlib, os, shutil, signal, sys, tempfile, time, traceback
sys.path.insert(0, os.path.dirname(os.path.abspath(__file__)))
from ltv import common as C
from ltv.runner import Ctx


def private_tmp():
    """Everything a run creates (python tempfile, harness mkdtemp, server roots) goes below one
    directory that is removed when the run ends, however it ends; leftovers of killed runs go too."""
    base = tempfile.gettempdir()
    try:
        for n in os.listdir(base):
            p = os.path.join(base, n)
            if n.startswith("ltvrun.") and time.time() - os.path.getmtime(p) > 3 * 3600:
                shutil.rmtree(p, ignore_errors=True)
    except OSError:
        pass
    root = tempfile.mkdtemp(prefix="ltvrun.")
    os.environ["TMPDIR"] = root
    tempfile.tempdir = root
    atexit.register(shutil.rmtree, root, True)
    for sig in (signal.SIGTERM, signal.SIGHUP):
        signal.signal(sig, lambda *_: sys.exit(143))


def main():
    private_tmp()
    ap = argparse.ArgumentParser()
    ap.add_argument("pid")
    ap.add_argument("--tier", default=os.environ.get("VERIF_TIER", "quick"),
                    choices=["quick", "thorough"])
    ap.add_argument("--replay")
    a = ap.parse_args()
    mod = importlib.import_module("ltv.props." + a.pid.lower())
    ctx = Ctx(a.pid, a.tier)
    if a.replay:
        return mod.replay(ctx, a.replay) if hasattr(mod, "replay") else generic_replay(ctx, mod, a.replay)
    try:
        ctx.lean(getattr(mod, "EXTRA_LEAN_TARGETS", ()))
        mod.run(ctx)
    except Exception:
        tb = traceback.format_exc()
        C.log(tb)
        ctx.broken.append({"kind": "check-crashed", "names": [a.pid], "log": tb})
    return ctx.finish(level=getattr(mod, "LEVEL", "proof"),
                      explanation=getattr(mod, "EXPLANATION", None))


def generic_replay(ctx, mod, path):
    import json
    rep = json.load(open(path))
    print(json.dumps({k: rep[k] for k in rep if k not in ("log",)}, indent=1)[:4000])
    if rep.get("kind") in ("correspondence", "property-oracle", "sanitizer-or-crash") \
            and hasattr(mod, "replay_line"):
        ctx.lean(())
        return mod.replay_line(ctx, rep)
    return 0


if __name__ == "__main__":
    sys.exit(main())
