#!/usr/bin/env python3
"""Assemble /verif/DESIGN.md from design/_head.md, _mid.md, Cnn.md, _tail.md and generated tables."""
import os, json, re
V = os.path.dirname(os.path.dirname(os.path.abspath(__file__)))
def rd(p, d=""):
    try:
        return open(os.path.join(V, p)).read()
    except OSError:
        return d
def esc(s):
    return s.replace("|", "\\|").replace("\n", " ")
def findings():
    k = json.load(open(V + "/known_findings.json"))
    return k["findings"] if isinstance(k, dict) else k
def num(i):
    m = re.search(r"(\d+)", i)
    return int(m.group(1)) if m else 0
def defects():
    rows = ["| id | property | commit | what failed |", "|---|---|---|---|"]
    for e in sorted([e for e in findings() if e["status"] == "fixed"], key=lambda e: num(e["id"])):
        what = re.sub(r"^fixed: property=\S+ (?:[0-9a-f]{7,} )?", "", e["what"])
        rows.append("| %s | %s | `%s` | %s |" % (e["id"], e["property"], e.get("commit", "")[:7], esc(what)))
    return "\n".join(rows)
def known():
    rows = ["| id | property | signature | what fails |", "|---|---|---|---|"]
    for e in findings():
        if e["status"] == "known":
            rows.append("| %s | %s | `%s` | %s |" % (e["id"], e["property"], e["match"], esc(e["what"])))
    return "\n".join(rows)
def status():
    m = json.load(open(V + "/MANIFEST.json"))
    rows = ["| property | status | level | technique / reason |", "|---|---|---|---|"]
    ch = {c["property_id"]: c for c in m.get("checks", [])}
    na = {}
    for n in m.get("not_applicable", []):
        na[n.get("property_id", n.get("id"))] = n
    for i in range(1, 21):
        pid = "C%02d" % i
        if pid in ch:
            c = ch[pid]
            lvl = (c.get("level_claimed") or {}).get("category", c.get("level", ""))
            rows.append("| %s | claimed | %s | %s |" % (pid, lvl, esc(str(c.get("technique", ""))[:300])))
        elif pid in na:
            rows.append("| %s | not claimed | | %s |" % (pid, esc(str(na[pid].get("reason", ""))[:400])))
    return "\n".join(rows)
def seeds():
    rows = ["| seed | property | change | result (quick tier) |", "|---|---|---|---|"]
    sd = V + "/seeded"
    def key(n):
        return (0 if n.startswith("D") else 1, re.sub(r"\d+", "", n), num(n), n)
    for n in sorted(os.listdir(sd), key=key):
        d = os.path.join(sd, n)
        if not os.path.exists(d + "/patch.diff"):
            continue
        prop, summ = "", ""
        if os.path.exists(d + "/meta.json"):
            try:
                mj = json.load(open(d + "/meta.json"))
                prop, summ = mj.get("property", ""), mj.get("summary", "")
            except Exception:
                pass
        if not prop:
            for e in findings():
                if e["id"] == n:
                    prop = e["property"]
                    summ = "reverse of `%s`: %s" % (e.get("commit", "")[:7],
                                                     re.sub(r"^fixed: property=\S+ (?:[0-9a-f]{7,} )?", "", e["what"]))
        res = "not run yet"
        if os.path.exists(d + "/result.json"):
            rj = json.load(open(d + "/result.json"))
            parts = []
            for pid, r in sorted(rj.items()):
                if r.get("stale_patch") and "exit" not in r:
                    parts.append("reverse patch no longer applies to the current tree (its lines were changed "
                                 "again by later repairs); not re-run")
                    continue
                if r.get("caught"):
                    why = (r.get("why") or [""])[0]
                    why = re.sub(r"^.*violation:\s*", "", why)[:140]
                    nf = any("no-failing-input-found" in l for l in r.get("lines", []))
                    parts.append("**caught** by %s%s%s" % (pid, " (no-failing-input-found)" if nf else " with failing input",
                                                          (": " + why) if why else ""))
                else:
                    parts.append("MISSED by %s (exit %s)" % (pid, r.get("exit")))
            res = "; ".join(parts)
        rows.append("| %s | %s | %s | %s |" % (n, prop, esc(summ[:260]), esc(res)))
    return "\n".join(rows)
def main():
    out = rd("design/_head.md") + rd("design/_mid.md")
    for i in range(1, 21):
        pid = "C%02d" % i
        sec = rd("design/%s.md" % pid)
        if not sec:
            sec = "### %s\n\n(as-built account pending; see `tools/ltv/props/%s.py` and `lean/LtVerif/Props/%s.lean`)\n" % (pid, pid.lower(), pid)
        out += sec.rstrip() + "\n\n"
    tail = rd("design/_tail.md")
    tail = tail.replace("@@DEFECTS@@", defects()).replace("@@KNOWN@@", known())
    tail = tail.replace("@@STATUS@@", status()).replace("@@SEEDS@@", seeds())
    out += tail
    open(V + "/DESIGN.md", "w").write(out)
    print("DESIGN.md: %d lines" % out.count("\n"))
if __name__ == "__main__":
    main()
