#!/usr/bin/env python3
"""Writes /verif/MANIFEST.json from the per-property table below."""
import json, os
V = os.path.dirname(os.path.dirname(os.path.abspath(__file__)))
import sys, importlib, glob
sys.path.insert(0, os.path.join(V, "tools"))
CHECKS = {}
for f in sorted(glob.glob(os.path.join(V, "tools", "ltv", "props", "c[0-9]*.py"))):
    mod = importlib.import_module("ltv.props." + os.path.basename(f)[:-3])
    if hasattr(mod, "MANIFEST"):
        CHECKS[os.path.basename(f)[:-3].upper()] = mod.MANIFEST
# only properties listed in tools/claimed.txt are claimed (verified OK on the clean tree, seeds 1-3)
CLAIMED = set(open(os.path.join(V, "tools", "claimed.txt")).read().split())
CHECKS = {k: v for k, v in CHECKS.items() if k in CLAIMED}
NOT_YET = {}
def main():
    props = [json.loads(l)["id"] for l in open(os.path.join(V, "properties.jsonl"))]
    checks = []
    for pid in props:
        if pid not in CHECKS:
            continue
        c = CHECKS[pid]
        checks.append({
            "property_id": pid,
            "quick_cmd": "python3 tools/check.py %s --tier quick" % pid,
            "thorough_cmd": "python3 tools/check.py %s --tier thorough" % pid,
            "evidence_file": "evidence/%s.json" % pid,
            "replay_cmd_template": "python3 tools/check.py %s --replay {path}" % pid,
            "engine": "ltverif",
            "level_claimed": {"category": c.get("cat", "proof"), "text": c["text"], "design_ref": "DESIGN.md §" + c["ref"]},
            "level_note": c["note"],
            "technique": c["tech"],
        })
    na = [{"property_id": p, "reason": NOT_YET.get(p, "check not built yet in this round (planned in DESIGN.md §6); not claimed until its theorems and correspondence exist")}
          for p in props if p not in CHECKS]
    m = {
        "version": 1,
        "setup_cmd": "python3 tools/setup.py",
        "hooks": {"guard": "LIGHTTPD_VERIF", "enable": "in-process harnesses compile /repo/src/*.c with -DLIGHTTPD_VERIF (no hook code exists in /repo: statics are reached by #include of the .c file)",
                  "baseline_off_cmd": "cmake -G Ninja -S /repo -B /repo/_build -DWITH_PCRE2=ON -DWITH_ZLIB=ON && cmake --build /repo/_build && ctest --test-dir /repo/_build -j8 --timeout 900",
                  "source_commits": [], "add_only": True},
        "engines": [{"name": "ltverif", "path": "tools/check.py", "serves_properties": [c["property_id"] for c in checks],
                     "kind_free_text": "Lean 4 library lean/LtVerif (models, proofs, property theorems) + ltmodel line-protocol driver + C correspondence harnesses built from /repo's working tree + table/constant extractor"}],
        "checks": checks,
        "not_applicable": na,
        "notes": "See DESIGN.md. known_findings.json lists genuine defects (fixed ones suppress nothing).",
    }
    json.dump(m, open(os.path.join(V, "MANIFEST.json"), "w"), indent=1)
    print("checks:", len(checks), "not_applicable:", len(na))
if __name__ == "__main__":
    main()
