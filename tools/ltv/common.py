"""Common machinery for the lighttpd Lean-4 verification checks.

Everything here derives its paths from this file's location so that the
checks run unchanged from /verif or from a `vp run` snapshot of it.
"""
import signal
import atexit, fcntl, hashlib, json, os, random, re, shutil, subprocess, sys
import tempfile, time
from concurrent.futures import ThreadPoolExecutor

HERE = os.path.dirname(os.path.abspath(__file__))
VERIF = os.path.dirname(os.path.dirname(HERE))
REPO = os.environ.get("LTV_REPO", "/repo")
SRC = os.path.join(REPO, "src")
LEAN = os.environ.get("LTV_LEAN") or os.path.join(VERIF, "lean")
CACHE = os.path.join(VERIF, ".cache")
EVID = os.environ.get("LTV_EVID") or os.path.join(VERIF, "evidence")
REPLAY = os.path.join(EVID, "replay")
HARNESS = os.path.join(VERIF, "harness")
NCPU = os.cpu_count() or 4
GUARD = "LIGHTTPD_VERIF"

ALLOWED_AXIOMS = {"propext", "Classical.choice", "Quot.sound"}

_scratch = []


def log(*a):
    print(*a, file=sys.stderr, flush=True)


def scratch_dir(tag="ltv"):
    d = tempfile.mkdtemp(prefix="ltverif.%s." % tag)
    _scratch.append(d)
    return d


@atexit.register
def _cleanup():
    for d in _scratch:
        shutil.rmtree(d, ignore_errors=True)


def seed():
    try:
        return int(os.environ.get("VERIF_SEED", "1"))
    except ValueError:
        return 1


class Lock:
    def __init__(self, name):
        os.makedirs(CACHE, exist_ok=True)
        self.path = os.path.join(CACHE, name + ".lock")

    def __enter__(self):
        self.f = open(self.path, "w")
        fcntl.flock(self.f, fcntl.LOCK_EX)
        return self

    def __exit__(self, *a):
        fcntl.flock(self.f, fcntl.LOCK_UN)
        self.f.close()


def die_with_parent():
    """preexec_fn: the child gets SIGKILL when the check process dies (however it dies), so that a
    killed or timed-out check leaves no model drivers, harnesses or servers behind"""
    try:
        import ctypes
        ctypes.CDLL(None).prctl(1, signal.SIGKILL)      # PR_SET_PDEATHSIG
    except Exception:
        pass


def run(cmd, **kw):
    kw.setdefault("stdout", subprocess.PIPE)
    kw.setdefault("stderr", subprocess.STDOUT)
    kw.setdefault("text", True)
    kw.setdefault("preexec_fn", die_with_parent)
    return subprocess.run(cmd, **kw)


# --------------------------------------------------------------------------
# source tree hashing / config.h
# --------------------------------------------------------------------------

def src_files():
    out = []
    for root, _, files in os.walk(SRC):
        for f in files:
            if f.endswith((".c", ".h", ".y")):
                out.append(os.path.join(root, f))
    out.sort()
    return out


_src_hash = None


def src_hash():
    global _src_hash
    if _src_hash is None:
        h = hashlib.sha256()
        for p in src_files():
            h.update(p.encode())
            with open(p, "rb") as f:
                h.update(hashlib.sha256(f.read()).digest())
        _src_hash = h.hexdigest()[:16]
    return _src_hash


def config_h_dir():
    """Directory holding config.h (platform probe output of cmake)."""
    d = os.path.join(REPO, "_build", "build")
    if os.path.exists(os.path.join(d, "config.h")):
        return d
    d = os.path.join(CACHE, "cfg", "build")
    if os.path.exists(os.path.join(d, "config.h")):
        return d
    with Lock("cfg"):
        if not os.path.exists(os.path.join(d, "config.h")):
            b = os.path.join(CACHE, "cfg")
            r = run(["cmake", "-G", "Ninja", "-S", REPO, "-B", b,
                     "-DWITH_PCRE2=ON", "-DWITH_ZLIB=ON"])
            if r.returncode != 0:
                raise RuntimeError("cmake configure failed:\n" + r.stdout)
    return d


BASE_DEFS = ["-DHAVE_CONFIG_H", "-D_TIME_BITS=64", "-D_FILE_OFFSET_BITS=64",
             "-D_LARGEFILE_SOURCE", "-D_LARGE_FILES", "-D_DEFAULT_SOURCE",
             "-D" + GUARD]
SAN = ["-fsanitize=address,undefined", "-fno-sanitize-recover=all",
       "-fno-omit-frame-pointer"]


def cflags(san=True, opt="-O1"):
    fl = ["-std=gnu11", opt, "-g", "-w"] + BASE_DEFS + \
         ["-I" + config_h_dir(), "-I" + SRC]
    if san:
        fl += SAN
    return fl


# --------------------------------------------------------------------------
# static library of the current tree (sanitized) for in-process harnesses
# --------------------------------------------------------------------------
LIB_SRCS = """base64.c buffer.c burl.c log.c http_header.c http_kv.c keyvalue.c
chunk.c http_chunk.c fdevent.c fdevent_fdnode.c gw_backend.c stat_cache.c
http_etag.c array.c algo_md5.c algo_sha1.c algo_splaytree.c configfile-glue.c
http-header-glue.c http_cgi.c http_date.c plugin.c reqpool.c request.c
sock_addr.c rand.c fdlog_maint.c fdlog.c sys-setjmp.c ck.c mod_auth_api.c
mod_vhostdb_api.c response.c connections.c h1.c sock_addr_cache.c
fdevent_impl.c http_range.c network.c network_write.c data_config.c
algo_xxhash.c ls-hpack/lshpack.c""".split()


def _cc(args):
    src, obj, flags = args
    if os.path.exists(obj):
        return (src, 0, "")
    os.makedirs(os.path.dirname(obj), exist_ok=True)
    r = run(["gcc"] + flags + ["-c", src, "-o", obj + ".tmp"])
    if r.returncode == 0:
        os.replace(obj + ".tmp", obj)
    return (src, r.returncode, r.stdout)


def gc_cache(keep):
    """Remove build caches of older source hashes (disk is limited)."""
    try:
        for n in os.listdir(CACHE):
            if n.startswith("tree-") and n != keep:
                p = os.path.join(CACHE, n)
                if time.time() - os.path.getmtime(p) > 1800:
                    shutil.rmtree(p, ignore_errors=True)
    except OSError:
        pass


def tree_dir():
    d = os.path.join(CACHE, "tree-" + src_hash())
    os.makedirs(d, exist_ok=True)
    os.utime(d)
    return d


def build_lib(srcs=None):
    """Compile the listed /repo/src files (ASan+UBSan) into liblt.a.
    Returns (path, error-log or None)."""
    td = tree_dir()
    lib = os.path.join(td, "liblt.a")
    if os.path.exists(lib):
        return lib, None
    with Lock("tree-" + src_hash()):
        if os.path.exists(lib):
            return lib, None
        gc_cache("tree-" + src_hash())
        fl = cflags()
        jobs = []
        for s in (srcs or LIB_SRCS):
            o = os.path.join(td, "obj", s.replace("/", "_")[:-2] + ".o")
            jobs.append((os.path.join(SRC, s), o, fl))
        with ThreadPoolExecutor(NCPU) as ex:
            res = list(ex.map(_cc, jobs))
        bad = [(s, out) for s, rc, out in res if rc != 0]
        if bad:
            return None, "\n".join("%s:\n%s" % b for b in bad)
        objs = [j[1] for j in jobs]
        r = run(["ar", "rcs", lib + ".tmp"] + objs)
        if r.returncode != 0:
            return None, r.stdout
        os.replace(lib + ".tmp", lib)
    return lib, None


def build_harness(name, libs=("-lpcre2-8", "-lz", "-lm", "-ldl"), extra=(),
                  need_lib=True, src=None):
    """Compile harness/inproc/<name>.c against the current tree.
    Returns (exe, errlog)."""
    td = tree_dir()
    src = src or os.path.join(HARNESS, "inproc", name + ".c")
    with open(src, "rb") as f:
        hh = hashlib.sha256(f.read()).hexdigest()[:12]
    for dep in ("harness_common.h",):
        p = os.path.join(HARNESS, "inproc", dep)
        if os.path.exists(p):
            with open(p, "rb") as f:
                hh += hashlib.sha256(f.read()).hexdigest()[:6]
    exe = os.path.join(td, "%s-%s" % (name, hh))
    if os.path.exists(exe):
        return exe, None
    lib = None
    if need_lib:
        lib, err = build_lib()
        if lib is None:
            return None, err
    with Lock("h-%s-%s" % (name, src_hash())):
        if os.path.exists(exe):
            return exe, None
        cmd = ["gcc"] + cflags() + ["-I" + os.path.join(HARNESS, "inproc")] \
            + list(extra) + [src, "-o", exe + ".tmp"]
        if lib:
            cmd += [lib]
        cmd += list(libs)
        r = run(cmd)
        if r.returncode != 0:
            return None, r.stdout
        os.replace(exe + ".tmp", exe)
    return exe, None


# --------------------------------------------------------------------------
# Lean side
# --------------------------------------------------------------------------

def lake(args, timeout=3600):
    env = dict(os.environ)
    return run(["lake"] + args, cwd=LEAN, env=env, timeout=timeout)


def lean_build(targets):
    """Regenerate Extracted/*.lean from the current tree, then lake build.
    Returns (ok, log)."""
    from . import extract
    # one lock per lake project: the shared name for /verif/lean (tools/lk uses the same file),
    # a private one for a copy (LTV_LEAN, used when seeded changes are tried)
    lock = "lake" if os.path.realpath(LEAN) == os.path.realpath(os.path.join(VERIF, "lean")) else \
        "lake-" + hashlib.sha256(os.path.realpath(LEAN).encode()).hexdigest()[:8]
    with Lock(lock):
        ex_err = extract.run_all()
        # a failed extractor removes its Extracted/*.lean, so exactly the theorems that depend on
        # it fail to build (and are reported as broken obligations); others are unaffected
        r = lake(["build"] + list(targets))
        out = r.stdout
        if ex_err:
            out = "EXTRACT FAILED: " + ex_err + "\n" + out
        return r.returncode == 0, out


def ltmodel_path():
    """launcher `ltmodel <model>` that execs the per-model driver ltm_<model>"""
    return os.path.join(VERIF, "tools", "ltmodel")


# line-protocol model(s) each property's check drives
MODEL_OF = {"C01": ["h1"], "C02": ["url"], "C03": ["access", "url"], "C04": ["h1resp"], "C05": ["h2"],
            "C06": ["h2"], "C07": ["hpack"], "C08": ["server", "h1"], "C09": ["cgi", "url", "h1"],
            "C10": ["beresp"], "C11": ["gw"], "C12": ["arith", "h1"], "C13": ["life"], "C14": ["cond"],
            "C15": ["range"], "C16": ["auth"], "C17": ["cq"], "C18": ["dav"], "C19": ["deflate"],
            "C20": ["kv", "url"]}


def model_targets(pid):
    return ["ltm_" + m for m in MODEL_OF.get(pid, [])]


_thm_re = re.compile(r"^\s*(?:@\[[^\]]*\]\s*)?theorem\s+([A-Za-z_][\w.']*)", re.M)


def strip_lean_comments(s):
    # nested block comments
    out, i, depth = [], 0, 0
    while i < len(s):
        if s.startswith("/-", i):
            depth += 1; i += 2; continue
        if depth and s.startswith("-/", i):
            depth -= 1; i += 2; continue
        if depth:
            if s[i] == "\n":
                out.append("\n")
            i += 1; continue
        if s.startswith("--", i):
            j = s.find("\n", i)
            i = len(s) if j < 0 else j
            continue
        out.append(s[i]); i += 1
    return "".join(out)


def props_theorems(pid):
    """(namespace-qualified) names of all theorems in Props/<pid>.lean."""
    p = os.path.join(LEAN, "LtVerif", "Props", pid + ".lean")
    s = strip_lean_comments(open(p).read())
    ns = []
    names = []
    for line in s.split("\n"):
        m = re.match(r"\s*namespace\s+(\S+)", line)
        if m:
            ns.append(m.group(1)); continue
        m = re.match(r"\s*end\s+(\S+)", line)
        if m and ns and ns[-1] == m.group(1):
            ns.pop(); continue
        m = _thm_re.match(line)
        if m:
            n = m.group(1)
            if n.startswith("_root_."):
                names.append(n[7:])
            else:
                names.append(".".join(ns + [n]))
    return names


BANNED = re.compile(r"\bsorry\b|\badmit\b|^\s*axiom\s|native_decide|bv_decide|"
                    r"implemented_by|\bunsafe\s|maxHeartbeats\s+0\b|"
                    r"\bextern\b", re.M)


def import_closure(pid):
    """LtVerif.* modules Props/<pid>.lean depends on (transitively), as file paths"""
    seen, todo = {}, ["LtVerif.Props." + pid]
    while todo:
        m = todo.pop()
        if m in seen:
            continue
        p = os.path.join(LEAN, *m.split(".")) + ".lean"
        if not os.path.exists(p):
            continue
        seen[m] = p
        for mm in re.finditer(r"^\s*import\s+(LtVerif\.[\w.]+)", open(p).read(), re.M):
            todo.append(mm.group(1))
    return sorted(seen.values())


def source_audit(pid=None):
    """grep the library (the import closure of the property's theorems when pid is given)
    for banned constructs (comments stripped)."""
    hits = []
    if pid:
        files = import_closure(pid)
    else:
        files = []
        for root, _, fs in os.walk(os.path.join(LEAN, "LtVerif")):
            files += [os.path.join(root, f) for f in fs if f.endswith(".lean")]
    for p in files:
        s = strip_lean_comments(open(p).read())
        for m in BANNED.finditer(s):
            ln = s.count("\n", 0, m.start()) + 1
            hits.append("%s:%d: %s" % (os.path.relpath(p, LEAN), ln, m.group(0).strip()))
    return hits


def axiom_audit(pid, theorems):
    """#print axioms on every theorem; returns (ok_names, problems, axioms)."""
    d = scratch_dir("ax")
    f = os.path.join(d, "Ax.lean")
    with open(f, "w") as fh:
        fh.write("import LtVerif.Props.%s\n" % pid)
        for t in theorems:
            fh.write("#print axioms %s\n" % t)
    r = lake(["env", "lean", f])
    out = r.stdout
    problems, ok, used = [], [], set()
    # parse: "'name' depends on axioms: [a, b]" / "'name' does not depend on any axioms"
    txt = re.sub(r"\s+", " ", out)
    for t in theorems:
        m = re.search(r"'%s' (does not depend on any axioms|depends on axioms: \[([^\]]*)\])"
                      % re.escape(t), txt)
        if not m:
            problems.append("%s: no #print axioms output" % t)
            continue
        axs = set(a.strip() for a in (m.group(2) or "").split(",") if a.strip())
        used |= axs
        bad = axs - ALLOWED_AXIOMS
        if bad:
            problems.append("%s: disallowed axioms %s" % (t, sorted(bad)))
        else:
            ok.append(t)
    if r.returncode != 0 and not problems:
        problems.append("axiom audit failed: " + out[-2000:])
    return ok, problems, sorted(used)


def failing_theorems(build_log):
    """Best-effort: names of declarations lake reported errors in."""
    names = set()
    for m in re.finditer(r"error: (\S+\.lean):(\d+):(\d+)", build_log):
        path, ln = m.group(1), int(m.group(2))
        p = path if os.path.isabs(path) else os.path.join(LEAN, path)
        try:
            lines = open(p).read().split("\n")
        except OSError:
            continue
        for i in range(min(ln, len(lines)) - 1, -1, -1):
            mm = re.match(r"\s*(?:@\[[^\]]*\]\s*)?(?:private\s+)?(theorem|lemma|def|example|instance)\s+([\w.']+)?", lines[i])
            if mm:
                names.add("%s:%s" % (os.path.basename(p), mm.group(2) or "example@%d" % (i + 1)))
                break
    return sorted(names)


# --------------------------------------------------------------------------
# line protocol
# --------------------------------------------------------------------------

def hx(b):
    if isinstance(b, str):
        b = b.encode("latin-1")
    return b.hex() if b else "-"


def unhx(s):
    return b"" if s == "-" else bytes.fromhex(s)


def run_lines(cmd, lines, timeout=1800, env=None):
    """Feed lines to cmd's stdin; return (list of output lines, rc, stderr)."""
    data = ("\n".join(lines) + "\n").encode()
    e = dict(os.environ)
    e.setdefault("ASAN_OPTIONS", "detect_leaks=0:abort_on_error=0:allocator_may_return_null=1")
    e.setdefault("UBSAN_OPTIONS", "print_stacktrace=1")
    if env:
        e.update(env)
    p = subprocess.run(cmd, input=data, stdout=subprocess.PIPE,
                       stderr=subprocess.PIPE, timeout=timeout, env=e, preexec_fn=die_with_parent)
    return p.stdout.decode("latin-1").split("\n")[:-1], p.returncode, \
        p.stderr.decode("latin-1")


def run_model(model, lines, timeout=1800):
    return run_lines([ltmodel_path(), model], lines, timeout)


def parallel_lines(cmd, lines, nchunks=None, timeout=1800):
    """Run a stateless line->line command over chunks in parallel."""
    n = nchunks or NCPU
    if len(lines) < 2000:
        return run_lines(cmd, lines, timeout)
    sz = (len(lines) + n - 1) // n
    parts = [lines[i:i + sz] for i in range(0, len(lines), sz)]
    with ThreadPoolExecutor(n) as ex:
        res = list(ex.map(lambda p: run_lines(cmd, p, timeout), parts))
    out, rc, err = [], 0, ""
    for i, (o, r, e) in enumerate(res):
        if r != 0 and rc == 0:
            rc, err = r, e
        if len(o) < len(parts[i]):
            # keep alignment with the inputs for EVERY chunk that stopped early
            o = o + ["<crash>"] * (len(parts[i]) - len(o))
        out += o
    return out, rc, err
