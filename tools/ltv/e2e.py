"""End-to-end correspondence support: builds the real lighttpd (sanitized) from
/repo's working tree, runs it with generated configurations, and provides raw
HTTP/1.x and HTTP/2 clients and strict parsers for the checks to drive it."""
import ctypes, os, re, select, shutil, signal, socket, struct, subprocess, time

from . import common as C

E2E_CFLAGS = ("-O1 -g -fsanitize=address,undefined -fno-sanitize-recover=undefined "
              "-fno-omit-frame-pointer -D" + C.GUARD + " -w")


def build_server():
    """cmake+ninja build of lighttpd and its modules from the current tree, cached per
    source hash.  Returns (bindir, errlog|None); bindir has `lighttpd` and mod_*.so"""
    td = C.tree_dir()
    b = os.path.join(td, "e2e")
    exe = os.path.join(b, "build", "lighttpd")
    stamp = os.path.join(b, ".ok")
    if os.path.exists(stamp):
        return os.path.join(b, "build"), None
    with C.Lock("e2e-" + C.src_hash()):
        if os.path.exists(stamp):
            return os.path.join(b, "build"), None
        shutil.rmtree(b, ignore_errors=True)
        os.makedirs(b)
        r = C.run(["cmake", "-G", "Ninja", "-S", C.REPO, "-B", b, "-DWITH_PCRE2=ON", "-DWITH_ZLIB=ON",
                   "-DCMAKE_BUILD_TYPE=None", "-DCMAKE_C_FLAGS=" + E2E_CFLAGS])
        if r.returncode != 0:
            return None, "cmake failed:\n" + r.stdout[-3000:]
        targets = ["lighttpd", "mod_accesslog", "mod_auth", "mod_authn_file", "mod_cgi", "mod_deflate",
                   "mod_dirlisting", "mod_extforward", "mod_h2", "mod_proxy", "mod_status", "mod_userdir",
                   "mod_webdav", "mod_ssi", "mod_vhostdb", "mod_sockproxy", "mod_wstunnel", "mod_ajp13",
                   "mod_rrdtool"]
        r = C.run(["ninja", "-C", b, "-j", str(C.NCPU)] + targets)
        if r.returncode != 0:
            return None, "build failed:\n" + r.stdout[-4000:]
        open(stamp, "w").write("ok")
    return os.path.join(b, "build"), None


def free_port():
    s = socket.socket()
    s.bind(("127.0.0.1", 0))
    p = s.getsockname()[1]
    s.close()
    return p


class Server:
    """one lighttpd process with a generated configuration"""

    def __init__(self, bindir, conf_body, root=None, modules=(), port=None, env=None, extra_ports=0):
        self.bindir = bindir
        self.root = root or C.scratch_dir("srv")
        self.docroot = os.path.join(self.root, "docroot")
        os.makedirs(self.docroot, exist_ok=True)
        os.makedirs(os.path.join(self.root, "tmp"), exist_ok=True)
        self._fixed_port = port is not None
        self.port = port or free_port()
        self.errlog = os.path.join(self.root, "error.log")
        self._mods, self._conf_body = modules, conf_body
        self.conf = os.path.join(self.root, "lighttpd.conf")
        self._write_conf()
        self.env = dict(os.environ)
        self.env["ASAN_OPTIONS"] = "detect_leaks=0:abort_on_error=1:handle_abort=1"
        self.env["UBSAN_OPTIONS"] = "print_stacktrace=1"
        if env:
            self.env.update(env)
        self.proc = None

    def _write_conf(self):
        mods = ", ".join('"%s"' % m for m in self._mods)
        conf_body = self._conf_body
        with open(self.conf, "w") as f:
            f.write('server.document-root = "%s"\n' % self.docroot)
            f.write('server.bind = "127.0.0.1"\nserver.port = %d\n' % self.port)
            f.write('server.errorlog = "%s"\n' % self.errlog)
            f.write('server.upload-dirs = ("%s")\n' % os.path.join(self.root, "tmp"))
            f.write('server.pid-file = "%s"\n' % os.path.join(self.root, "lighttpd.pid"))
            f.write("server.modules = (%s)\n" % mods)
            f.write('mimetype.assign = (".html" => "text/html", ".txt" => "text/plain", ".bin" => '
                    '"application/octet-stream", ".css" => "text/css", "" => "application/octet-stream")\n')
            f.write(conf_body.replace("@ROOT@", self.root).replace("@DOCROOT@", self.docroot)
                    .replace("@PORT@", str(self.port)))

    def start(self, timeout=10):
        """start the server; if the port was taken by somebody else meanwhile, try another one"""
        for attempt in range(6):
            try:
                return self._start_once(timeout)
            except RuntimeError as x:
                msg = str(x)
                taken = "served by another process" in msg or "Address already in use" in msg \
                    or "can't bind" in msg
                if self._fixed_port or not taken or attempt == 5:
                    raise
                try:
                    if self.proc and self.proc.poll() is None:
                        self.proc.kill()
                        self.proc.wait()
                    self.stderr_f.close()
                except Exception:
                    pass
                self.port = free_port()
                self._write_conf()

    def _start_once(self, timeout=10):
        self.stderr_path = os.path.join(self.root, "stderr.log")
        self.stderr_f = open(self.stderr_path, "wb")
        self.proc = subprocess.Popen([os.path.join(self.bindir, "lighttpd"), "-D", "-f", self.conf,
                                      "-m", self.bindir], stdout=self.stderr_f, stderr=self.stderr_f,
                                     env=self.env, cwd=self.root, preexec_fn=C.die_with_parent)
        t0 = time.time()
        while time.time() - t0 < timeout:
            if self.proc.poll() is not None:
                raise RuntimeError("lighttpd exited at start: " + self.logs()[-2000:])
            try:
                s = socket.create_connection(("127.0.0.1", self.port), timeout=0.3)
                s.close()
                # the port answers -- make sure it is OUR process that listens on it (another run may
                # have taken the port between free_port() and our bind)
                own = self._owns_port()
                if own is False:
                    time.sleep(0.2)
                    if self.proc.poll() is not None or self._owns_port() is False:
                        raise RuntimeError("port %d is served by another process: %s"
                                           % (self.port, self.logs()[-1500:]))
                return self
            except OSError:
                time.sleep(0.05)
        raise RuntimeError("lighttpd did not start: " + self.logs()[-2000:])

    def _owns_port(self):
        """True/False: the LISTEN socket on self.port belongs to self.proc; None: cannot tell"""
        try:
            inodes = set()
            for fn in ("/proc/net/tcp", "/proc/net/tcp6"):
                try:
                    for ln in open(fn).read().split("\n")[1:]:
                        f = ln.split()
                        if len(f) > 9 and f[3] == "0A" and int(f[1].rsplit(":", 1)[1], 16) == self.port:
                            inodes.add(f[9])
                except OSError:
                    pass
            if not inodes:
                return None
            d = "/proc/%d/fd" % self.proc.pid
            for n in os.listdir(d):
                try:
                    t = os.readlink(os.path.join(d, n))
                except OSError:
                    continue
                if t.startswith("socket:[") and t[8:-1] in inodes:
                    return True
            return False
        except OSError:
            return None

    def alive(self):
        return self.proc is not None and self.proc.poll() is None

    def logs(self):
        out = ""
        for p in (self.stderr_path, self.errlog):
            try:
                out += open(p, errors="replace").read()
            except OSError:
                pass
        return out

    def sanitizer_report(self):
        try:
            s = open(self.stderr_path, errors="replace").read()
        except OSError:
            return None
        m = re.search(r"(ERROR: AddressSanitizer|runtime error:|SUMMARY: \w+Sanitizer|Assertion|"
                      r"force_assert|ck_assert)", s)
        return s[max(0, m.start() - 200):m.start() + 3000] if m else None

    def stop(self, sig=signal.SIGTERM, timeout=10):
        if self.proc is None:
            return None
        if self.proc.poll() is None:
            self.proc.send_signal(sig)
            try:
                self.proc.wait(timeout)
            except subprocess.TimeoutExpired:
                self.proc.kill()
                self.proc.wait()
        rc = self.proc.returncode
        self.stderr_f.close()
        return rc

    def __enter__(self):
        return self.start()

    def __exit__(self, *a):
        self.stop()


def patience_factor():
    """>= 1: how much longer than on an idle machine a 'quiet' timeout has to be before silence means
    anything.  Derived from the 1-minute load average per core (the checks are run next to other checks,
    builds and sanitized servers); capped so that a hung server is still noticed."""
    try:
        per_core = os.getloadavg()[0] / float(os.cpu_count() or 1)
    except OSError:
        return 1.0
    return min(6.0, max(1.0, 1.5 * per_core))


# ------------------------------------------------------------------ HTTP/1 client
def h1_exchange(port, segments, read_timeout=2.0, gap=0.0, half_close=False, max_bytes=1 << 26):
    """send the byte segments (optionally pausing), read until the server closes or goes
    quiet; returns (bytes received, closed_by_server)"""
    s = socket.create_connection(("127.0.0.1", port), timeout=5)
    s.setsockopt(socket.IPPROTO_TCP, socket.TCP_NODELAY, 1)
    buf = b""
    closed = False
    try:
        for seg in segments:
            if seg:
                try:
                    s.sendall(seg)
                except OSError:
                    break
            if gap:
                time.sleep(gap)
        if half_close:
            try:
                s.shutdown(socket.SHUT_WR)
            except OSError:
                pass
        s.settimeout(read_timeout * patience_factor())
        while len(buf) < max_bytes:
            try:
                d = s.recv(65536)
            except socket.timeout:
                break
            except OSError:
                closed = True
                break
            if not d:
                closed = True
                break
            buf += d
    finally:
        s.close()
    return buf, closed


class RespParseError(Exception):
    pass


def parse_responses(data, head_for=None, closed=True):
    """Strict RFC 9112 response-stream parser (independent of lighttpd code).
    head_for: list of booleans, True where the corresponding request was HEAD.
    Returns list of dicts {version,status,reason,headers(list),body,framing}; raises
    RespParseError on any malformed / ambiguous message."""
    out = []
    i = 0
    n = 0
    while i < len(data):
        j = data.find(b"\r\n\r\n", i)
        if j < 0:
            raise RespParseError("unterminated header section at %d" % i)
        head = data[i:j].split(b"\r\n")
        m = re.fullmatch(rb"HTTP/(1\.[01]) ([0-9]{3}) ([\t -~\x80-\xff]*)", head[0])
        if not m:
            raise RespParseError("bad status line %r" % head[0][:80])
        status = int(m.group(2))
        hdrs = []
        for l in head[1:]:
            mm = re.fullmatch(rb"([!#$%&'*+\-.^_`|~0-9A-Za-z]+):[ \t]*([\t -~\x80-\xff]*?)[ \t]*", l)
            if not mm:
                raise RespParseError("bad header line %r" % l[:120])
            hdrs.append((mm.group(1).lower(), mm.group(2)))
        i = j + 4
        is_head = bool(head_for and n < len(head_for) and head_for[n])
        cl = [v for k, v in hdrs if k == b"content-length"]
        te = [v for k, v in hdrs if k == b"transfer-encoding"]
        if len(cl) > 1 and len(set(cl)) > 1:
            raise RespParseError("conflicting Content-Length")
        if cl and not re.fullmatch(rb"[0-9]+", cl[0]):
            raise RespParseError("bad Content-Length %r" % cl[0])
        if cl and te:
            raise RespParseError("both Content-Length and Transfer-Encoding")
        if 100 <= status < 200 and status != 101:
            if cl or te:
                raise RespParseError("1xx with body framing")
            out.append({"status": status, "headers": hdrs, "body": b"", "framing": "none", "version": m.group(1)})
            continue            # interim response: does not count as the answer
        if is_head or status in (204, 304):
            if status == 204 and (cl or te):
                raise RespParseError("204 with Content-Length/Transfer-Encoding")
            body, framing = b"", "none"
        elif te:
            if te[-1].lower() != b"chunked":
                raise RespParseError("final transfer coding is not chunked")
            body = b""
            while True:
                k = data.find(b"\r\n", i)
                if k < 0:
                    raise RespParseError("truncated chunk header")
                mm = re.fullmatch(rb"([0-9A-Fa-f]+)(;[^\r\n]*)?", data[i:k])
                if not mm:
                    raise RespParseError("bad chunk header %r" % data[i:k][:40])
                sz = int(mm.group(1), 16)
                i = k + 2
                if sz == 0:
                    k2 = data.find(b"\r\n\r\n", i - 2)
                    if k2 < 0:
                        raise RespParseError("unterminated chunked body")
                    i = k2 + 4
                    break
                if len(data) < i + sz + 2:
                    raise RespParseError("truncated chunk data")
                body += data[i:i + sz]
                if data[i + sz:i + sz + 2] != b"\r\n":
                    raise RespParseError("chunk data not followed by CRLF")
                i += sz + 2
            framing = "chunked"
        elif cl:
            ln = int(cl[0])
            if len(data) < i + ln:
                raise RespParseError("body shorter than Content-Length (%d < %d)" % (len(data) - i, ln))
            body = data[i:i + ln]
            i += ln
            framing = "cl"
        else:
            if not closed:
                raise RespParseError("no length, no chunking, and connection not closed")
            body = data[i:]
            i = len(data)
            framing = "close"
        out.append({"status": status, "headers": hdrs, "body": body, "framing": framing,
                    "version": m.group(1)})
        n += 1
    return out


def hdr(resp, name):
    name = name.lower() if isinstance(name, bytes) else name.lower().encode()
    vs = [v for k, v in resp["headers"] if k == name]
    return vs[0] if vs else None


# ------------------------------------------------------------------ HPACK via libnghttp2 (ctypes)
class _NV(ctypes.Structure):
    _fields_ = [("name", ctypes.c_char_p), ("value", ctypes.c_char_p), ("namelen", ctypes.c_size_t),
                ("valuelen", ctypes.c_size_t), ("flags", ctypes.c_uint8)]


_ng = None


def _nghttp2():
    global _ng
    if _ng is None:
        _ng = ctypes.CDLL("libnghttp2.so.14")
        _ng.nghttp2_hd_deflate_new.argtypes = [ctypes.POINTER(ctypes.c_void_p), ctypes.c_size_t]
        _ng.nghttp2_hd_deflate_hd.argtypes = [ctypes.c_void_p, ctypes.c_char_p, ctypes.c_size_t,
                                              ctypes.POINTER(_NV), ctypes.c_size_t]
        _ng.nghttp2_hd_deflate_hd.restype = ctypes.c_ssize_t
        _ng.nghttp2_hd_deflate_bound.argtypes = [ctypes.c_void_p, ctypes.POINTER(_NV), ctypes.c_size_t]
        _ng.nghttp2_hd_deflate_bound.restype = ctypes.c_size_t
        _ng.nghttp2_hd_inflate_new.argtypes = [ctypes.POINTER(ctypes.c_void_p)]
        _ng.nghttp2_hd_inflate_hd2.argtypes = [ctypes.c_void_p, ctypes.POINTER(_NV), ctypes.POINTER(ctypes.c_int),
                                               ctypes.c_char_p, ctypes.c_size_t, ctypes.c_int]
        _ng.nghttp2_hd_inflate_hd2.restype = ctypes.c_ssize_t
        _ng.nghttp2_hd_inflate_end_headers.argtypes = [ctypes.c_void_p]
        _ng.nghttp2_hd_deflate_change_table_size.argtypes = [ctypes.c_void_p, ctypes.c_size_t]
        _ng.nghttp2_hd_inflate_change_table_size.argtypes = [ctypes.c_void_p, ctypes.c_size_t]
    return _ng


class Hpack:
    """independent HPACK codec (nghttp2) for the test client"""

    def __init__(self, table=4096):
        ng = _nghttp2()
        self.d = ctypes.c_void_p()
        self.i = ctypes.c_void_p()
        assert ng.nghttp2_hd_deflate_new(ctypes.byref(self.d), table) == 0
        assert ng.nghttp2_hd_inflate_new(ctypes.byref(self.i)) == 0

    def encode(self, headers):
        ng = _nghttp2()
        arr = (_NV * len(headers))()
        keep = []
        for k, (n, v) in enumerate(headers):
            n = n if isinstance(n, bytes) else n.encode()
            v = v if isinstance(v, bytes) else v.encode()
            keep.append((n, v))
            arr[k] = _NV(n, v, len(n), len(v), 0)
        bound = ng.nghttp2_hd_deflate_bound(self.d, arr, len(headers))
        buf = ctypes.create_string_buffer(bound + 16)
        rv = ng.nghttp2_hd_deflate_hd(self.d, buf, bound + 16, arr, len(headers))
        if rv < 0:
            raise RuntimeError("deflate failed %d" % rv)
        return buf.raw[:rv]

    def decode(self, block):
        ng = _nghttp2()
        out = []
        data = bytes(block)
        off = 0
        while True:
            nv = _NV()
            fl = ctypes.c_int(0)
            rv = ng.nghttp2_hd_inflate_hd2(self.i, ctypes.byref(nv), ctypes.byref(fl), data[off:], len(data) - off, 1)
            if rv < 0:
                raise RuntimeError("inflate failed %d" % rv)
            off += rv
            if fl.value & 0x02:     # EMIT
                out.append((ctypes.string_at(nv.name, nv.namelen), ctypes.string_at(nv.value, nv.valuelen)))
            if fl.value & 0x01:     # FINAL
                ng.nghttp2_hd_inflate_end_headers(self.i)
                break
            if rv == 0 and off >= len(data) and not (fl.value & 0x02):
                break
        return out


# ------------------------------------------------------------------ HTTP/2 client (frames)
H2_PREFACE = b"PRI * HTTP/2.0\r\n\r\nSM\r\n\r\n"
FT = {0: "DATA", 1: "HEADERS", 2: "PRIORITY", 3: "RST_STREAM", 4: "SETTINGS", 5: "PUSH_PROMISE", 6: "PING",
      7: "GOAWAY", 8: "WINDOW_UPDATE", 9: "CONTINUATION"}


def h2_frame(ftype, flags, sid, payload=b""):
    return struct.pack(">I", len(payload))[1:] + bytes([ftype, flags]) + struct.pack(">I", sid & 0x7fffffff) + payload


def h2_settings(pairs=(), ack=False):
    return h2_frame(4, 1 if ack else 0, 0, b"".join(struct.pack(">HI", k, v) for k, v in pairs))


def h2_window_update(sid, inc):
    return h2_frame(8, 0, sid, struct.pack(">I", inc & 0x7fffffff))


def h2_parse_frames(data):
    """split a byte string into frames: list of (type, flags, sid, payload); returns (frames, rest)"""
    frames = []
    i = 0
    while len(data) - i >= 9:
        ln = int.from_bytes(data[i:i + 3], "big")
        if len(data) - i - 9 < ln:
            break
        frames.append((data[i + 3], data[i + 4], int.from_bytes(data[i + 5:i + 9], "big") & 0x7fffffff,
                       data[i + 9:i + 9 + ln]))
        i += 9 + ln
    return frames, data[i:]


class H2Conn:
    """raw HTTP/2 connection (prior knowledge) that records every frame received"""

    def __init__(self, port, settings=(), send_preface=True):
        self.s = socket.create_connection(("127.0.0.1", port), timeout=5)
        self.s.setsockopt(socket.IPPROTO_TCP, socket.TCP_NODELAY, 1)
        self.hp = Hpack()
        self.rx = b""
        self.frames = []
        self.closed = False
        if send_preface:
            self.send(H2_PREFACE + h2_settings(settings))

    def send(self, data):
        try:
            self.s.sendall(data)
            return True
        except OSError:
            self.closed = True
            return False

    def headers_frame(self, sid, headers, end_stream=True, end_headers=True):
        blk = self.hp.encode(headers)
        return h2_frame(1, (1 if end_stream else 0) | (4 if end_headers else 0), sid, blk)

    def request(self, sid, method, path, authority="localhost", extra=(), body=None, scheme="http"):
        hs = [(":method", method), (":scheme", scheme), (":path", path), (":authority", authority)] + list(extra)
        out = self.headers_frame(sid, hs, end_stream=body is None)
        if body is not None:
            out += h2_frame(0, 1, sid, body)
        return self.send(out)

    def pump(self, timeout=1.0, until=None):
        """read frames for up to `timeout` seconds of quiet (or until predicate(frames) holds)"""
        timeout = timeout * patience_factor()
        end = time.time() + timeout
        while not self.closed:
            if until and until(self.frames):
                break
            r, _, _ = select.select([self.s], [], [], max(0.0, end - time.time()))
            if not r:
                break
            try:
                d = self.s.recv(65536)
            except OSError:
                self.closed = True
                break
            if not d:
                self.closed = True
                break
            self.rx += d
            fr, self.rx = h2_parse_frames(self.rx)
            for f in fr:
                self.frames.append(f)
                if f[0] == 4 and not (f[1] & 1):
                    self.send(h2_settings(ack=True))
            end = time.time() + timeout
        return self.frames

    def close(self):
        try:
            self.s.close()
        except OSError:
            pass


def h2_collect(frames, hp):
    """assemble per-stream responses from received frames: {sid: {headers, body, end, rst}}"""
    st = {}
    cont = None
    for t, fl, sid, pl in frames:
        if t == 1 or t == 9:
            if t == 1:
                off, padlen = 0, 0
                if fl & 8:
                    padlen = pl[0]; off = 1
                if fl & 0x20:
                    off += 5
                frag = pl[off:len(pl) - padlen]
                cont = [sid, frag, fl & 1]
            else:
                cont[1] += pl
            if fl & 4:
                hs = hp.decode(cont[1])
                d = st.setdefault(cont[0], {"headers": [], "body": b"", "end": False, "rst": None, "blocks": 0})
                d["headers"] += hs
                d["blocks"] += 1
                if cont[2]:
                    d["end"] = True
                cont = None
        elif t == 0:
            d = st.setdefault(sid, {"headers": [], "body": b"", "end": False, "rst": None, "blocks": 0})
            padlen, off = 0, 0
            if fl & 8:
                padlen = pl[0]; off = 1
            d["body"] += pl[off:len(pl) - padlen]
            if fl & 1:
                d["end"] = True
        elif t == 3:
            d = st.setdefault(sid, {"headers": [], "body": b"", "end": False, "rst": None, "blocks": 0})
            d["rst"] = int.from_bytes(pl[:4], "big")
    return st
