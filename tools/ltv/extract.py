"""Translator for constants and tables: regenerates lean/LtVerif/Extracted/*.lean
from /repo/src on every run (files are rewritten only when their content
changes, so an unchanged tree costs no Lean rebuild).  Each extractor returns
Lean source text or raises ExtractError; failure to extract (shape changed)
is reported as a broken obligation, never defaulted."""
import os, re, subprocess, time
from . import common as C


class ExtractError(Exception):
    pass


EXTRACTORS = {}


def extractor(name):
    def deco(f):
        EXTRACTORS[name] = f
        return f
    return deco


def write_if_changed(path, text):
    try:
        if open(path).read() == text:
            return False
    except OSError:
        pass
    os.makedirs(os.path.dirname(path), exist_ok=True)
    with open(path, "w") as f:
        f.write(text)
    return True


def _hash_extractors():
    """hash of the extractor sources AS LOADED (taken at import): a process that still runs an older
    extractor must not store its output under the key of the newer files on disk"""
    import hashlib
    hh = hashlib.sha256()
    for f in sorted(_glob.glob(os.path.join(os.path.dirname(__file__), "extract*.py"))):
        hh.update(open(f, "rb").read())
    return hh.hexdigest()[:10]



def run_all():
    """run every extractor (results cached per source-tree hash) and (re)write the Lean files"""
    import json
    import hashlib
    cache_p = os.path.join(C.CACHE, "extract-%s-%s.json" % (C.src_hash(), _EXTRACTOR_HASH))
    cache = {}
    try:
        cache = json.load(open(cache_p))
    except (OSError, ValueError):
        pass
    errs = []
    dirty = False
    for name, fn in EXTRACTORS.items():
        if name in cache:
            text = cache[name]
        else:
            try:
                text = fn()
            except Exception as e:      # shape changed / dumper does not build: never keep a stale file
                errs.append("%s: %s" % (name, e))
                try:
                    os.remove(os.path.join(C.LEAN, "LtVerif", "Extracted", name + ".lean"))
                except OSError:
                    pass
                continue
            cache[name] = text
            dirty = True
        write_if_changed(os.path.join(C.LEAN, "LtVerif", "Extracted", name + ".lean"),
                         "-- GENERATED from /repo/src by tools/ltv/extract.py; do not edit\n" + text)
    if dirty:
        os.makedirs(C.CACHE, exist_ok=True)
        tmp = cache_p + ".%d.tmp" % os.getpid()
        json.dump(cache, open(tmp, "w"))
        os.replace(tmp, cache_p)
        # drop caches of other trees
        for n in os.listdir(C.CACHE):
            if n.startswith("extract-") and n.endswith(".json") and os.path.join(C.CACHE, n) != cache_p:
                try:
                    if time.time() - os.path.getmtime(os.path.join(C.CACHE, n)) > 3600:
                        os.remove(os.path.join(C.CACHE, n))
                except OSError:
                    pass
    return "; ".join(errs) if errs else None


def read_src(rel):
    with open(os.path.join(C.SRC, rel), encoding="latin-1") as f:
        return f.read()


def c_dump(program, includes=(), libs=()):
    """compile and run a tiny C dumper against the current tree; returns stdout"""
    d = C.scratch_dir("ex")
    src = os.path.join(d, "dump.c")
    with open(src, "w") as f:
        f.write(program)
    exe = os.path.join(d, "dump")
    r = C.run(["gcc"] + C.cflags(san=False, opt="-O1") + ["-ffunction-sections", "-fdata-sections",
               "-Wl,--gc-sections", src, "-o", exe] + list(libs))
    if r.returncode != 0:
        raise ExtractError("dumper does not compile: " + r.stdout[-1500:])
    r = subprocess.run([exe], stdout=subprocess.PIPE, stderr=subprocess.PIPE, text=True, timeout=60)
    if r.returncode != 0:
        raise ExtractError("dumper failed: " + r.stderr[-500:])
    return r.stdout


import glob as _glob, importlib as _il  # noqa: E402
for _f in sorted(_glob.glob(os.path.join(os.path.dirname(__file__), "extractors*.py"))):
    _il.import_module("ltv." + os.path.basename(_f)[:-3])  # registers the extractors
_EXTRACTOR_HASH = _hash_extractors()
