"""Concrete extractors (registered into extract.EXTRACTORS)."""
import re
from .extract import extractor, ExtractError, read_src, c_dump


def lean_bool_list(vals):
    rows = []
    for i in range(0, len(vals), 16):
        rows.append("  " + ", ".join("true" if v else "false" for v in vals[i:i + 16]))
    return "[\n" + ",\n".join(rows) + "]"


@extractor("BurlTables")
def burl_tables():
    out = c_dump(r'''
#include "first.h"
#include "burl.c"
#include <stdio.h>
int main(void){
  if (sizeof(encoded_chars_http_uri_reqd) != 256) return 3;
  for (int i=0;i<256;++i) printf("%d ", encoded_chars_http_uri_reqd[i]?1:0);
  printf("\n%d %d %d %d %d %d %d %d %d %d %d %d %d %d\n",
    HTTP_PARSEOPT_HEADER_STRICT, HTTP_PARSEOPT_HOST_STRICT, HTTP_PARSEOPT_HOST_NORMALIZE,
    HTTP_PARSEOPT_URL_NORMALIZE, HTTP_PARSEOPT_URL_NORMALIZE_UNRESERVED,
    HTTP_PARSEOPT_URL_NORMALIZE_REQUIRED, HTTP_PARSEOPT_URL_NORMALIZE_CTRLS_REJECT,
    HTTP_PARSEOPT_URL_NORMALIZE_PATH_BACKSLASH_TRANS, HTTP_PARSEOPT_URL_NORMALIZE_PATH_2F_DECODE,
    HTTP_PARSEOPT_URL_NORMALIZE_PATH_2F_REJECT, HTTP_PARSEOPT_URL_NORMALIZE_PATH_DOTSEG_REMOVE,
    HTTP_PARSEOPT_URL_NORMALIZE_PATH_DOTSEG_REJECT, HTTP_PARSEOPT_URL_NORMALIZE_QUERY_20_PLUS,
    HTTP_PARSEOPT_URL_NORMALIZE_INVALID_UTF8_REJECT);
  printf("%d %d %d %d %d %d %d %d\n", BURL_TOLOWER, BURL_TOUPPER, BURL_ENCODE_NONE, BURL_ENCODE_ALL,
    BURL_ENCODE_NDE, BURL_ENCODE_PSNDE, BURL_ENCODE_B64U, BURL_DECODE_B64U);
  return 0; }
''')
    lines = out.strip().split("\n")
    tbl = [int(x) for x in lines[0].split()]
    if len(tbl) != 256:
        raise ExtractError("encoded_chars_http_uri_reqd: expected 256 entries")
    names = ["headerStrict", "hostStrict", "hostNormalize", "urlNormalize", "urlUnreserved",
             "urlRequired", "ctrlsReject", "backslashTrans", "path2FDecode", "path2FReject",
             "dotsegRemove", "dotsegReject", "query20Plus", "invalidUtf8Reject"]
    vals = [int(x) for x in lines[1].split()]
    bn = ["burlToLower", "burlToUpper", "burlEncodeNone", "burlEncodeAll", "burlEncodeNde",
          "burlEncodePsnde", "burlEncodeB64u", "burlDecodeB64u"]
    bv = [int(x) for x in lines[2].split()]
    s = "namespace LtVerif.Extracted\n\n"
    s += "/-- burl.c: encoded_chars_http_uri_reqd[] -/\ndef uriReqdTable : List Bool := " + lean_bool_list(tbl) + "\n\n"
    s += "/-- burl.h: HTTP_PARSEOPT_* bit values -/\n"
    for n, v in zip(names, vals):
        s += "def opt_%s : Nat := %d\n" % (n, v)
    s += "/-- burl.h: BURL_* flag values -/\n"
    for n, v in zip(bn, bv):
        s += "def %s : Nat := %d\n" % (n, v)
    s += "\nend LtVerif.Extracted\n"
    return s
