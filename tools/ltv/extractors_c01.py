"""Tables used by the HTTP/1 request parser model (C01)."""
from .extract import extractor, ExtractError, c_dump


@extractor("H1Tables")
def h1_tables():
    out = c_dump(r'''
#include "first.h"
#include "http_kv.c"
#include "http_header.c"
#include <stdio.h>
int main(void){
  for (size_t i = 0; i+2 < sizeof(http_methods)/sizeof(*http_methods); ++i)
    printf("M %s\n", http_methods[i].ptr);
  for (size_t i = 0; i+1 < sizeof(http_headers)/sizeof(*http_headers); ++i)
    printf("H %s\n", http_headers[i].value);
  printf("I %d %d %d %d %d\n", HTTP_METHOD_GET, HTTP_METHOD_HEAD, HTTP_METHOD_POST, HTTP_METHOD_CONNECT, HTTP_METHOD_OPTIONS);
  return 0; }
''')
    methods, headers, idx = [], [], None
    for l in out.strip().split("\n"):
        if l.startswith("M "):
            methods.append(l[2:])
        elif l.startswith("H "):
            headers.append(l[2:])
        elif l.startswith("I "):
            idx = [int(x) for x in l[2:].split()]
    if len(methods) < 8 or len(headers) < 20 or not idx:
        raise ExtractError("http_methods[]/http_headers[] shape changed")
    for name, i in zip(["GET", "HEAD", "POST", "CONNECT", "OPTIONS"], idx):
        if methods[i] != name:
            raise ExtractError("http_methods[] not ordered by enum at %s" % name)
    s = "namespace LtVerif.Extracted\n\n"
    s += "/-- http_kv.c: http_methods[] in enum order (without the PRI sentinel) -/\n"
    s += "def methodNames : List String := [" + ", ".join('"%s"' % m for m in methods) + "]\n\n"
    s += "/-- http_header.c: http_headers[] field names (lower case) -/\n"
    s += "def headerNames : List String := [" + ", ".join('"%s"' % h for h in headers) + "]\n\n"
    s += "end LtVerif.Extracted\n"
    return s
