"""C04 extractors: byte classes of buffer_append_string_encoded() (buffer.c encoded_chars_*[]),
the status-line table of http_kv.c (as http_status_append() renders it), and the sizes the
write path of network_write.c / chunk.h / http_chunk.c depends on."""
import os, re
from . import common as C
from .extract import extractor, ExtractError, read_src, c_dump
from .extractors import lean_bool_list

_PROG = r'''
#include "first.h"
#include <stdio.h>
#include <string.h>
#include "buffer.c"
#include "http_kv.c"
#include "chunk.h"
int main(void) {
    if (sizeof(encoded_chars_rel_uri) != 256 || sizeof(encoded_chars_rel_uri_part) != 256
        || sizeof(encoded_chars_html) != 256 || sizeof(encoded_chars_minimal_xml) != 256) return 3;
    if (sizeof(encoded_chars_maps)/sizeof(*encoded_chars_maps) != 4) return 4;
    if (ENCODING_REL_URI != 0 || ENCODING_REL_URI_PART != 1 || ENCODING_HTML != 2 || ENCODING_MINIMAL_XML != 3) return 5;
    for (int m = 0; m < 4; ++m) {
        for (int i = 0; i < 256; ++i) printf("%d ", encoded_chars_maps[m][i] ? 1 : 0);
        printf("\n");
    }
    for (int s = 100; s < 600; ++s) {
        buffer b; memset(&b, 0, sizeof(b));
        http_status_append(&b, s);
        char dflt[16]; snprintf(dflt, sizeof(dflt), "%d ", s);
        if (0 != strcmp(b.ptr, dflt)) printf("S %d %s\n", s, b.ptr);
        free(b.ptr);
    }
    printf("W %d\n", (int)MAX_WRITE_LIMIT);
    return 0;
}
'''


@extractor("H1RespTables")
def h1resp_tables():
    out = c_dump(_PROG, libs=[os.path.join(C.SRC, "ck.c")]).split("\n")
    maps = [[int(x) for x in out[i].split()] for i in range(4)]
    if any(len(m) != 256 for m in maps):
        raise ExtractError("encoded_chars_*: expected 4 tables of 256 entries")
    st = []
    wlimit = None
    for l in out[4:]:
        if l.startswith("S "):
            _, code, text = l.split(" ", 2)
            if not re.fullmatch(r"[ -~]+", text) or '"' in text or "\\" in text:
                raise ExtractError("status text of %s is not plain printable ASCII" % code)
            st.append((int(code), text))
        elif l.startswith("W "):
            wlimit = int(l[2:])
    if len(st) < 20 or wlimit is None:
        raise ExtractError("http_status[] / MAX_WRITE_LIMIT shape changed")
    nw = read_src("network_write.c")
    m = re.search(r"network_write_file_chunk_no_mmap\s*\([^)]*\)\s*\{.*?char\s+buf\[(\d+)\]", nw, re.S)
    if not m:
        raise ExtractError("network_write_file_chunk_no_mmap: read buffer size not found")
    bufsz = int(m.group(1))
    m = re.search(r"#define\s+STACK_MAX_ALLOC_CHUNKS\s+(\d+)", nw)
    if not m:
        raise ExtractError("STACK_MAX_ALLOC_CHUNKS not found")
    maxchunks = int(m.group(1))
    names = ["encRelUri", "encRelUriPart", "encHtml", "encMinimalXml"]
    cnames = ["encoded_chars_rel_uri", "encoded_chars_rel_uri_part", "encoded_chars_html",
              "encoded_chars_minimal_xml"]
    s = "namespace LtVerif.Extracted\n\n"
    for n, cn, tbl in zip(names, cnames, maps):
        s += "/-- buffer.c: %s[] (true = the byte is escaped) -/\ndef %s : List Bool := %s\n\n" % (
            cn, n, lean_bool_list(tbl))
    s += "/-- http_kv.c: what http_status_append() writes for the statuses that have a reason phrase -/\n"
    s += "def statusTable : List (Nat × String) := [\n" + ",\n".join(
        '  (%d, "%s")' % (c, t) for c, t in st) + "]\n\n"
    s += "/-- chunk.h: MAX_WRITE_LIMIT -/\ndef maxWriteLimit : Nat := %d\n" % wlimit
    s += "/-- network_write.c: read buffer of network_write_file_chunk_no_mmap() -/\n"
    s += "def noMmapBufSize : Nat := %d\n" % bufsz
    s += "/-- network_write.c: MAX_CHUNKS (iovec entries per writev) -/\ndef maxIovChunks : Nat := %d\n" % maxchunks
    s += "\nend LtVerif.Extracted\n"
    return s
