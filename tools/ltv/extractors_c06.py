"""HTTP/2 connection defaults, extracted by running the real h2_init_con()/h2_init_stream()
(compiled from the current tree) on a hand-built connection and reading back the state and
the server connection preface it queued."""
import os, subprocess
from . import common as C
from .extract import extractor, ExtractError

PROG = r'''
#include "first.h"
#include "h2.c"
#include <stdio.h>
int main(void) {
    static server srv; static connection con; static array cfgctx;
    memset(&srv, 0, sizeof(srv)); memset(&con, 0, sizeof(con)); memset(&cfgctx, 0, sizeof(cfgctx));
    srv.config_context = &cfgctx;
    con.srv = &srv;
    con.read_queue = chunkqueue_init(NULL);
    con.write_queue = chunkqueue_init(NULL);
    con.plugin_ctx = calloc(8, sizeof(void *));
    request_st * const h2r = &con.request;
    h2r->con = &con;
    h2r->tmp_buf = buffer_init();
    h2r->conf.max_keep_alive_idle = 5;
    h2_init_con(h2r, &con);
    h2con * const h2c = (h2con *)con.hx;
    printf("conn_swin %d\n", (int)h2r->x.h2.swin);
    printf("conn_rwin %d\n", (int)h2r->x.h2.rwin);
    printf("peer_initial_window %d\n", (int)h2c->s_initial_window_size);
    printf("peer_max_frame %u\n", h2c->s_max_frame_size);
    printf("peer_header_table %u\n", h2c->s_header_table_size);
    printf("max_streams %u\n", (unsigned)(sizeof(h2c->r)/sizeof(*h2c->r)));
    /* server preface as queued */
    buffer *b = buffer_init();
    uint32_t len = (uint32_t)chunkqueue_length(con.write_queue);
    char *p = buffer_string_prepare_append(b, len);
    uint32_t l = len; char *q = p;
    chunkqueue_peek_data(con.write_queue, &q, &l, NULL, 0);
    printf("preface ");
    for (uint32_t i = 0; i < l; ++i) printf("%02x", (unsigned char)q[i]);
    printf("\n");
    return 0;
}
'''


@extractor("H2Const")
def h2_const():
    lib, err = C.build_lib()
    if lib is None:
        raise ExtractError("tree library does not build: " + (err or "")[-800:])
    d = C.scratch_dir("exh2")
    src = os.path.join(d, "dump.c")
    open(src, "w").write(PROG)
    exe = os.path.join(d, "dump")
    r = C.run(["gcc"] + C.cflags(san=True) + [src, "-o", exe, lib, "-lpcre2-8", "-lz", "-lm", "-ldl"])
    if r.returncode != 0:
        raise ExtractError("h2 dumper does not compile/link: " + r.stdout[-1500:])
    env = dict(os.environ, ASAN_OPTIONS="detect_leaks=0")
    p = subprocess.run([exe], stdout=subprocess.PIPE, stderr=subprocess.PIPE, text=True, timeout=60, env=env)
    if p.returncode != 0:
        raise ExtractError("h2 dumper failed: " + p.stderr[-800:])
    kv = dict(l.split(" ", 1) for l in p.stdout.strip().split("\n"))
    pre = bytes.fromhex(kv["preface"])
    # parse server SETTINGS + WINDOW_UPDATE
    settings, wupd, i = [], 0, 0
    while i + 9 <= len(pre):
        ln = int.from_bytes(pre[i:i + 3], "big"); ft = pre[i + 3]
        pl = pre[i + 9:i + 9 + ln]
        if ft == 4:
            for k in range(0, len(pl), 6):
                settings.append((int.from_bytes(pl[k:k + 2], "big"), int.from_bytes(pl[k + 2:k + 6], "big")))
        elif ft == 8:
            wupd = int.from_bytes(pl, "big")
        i += 9 + ln
    sd = dict(settings)
    s = "namespace LtVerif.Extracted\n\n"
    s += "/-- h2_init_con(): connection send window the server starts with -/\n"
    s += "def h2ConnSendWindow : Int := %s\n" % kv["conn_swin"]
    s += "/-- h2_init_con(): value assumed for the PEER's SETTINGS_INITIAL_WINDOW_SIZE before any SETTINGS -/\n"
    s += "def h2PeerInitialWindow : Int := %s\n" % kv["peer_initial_window"]
    s += "def h2PeerMaxFrameSize : Nat := %s\n" % kv["peer_max_frame"]
    s += "def h2ConnRecvWindow : Int := %s\n" % kv["conn_rwin"]
    s += "def h2MaxStreams : Nat := %s\n" % kv["max_streams"]
    s += "/-- server connection preface: SETTINGS it advertises and the connection WINDOW_UPDATE -/\n"
    s += "def h2AdvMaxConcurrent : Nat := %d\n" % sd.get(3, 0)
    s += "def h2AdvInitialWindow : Nat := %d\n" % sd.get(4, 65535)
    s += "def h2AdvMaxFrameSize : Nat := %d\n" % sd.get(5, 16384)
    s += "def h2AdvConnWindowUpdate : Nat := %d\n" % wupd
    s += "\nend LtVerif.Extracted\n"
    return s
