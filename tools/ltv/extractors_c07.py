"""C07 extractors: HPACK static table, Huffman encode/decode tables and constants
from src/ls-hpack/lshpack.c (+huff-tables.h), and the header-id maps of h2.c /
http_header.c.  The C compiler reads the tables (tiny dumper programs)."""
from .extract import extractor, ExtractError, c_dump


def _bytes_lit(b):
    return "[" + ", ".join(str(x) for x in b) + "]"


def _bits_lit(bits):
    return "[" + ", ".join("true" if x else "false" for x in bits) + "]"


def _chunked(name, ty, rows, per=16):
    """big table as a list of chunks of `per` rows: row i is (name[i / per])[i % per]
    (keeps the elaborator's recursion depth low and makes kernel look-ups cheap)"""
    s, parts = "", []
    for k in range(0, len(rows), per):
        pn = "%s_%d" % (name, k // per)
        parts.append(pn)
        s += "def %s : List (%s) := [\n" % (pn, ty) + ",\n".join("  " + r for r in rows[k:k + per]) + "]\n"
    s += "def %s : List (List (%s)) :=\n  [" % (name, ty) + ", ".join(parts) + "]\n\n"
    return s


def huff_tree(enc):
    """the code tree of encode_table[] as a Lean term (certificate data: Lean checks that
    walking every code through it ends at that symbol's leaf)"""
    root = {}
    for sym, (code, n) in enumerate(enc):
        node = root
        for i in range(n):
            bit = (code >> (n - 1 - i)) & 1
            if i == n - 1:
                node[bit] = sym          # (a colliding table makes the Lean check fail, not the extractor)
            else:
                nxt = node.get(bit)
                if not isinstance(nxt, dict):
                    nxt = node[bit] = {}
                node = nxt

    def term(x):
        if x is None:
            return ".none"
        if isinstance(x, dict):
            return "(.node %s %s)" % (term(x.get(0)), term(x.get(1)))
        return "(.leaf %d)" % x
    return term(root)


def huff_state_paths(enc, dec):
    """certificate for the Lean proof: for every state of the 4-bit decoding
    automaton the bit path (from the root of the code tree) it stands for.
    Computed by exploring the automaton from state 0; the Lean side *checks*
    the certificate against both tables (nothing here is trusted)."""
    codes = {}
    for sym, (code, n) in enumerate(enc):
        codes[tuple((code >> (n - 1 - i)) & 1 for i in range(n))] = sym
    paths = {0: ()}
    work = [0]
    while work:
        q = work.pop()
        for x in range(16):
            st, fl, sym = dec[q][x]
            if fl & 4:
                continue
            p = paths[q]
            for i in range(4):
                p = p + ((x >> (3 - i)) & 1,)
                if p in codes:
                    p = ()
            if st not in paths:
                paths[st] = p
                work.append(st)
    return [list(paths.get(q, (0,))) for q in range(256)]


@extractor("HpackTables")
def hpack_tables():
    out = c_dump(r'''
#include "first.h"
#include "ls-hpack/lshpack.c"
#include <stdio.h>
int main(void){
  printf("C %d %d %d %d %d %d %d %d %d\n", HPACK_STATIC_TABLE_SIZE, INITIAL_DYNAMIC_TABLE_SIZE,
         DYNAMIC_ENTRY_OVERHEAD, HPACK_HUFFMAN_FLAG_ACCEPTED, HPACK_HUFFMAN_FLAG_SYM,
         HPACK_HUFFMAN_FLAG_FAIL, LSHPACK_UINT32_ENC_SZ, (int)LSXPACK_MAX_STRLEN,
         (int)LS_HPACK_USE_LARGE_TABLES);
  if (sizeof(static_table)/sizeof(static_table[0]) != HPACK_STATIC_TABLE_SIZE) return 3;
  for (unsigned i = 0; i < HPACK_STATIC_TABLE_SIZE; ++i) {
    printf("S %u %u", static_table[i].name_len, static_table[i].val_len);
    for (unsigned j = 0; j < static_table[i].name_len; ++j) printf(" %u", (unsigned char)static_table[i].name[j]);
    for (unsigned j = 0; j < static_table[i].val_len; ++j) printf(" %u", (unsigned char)static_table[i].val[j]);
    printf("\n");
  }
  if (sizeof(encode_table)/sizeof(encode_table[0]) != 257) return 4;
  for (int i = 0; i < 257; ++i) printf("E %u %d\n", encode_table[i].code, encode_table[i].bits);
  if (sizeof(decode_tables) != 256*16*sizeof(struct decode_el)) return 5;
  for (int i = 0; i < 256; ++i) { printf("D");
    for (int j = 0; j < 16; ++j) printf(" %u %u %u", decode_tables[i][j].state, decode_tables[i][j].flags, decode_tables[i][j].sym);
    printf("\n"); }
  return 0; }
''')
    consts, static, enc, dec = None, [], [], []
    for ln in out.strip().split("\n"):
        t = ln.split()
        if t[0] == "C":
            consts = [int(x) for x in t[1:]]
        elif t[0] == "S":
            nl, vl = int(t[1]), int(t[2])
            bs = [int(x) for x in t[3:]]
            if len(bs) != nl + vl:
                raise ExtractError("static_table row shape")
            static.append((bs[:nl], bs[nl:]))
        elif t[0] == "E":
            enc.append((int(t[1]), int(t[2])))
        elif t[0] == "D":
            v = [int(x) for x in t[1:]]
            dec.append([tuple(v[3 * j:3 * j + 3]) for j in range(16)])
    if consts is None or len(static) != consts[0] or len(enc) != 257 or len(dec) != 256:
        raise ExtractError("lshpack tables: unexpected shape")
    if consts[8] != 0:
        raise ExtractError("LS_HPACK_USE_LARGE_TABLES != 0: the modelled 4-bit Huffman decoder is not the one compiled")
    if any(n <= 0 or n > 32 or code >> n for code, n in enc):
        raise ExtractError("encode_table: code does not fit its bit length")
    paths = huff_state_paths(enc, dec)
    tree = huff_tree(enc)
    s = "namespace LtVerif.Extracted\n\n"
    s += "/-- lshpack.c: HPACK_STATIC_TABLE_SIZE, INITIAL_DYNAMIC_TABLE_SIZE, DYNAMIC_ENTRY_OVERHEAD -/\n"
    s += "def hpackStaticTableSize : Nat := %d\n" % consts[0]
    s += "def hpackInitialDynSize : Nat := %d\n" % consts[1]
    s += "def hpackEntryOverhead : Nat := %d\n" % consts[2]
    s += "/-- lshpack.c: HPACK_HUFFMAN_FLAG_{ACCEPTED,SYM,FAIL} -/\n"
    s += "def hpackHuffAccepted : Nat := %d\ndef hpackHuffSym : Nat := %d\ndef hpackHuffFail : Nat := %d\n" % tuple(consts[3:6])
    s += "/-- lsxpack_header.h: LSXPACK_MAX_STRLEN -/\ndef lsxpackMaxStrlen : Nat := %d\n\n" % consts[7]
    s += "/-- lshpack.c: static_table[] (name, value), index 1 first -/\n"
    s += "def hpackStatic : List (List UInt8 × List UInt8) := [\n"
    s += ",\n".join("  (%s, %s)" % (_bytes_lit(n), _bytes_lit(v)) for n, v in static) + "]\n\n"
    s += "/-- huff-tables.h: encode_table[257] (code, bits); entry 256 is EOS -/\n"
    s += "def hpackHuffEnc : List (Nat × Nat) := [\n"
    rows = []
    for i in range(0, 257, 8):
        rows.append("  " + ", ".join("(%d, %d)" % e for e in enc[i:i + 8]))
    s += ",\n".join(rows) + "]\n\n"
    s += "/-- huff-tables.h: decode_tables[256][16] (state, flags, sym), in 16 chunks of 16 states -/\n"
    s += _chunked("hpackHuffDec", "List (Nat × Nat × Nat)",
                  ["[" + ", ".join("(%d, %d, %d)" % e for e in row) + "]" for row in dec])
    s += "/-- certificate (computed by the extractor, checked in Lean): bit path of every\n"
    s += "    state of the 4-bit automaton from the root of the code tree (16 chunks of 16) -/\n"
    s += _chunked("hpackHuffStatePath", "List Bool", [_bits_lit(p) for p in paths])
    s += "/-- binary code tree (leaf = symbol, 256 = EOS) -/\n"
    s += "inductive HuffTree where\n  | leaf (s : Nat)\n  | node (l r : HuffTree)\n  | none\n\n"
    s += "/-- certificate (computed by the extractor, checked in Lean): the code tree of encode_table[] -/\n"
    s += "def hpackHuffTree : HuffTree :=\n  " + tree + "\n"
    s += "\nend LtVerif.Extracted\n"
    return s


@extractor("H2HeaderMaps")
def h2_header_maps():
    """h2.c: http_header_lc[], http_header_lshpack_idx[], lshpack_idx_http_header[];
    http_header.c: http_headers[] (+ http_headers_off[]); http_header.h ids"""
    out = c_dump(r'''
#include "first.h"
#include "http_header.c"
#include "h2.c"
#include <stdio.h>
static void pstr(const char *s, unsigned n) { printf(" %u", n); for (unsigned i = 0; i < n; ++i) printf(" %u", (unsigned char)s[i]); }
int main(void){
  unsigned nlc = sizeof(http_header_lc)/sizeof(http_header_lc[0]);
  unsigned nli = sizeof(http_header_lshpack_idx)/sizeof(http_header_lshpack_idx[0]);
  unsigned nil = sizeof(lshpack_idx_http_header)/sizeof(lshpack_idx_http_header[0]);
  unsigned nhh = sizeof(http_headers)/sizeof(http_headers[0]);
  unsigned noff = sizeof(http_headers_off)/sizeof(http_headers_off[0]);
  printf("C %u %u %u %u %u %d %d %d %d %d %d %d %d %d %d\n", nlc, nli, nil, nhh, noff,
         HTTP_HEADER_OTHER, HTTP_HEADER_DATE, HTTP_HEADER_SERVER, HTTP_HEADER_CONTENT_ENCODING,
         HTTP_HEADER_H2_UNKNOWN, HTTP_HEADER_H2_AUTHORITY, HTTP_HEADER_H2_METHOD, HTTP_HEADER_H2_PATH,
         HTTP_HEADER_H2_SCHEME, HTTP_HEADER_H2_PROTOCOL);
  for (unsigned i = 0; i < nlc; ++i) { printf("L"); pstr(http_header_lc[i], (unsigned)strnlen(http_header_lc[i], 32)); printf("\n"); }
  printf("I"); for (unsigned i = 0; i < nli; ++i) printf(" %u", http_header_lshpack_idx[i]); printf("\n");
  printf("J"); for (unsigned i = 0; i < nil; ++i) printf(" %d", lshpack_idx_http_header[i]); printf("\n");
  for (unsigned i = 0; i < nhh; ++i) { printf("H %d", http_headers[i].key); pstr(http_headers[i].value, http_headers[i].vlen); printf("\n"); }
  printf("O"); for (unsigned i = 0; i < noff; ++i) printf(" %d", http_headers_off[i]); printf("\n");
  return 0; }
''')
    consts, lc, li, il, hh, off = None, [], None, None, [], None
    for ln in out.strip().split("\n"):
        t = ln.split()
        if t[0] == "C":
            consts = [int(x) for x in t[1:]]
        elif t[0] == "L":
            n = int(t[1]); b = [int(x) for x in t[2:]]
            if len(b) != n:
                raise ExtractError("http_header_lc row shape")
            lc.append(b)
        elif t[0] == "I":
            li = [int(x) for x in t[1:]]
        elif t[0] == "J":
            il = [int(x) for x in t[1:]]
        elif t[0] == "H":
            n = int(t[2]); b = [int(x) for x in t[3:]]
            if len(b) != n:
                raise ExtractError("http_headers row shape")
            hh.append((int(t[1]), b))
        elif t[0] == "O":
            off = [int(x) for x in t[1:]]
    if consts is None or li is None or il is None or off is None or len(lc) != consts[0] \
            or len(li) != consts[1] or len(il) != consts[2] or len(hh) != consts[3]:
        raise ExtractError("h2 header maps: unexpected shape")
    names = ["hdrOther", "hdrDate", "hdrServer", "hdrContentEncoding"]
    pn = ["h2Unknown", "h2Authority", "h2Method", "h2Path", "h2Scheme", "h2Protocol"]
    s = "namespace LtVerif.Extracted\n\n/-- http_header.h: enum http_header_e / http_header_h2_e -/\n"
    for n, v in zip(names, consts[5:9]):
        s += "def %s : Nat := %d\n" % (n, v)
    for n, v in zip(pn, consts[9:15]):
        s += "def %s : Int := %d\n" % (n, v)
    s += "\n/-- h2.c: http_header_lc[id] (lower-cased field-names) -/\n"
    s += "def httpHeaderLc : List (List UInt8) := [\n" + ",\n".join("  " + _bytes_lit(b) for b in lc) + "]\n\n"
    s += "/-- h2.c: http_header_lshpack_idx[id] -/\ndef httpHeaderLshpackIdx : List Nat := " + \
         "[" + ", ".join(str(x) for x in li) + "]\n\n"
    s += "/-- h2.c: lshpack_idx_http_header[hpack index] -/\ndef lshpackIdxHttpHeader : List Int := " + \
         "[" + ", ".join(str(x) for x in il) + "]\n\n"
    s += "/-- http_header.c: http_headers[] (id, name), sorted by length -/\n"
    s += "def httpHeaders : List (Int × List UInt8) := [\n" + \
         ",\n".join("  (%d, %s)" % (k, _bytes_lit(b)) for k, b in hh) + "]\n\n"
    s += "/-- http_header.c: http_headers_off[len] -/\ndef httpHeadersOff : List Int := " + \
         "[" + ", ".join(str(x) for x in off) + "]\n"
    s += "\nend LtVerif.Extracted\n"
    return s
