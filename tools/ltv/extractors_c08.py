"""C08 extractors: enum http_header_e ids of the known header names and the "unset" /
initial values request_reset() writes (http_kv.h, request.h, buffer.h); the members of
struct request_st and struct connection (clang AST); and, per source file that stores something
in r->plugin_ctx[], whether it registers a handle_request_reset hook that clears the slot."""
import json, os, re, subprocess
from . import common as C
from .extract import extractor, ExtractError, c_dump


def struct_members(names):
    """{struct name: [member, ...]} from the clang AST; members of anonymous inline structs /
    unions are listed with their path (x.h1.te_chunked), members of named types are not opened"""
    d = C.scratch_dir("ex")
    src = os.path.join(d, "members.c")
    with open(src, "w") as f:
        f.write('#include "first.h"\n#include "base.h"\n#include "request.h"\n')
    flags = [x for x in C.cflags(san=False, opt="-O0") if x[:2] in ("-D", "-I", "-s")]
    out = {}
    for name in names:
        r = subprocess.run(["clang", "-fsyntax-only", "-w", "-Xclang", "-ast-dump=json", "-Xclang",
                            "-ast-dump-filter=" + name] + flags + [src],
                           stdout=subprocess.PIPE, stderr=subprocess.PIPE, text=True, timeout=300)
        if r.returncode != 0:
            raise ExtractError("clang AST dump failed: " + r.stderr[-800:])
        dec, txt, i, found = json.JSONDecoder(), r.stdout, 0, None
        while True:
            i = txt.find("{", i)
            if i < 0:
                break
            o, i = dec.raw_decode(txt, i)
            if o.get("kind") == "RecordDecl" and o.get("completeDefinition") and o.get("name") == name:
                found = o
        if found is None:
            raise ExtractError("struct %s not found in the AST" % name)

        def members(rec, prefix=""):
            res, anon = [], None
            for n in rec.get("inner", []):
                if n["kind"] == "RecordDecl" and "name" not in n:
                    anon = n
                elif n["kind"] == "FieldDecl":
                    qt = n["type"]["qualType"]
                    if anon is not None and ("unnamed" in qt or "anonymous" in qt):
                        res += members(anon, prefix + n["name"] + ".")
                    else:
                        res.append(prefix + n["name"])
                    anon = None
            return res
        out[name] = members(found)
        if len(out[name]) < 20:
            raise ExtractError("struct %s: implausibly few members" % name)
    return out


def _functions(text):
    """{name: body} of the function definitions of a C file (comments and literals blanked,
    brace matching; `MACRO(name) {` definitions are named after their argument)"""
    text = re.sub(r"/\*.*?\*/|//[^\n]*|\"(?:\\.|[^\"\\\n])*\"|'(?:\\.|[^'\\\n])*'", " ", text, flags=re.S)
    pat = re.compile(r"([A-Za-z_][A-Za-z0-9_]*)\s*\(((?:[^;{}()]|\([^()]*\))*)\)\s*\{")
    fns, pos = {}, 0
    while True:
        m = pat.search(text, pos)
        if not m:
            break
        i, depth = m.end(), 1
        while i < len(text) and depth:
            depth += {"{": 1, "}": -1}.get(text[i], 0)
            i += 1
        name, args = m.group(1), m.group(2).strip()
        if name.isupper() and re.fullmatch(r"[A-Za-z_][A-Za-z0-9_]*", args):
            name = args
        if name not in ("if", "while", "for", "switch"):
            fns[name] = text[m.end():i]
            pos = i
        else:
            pos = m.end()
    return fns


SLOT_WRITE = re.compile(r"\br->plugin_ctx\s*\[[^\]]*\]\s*=(?!=)\s*(?!NULL\b)")
SLOT_ALIAS = re.compile(r"\(\s*r->plugin_ctx\s*\+|&\s*r->plugin_ctx\s*\[")
SLOT_CLEAR = re.compile(r"\br->plugin_ctx\s*\[[^\]]*\]\s*=\s*NULL\b|\*\s*[a-z_]+\s*=\s*(NULL|0)\s*;")


def slot_modules():
    """[(file, registers a handle_request_reset hook, that hook reaches code clearing the slot)]
    for every src/*.c that stores into r->plugin_ctx[]; gw_backend.c is the shared library of
    the gateway modules: its hook gw_handle_request_reset is what those modules register"""
    srcdir = os.path.join(C.REPO, "src")
    texts = {}
    for n in sorted(os.listdir(srcdir)):
        if n.endswith(".c"):
            texts[n] = open(os.path.join(srcdir, n), errors="replace").read()
    rows = []
    for n, t in texts.items():
        if n == "reqpool.c" or not (SLOT_WRITE.search(t) or SLOT_ALIAS.search(t)):
            continue
        fns = _functions(t)
        if n == "gw_backend.c":
            users = [m for m, u in texts.items() if re.search(r"handle_request_reset\s*=\s*gw_handle_request_reset\b", u)]
            hooks = ["gw_handle_request_reset"] if users else []
        else:
            hooks = re.findall(r"handle_request_reset\s*=\s*([A-Za-z_0-9]+)\s*;", t)
        clears = False
        for h in hooks:
            seen, todo = set(), [h]
            for _ in range(3):                      # the hook and what it calls, two levels deep
                nxt = []
                for f in todo:
                    if f in seen or f not in fns:
                        continue
                    seen.add(f)
                    if SLOT_CLEAR.search(fns[f]):
                        clears = True
                    nxt += [c for c in re.findall(r"\b([A-Za-z_][A-Za-z0-9_]*)\s*\(", fns[f]) if c in fns]
                todo = nxt
        rows.append((n, bool(hooks), clears))
    if len(rows) < 8:
        raise ExtractError("r->plugin_ctx[] users: shape changed")
    return rows


@extractor("ReqConst")
def req_const():
    out = c_dump(r'''
#include "first.h"
#include "http_kv.c"
#include "http_header.c"
#include "request.h"
#include <stdio.h>
int main(void){
  for (size_t i = 0; i+1 < sizeof(http_headers)/sizeof(*http_headers); ++i)
    printf("H %s %d\n", http_headers[i].value, (int)http_headers[i].key);
  printf("C %d %d %d %d %d %d %d\n", (int)HTTP_METHOD_UNSET, (int)HTTP_VERSION_UNSET, (int)HTTP_VERSION_1_0,
         (int)HTTP_VERSION_1_1, (int)HTTP_VERSION_2, (int)BUFFER_MAX_REUSE_SIZE, (int)CON_STATE_CONNECT);
  return 0; }
''')
    ids, consts = [], None
    for l in out.strip().split("\n"):
        t = l.split()
        if t[0] == "H" and len(t) == 3:
            ids.append((t[1], int(t[2])))
        elif t[0] == "C":
            consts = [int(x) for x in t[1:]]
    if len(ids) < 20 or not consts or len(consts) != 7:
        raise ExtractError("http_headers[] / request constants: shape changed")
    if len(set(i for _, i in ids)) != len(ids) or any(i <= 0 or i >= 64 for _, i in ids):
        raise ExtractError("http_headers[] ids are not distinct bit positions 1..63")
    s = "namespace LtVerif.Extracted\n\n"
    s += "/-- http_header.c: (lower-case field name, enum http_header_e value) -/\n"
    s += "def headerIds : List (String × Nat) := [" + ", ".join('("%s", %d)' % p for p in ids) + "]\n\n"
    names = ["methodUnset", "versionUnset", "version10", "version11", "version2", "bufferMaxReuseSize",
             "conStateConnect"]
    for n, v in zip(names, consts):
        s += "def %s : Int := %d\n" % (n, v)
    mem = struct_members(["request_st", "connection"])
    s += "\n/-- request.h: members of struct request_st (clang AST) -/\n"
    s += "def requestStMembers : List String := [" + ", ".join('"%s"' % m for m in mem["request_st"]) + "]\n"
    s += "\n/-- base.h: members of struct connection (clang AST) -/\n"
    s += "def connectionMembers : List String := [" + ", ".join('"%s"' % m for m in mem["connection"]) + "]\n"
    s += "\n/-- src/*.c that store into r->plugin_ctx[]: (file, registers a handle_request_reset hook,\n"
    s += "    the hook reaches an assignment clearing the slot) -/\n"
    s += "def slotModules : List (String × Bool × Bool) := [" + ", ".join(
        '("%s", %s, %s)' % (n, str(a).lower(), str(b).lower()) for n, a, b in slot_modules()) + "]\n"
    s += "\nend LtVerif.Extracted\n"
    return s
