"""C08 extractors: enum http_header_e ids of the known header names and the "unset" /
initial values request_reset() writes (http_kv.h, request.h, buffer.h)."""
from .extract import extractor, ExtractError, c_dump


@extractor("ReqConst")
def req_const():
    out = c_dump(r'''
#include "first.h"
#include "http_kv.c"
#include "http_header.c"
#include "request.h"
#include <stdio.h>
int main(void){
  for (size_t i = 0; i+1 < sizeof(http_headers)/sizeof(*http_headers); ++i)
    printf("H %s %d\n", http_headers[i].value, (int)http_headers[i].key);
  printf("C %d %d %d %d %d %d %d\n", (int)HTTP_METHOD_UNSET, (int)HTTP_VERSION_UNSET, (int)HTTP_VERSION_1_0,
         (int)HTTP_VERSION_1_1, (int)HTTP_VERSION_2, (int)BUFFER_MAX_REUSE_SIZE, (int)CON_STATE_CONNECT);
  return 0; }
''')
    ids, consts = [], None
    for l in out.strip().split("\n"):
        t = l.split()
        if t[0] == "H" and len(t) == 3:
            ids.append((t[1], int(t[2])))
        elif t[0] == "C":
            consts = [int(x) for x in t[1:]]
    if len(ids) < 20 or not consts or len(consts) != 7:
        raise ExtractError("http_headers[] / request constants: shape changed")
    if len(set(i for _, i in ids)) != len(ids) or any(i <= 0 or i >= 64 for _, i in ids):
        raise ExtractError("http_headers[] ids are not distinct bit positions 1..63")
    s = "namespace LtVerif.Extracted\n\n"
    s += "/-- http_header.c: (lower-case field name, enum http_header_e value) -/\n"
    s += "def headerIds : List (String × Nat) := [" + ", ".join('("%s", %d)' % p for p in ids) + "]\n\n"
    names = ["methodUnset", "versionUnset", "version10", "version11", "version2", "bufferMaxReuseSize",
             "conStateConnect"]
    for n, v in zip(names, consts):
        s += "def %s : Int := %d\n" % (n, v)
    s += "\nend LtVerif.Extracted\n"
    return s
