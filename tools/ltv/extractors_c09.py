"""Constants the C09 theorems depend on (FastCGI record limits and type codes,
write limit, uwsgi size limit, protocol strings), read by the C compiler from
compat/fastcgi.h, chunk.h, gw_backend.h, http_kv.c."""
from .extract import extractor, ExtractError, c_dump


@extractor("CgiConst")
def cgi_const():
    out = c_dump(r'''
#include "first.h"
#include <stdio.h>
#include <limits.h>
#include "chunk.h"
#include "gw_backend.h"
#include "compat/fastcgi.h"
#include "http_kv.c"
int main(void){
  printf("fcgiMaxLength %d\n", (int)FCGI_MAX_LENGTH);
  printf("fcgiHeaderLen %d\n", (int)sizeof(FCGI_Header));
  printf("fcgiBeginBodyLen %d\n", (int)sizeof(FCGI_BeginRequestBody));
  printf("fcgiBeginRecLen %d\n", (int)sizeof(FCGI_BeginRequestRecord));
  printf("fcgiVersion %d\n", (int)FCGI_VERSION_1);
  printf("fcgiBeginRequest %d\n", (int)FCGI_BEGIN_REQUEST);
  printf("fcgiParams %d\n", (int)FCGI_PARAMS);
  printf("fcgiStdin %d\n", (int)FCGI_STDIN);
  printf("gwResponder %d\n", (int)GW_RESPONDER);
  printf("gwAuthorizer %d\n", (int)GW_AUTHORIZER);
  printf("maxWriteLimit %d\n", (int)MAX_WRITE_LIMIT);
  printf("ushrtMax %d\n", (int)USHRT_MAX);
  for (int i = 0; i < 3; ++i) printf("V %s\n", http_versions[i].ptr);
  return 0; }
''')
    vals, vers = {}, []
    for l in out.strip().split("\n"):
        if l.startswith("V "):
            vers.append(l[2:])
        else:
            k, v = l.split()
            vals[k] = int(v)
    need = ["fcgiMaxLength", "fcgiHeaderLen", "fcgiBeginBodyLen", "fcgiBeginRecLen", "fcgiVersion",
            "fcgiBeginRequest", "fcgiParams", "fcgiStdin", "gwResponder", "gwAuthorizer",
            "maxWriteLimit", "ushrtMax"]
    if any(k not in vals for k in need) or len(vers) != 3:
        raise ExtractError("FastCGI / gateway constants: shape changed")
    s = "namespace LtVerif.Extracted.C09\n\n"
    s += "/-- compat/fastcgi.h, chunk.h, gw_backend.h, <limits.h> -/\n"
    for k in need:
        s += "def %s : Nat := %d\n" % (k, vals[k])
    s += "\n/-- http_kv.c: http_versions[] for HTTP/1.0, HTTP/1.1, HTTP/2 -/\n"
    s += "def httpVersionNames : List String := [" + ", ".join('"%s"' % v for v in vers) + "]\n"
    s += "\nend LtVerif.Extracted.C09\n"
    return s
