"""C10 extractors: constants of the backend-response path the theorems / model depend on,
read by the C compiler from the current tree: the response header size limit, the chunk-size
overflow guard, FastCGI record constants and the HTTP status reason phrases used when the
response head is serialised for the client."""
from .extract import extractor, ExtractError, c_dump


@extractor("BackendRespConst")
def beresp_const():
    out = c_dump(r'''
#include "first.h"
#include "http_kv.c"
#include "http-header-glue.c"
#include "compat/fastcgi.h"
#include <stdio.h>
int main(void){
  printf("L %d %d %d %d %d %d %d %d\n", MAX_HTTP_RESPONSE_FIELD_SIZE, (int)sizeof(FCGI_Header),
         FCGI_STDOUT, FCGI_STDERR, FCGI_END_REQUEST, FCGI_MAX_LENGTH,
         (int)(8*sizeof(off_t)-5), (int)sizeof(((request_st *)0)->resp_body_scratchpad));
  /* what http_status_append() renders: "200 OK" short cut, the table entry, or "<n> " */
  for (int s = 100; s < 1000; ++s) {
    const keyvalue * const kv = keyvalue_from_key(http_status, s);
    if (200 == s) printf("S %d 200 OK\n", s);
    else if (0 != kv->vlen) printf("S %d %.*s\n", s, (int)kv->vlen, kv->value);
    else printf("S %d %d \n", s, s);
  }
  return 0; }
''', libs=())
    lim = None
    reasons = {}
    for l in out.split("\n"):
        if l.startswith("L "):
            lim = [int(x) for x in l[2:].split()]
        elif l.startswith("S "):
            _, code, rest = l.split(" ", 2)
            reasons[int(code)] = rest
    if not lim or len(lim) != 8 or len(reasons) != 900:
        raise ExtractError("http-header-glue.c / fastcgi.h constants: unexpected dumper output")
    s = "namespace LtVerif.Extracted\n\n"
    s += "/-- http-header-glue.c: MAX_HTTP_RESPONSE_FIELD_SIZE -/\ndef maxHttpResponseFieldSize : Nat := %d\n" % lim[0]
    s += "/-- fastcgi.h: sizeof(FCGI_Header), FCGI_STDOUT, FCGI_STDERR, FCGI_END_REQUEST, FCGI_MAX_LENGTH -/\n"
    s += "def fcgiHeaderLen : Nat := %d\ndef fcgiTypeStdout : Nat := %d\ndef fcgiTypeStderr : Nat := %d\n" % (lim[1], lim[2], lim[3])
    s += "def fcgiTypeEndRequest : Nat := %d\ndef fcgiMaxLength : Nat := %d\n" % (lim[4], lim[5])
    s += "/-- http_chunk.c: the chunk size guard is te_chunked > (1<<%d)-1-2 (off_t is %d bytes) -/\n" % (lim[6], lim[7])
    s += "def dechunkGuardShift : Nat := %d\n" % lim[6]
    s += "/-- http_kv.c: http_status_append() output for the status codes that have a reason phrase\n"
    s += "    (all other codes render as the number followed by a space) -/\n"
    s += "def statusReasons : List (Nat × String) := [\n"
    rows = []
    for code in sorted(reasons):
        txt = reasons[code]
        if txt != "%d " % code:
            if '"' in txt or "\\" in txt:
                raise ExtractError("status reason phrase with quote")
            rows.append('  (%d, "%s")' % (code, txt))
    s += ",\n".join(rows) + "]\n"
    s += "\nend LtVerif.Extracted\n"
    return s
