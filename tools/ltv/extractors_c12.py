"""C12 extractors: the limits and guard constants the size-arithmetic theorems depend on, read
from the current tree.  Macros are evaluated by the C compiler (dumper #includes the source);
guards that are inline expressions are located by a narrow regex and then *evaluated by the C
compiler* as well.  A shape that no longer matches is an ExtractError (reported as a broken
obligation, never defaulted)."""
import re
from .extract import extractor, ExtractError, read_src, c_dump


def _strip_comments(s):
    return re.sub(r"/\*.*?\*/", "", s, flags=re.S)


def _one(pattern, text, what, flags=re.S):
    m = re.findall(pattern, text, flags)
    if len(m) != 1:
        raise ExtractError("%s: expected exactly one match, found %d" % (what, len(m)))
    return m[0]


def _func(text, name):
    """body of the definition of function `name` (text from its name at column 0 to the closing brace)"""
    m = re.search(r"^(?![ \t])[^\n;#(]*\b%s\s*\([^;{]*\)\s*\{" % re.escape(name), text, re.M)
    if not m:
        raise ExtractError("function %s not found" % name)
    end = text.find("\n}\n", m.end())
    if end < 0:
        raise ExtractError("end of function %s not found" % name)
    return text[m.start():end]


@extractor("ArithConst")
def arith_const():
    h1 = read_src("h1.c")
    hc = read_src("http_chunk.c")
    hh = read_src("http_header.c")
    glue = read_src("http-header-glue.c")
    h2 = read_src("h2.c")
    h2nc = _strip_comments(h2)

    f_h1 = _func(h1, "h1_chunked")
    f_hc = _func(hc, "http_chunk_decode_append_data")
    g1 = _one(r"hex2int\(\*s\)\)\s*!=\s*0xFF;\s*\+\+s\) \{\s*if \(te_chunked > ([^\n{]*?)\) \{", f_h1, "h1_chunked size guard")
    g2 = _one(r"hex2int\(\*s\)\)\s*!=\s*0xFF;\s*\+\+s\) \{\s*if \(te_chunked > ([^\n{]*?)\) \{", f_hc, "http_chunk_decode_append_data size guard")
    l1 = _one(r"if \(hsz >= ([0-9]+)\) \{", f_h1, "h1_chunked header line limit")
    l1b = _one(r"buffer_clen\(c->mem\) - c->offset >= ([0-9]+)\)", f_h1, "h1_chunked partial line limit")
    l2 = _one(r"if \(len >= ([0-9]+)\) \{\s*log_error\(r->conf\.errh, __FILE__, __LINE__,\s*\"chunked header line too long\"", f_hc, "http_chunk_decode_append_data partial line limit")
    # complete-line limit of the short-circuit path (0a90156)
    l3 = _one(r"if \(hsz > ([0-9]+)\) \{", f_hc, "http_chunk_decode_append_data complete-line limit")
    sm = _one(r"if \(dst_cq->bytes_in \+ te_chunked <= ([^\n{]*?)\) \{|if \(te_chunked <= ([^\n{]*?) - dst_cq->bytes_in\) \{",
              f_h1, "h1_chunked in-memory threshold")
    sm = sm[0] or sm[1]

    f_hoff = _func(_strip_comments(hh), "http_header_parse_hoff")
    hbrk = _one(r"if \(\+\+hoff\[0\] >=\s*([^\n;]*?)\) break;", f_hoff, "http_header_parse_hoff line limit")
    hdim = _one(r"http_header_parse_hoff \(const char \*n, const uint32_t clen, unsigned short hoff\[([0-9]+)\]\)",
                hh, "http_header_parse_hoff prototype")
    f_rh = _func(h1, "h1_recv_headers")
    hdim1 = _one(r"unsigned short hoff\[([0-9]+)\];", f_rh, "h1_recv_headers hoff[]")
    h431 = _one(r"\|\| hoff\[0\] >= ([^\n{]*?)\) \{", f_rh, "h1_recv_headers 431 line check")
    f_rp = _func(glue, "http_response_parse_headers")
    hdim2 = _one(r"unsigned short hoff\[([0-9]+)\];", f_rp, "http_response_parse_headers hoff[]")
    mrf = _one(r"^#define MAX_HTTP_RESPONSE_FIELD_SIZE\s+(\S+)\s*$", glue, "MAX_HTTP_RESPONSE_FIELD_SIZE", re.M)

    # the two HTTP/2 callers of http_header_parse_hoff() (backend response headers / trailers)
    h2dims = []
    for fn in ("h2_send_headers_block", "h2_send_end_stream_trailers"):
        f = _func(h2nc, fn)
        h2dims.append(_one(r"unsigned short hoff\[([0-9]+)\];", f, fn + " hoff[]"))
        _one(r"if \(0 == rc \|\| rc > USHRT_MAX \|\| hoff\[0\] >= sizeof\(hoff\)/sizeof\(hoff\[0\]\)-1", f,
             fn + " limit test (rc > USHRT_MAX, hoff[0] >= dim-1)")
    # server.max-request-field-size is read through the `unsigned short` member of the config value
    cf = read_src("configfile.c")
    _one(r'CONST_STR_LEN\("server\.max-request-field-size"\),\s*T_CONFIG_SHORT,', cf, "server.max-request-field-size config type")
    _one(r"srv->srvconf\.max_request_field_size = cpv->v\.shrt;", cf, "server.max-request-field-size assignment")
    f_cont = _func(h2nc, "h2_recv_continuation")
    ccap = _one(r"n \+= 9\+flen;\s*if \(n >= ([0-9]+)\) \{", f_cont, "h2_recv_continuation accumulation cap")
    rfs1 = _one(r"const uint32_t fsize = ([0-9]+);", f_cont, "h2_recv_continuation received-frame size limit")
    rfs2 = _one(r"const uint32_t fsize = ([0-9]+);", _func(h2nc, "h2_parse_frames"), "h2_parse_frames received-frame size limit")
    if rfs1 != rfs2:
        raise ExtractError("h2_parse_frames / h2_recv_continuation disagree on the received-frame size limit")
    f_set = _func(h2nc, "h2_parse_frame_settings")
    fmin, fmax = _one(r"case H2_SETTINGS_MAX_FRAME_SIZE:\s*if \(v < ([0-9]+) \|\| v > ([0-9]+)\) \{", f_set,
                      "SETTINGS_MAX_FRAME_SIZE bounds")
    f_init = _func(h2nc, "h2_init_con")
    fdef = _one(r"h2c->s_max_frame_size\s*=\s*([0-9]+);", f_init, "default max frame size")
    tbsz = _one(r"buffer_string_prepare_copy\(h2r->tmp_buf, ([0-9]+)\);", f_init, "h2 tmp_buf size")

    prog = r'''
#include "first.h"
#include <stdio.h>
#include <limits.h>
#include <stdint.h>
#include <sys/types.h>
#include "buffer.c"
#include "plugin_config.h"
int main(void){
  unsigned short hoff[%(hdim1)s];
  printf("%%lld %%lld %%lld %%lld %%lld %%lld %%lld\n", (long long)(%(g1)s), (long long)(%(g2)s), (long long)(%(l1)s),
         (long long)(%(l1b)s), (long long)(%(l2)s), (long long)(%(sm)s), (long long)(%(l3)s));
  printf("%%lld %%lld %%lld %%lld %%lld %%lld\n", (long long)(%(hbrk)s), (long long)(%(hdim)s), (long long)(%(hdim1)s),
         (long long)(%(h431)s), (long long)(%(hdim2)s), (long long)(%(mrf)s));
  printf("%%lld %%lld %%lld %%lld %%lld %%lld\n", (long long)(%(ccap)s), (long long)(%(fmin)s), (long long)(%(fmax)s),
         (long long)(%(fdef)s), (long long)(%(tbsz)s), (long long)(%(rfs1)s));
  printf("%%lld %%lld %%lld %%d\n", (long long)(%(h2d0)s), (long long)(%(h2d1)s), (long long)USHRT_MAX,
         (int)(sizeof(((config_plugin_value_t *)0)->v.shrt)*8));
  printf("%%llu %%lld %%d %%d %%d %%d %%d\n", (unsigned long long)BUFFER_PIECE_SIZE, (long long)INT_MAX,
         (int)(sizeof(off_t)*8), (int)(sizeof(size_t)*8), (int)(sizeof(((buffer *)0)->used)*8),
         (int)(sizeof(((buffer *)0)->size)*8), (int)(sizeof(unsigned short)*8));
  return 0; }
''' % dict(g1=g1, g2=g2, l1=l1, l1b=l1b, l2=l2, sm=sm, l3=l3, hbrk=hbrk, hdim=hdim, hdim1=hdim1, h431=h431, hdim2=hdim2,
           mrf=mrf, ccap=ccap, fmin=fmin, fmax=fmax, fdef=fdef, tbsz=tbsz, rfs1=rfs1, h2d0=h2dims[0], h2d1=h2dims[1])
    out = c_dump(prog)
    try:
        rows = [[int(x) for x in l.split()] for l in out.strip().split("\n")]
        (cg1, cg2, cl1, cl1b, cl2, csm, cl3), (vbrk, vdim, vdim1, v431, vdim2, vmrf), \
            (vcap, vfmin, vfmax, vfdef, vtb, vrfs), (vh2d0, vh2d1, vushrt, vshrtbits), (piece, intmax, offb, szb, usedb, sizeb, ushb) = rows
    except (ValueError, IndexError):
        raise ExtractError("ArithConst dumper: unexpected output %r" % out[:300])
    s = "namespace LtVerif.Extracted\n\n"

    def d(name, val, doc, ty="Nat"):
        doc = doc.replace("-/", "- /").replace("/-", "/ -")
        return "/-- %s -/\ndef %s : %s := %d\n" % (doc, name, ty, val)
    s += d("ckGuardH1", cg1, "h1.c h1_chunked(): bound tested before each `te_chunked <<= 4` (`%s`)" % g1.strip(), "Int")
    s += d("ckGuardGw", cg2, "http_chunk.c http_chunk_decode_append_data(): same guard (`%s`)" % g2.strip(), "Int")
    s += d("ckLineMaxH1", cl1, "h1_chunked(): chunk header lines of this many bytes or more are rejected")
    s += d("ckPartialMaxH1", cl1b, "h1_chunked(): an unterminated chunk header of this many bytes is rejected")
    s += d("ckPartialMaxGw", cl2, "http_chunk_decode_append_data(): an unterminated chunk header of this many bytes is rejected")
    s += d("ckLineMaxGw", cl3, "http_chunk_decode_append_data(): a complete chunk header line longer than this is rejected")
    s += d("ckInMemMax", csm, "h1_chunked(): request bodies up to this size are kept in memory", "Int")
    s += d("hoffBreak", vbrk, "http_header_parse_hoff(): `++hoff[0] >= N` stops the scan")
    s += d("hoffDim", vdim, "http_header_parse_hoff() prototype: unsigned short hoff[N]")
    s += d("hoffDimH1", vdim1, "h1_recv_headers(): unsigned short hoff[N]")
    s += d("hoff431", v431, "h1_recv_headers(): 431 when hoff[0] >= N")
    s += d("hoffDimResp", vdim2, "http_response_parse_headers(): unsigned short hoff[N]")
    s += d("hoffDimH2Hdr", vh2d0, "h2_send_headers_block(): unsigned short hoff[N] (same test as below)")
    s += d("hoffDimH2Trl", vh2d1, "h2_send_end_stream_trailers(): unsigned short hoff[N]; both reject rc > USHRT_MAX and hoff[0] >= N-1")
    s += d("ushrtMax", vushrt, "limits.h: USHRT_MAX (byte limit of the two HTTP/2 callers)")
    s += d("maxRequestFieldSizeBits", vshrtbits, "configfile.c: server.max-request-field-size is T_CONFIG_SHORT and read from cpv->v.shrt: bits of that member")
    s += d("maxRespFieldSize", vmrf, "http-header-glue.c: MAX_HTTP_RESPONSE_FIELD_SIZE")
    s += d("h2ContCap", vcap, "h2_recv_continuation(): HEADERS+CONTINUATION accumulation of N bytes or more is a connection error")
    s += d("h2FrameSizeMin", vfmin, "h2_parse_frame_settings(): smallest accepted SETTINGS_MAX_FRAME_SIZE")
    s += d("h2FrameSizeMax", vfmax, "h2_parse_frame_settings(): largest accepted SETTINGS_MAX_FRAME_SIZE")
    s += d("h2FrameSizeDefault", vfdef, "h2_init_con(): initial s_max_frame_size")
    s += d("h2RecvFrameMax", vrfs, "h2_parse_frames() / h2_recv_continuation(): limit on the length of received frames (lighttpd's advertised SETTINGS_MAX_FRAME_SIZE)")
    s += d("h2TmpBufSize", vtb, "h2_init_con(): tmp_buf prepared for this many bytes (HPACK scratch)")
    s += d("bufferPieceSize", piece, "buffer.c: BUFFER_PIECE_SIZE")
    s += d("cIntMax", intmax, "limits.h: INT_MAX")
    s += d("offTBits", offb, "bits of off_t")
    s += d("sizeTBits", szb, "bits of size_t")
    s += d("bufUsedBits", usedb, "bits of buffer.used")
    s += d("bufSizeBits", sizeb, "bits of buffer.size")
    s += d("ushortBits", ushb, "bits of unsigned short")
    s += "\nend LtVerif.Extracted\n"
    return s
