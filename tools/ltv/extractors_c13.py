"""Constants of the connection-lifetime machinery (C13), read from the current source text:
the linger timeout (defined twice, in h1.c and connections.c, "keep in sync"), the accept-loop
cap of network_server_handle_fdevent(), the descriptor watermarks and the minimum max-fds of
server_main_setup(), the default graceful-shutdown timeout and the default idle timeouts."""
import re
from .extract import extractor, ExtractError, read_src


def _one(src, name, pat, flags=0):
    m = re.findall(pat, src, flags)
    if len(m) != 1:
        raise ExtractError("%s: expected exactly one match of /%s/, found %d" % (name, pat, len(m)))
    return m[0]


@extractor("LifeConst")
def life_const():
    h1 = read_src("h1.c")
    con = read_src("connections.c")
    net = read_src("network.c")
    srv = read_src("server.c")
    cfg = read_src("configfile.c")
    linger_h1 = int(_one(h1, "h1.c HTTP_LINGER_TIMEOUT", r"^#define HTTP_LINGER_TIMEOUT\s+(\d+)\s*$", re.M))
    linger_con = int(_one(con, "connections.c HTTP_LINGER_TIMEOUT", r"^#define HTTP_LINGER_TIMEOUT\s+(\d+)\s*$", re.M))
    cap = _one(net, "network.c accept loop cap", r"if \(loops > (\d+)\)\s*loops = (\d+);")
    if cap[0] != cap[1]:
        raise ExtractError("network.c accept loop cap: %s != %s" % cap)
    lo = _one(srv, "server.c max_fds_lowat", r"srv->max_fds_lowat = srv->max_fds \* (\d+) / (\d+);")
    hi = _one(srv, "server.c max_fds_hiwat", r"srv->max_fds_hiwat = srv->max_fds \* (\d+) / (\d+);")
    minfds = _one(srv, "server.c max_fds sanity minimum",
                  r"if \(srv->max_fds < (\d+)\)[^\n]*\n\s*srv->max_fds = (\d+);")
    if minfds[0] != minfds[1]:
        raise ExtractError("server.c max_fds minimum: %s != %s" % minfds)
    gt = int(_one(srv, "server.c graceful-shutdown-timeout default",
                  r'config_feature_int\(srv, "server\.graceful-shutdown-timeout", (\d+)\)'))
    ka = int(_one(cfg, "configfile.c max_keep_alive_idle default", r"p->defaults\.max_keep_alive_idle = (\d+);"))
    ri = int(_one(cfg, "configfile.c max_read_idle default", r"p->defaults\.max_read_idle = (\d+);"))
    wi = int(_one(cfg, "configfile.c max_write_idle default", r"p->defaults\.max_write_idle = (\d+);"))
    s = "namespace LtVerif.Extracted\n\n"
    s += "/-- HTTP_LINGER_TIMEOUT as defined in h1.c (h1_check_timeout) -/\n"
    s += "def lingerTimeoutH1 : Int := %d\n" % linger_h1
    s += "/-- HTTP_LINGER_TIMEOUT as defined in connections.c (close state, graceful maintenance) -/\n"
    s += "def lingerTimeoutCon : Int := %d\n" % linger_con
    s += "/-- network_server_handle_fdevent(): accept()s at most this many connections per event -/\n"
    s += "def acceptLoopCap : Nat := %s\n" % cap[0]
    s += "/-- server_main_setup(): max_fds_lowat = max_fds * num / den -/\n"
    s += "def lowatNum : Nat := %s\ndef lowatDen : Nat := %s\n" % lo
    s += "def hiwatNum : Nat := %s\ndef hiwatDen : Nat := %s\n" % hi
    s += "/-- server_main_setup(): smallest max_fds the server runs with -/\n"
    s += "def minMaxFds : Nat := %s\n" % minfds[0]
    s += "/-- default server.graceful-shutdown-timeout -/\n"
    s += "def gracefulTimeoutDefault : Nat := %d\n" % gt
    s += "def keepAliveIdleDefault : Nat := %d\n" % ka
    s += "def readIdleDefault : Nat := %d\n" % ri
    s += "def writeIdleDefault : Nat := %d\n" % wi
    s += "\nend LtVerif.Extracted\n"
    return s
