"""C15 extractors: limits and the multipart boundary of http_range.c, the size of the
date buffer of http_date.h (read by the C compiler from the current tree)."""
from .extract import extractor, ExtractError, c_dump


@extractor("RangeConst")
def range_const():
    out = c_dump(r'''
#include "first.h"
#include "http_date.h"
#include "http_range.c"
#include <stdio.h>
int main(void){
  printf("%d %d %d %lld %lld\n", RMAX, RMAX_UNSORTED, HTTP_DATE_SZ, LLONG_MAX, LLONG_MIN);
  const char *b = HTTP_MULTIPART_BOUNDARY;
  for (; *b; ++b) printf("%d ", (unsigned char)*b);
  printf("\n");
  return 0; }
''')
    lines = out.strip().split("\n")
    try:
        rmax, rmaxu, dsz, llmax, llmin = [int(x) for x in lines[0].split()]
        bnd = [int(x) for x in lines[1].split()]
    except (ValueError, IndexError):
        raise ExtractError("http_range.c constants: unexpected dumper output %r" % out[:200])
    if not bnd:
        raise ExtractError("HTTP_MULTIPART_BOUNDARY empty")
    s = "namespace LtVerif.Extracted\n\n"
    s += "/-- http_range.c: RMAX (max number of ranges, ascending order) -/\ndef rangeRMAX : Nat := %d\n" % rmax
    s += "/-- http_range.c: RMAX_UNSORTED (max number of ranges once out of order) -/\ndef rangeRMAXUnsorted : Nat := %d\n" % rmaxu
    s += "/-- http_date.h: HTTP_DATE_SZ -/\ndef httpDateSz : Nat := %d\n" % dsz
    s += "/-- limits.h of the build: LLONG_MAX / LLONG_MIN (strtoll clamps, off_t range) -/\n"
    s += "def llongMax : Int := %d\ndef llongMin : Int := %d\n" % (llmax, llmin)
    s += "/-- http_range.c: HTTP_MULTIPART_BOUNDARY -/\ndef rangeBoundary : List UInt8 := [%s]\n" % ", ".join(str(x) for x in bnd)
    s += "\nend LtVerif.Extracted\n"
    return s
