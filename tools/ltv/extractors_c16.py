"""C16 extractor: base64 tables (base64.c) and digest-algorithm constants
(mod_auth_api.h) as Lean source -> lean/LtVerif/Extracted/AuthTables.lean."""
from .extract import extractor, ExtractError, c_dump


def _int_list(vals, per=16):
    rows = []
    for i in range(0, len(vals), per):
        rows.append("  " + ", ".join(str(v) if v >= 0 else "(%d)" % v for v in vals[i:i + per]))
    return "[\n" + ",\n".join(rows) + "]"


@extractor("AuthTables")
def auth_tables():
    out = c_dump(r'''
#include "first.h"
#include "base64.c"
#include "mod_auth_api.h"
#include "http_kv.c"
#include <stdio.h>
int main(void){
  if (sizeof(base64_standard_reverse_table) != 128) return 3;
  if (sizeof(base64_standard_table) != 66) return 4;
  for (int i=0;i<128;++i) printf("%d ", (int)base64_standard_reverse_table[i]);
  printf("\n");
  for (int i=0;i<65;++i) printf("%d ", (int)(unsigned char)base64_standard_table[i]);
  printf("\n%d %d %d %d %d %d %d\n", HTTP_AUTH_DIGEST_SESS, HTTP_AUTH_DIGEST_MD5, HTTP_AUTH_DIGEST_SHA256,
         HTTP_AUTH_DIGEST_SHA512_256, HTTP_AUTH_DIGEST_MD5_BINLEN, HTTP_AUTH_DIGEST_SHA256_BINLEN,
         (int)sizeof(((http_auth_info_t *)0)->userbuf));
  /* methods http_method_key_get() maps to a usable (>= 0) enum value: all but the final "PRI" */
  { int n = (int)(sizeof(http_methods)/sizeof(*http_methods));
    for (int i = 0; i < n-2; ++i) { if (!http_methods[i].used) return 5; printf("%s ", http_methods[i].ptr); }
    if (0 != strcmp(http_methods[n-2].ptr, "PRI") || http_methods[n-1].used) return 6;
    printf("\n"); }
  return 0; }
''')
    lines = out.strip().split("\n")
    if len(lines) != 4:
        raise ExtractError("AuthTables: unexpected dumper output")
    rev = [int(x) for x in lines[0].split()]
    alpha = [int(x) for x in lines[1].split()]
    consts = [int(x) for x in lines[2].split()]
    if len(rev) != 128 or len(alpha) != 65 or len(consts) != 7:
        raise ExtractError("AuthTables: unexpected table sizes")
    s = "namespace LtVerif.Extracted\n\n"
    s += "/-- base64.c: base64_standard_reverse_table[] (>=0 value, -1 invalid, -2 skip, -3 pad) -/\n"
    s += "def b64StdRev : List Int := " + _int_list(rev) + "\n\n"
    s += "/-- base64.c: base64_standard_table[] (64 symbols + pad) -/\n"
    s += "def b64StdAlphabet : List Nat := " + _int_list(alpha) + "\n\n"
    s += "/-- mod_auth_api.h -/\n"
    for n, v in zip(["authDigestSess", "authDigestMd5", "authDigestSha256", "authDigestSha512_256",
                     "authMd5BinLen", "authSha256BinLen", "authUserbufSize"], consts):
        s += "def %s : Nat := %d\n" % (n, v)
    meths = lines[3].split()
    if "GET" not in meths or "CONNECT" not in meths or len(meths) < 8:
        raise ExtractError("AuthTables: unexpected http_methods[] table")
    s += "\n/-- http_kv.c: http_methods[] names that http_method_key_get() accepts (ASCII codes) -/\n"
    s += "def httpMethods : List (List Nat) := [\n" + ",\n".join(
        "  [" + ", ".join(str(ord(c)) for c in m) + "]" for m in meths) + "]\n"
    s += "\nend LtVerif.Extracted\n"
    return s
