"""C20 extractors: the keyvalue.c modifier-name -> burl flag map (observed by calling
pcre_keyvalue_buffer_subst_ext() of the current tree on `${<modifier>1}` templates with
burl_append() intercepted) and the base64url tables of base64.c."""
import os
from . import common as C
from .extract import extractor, ExtractError, c_dump

MODS = ["default", "esc", "escape", "escnde", "escpsnde", "noesc", "noescape",
        "tolower", "toupper", "encb64u", "decb64u", "bare_tolower", "bare_toupper"]

_PROG = r'''
#include "first.h"
#include <stdio.h>
#include <string.h>
static int rec_flags; static int rec_calls;
#define burl_append ltv_rec_burl_append
#include "keyvalue.c"
#undef burl_append
void ltv_rec_burl_append (buffer * const b, const char * const str, const size_t len, const int flags)
{ (void)b; (void)str; (void)len; rec_flags = flags; ++rec_calls; }
#include "base64.c"
static int probe(const char *tmpl) {
    buffer b; memset(&b, 0, sizeof(b));
    pcre_keyvalue_ctx ctx; memset(&ctx, 0, sizeof(ctx));
    PCRE2_SIZE ovec[4] = {0, 2, 0, 1};
    ctx.n = 2; ctx.ovec = ovec; ctx.subject = "ab";
    rec_flags = -1; rec_calls = 0;
    int rc = pcre_keyvalue_buffer_subst_ext(&b, tmpl, &ctx);
    if (rc < 0 || rec_calls != 1) return -1;
    return rec_flags;
}
int main(void) {
    static const char *mods[] = {"", "esc:", "escape:", "escnde:", "escpsnde:", "noesc:", "noescape:",
      "tolower:", "toupper:", "encb64u:", "decb64u:"};
    for (unsigned i = 0; i < sizeof(mods)/sizeof(*mods); ++i) {
        /* case modifiers are probed together with noesc: so that their own flag is isolated */
        char t[64]; snprintf(t, sizeof(t), "${%s%s1}", mods[i], (mods[i][0] == 't' && mods[i][1] == 'o') ? "noesc:" : "");
        printf("%d ", probe(t));
    }
    /* a case modifier alone: which flags reach burl_append (the default encoding must still apply) */
    printf("%d %d ", probe("${tolower:1}"), probe("${toupper:1}"));
    printf("\n");
    if (sizeof(base64_url_table) != 66) return 3;
    for (int i = 0; i < 65; ++i) printf("%d ", (unsigned char)base64_url_table[i]);
    printf("\n");
    if (sizeof(base64_url_reverse_table) != 128) return 4;
    for (int i = 0; i < 128; ++i) printf("%d ", base64_url_reverse_table[i]);
    printf("\n");
    return 0;
}
'''


def _rows(vals, per=16):
    return "[\n" + ",\n".join("  " + ", ".join(str(v) for v in vals[i:i + per])
                              for i in range(0, len(vals), per)) + "]"


@extractor("KvModifiers")
def kv_modifiers():
    out = c_dump(_PROG, libs=[os.path.join(C.SRC, "buffer.c"), os.path.join(C.SRC, "ck.c"),
                              "-lpcre2-8"])
    lines = out.strip().split("\n")
    if len(lines) != 3:
        raise ExtractError("KvModifiers: unexpected dumper output")
    flags = [int(x) for x in lines[0].split()]
    if len(flags) != len(MODS):
        raise ExtractError("KvModifiers: unexpected dumper output")
    # a documented form that the function no longer accepts (probe -1) is recorded as the impossible flag
    # value 65535: only C20's c20_modifier_map fails then, not the extraction (which all checks share)
    flags = [65535 if f < 0 else f for f in flags]
    tbl = [int(x) for x in lines[1].split()]
    rev = [int(x) for x in lines[2].split()]
    if len(tbl) != 65 or len(rev) != 128:
        raise ExtractError("KvModifiers: base64url table shape changed")
    s = "namespace LtVerif.Extracted\n\n"
    s += ("/-- keyvalue.c pcre_keyvalue_buffer_subst_ext(): burl flags handed to burl_append() for the\n"
          "    template `${<modifier>:1}` (observed by running the function of the current tree; tolower/toupper\n"
          "    are probed as `${tolower:noesc:1}` with the noesc flag removed; `bare_*` = the flags of\n"
          "    `${tolower:1}` / `${toupper:1}`) -/\n")
    noesc = flags[MODS.index("noesc")]
    for n, v in zip(MODS, flags):
        if n in ("tolower", "toupper") and v != 65535 and noesc != 65535:
            v &= ~noesc
        s += "def kvMod_%s : Nat := %d\n" % (n, v)
    s += "\n/-- base64.c: base64_url_table[] (64 digits + pad char) -/\n"
    s += "def b64uTable : List UInt8 := " + _rows(tbl) + "\n\n"
    s += "/-- base64.c: base64_url_reverse_table[] (-1 invalid, -2 skip, -3 pad) -/\n"
    s += "def b64uReverse : List Int := " + _rows(rev) + "\n"
    s += "\nend LtVerif.Extracted\n"
    return s
