"""C01 — HTTP/1.x request framing: request-head parser and chunked body decoder."""
import itertools
from .. import common as C

MANIFEST = dict(
    text="Lean 4 theorems over executable models of the HTTP/1.x request-head parser (request.c, "
         "http_header_parse_hoff, h1_recv_headers limits) and of the chunked request-body decoder "
         "(h1_chunked) as a byte automaton: ambiguous/invalid framing is rejected for every input and "
         "option set, accepted heads have exactly one RFC 9112 framing, chunked round-trip, segmentation "
         "independence; models tied to the C by differential runs (grammar-based requests, every "
         "single-byte corruption, all segmentations of short chunked bodies) under ASan/UBSan",
    note="trusted: Lean kernel, hand-written models validated by h_request / h_h1body correspondence, "
         "method/header tables regenerated from http_kv.c/http_header.c; IPv6-literal host "
         "normalisation (inet_pton) is skipped, not modelled; connection-level pipelining is covered by "
         "the end-to-end stream only",
    tech="Lean 4 proof over hand-written model + differential correspondence (in-process C harness)",
    ref="6/C01")

HS, HOSTS, HOSTN, UN, UU, UR, CR_, F2D, F2R, DSR, DSJ, Q20, U8R, GB = \
    1, 2, 4, 8, 16, 32, 64, 256, 512, 1024, 2048, 4096, 8192, 0x8000
DEFAULT = HS | HOSTS | HOSTN | UN | UU | CR_ | F2D | DSR | U8R
OPTS = [DEFAULT, 0, HS, HOSTN, HS | HOSTS | HOSTN, UN | UU, HS | UN | UR | CR_, GB | HS | UN | UU | CR_,
        HS | UN | UU | CR_ | F2D | DSR | U8R, HOSTN | UN | UR | F2R | DSJ | Q20, HS | UN | UU | U8R]

METHODS = [b"GET", b"GET", b"GET", b"POST", b"POST", b"HEAD", b"PUT", b"OPTIONS", b"DELETE", b"CONNECT",
           b"PROPFIND", b"FOO", b"get", b"PRI"]
TARGETS = [b"/", b"/index.html", b"/a/b?x=1&y=2", b"/a%20b", b"/a/../b", b"/%7Euser/", b"*",
           b"http://ex.org/p?q", b"https://Ex.org:443/", b"ex.org:443", b"/x#frag", b"/a?b?c", b"//a//b",
           b"/%2e%2e/x", b"/caf%C3%A9", b"/\xc3\xa9"]
HOSTV = [b"example.org", b"Example.ORG:80", b"127.0.0.1", b"a.b:8080", b"ex.org.", b"ex.org:", b"a-b.c",
         b"3com.com", b"1.2.3.4:80", b"ex.org:080", b"ex.org:0x50", b"a_b", b"[::1]", b"[::1]:80"]
FIELDS = [(b"Accept", [b"*/*", b"text/html"]), (b"User-Agent", [b"x/1.0"]), (b"Cookie", [b"a=1", b"b=2"]),
          (b"X-Foo", [b"bar", b"a b", b"\"q\""]), (b"If-None-Match", [b"\"a\"", b"\"b\""]),
          (b"If-Modified-Since", [b"Sat, 29 Oct 1994 19:43:31 GMT"]), (b"Content-Type", [b"a/b", b"A/B", b"c/d"]),
          (b"Connection", [b"close", b"keep-alive", b"Keep-Alive, close", b"upgrade", b"close;x", b"closed", b", close ,"]),
          (b"Expect", [b"100-continue"]), (b"Range", [b"bytes=0-1"]), (b"Upgrade", [b"h2c", b"websocket"]),
          (b"HTTP2-Settings", [b"AAAA"]), (b"Accept-Encoding", [b"gzip"]), (b"X-Forwarded-For", [b"1.2.3.4"])]
CLV = [b"0", b"5", b"5", b"12", b"05", b"5 ", b"+5", b"5,5", b"5, 5", b"", b"99999999999999999999",
       b"9223372036854775807", b"9223372036854775808", b"-1", b"0x5", b"5a", b" 5", b"5\t"]
TEV = [b"chunked", b"chunked", b"Chunked", b"CHUNKED", b"gzip, chunked", b"chunked, chunked", b"identity",
       b"", b"chunked;q=1", b"xchunked", b"chunke", b"\"chunked\""]
CORRUPT = [0, 9, 10, 13, 32, 58, 127, 128, 255, 0x61, 0x2c, 0x3b]


def build(rng, valid_bias=0.75):
    """grammar-based request head; returns bytes"""
    ok = rng.random() < valid_bias
    m = rng.choice(METHODS[:10] if ok else METHODS)
    t = rng.choice(TARGETS[:6] if ok else TARGETS)
    v = rng.choice([b"HTTP/1.1", b"HTTP/1.1", b"HTTP/1.0"] if ok else
                   [b"HTTP/1.1", b"HTTP/1.0", b"HTTP/2.0", b"http/1.1", b"HTTP/1.10", b""])
    eol = b"\r\n" if ok or rng.random() < 0.8 else b"\n"
    fl = []
    if ok or rng.random() < 0.8:
        fl.append((rng.choice([b"Host", b"host", b"HOST"]), rng.choice(HOSTV[:5] if ok else HOSTV)))
    for _ in range(rng.randint(0, 4)):
        k, vs = rng.choice(FIELDS)
        fl.append((k, rng.choice(vs)))
    framing = rng.randint(0, 9)
    if m in (b"POST", b"PUT") or not ok:
        if framing <= 4:
            fl.append((b"Content-Length", rng.choice(CLV[:4] if ok else CLV)))
        elif framing <= 6:
            fl.append((rng.choice([b"Transfer-Encoding", b"transfer-encoding"]), rng.choice(TEV[:4] if ok else TEV)))
        elif framing == 7 and not ok:
            fl.append((b"Content-Length", rng.choice(CLV)))
            fl.append((b"Transfer-Encoding", rng.choice(TEV)))
        elif framing == 8 and not ok:
            fl.append((b"Content-Length", rng.choice(CLV)))
            fl.append((b"Content-Length", rng.choice(CLV)))
    rng.shuffle(fl)
    out = m + b" " + t + (b" " + v if v else b"") + eol
    for k, val in fl:
        form = 9 if ok and rng.random() < 0.8 else rng.randint(0, 9)
        if form == 0:
            out += k + b" : " + val + eol
        elif form == 1:
            out += k + b":" + val + eol
        elif form == 2:
            out += k + b":\t " + val + b" \t" + eol
        elif form == 3:
            out += k + b": " + val[:1] + eol + b" " + val[1:] + eol
        elif form == 4:
            out += k + b": " + val + eol + b"\t" + eol
        else:
            out += k + b": " + val + eol
    out += eol if ok or rng.random() < 0.9 else rng.choice([b"\n", b"", b"\r"])
    return out


def corrupt1(blk, i, b, kind):
    b = bytes([b])
    if kind == 0:
        return blk[:i] + b + blk[i + 1:]
    if kind == 1:
        return blk[:i] + b + blk[i:]
    return blk[:i] + blk[i + 1:]


BASE = [b"GET / HTTP/1.1\r\nHost: a.b\r\n\r\n",
        b"POST /p?q HTTP/1.1\r\nHost: a.b\r\nContent-Length: 5\r\n\r\n",
        b"POST /p HTTP/1.1\r\nHost: a.b\r\nTransfer-Encoding: chunked\r\n\r\n",
        b"GET http://a.b/x HTTP/1.0\r\nConnection: keep-alive\r\n\r\n",
        b"PUT /x HTTP/1.1\r\nhost: A.b:80\r\nContent-Length: 0\r\nX-A: b\r\n c\r\n\r\n"]


# ------------------------------------------------------------------ oracle
def head_of(blk):
    """(lines before the blank line, found-terminator)"""
    lines, cur = [], b""
    for ch in blk:
        cur += bytes([ch])
        if ch == 10:
            if cur in (b"\n", b"\r\n"):
                return lines, True
            lines.append(cur)
            cur = b""
    return lines, False


def oracle(line, out):
    t = line.split(" ")
    if t[0] == "chunked":
        return oracle_chunked(t, out)
    if t[0] != "req":
        return None
    if "NOT-CLOSED" in out:
        return "rejected request head leaves keep-alive / body length set"
    if not out.startswith("ok "):
        return None
    opts = int(t[1])
    strict = bool(opts & HS)
    blk = C.unhx(t[3])
    lines, term = head_of(blk)
    if not term or not lines:
        return "accepted an unterminated head"
    head = b"".join(lines)
    if b"\x00" in head:
        return "NUL byte in request line / header section accepted"
    fields = [l for l in lines[1:] if l[:1] not in (b" ", b"\t")]
    if strict:
        for l in lines:
            if not l.endswith(b"\r\n"):
                return "bare LF line end accepted in strict mode"
    names = []
    for l in fields:
        if b":" in l:
            k, v = l.split(b":", 1)
            names.append((k, v))
    cl = [(k, v) for k, v in names if k.strip(b" \t").lower() == b"content-length"]
    te = [(k, v) for k, v in names if k.strip(b" \t").lower() == b"transfer-encoding"]
    if len(cl) >= 2:
        return "repeated Content-Length accepted"
    o = dict(x.split("=", 1) for x in out.split(" ")[1:] if "=" in x)
    ver11 = " v1 " in out
    folded = any(l[:1] in (b" ", b"\t") for l in lines[1:])
    if cl and not folded:
        v = cl[0][1].strip(b" \t\r\n")
        if not v.isdigit() or int(v) > 2 ** 63 - 1:
            return "non-numeric / overflowing Content-Length accepted"
    te_vals = [v.strip(b" \t\r\n") for _, v in te]
    if not folded:
        for v in te_vals:
            if v and v.lower() != b"chunked":
                return "Transfer-Encoding other than chunked accepted"
            if v and not ver11:
                return "Transfer-Encoding on HTTP/1.0 accepted"
        if strict and cl and any(te_vals):
            return "Content-Length together with Transfer-Encoding accepted in strict mode"
        if strict:
            for k, v in names:
                if k[-1:] in (b" ", b"\t"):
                    return "whitespace before field colon accepted in strict mode"
                if any((c < 32 and c != 9) or c == 127 for c in v.rstrip(b"\r\n")):
                    return "control character in field value accepted in strict mode"
        # accepted framing must be the RFC 9112 6.3 rule
        want = "-1" if any(te_vals) else (str(int(cl[0][1].strip(b" \t\r\n"))) if cl else "0")
        if o.get("len") != want:
            return "accepted framing (len=%s) differs from RFC 9112 rule (%s)" % (o.get("len"), want)
    if ver11 and o.get("h") == "none":
        return "HTTP/1.1 request without Host accepted"
    return None


def dechunk_ref(data, maxfield):
    """independent RFC 9112 7.1 chunked decoder on a complete byte string:
    returns ('ok', body, consumed) | ('bad',) | ('more',)"""
    i, body = 0, b""
    while True:
        j = data.find(b"\n", i)
        if j < 0:
            return ("more",)
        ln = data[i:j + 1]
        if not ln.endswith(b"\r\n"):
            return ("bad",)
        hexd = b""
        for ch in ln:
            if chr(ch) in "0123456789abcdefABCDEF":
                hexd += bytes([ch])
            else:
                break
        if not hexd:
            return ("bad",)
        size = int(hexd, 16)
        i = j + 1
        if size == 0:
            k = data.find(b"\r\n\r\n", j - 1)
            if k < 0:
                return ("more",)
            return ("ok", body, k + 4)
        if len(data) < i + size + 2:
            return ("more",)
        body += data[i:i + size]
        if data[i + size:i + size + 2] != b"\r\n":
            return ("bad",)
        i += size + 2


def oracle_chunked(t, out):
    segs = [C.unhx(x) for x in t[3:]]
    data = b"".join(segs)
    if "NOT-CLOSED" in out:
        return "chunked framing error leaves keep-alive set"
    ref = dechunk_ref(data, int(t[2]))
    if out.startswith("done"):
        o = dict(x.split("=", 1) for x in out.split(" ")[1:])
        if ref[0] == "bad":
            return "malformed chunked framing accepted as complete body"
        if ref[0] == "ok" and b"\x00" not in data:
            if C.unhx(o["out"]) != ref[1]:
                return "decoded chunked body differs from the RFC decoding"
            if int(o["rest"]) != len(data) - ref[2]:
                return "chunked decoder consumed a different number of bytes than the message has"
    return None


def classify(line, out):
    t = line.split(" ")
    if t[0] == "req":
        if out.startswith("ok"):
            o = out.split(" ")
            ln = [x for x in o if x.startswith("len=")][0]
            fr = "chunked" if ln == "len=-1" else ("cl0" if ln == "len=0" else "cl")
            return "req:%s:ok:%s:%s:%s" % (t[1], o[1], o[2], fr)
        return "req:%s:%s" % (t[1], out[:8])
    o = out.split(" ")
    return "chunked:nseg%d:%s" % (min(len(t) - 3, 5), " ".join(o[:2]) if o[0] == "err" else o[0])


# ------------------------------------------------------------------ generators
def gen_req(ctx):
    rng = ctx.rng
    lines = []
    n = 120000 if ctx.quick else 1500000
    for _ in range(n):
        blk = build(rng)
        r = rng.random()
        if r < 0.25 and blk:
            blk = corrupt1(blk, rng.randrange(len(blk)), rng.choice(CORRUPT + [rng.randint(0, 255)]), rng.randint(0, 2))
        if rng.random() < 0.15:
            blk += b"BODY\r\n\r\n"
        mf = 8192 if rng.random() < 0.9 else rng.choice([64, 200, 65535])
        lines.append("req %d %d %s" % (rng.choice(OPTS), mf, C.hx(blk)))
    # every single-byte corruption of each base sample, under the main option sets
    for blk in BASE:
        for o in (OPTS if not ctx.quick else OPTS[:4]):
            lines.append("req %d 8192 %s" % (o, C.hx(blk)))
            for i in range(len(blk)):
                for b in CORRUPT:
                    for kind in (0, 1):
                        lines.append("req %d 8192 %s" % (o, C.hx(corrupt1(blk, i, b, kind))))
                lines.append("req %d 8192 %s" % (o, C.hx(corrupt1(blk, i, 0, 2))))
    # limits: many lines / long lines
    for o in OPTS[:3]:
        for nl in (100, 8188, 8189, 8190, 8191):
            blk = b"GET / HTTP/1.1\r\nHost: a\r\n" + b"a:b\n" * nl + b"\r\n"
            lines.append("req %d 65535 %s" % (o, C.hx(blk)))
        for ln in (8100, 8160, 8170, 8192, 8300):
            blk = b"GET / HTTP/1.1\r\nHost: a\r\nX: " + b"y" * ln + b"\r\n\r\n"
            lines.append("req %d 8192 %s" % (o, C.hx(blk)))
    return lines


def chunk_stream(rng, ok):
    out = b""
    for _ in range(rng.randint(0, 3)):
        n = rng.choice([1, 2, 3, 5, 10, 16, 17, 31])
        data = bytes(rng.choice(b"ab\r\n0;") for _ in range(n))
        size = (b"%x" % n) if rng.random() < 0.7 else (b"%X" % n if rng.random() < 0.5 else b"0" * rng.randint(1, 3) + b"%x" % n)
        ext = rng.choice([b"", b"", b"", b";a=b", b" ;x", b"\t", b";"]) if ok else \
            rng.choice([b"", b"x", b" y", b";a\rb", b"\r", b" \t;q", b"g"])
        out += size + ext + b"\r\n" + data + (b"\r\n" if ok or rng.random() < 0.8 else rng.choice([b"\n", b"\r", b"\rX", b"XX", b""]))
    last = rng.choice([b"0", b"00", b"0;x"]) if ok else rng.choice([b"0", b"", b"0x", b" 0", b"-0"])
    tr = rng.choice([b"", b"", b"Foo: bar\r\n", b"A: b\r\nC: d\r\n"])
    out += last + b"\r\n" + tr + (b"\r\n" if ok or rng.random() < 0.8 else b"\n")
    if rng.random() < 0.4:
        out += rng.choice([b"GET / HTTP/1.1\r\n", b"X", b"\r\n"])
    return out


def all_splits(data):
    n = len(data)
    for mask in range(1 << (n - 1)):
        segs, cur = [], data[:1]
        for i in range(1, n):
            if mask >> (i - 1) & 1:
                segs.append(cur); cur = b""
            cur += data[i:i + 1]
        segs.append(cur)
        yield segs


def gen_chunked(ctx):
    rng = ctx.rng
    lines = []
    n = 40000 if ctx.quick else 400000
    for _ in range(n):
        ok = rng.random() < 0.7
        data = chunk_stream(rng, ok)
        if rng.random() < 0.2 and data:
            data = corrupt1(data, rng.randrange(len(data)), rng.choice(CORRUPT + [rng.randint(0, 255)]), rng.randint(0, 2))
        if rng.random() < 0.3 and data:
            data = data[:rng.randrange(len(data) + 1)]          # prefix (incomplete)
        k = rng.choice([1, 1, 2, 3, 5, len(data) or 1])
        cuts = sorted(rng.sample(range(1, max(2, len(data))), min(k - 1, max(0, len(data) - 1)))) if len(data) > 1 else []
        segs = [data[a:b] for a, b in zip([0] + cuts, cuts + [len(data)])] or [b""]
        ms = rng.choice([0, 0, 0, 1])
        lines.append("chunked %d 8192 %s" % (ms, " ".join(C.hx(s) for s in segs)))
    # every segmentation of short streams
    shorts = [b"1\r\na\r\n0\r\n\r\n", b"2;x\r\nab\r\n0\r\n\r\nG", b"1\r\na\rX", b"0\r\nA:b\r\n\r\n", b"1\na\r\n0\r\n\r\n",
              b"a\r\n0123456789\r\n0\r\n\r\n"[:13]]
    for d in shorts:
        d = d[:13] if ctx.quick else d[:15]
        for segs in all_splits(d):
            lines.append("chunked 0 8192 %s" % " ".join(C.hx(s) for s in segs))
    # size limits / long lines
    for ln in (1000, 1019, 1020, 1021, 1022, 1030, 2000):
        lines.append("chunked 0 8192 %s" % C.hx(b"1;" + b"x" * ln + b"\r\na\r\n0\r\n\r\n"))
        lines.append("chunked 0 8192 %s %s" % (C.hx(b"1;" + b"x" * ln), C.hx(b"\r\na\r\n0\r\n\r\n")))
    for hx_ in (b"7" + b"f" * 14, b"8" + b"0" * 14, b"f" * 15, b"f" * 16, b"1" + b"0" * 15, b"400", b"401", b"3ff"):
        lines.append("chunked 1 8192 %s" % C.hx(hx_ + b"\r\n"))
        lines.append("chunked 0 8192 %s" % C.hx(hx_ + b"\r\n"))
    return lines


def run(ctx):
    ex1, err = C.build_harness("h_request")
    if ex1 is None:
        ctx.broken.append({"kind": "harness-build", "names": ["h_request"], "log": err[-3000:]})
        return
    ex2, err = C.build_harness("h_h1body")
    if ex2 is None:
        ctx.broken.append({"kind": "harness-build", "names": ["h_h1body"], "log": err[-3000:]})
        return

    def canon(o):
        return o

    req = gen_req(ctx)
    # IPv6-literal host normalisation is not modelled: drop cases either side marks skip-v6
    impl, rc, e = C.parallel_lines([ex1], req)
    keep = [l for l, o in zip(req, impl) if o != "skip-v6"] if rc == 0 and len(impl) == len(req) else req
    ctx.dist["req:skipped-ipv6-literal-host"] = len(req) - len(keep)
    ctx.differential("request-head(h_request)", [ex1], "h1", keep, oracle, classify)
    ctx.differential("chunked-body(h_h1body)", [ex2], "h1", gen_chunked(ctx), oracle, classify)
    ctx.rule = ("request heads from a grammar (75% valid) with single-byte corruptions, every single-byte "
                "corruption of 5 base requests, limit cases; chunked streams with all segmentations of short "
                "ones; distinct = (stream, parseopts, status/framing/version/keep-alive class) tuples")
    ctx.assumptions += ["IPv6-literal Host values under host-normalize are skipped (inet_pton not modelled)",
                        "trailer sections longer than max-request-field-size are excluded (the C discards "
                        "per read buffer there, with keep-alive off)"]


def replay_line(ctx, rep):
    line = rep["input"]
    name = "h_request" if line.startswith("req") else "h_h1body"
    exe, err = C.build_harness(name)
    o, rc, e = C.run_lines([exe], [line])
    m, _, _ = C.run_model("h1", [line])
    print("input:", line)
    print("impl :", o, rc)
    print("model:", m)
    v = oracle(line, o[0]) if o else "crash"
    print("oracle:", v)
    if v or (o != m):
        print("VIOLATION property=%s replay=(replayed)" % ctx.pid)
        return 1
    return 0
