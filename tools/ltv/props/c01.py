"""C01 — HTTP/1.x request framing: request-head parser, chunked body decoder, connection automaton."""
import itertools
from .. import common as C

MANIFEST = dict(
    text="Lean 4 theorems over hand-written executable models of the HTTP/1.x request-head parser (request.c, "
         "http_header_parse_hoff, h1_recv_headers limits), of the chunked request-body decoder (h1_chunked) and of "
         "the connection (head accumulation with blank-line discard, Content-Length counter, chunked decoder, "
         "keep-alive decision, close after rejection; request handler = parameter) as byte-at-a-time automata. "
         "PROVED OVER THE MODELS: an accepted byte block decomposes into request line / field lines / blank line "
         "and then has at most one numeric Content-Length, at most one Transfer-Encoding which is exactly chunked "
         "on HTTP/1.1, the RFC 9112 6.3 framing, Host on 1.1, (strict) CRLF everywhere incl. folds and the "
         "terminating blank line, no WS before a colon, no CTL in values, no CL+TE, no control character anywhere "
         "in the request-target for every option set configfile.c can produce; chunk-size lines accepted by the "
         "decoder satisfy a decoder-independent grammar, other lines and missing CRLF are 400; chunked bodies with "
         "trailers and Content-Length bodies are framed exactly, n well-formed messages give exactly n requests with "
         "their bodies; for ARBITRARY streams the events are requests, then at most one rejection (status in "
         "{400,411,413,431,501}) and close, nothing after; trailer overflow closes; segmentation independence of the "
         "automata. NUL anywhere (strict mode) is proved for method, target, field names and values only "
         "(c01_nul_rejected_partial). TESTED, NOT PROVED: that request.c/h1.c/connections.c/response.c equal the "
         "models -- differential runs under ASan/UBSan (grammar-based and directed heads under 11 option sets, every "
         "single-byte corruption, all segmentations of short chunked bodies with shared and separate read buffers) "
         "and an end-to-end correspondence against the real server (echoing CGI, static files, error handlers; "
         "pipelines under many segmentations, read-buffer alignment sweep, 9-14 configurations incl. request "
         "streaming) with an independent RFC 9112 reference framer as oracle; timing independence and the handler "
         "side of stream-request-body are covered by the e2e stream only",
    note="trusted: Lean kernel (propext, Classical.choice, Quot.sound), hand-written models as far as the "
         "correspondence streams reach, method/header tables regenerated from http_kv.c/http_header.c, "
         "e2e.parse_responses; IPv6-literal host normalisation (inet_pton) is skipped, not modelled; "
         "configfile.c's 'any url option forces url-normalize' is a hypothesis of the target theorem (mirrored in "
         "c01.py parseopt_bits, exercised by the e2e servers); TLS, h2c upgrade and timeouts are outside",
    tech="Lean 4 proof over hand-written model + differential correspondence (in-process C harness + "
         "end-to-end against the real server)",
    ref="6/C01")
LEVEL = "proof"
EXPLANATION = ("claimed PARTIAL: every clause of the property is proved over the models except (a) NUL in strict mode "
               "outside method/target/field names/values (tokeniser coverage, correspondence only), (b) independence "
               "from timing and the equality of the buffer-oriented C with the byte automata (correspondence only: "
               "chunked/chunkedb in-process streams, e2e segmentations and alignment sweep), (c) server.stream-request-"
               "body modes and the handlers' share of keep-alive (e2e only); TLS/h2c upgrade outside")

HS, HOSTS, HOSTN, UN, UU, UR, CR_, F2D, F2R, DSR, DSJ, Q20, U8R, GB = \
    1, 2, 4, 8, 16, 32, 64, 256, 512, 1024, 2048, 4096, 8192, 0x8000
DEFAULT = HS | HOSTS | HOSTN | UN | UU | CR_ | F2D | DSR | U8R
OPTS = [DEFAULT, 0, HS, HOSTN, HS | HOSTS | HOSTN, UN | UU, HS | UN | UR | CR_, GB | HS | UN | UU | CR_,
        HS | UN | UU | CR_ | F2D | DSR | U8R, HOSTN | UN | UR | F2R | DSJ | Q20, HS | UN | UU | U8R]

METHODS = [b"GET", b"GET", b"GET", b"POST", b"POST", b"HEAD", b"PUT", b"OPTIONS", b"DELETE", b"CONNECT",
           b"PROPFIND", b"FOO", b"get", b"PRI"]
TARGETS = [b"/", b"/index.html", b"/a/b?x=1&y=2", b"/a%20b", b"/a/../b", b"/%7Euser/", b"*",
           b"http://ex.org/p?q", b"https://Ex.org:443/", b"ex.org:443", b"/x#frag", b"/a?b?c", b"//a//b",
           b"/%2e%2e/x", b"/caf%C3%A9", b"/\xc3\xa9"]
HOSTV = [b"example.org", b"Example.ORG:80", b"127.0.0.1", b"a.b:8080", b"ex.org.", b"ex.org:", b"a-b.c",
         b"3com.com", b"1.2.3.4:80", b"ex.org:080", b"ex.org:0x50", b"a_b", b"[::1]", b"[::1]:80"]
FIELDS = [(b"Accept", [b"*/*", b"text/html"]), (b"User-Agent", [b"x/1.0"]), (b"Cookie", [b"a=1", b"b=2"]),
          (b"X-Foo", [b"bar", b"a b", b"\"q\""]), (b"If-None-Match", [b"\"a\"", b"\"b\""]),
          (b"If-Modified-Since", [b"Sat, 29 Oct 1994 19:43:31 GMT"]), (b"Content-Type", [b"a/b", b"A/B", b"c/d"]),
          (b"Connection", [b"close", b"keep-alive", b"Keep-Alive, close", b"upgrade", b"close;x", b"closed", b", close ,"]),
          (b"Expect", [b"100-continue"]), (b"Range", [b"bytes=0-1"]), (b"Upgrade", [b"h2c", b"websocket"]),
          (b"HTTP2-Settings", [b"AAAA"]), (b"Accept-Encoding", [b"gzip"]), (b"X-Forwarded-For", [b"1.2.3.4"])]
CLV = [b"0", b"5", b"5", b"12", b"05", b"5 ", b"+5", b"5,5", b"5, 5", b"", b"99999999999999999999",
       b"9223372036854775807", b"9223372036854775808", b"-1", b"0x5", b"5a", b" 5", b"5\t"]
TEV = [b"chunked", b"chunked", b"Chunked", b"CHUNKED", b"gzip, chunked", b"chunked, chunked", b"identity",
       b"", b"chunked;q=1", b"xchunked", b"chunke", b"\"chunked\""]
CORRUPT = [0, 9, 10, 13, 32, 58, 127, 128, 255, 0x61, 0x2c, 0x3b]


def build(rng, valid_bias=0.75):
    """grammar-based request head; returns bytes"""
    ok = rng.random() < valid_bias
    m = rng.choice(METHODS[:10] if ok else METHODS)
    t = rng.choice(TARGETS[:6] if ok else TARGETS)
    v = rng.choice([b"HTTP/1.1", b"HTTP/1.1", b"HTTP/1.0"] if ok else
                   [b"HTTP/1.1", b"HTTP/1.0", b"HTTP/2.0", b"http/1.1", b"HTTP/1.10", b""])
    eol = b"\r\n" if ok or rng.random() < 0.8 else b"\n"
    fl = []
    if ok or rng.random() < 0.8:
        fl.append((rng.choice([b"Host", b"host", b"HOST"]), rng.choice(HOSTV[:5] if ok else HOSTV)))
    for _ in range(rng.randint(0, 4)):
        k, vs = rng.choice(FIELDS)
        fl.append((k, rng.choice(vs)))
    framing = rng.randint(0, 9)
    if m in (b"POST", b"PUT") or not ok:
        if framing <= 4:
            fl.append((b"Content-Length", rng.choice(CLV[:4] if ok else CLV)))
        elif framing <= 6:
            fl.append((rng.choice([b"Transfer-Encoding", b"transfer-encoding"]), rng.choice(TEV[:4] if ok else TEV)))
        elif framing == 7 and not ok:
            fl.append((b"Content-Length", rng.choice(CLV)))
            fl.append((b"Transfer-Encoding", rng.choice(TEV)))
        elif framing == 8 and not ok:
            fl.append((b"Content-Length", rng.choice(CLV)))
            fl.append((b"Content-Length", rng.choice(CLV)))
    rng.shuffle(fl)
    out = m + b" " + t + (b" " + v if v else b"") + eol
    for k, val in fl:
        form = 9 if ok and rng.random() < 0.8 else rng.randint(0, 9)
        if form == 0:
            out += k + b" : " + val + eol
        elif form == 1:
            out += k + b":" + val + eol
        elif form == 2:
            out += k + b":\t " + val + b" \t" + eol
        elif form == 3:
            out += k + b": " + val[:1] + eol + b" " + val[1:] + eol
        elif form == 4:
            out += k + b": " + val + eol + b"\t" + eol
        else:
            out += k + b": " + val + eol
    out += eol if ok or rng.random() < 0.9 else rng.choice([b"\n", b"", b"\r"])
    return out


def corrupt1(blk, i, b, kind):
    b = bytes([b])
    if kind == 0:
        return blk[:i] + b + blk[i + 1:]
    if kind == 1:
        return blk[:i] + b + blk[i:]
    return blk[:i] + blk[i + 1:]


BASE = [b"GET / HTTP/1.1\r\nHost: a.b\r\n\r\n",
        b"POST /p?q HTTP/1.1\r\nHost: a.b\r\nContent-Length: 5\r\n\r\n",
        b"POST /p HTTP/1.1\r\nHost: a.b\r\nTransfer-Encoding: chunked\r\n\r\n",
        b"GET http://a.b/x HTTP/1.0\r\nConnection: keep-alive\r\n\r\n",
        b"PUT /x HTTP/1.1\r\nhost: A.b:80\r\nContent-Length: 0\r\nX-A: b\r\n c\r\n\r\n"]


# ------------------------------------------------------------------ oracle
def head_of(blk):
    """(lines before the blank line, the blank line | None)"""
    lines, cur = [], b""
    for ch in blk:
        cur += bytes([ch])
        if ch == 10:
            if cur in (b"\n", b"\r\n"):
                return lines, cur
            lines.append(cur)
            cur = b""
    return lines, None


def reqline_target(rl):
    """request-target of a request line: everything between the first SP and the final ' HTTP/x.y' (None if the
    line does not have that shape)"""
    rl = rl.rstrip(b"\n")
    if rl.endswith(b"\r"):
        rl = rl[:-1]
    m = re.fullmatch(rb"([^ ]*) (.*) (HTTP/[0-9]\.[0-9])", rl, re.S)
    return m.group(2) if m else None


def oracle(line, out):
    t = line.split(" ")
    if t[0] in ("chunked", "chunkedb"):
        return oracle_chunked(t, out)
    if t[0] != "req":
        return None
    if "NOT-CLOSED" in out:
        return "rejected request head leaves keep-alive / body length set"
    if not out.startswith("ok "):
        return None
    opts = int(t[1])
    strict = bool(opts & HS)
    blk = C.unhx(t[3])
    lines, term = head_of(blk)
    if term is None or not lines:
        return "accepted an unterminated head"
    head = b"".join(lines)
    if b"\x00" in head:
        return "NUL byte in request line / header section accepted"
    fields = [l for l in lines[1:] if l[:1] not in (b" ", b"\t")]
    if strict:
        for l in lines + [term]:
            if not l.endswith(b"\r\n"):
                return "bare LF line end accepted in strict mode"
    # control characters (NUL .. 0x1f, DEL) anywhere in the request-target -- also behind a '#' --, strict mode, for
    # every parse option set configfile.c can produce (url-ctrls-reject implies url-normalize); absolute-form only
    # with host-strict (the authority is then checked as a host name)
    tgt = reqline_target(lines[0])
    if strict and tgt is not None and (not (opts & CR_) or (opts & UN)) and \
            (tgt[:1] == b"/" or tgt == b"*" or (opts & HOSTS)) and any(c < 32 or c == 127 for c in tgt):
        return "control character in the request-target accepted in strict mode"
    names = []
    for l in fields:
        if b":" in l:
            k, v = l.split(b":", 1)
            names.append((k, v))
    cl = [(k, v) for k, v in names if k.strip(b" \t").lower() == b"content-length"]
    te = [(k, v) for k, v in names if k.strip(b" \t").lower() == b"transfer-encoding"]
    if len(cl) >= 2:
        return "repeated Content-Length accepted"
    o = dict(x.split("=", 1) for x in out.split(" ")[1:] if "=" in x)
    ver11 = " v1 " in out
    folded = any(l[:1] in (b" ", b"\t") for l in lines[1:])
    if cl and not folded:
        v = cl[0][1].strip(b" \t\r\n")
        if not v.isdigit() or int(v) > 2 ** 63 - 1:
            return "non-numeric / overflowing Content-Length accepted"
    te_vals = [v.strip(b" \t\r\n") for _, v in te]
    if not folded:
        if len(te) >= 2:
            return "repeated Transfer-Encoding accepted"
        if te and not te_vals[0]:
            return "empty Transfer-Encoding accepted"
        for v in te_vals:
            if v and v.lower() != b"chunked":
                return "Transfer-Encoding other than chunked accepted"
            if v and not ver11:
                return "Transfer-Encoding on HTTP/1.0 accepted"
        if strict and cl and any(te_vals):
            return "Content-Length together with Transfer-Encoding accepted in strict mode"
        if strict:
            for k, v in names:
                if k[-1:] in (b" ", b"\t"):
                    return "whitespace before field colon accepted in strict mode"
                if any((c < 32 and c != 9) or c == 127 for c in v.rstrip(b"\r\n")):
                    return "control character in field value accepted in strict mode"
        # accepted framing must be the RFC 9112 6.3 rule
        want = "-1" if any(te_vals) else (str(int(cl[0][1].strip(b" \t\r\n"))) if cl else "0")
        if o.get("len") != want:
            return "accepted framing (len=%s) differs from RFC 9112 rule (%s)" % (o.get("len"), want)
    if ver11 and o.get("h") == "none":
        return "HTTP/1.1 request without Host accepted"
    return None


def dechunk_ref(data, maxfield):
    """independent RFC 9112 7.1 chunked decoder on a complete byte string:
    returns ('ok', body, consumed) | ('bad',) | ('more',)"""
    i, body = 0, b""
    while True:
        j = data.find(b"\n", i)
        if j < 0:
            return ("more",)
        ln = data[i:j + 1]
        if not ln.endswith(b"\r\n"):
            return ("bad",)
        hexd = b""
        for ch in ln:
            if chr(ch) in "0123456789abcdefABCDEF":
                hexd += bytes([ch])
            else:
                break
        if not hexd:
            return ("bad",)
        # chunk-size [BWS] [";" chunk-ext] CRLF -- no control character (other than HT) in the line, in particular
        # no bare CR (RFC 9112 7.1; chunk-ext otherwise not examined)
        if not re.fullmatch(rb"[ \t]*(;[^\x00-\x08\x0a-\x1f\x7f]*)?", ln[len(hexd):-2]):
            return ("bad",)
        size = int(hexd, 16)
        i = j + 1
        if size == 0:
            k = data.find(b"\r\n\r\n", j - 1)
            if k < 0:
                return ("more",)
            return ("ok", body, k + 4)
        if len(data) < i + size + 2:
            return ("more",)
        body += data[i:i + size]
        if data[i + size:i + size + 2] != b"\r\n":
            return ("bad",)
        i += size + 2


def oracle_chunked(t, out):
    segs = [C.unhx(x) for x in t[3:]]
    data = b"".join(segs)
    if "NOT-CLOSED" in out:
        return "chunked framing error leaves keep-alive set"
    ref = dechunk_ref(data, int(t[2]))
    if out.startswith("done"):
        o = dict(x.split("=", 1) for x in out.split(" ")[1:])
        if ref[0] == "bad":
            return "malformed chunked framing accepted as complete body"
        if ref[0] == "ok" and b"\x00" not in data:
            if C.unhx(o["out"]) != ref[1]:
                return "decoded chunked body differs from the RFC decoding"
            if o.get("ka") == "1" and int(o["rest"]) != len(data) - ref[2]:     # (ka=0: trailer overflow, closes)
                return "chunked decoder consumed a different number of bytes than the message has"
    if out.startswith("done") and ref[0] == "more" and " ka=1" in out:
        return "chunked body declared complete without its terminating empty line, keep-alive left on"
    if out.startswith("more") and ref[0] == "ok" and b"\x00" not in data and ref[2] < int(t[2]):
        return "complete chunked body (RFC decoding) not recognised as complete"
    return None


def classify(line, out):
    t = line.split(" ")
    if t[0] == "req":
        if out.startswith("ok"):
            o = out.split(" ")
            ln = [x for x in o if x.startswith("len=")][0]
            fr = "chunked" if ln == "len=-1" else ("cl0" if ln == "len=0" else "cl")
            return "req:%s:ok:%s:%s:%s" % (t[1], o[1], o[2], fr)
        return "req:%s:%s" % (t[1], out[:8])
    o = out.split(" ")
    return "%s:nseg%d:%s" % (t[0], min(len(t) - 3, 5), " ".join(o[:2]) if o[0] == "err" else o[0])


# ------------------------------------------------------------------ generators
def gen_req(ctx):
    rng = ctx.rng
    lines = []
    n = 120000 if ctx.quick else 1500000
    for _ in range(n):
        blk = build(rng)
        r = rng.random()
        if r < 0.25 and blk:
            blk = corrupt1(blk, rng.randrange(len(blk)), rng.choice(CORRUPT + [rng.randint(0, 255)]), rng.randint(0, 2))
        if rng.random() < 0.15:
            blk += b"BODY\r\n\r\n"
        mf = 8192 if rng.random() < 0.9 else rng.choice([64, 200, 65535])
        lines.append("req %d %d %s" % (rng.choice(OPTS), mf, C.hx(blk)))
    # every single-byte corruption of each base sample, under the main option sets
    for blk in BASE:
        for o in (OPTS if not ctx.quick else OPTS[:4]):
            lines.append("req %d 8192 %s" % (o, C.hx(blk)))
            for i in range(len(blk)):
                for b in CORRUPT:
                    for kind in (0, 1):
                        lines.append("req %d 8192 %s" % (o, C.hx(corrupt1(blk, i, b, kind))))
                lines.append("req %d 8192 %s" % (o, C.hx(corrupt1(blk, i, 0, 2))))
    # directed: control characters, NUL, SP, DEL, 0xff in the request-target -- in the path, in the query, behind a
    # '#' (which URL normalisation drops unread), in absolute-form -- under EVERY parse option set
    for o in OPTS:
        for m in (b"GET", b"POST", b"CONNECT", b"OPTIONS"):
            for tmpl in (b"/a%sb", b"/a?q=%s", b"/a#%s", b"/a#b%sc", b"/a?q#%s", b"/#%s#", b"http://ex.org/a#%s",
                         b"http://ex.org%s/a", b"/a%%00#%s", b"#%s"):
                for bad in (0, 1, 9, 10, 13, 27, 31, 32, 127, 128, 255):
                    if tmpl.count(b"%s") != 1:
                        continue
                    tgt = tmpl % bytes([bad])
                    blk = m + b" " + tgt + b" HTTP/1.1\r\nHost: a.b\r\n" + (b"Content-Length: 0\r\n" if m == b"POST" else b"") + b"\r\n"
                    lines.append("req %d 8192 %s" % (o, C.hx(blk)))
    # directed: the blank line that ends the head as bare LF; empty / repeated Transfer-Encoding (+ Content-Length)
    for o in OPTS:
        for rlend, fend in ((b"\r\n", b"\r\n"), (b"\n", b"\n"), (b"\r\n", b"\n")):
            for term in (b"\n", b"\r\n"):
                lines.append("req %d 8192 %s" % (o, C.hx(b"GET / HTTP/1.1" + rlend + b"Host: a.b" + fend + b"X: y" + fend + term)))
                lines.append("req %d 8192 %s" % (o, C.hx(b"GET / HTTP/1.0" + rlend + term)))
        for te in (b"", b" ", b"\t", b"chunked", b"Chunked ", b"x"):
            for te2 in (None, b"", b"chunked", b"CHUNKED"):
                for cl in (None, b"3", b"0"):
                    for order in (0, 1, 2):
                        fl = [b"Transfer-Encoding:" + te] + ([b"transfer-encoding: " + te2] if te2 is not None else []) + \
                            ([b"Content-Length: " + cl] if cl is not None else [])
                        fl = fl[order % len(fl):] + fl[:order % len(fl)]
                        blk = b"POST /p HTTP/1.1\r\nHost: a.b\r\n" + b"".join(f + b"\r\n" for f in fl) + b"\r\n"
                        lines.append("req %d 8192 %s" % (o, C.hx(blk)))
    # limits: many lines / long lines
    for o in OPTS[:3]:
        for nl in (100, 8188, 8189, 8190, 8191):
            blk = b"GET / HTTP/1.1\r\nHost: a\r\n" + b"a:b\n" * nl + b"\r\n"
            lines.append("req %d 65535 %s" % (o, C.hx(blk)))
        for ln in (8100, 8160, 8170, 8192, 8300):
            blk = b"GET / HTTP/1.1\r\nHost: a\r\nX: " + b"y" * ln + b"\r\n\r\n"
            lines.append("req %d 8192 %s" % (o, C.hx(blk)))
    return lines


def chunk_stream(rng, ok):
    out = b""
    for _ in range(rng.randint(0, 3)):
        n = rng.choice([1, 2, 3, 5, 10, 16, 17, 31])
        data = bytes(rng.choice(b"ab\r\n0;") for _ in range(n))
        size = (b"%x" % n) if rng.random() < 0.7 else (b"%X" % n if rng.random() < 0.5 else b"0" * rng.randint(1, 3) + b"%x" % n)
        ext = rng.choice([b"", b"", b"", b";a=b", b" ;x", b"\t", b";"]) if ok else \
            rng.choice([b"", b"x", b" y", b";a\rb", b"\r", b" \t;q", b"g", b";\x01", b";a\x7f", b"\rXYZ", b";a=\"b\x0bc\"", b" ;\x1b"])
        out += size + ext + b"\r\n" + data + (b"\r\n" if ok or rng.random() < 0.8 else rng.choice([b"\n", b"\r", b"\rX", b"XX", b""]))
    last = rng.choice([b"0", b"00", b"0;x"]) if ok else rng.choice([b"0", b"", b"0x", b" 0", b"-0"])
    tr = rng.choice([b"", b"", b"Foo: bar\r\n", b"A: b\r\nC: d\r\n"])
    out += last + b"\r\n" + tr + (b"\r\n" if ok or rng.random() < 0.8 else b"\n")
    if rng.random() < 0.4:
        out += rng.choice([b"GET / HTTP/1.1\r\n", b"X", b"\r\n"])
    return out


def all_splits(data):
    n = len(data)
    for mask in range(1 << (n - 1)):
        segs, cur = [], data[:1]
        for i in range(1, n):
            if mask >> (i - 1) & 1:
                segs.append(cur); cur = b""
            cur += data[i:i + 1]
        segs.append(cur)
        yield segs


def gen_chunked(ctx):
    rng = ctx.rng
    lines = []
    n = 40000 if ctx.quick else 400000
    for _ in range(n):
        ok = rng.random() < 0.7
        data = chunk_stream(rng, ok)
        if rng.random() < 0.2 and data:
            data = corrupt1(data, rng.randrange(len(data)), rng.choice(CORRUPT + [rng.randint(0, 255)]), rng.randint(0, 2))
        if rng.random() < 0.3 and data:
            data = data[:rng.randrange(len(data) + 1)]          # prefix (incomplete)
        k = rng.choice([1, 1, 2, 3, 5, len(data) or 1])
        cuts = sorted(rng.sample(range(1, max(2, len(data))), min(k - 1, max(0, len(data) - 1)))) if len(data) > 1 else []
        segs = [data[a:b] for a, b in zip([0] + cuts, cuts + [len(data)])] or [b""]
        ms = rng.choice([0, 0, 0, 1])
        # chunkedb: every segment in a read buffer of its own (all cuts are chunkqueue chunk boundaries)
        lines.append("%s %d 8192 %s" % ("chunkedb" if len(segs) > 1 and rng.random() < 0.5 else "chunked", ms,
                                        " ".join(C.hx(s) for s in segs)))
    # every segmentation of short streams
    shorts = [b"1\r\na\r\n0\r\n\r\n", b"2;x\r\nab\r\n0\r\n\r\nG", b"1\r\na\rX", b"0\r\nA:b\r\n\r\n", b"1\na\r\n0\r\n\r\n",
              b"a\r\n0123456789\r\n0\r\n\r\n"[:13]]
    for d in shorts:
        d = d[:13] if ctx.quick else d[:15]
        for segs in all_splits(d):
            lines.append("chunked 0 8192 %s" % " ".join(C.hx(s) for s in segs))
            if len(segs) > 1:
                lines.append("chunkedb 0 8192 %s" % " ".join(C.hx(s) for s in segs))
    # trailer section reaching max-request-field-size exactly at the end of the data, no terminator: the body is
    # declared complete with keep-alive off (any cut; shared and separate read buffers)
    for _ in range(1500 if ctx.quick else 12000):
        mf = rng.choice([24, 32, 64, 100, 512])
        pre = b"".join(b"%x\r\n" % len(d) + d + b"\r\n" for d in
                       [bytes(rng.choice(b"ab\r\n0") for _ in range(rng.randint(1, 9))) for _ in range(rng.randint(0, 2))])
        last = rng.choice([b"0\r\n", b"00\r\n", b"0;x\r\n"])
        short = rng.choice([0, 0, 0, 1, 5])          # 0: the data ends exactly at the limit
        fill = mf - len(last) - short
        trl = (b"A: b\r\n" * (fill // 6 + 1))[:fill]
        if trl.endswith(b"\r"):
            trl = trl[:-1] + b"x"
        data = pre + last + trl
        # (bytes after the limit only in a later read: a terminator already in the buffer the C examines counts)
        tailseg = b"" if short else rng.choice([b"", b"", b"\r\nGET / HTTP/1.1\r\n\r\n", b"\r\n\r\n"])
        k = rng.choice([1, 2, 3, 5])
        cuts = sorted(rng.sample(range(1, len(data)), min(k - 1, len(data) - 1)))
        segs = [data[a:b] for a, b in zip([0] + cuts, cuts + [len(data)])] + ([tailseg] if tailseg else [])
        lines.append("%s 0 %d %s" % (rng.choice(["chunked", "chunkedb"]), mf, " ".join(C.hx(x) for x in segs)))
    # size limits / long lines
    for ln in (1000, 1019, 1020, 1021, 1022, 1030, 2000):
        lines.append("chunked 0 8192 %s" % C.hx(b"1;" + b"x" * ln + b"\r\na\r\n0\r\n\r\n"))
        lines.append("chunked 0 8192 %s %s" % (C.hx(b"1;" + b"x" * ln), C.hx(b"\r\na\r\n0\r\n\r\n")))
    for hx_ in (b"7" + b"f" * 14, b"8" + b"0" * 14, b"f" * 15, b"f" * 16, b"1" + b"0" * 15, b"400", b"401", b"3ff"):
        lines.append("chunked 1 8192 %s" % C.hx(hx_ + b"\r\n"))
        lines.append("chunked 0 8192 %s" % C.hx(hx_ + b"\r\n"))
    return lines



# ====================================================================== connection level (end-to-end)
# Pipelines of requests on one connection against the REAL server (echoing CGI + static files), sent under
# many TCP segmentations, compared with the Lean connection automaton (Model/H1Conn.lean, `conn` op) and
# checked by an independent RFC 9112 reference framer (oracle).
import os, re, select, socket, time, collections
from concurrent.futures import ThreadPoolExecutor

ECHO_PL = r"""#!/usr/bin/perl
binmode(STDIN); binmode(STDOUT);
my $cl = $ENV{"CONTENT_LENGTH"}; my $n = (defined($cl) && $cl =~ /^\d+$/) ? $cl : 0;
my $b = ""; my $got = 0;
while ($got < $n) { my $r = read(STDIN, $b, $n - $got, $got); last if !$r; $got += $r; }
print "Content-Type: application/octet-stream\r\n\r\n";
print "M=" . $ENV{"REQUEST_METHOD"} . "\nCL=" . (defined($cl) ? $cl : "-") . "\nB=" . $b;
"""
NOREAD_PL = '#!/usr/bin/perl\nprint "Status: 202\\r\\nContent-Type: text/plain\\r\\n\\r\\nNOREAD";\n'
STATIC = {"/index.html": b"<html>index</html>\n", "/a.txt": b"aaaa\n"}
# further resources: /x.deny (mod_access: 403), /sub (directory: 301; /sub/ 403), /eh.html (error-handler page),
# /noread.pl (CGI that answers 202 without reading stdin)
EXTRA_FILES = {"/x.deny": b"denied\n", "/eh.html": b"<html>error page</html>\n", "/sub/.keep": b""}
SENTINEL = b"GET /a.txt HTTP/1.1\r\nHost: sentinel\r\nConnection: close\r\n\r\n"

CONN_CONF = """
server.feature-flags = ("server.h2proto" => "disable")
server.max-keep-alive-idle = %(kaidle)d
server.max-read-idle = 30
server.max-write-idle = 30
cgi.assign = (".pl" => "/usr/bin/perl")
server.stream-request-body = %(stream)d
server.max-keep-alive-requests = %(maxka)d
server.max-request-size = %(maxsize)d
server.max-request-field-size = %(maxfield)d
url.access-deny = (".deny")
%(errh)s
%(popts)s
"""


def parseopt_bits(d):
    """effective r->conf.http_parseopts for a server.http-parseopts table: mirrors config_http_parseopts()
    and the defaults of config_init() (configfile.c)"""
    names = {"url-normalize": UN, "url-normalize-unreserved": UU, "url-normalize-required": UR,
             "url-ctrls-reject": CR_, "url-path-backslash-trans": 0x80, "url-path-2f-decode": F2D,
             "url-path-2f-reject": F2R, "url-path-dotseg-remove": DSR, "url-path-dotseg-reject": DSJ,
             "url-query-20-plus": Q20, "url-invalid-utf8-reject": U8R}
    hs, hosts, hostn, gb = 1, 1, 0, 0
    opts = UN | UU | CR_ | F2D | DSR | U8R
    decode_2f = url_normalize = 1
    for k, v in d.items():
        if k == "header-strict":
            hs = v
        elif k == "host-strict":
            hosts = v
        elif k == "host-normalize":
            hostn = v
        elif k == "method-get-body":
            gb = v
        else:
            o = names[k]
            if v:
                opts |= o
            else:
                opts &= ~o
                if o == UN:
                    url_normalize = 0
                if o == F2D:
                    decode_2f = 0
    if not url_normalize:
        opts = 0
    if opts:
        opts |= UN
        if not (opts & (UU | UR)):
            opts |= UU | U8R
            if decode_2f and not (opts & F2R):
                opts |= F2D
    return (HS if hs else 0) | ((HOSTS | HOSTN) if hosts else 0) | (HOSTN if hostn else 0) | (GB if gb else 0) | opts


def mkconf(name, popts=None, stream=0, maxka=100, maxsize=0, maxfield=8192, kaidle=30, errh=None):
    popts = popts or {}
    txt = ""
    if popts:
        txt = "server.http-parseopts = (" + ", ".join(
            '"%s" => "%s"' % (k, "enable" if v else "disable") for k, v in popts.items()) + ")"
    return dict(name=name, bits=parseopt_bits(popts), stream=stream, maxka=maxka, maxsize=maxsize,
                maxfield=maxfield, kaidle=kaidle, errh=errh, strict=bool(popts.get("header-strict", 1)),
                text=CONN_CONF % dict(stream=stream, maxka=maxka, maxsize=maxsize, maxfield=maxfield, popts=txt,
                                      kaidle=kaidle,
                                      errh={None: "", "all": 'server.error-handler = "/eh.html"',
                                            "404": 'server.error-handler-404 = "/eh.html"'}[errh]))


def make_server(bd, cf):
    """one lighttpd for a configuration, with the docroot every e2e-conn stream relies on"""
    from .. import e2e
    srv = e2e.Server(bd, cf["text"], modules=("mod_access", "mod_cgi"))
    os.makedirs(srv.docroot + "/sub", exist_ok=True)
    for pth, content in list(STATIC.items()) + list(EXTRA_FILES.items()):
        open(srv.docroot + pth, "wb").write(content)
    open(srv.docroot + "/echo.pl", "w").write(ECHO_PL)
    open(srv.docroot + "/noread.pl", "w").write(NOREAD_PL)
    return srv


def conn_confs(ctx):
    cs = [mkconf("default"),
          mkconf("stream1", stream=1),
          mkconf("stream2", stream=2),
          mkconf("lenient", {"header-strict": 0}),
          mkconf("lenient-all+stream1", {"header-strict": 0, "host-strict": 0, "url-normalize": 0}, stream=1),
          mkconf("normalize-required+getbody+maxka2",
                 {"url-normalize-required": 1, "url-ctrls-reject": 0, "url-path-2f-reject": 1, "url-path-2f-decode": 0,
                  "method-get-body": 1}, maxka=2),
          mkconf("limits", maxsize=1, maxfield=512),
          # who consumes the body of a request that ends in an error: the generic error handler re-dispatches the
          # request (and forgets its body), error-handler-404 does not
          mkconf("error-handler", errh="all"),
          mkconf("error-handler-404", errh="404")]
    if not ctx.quick:
        cs += [mkconf("ctrls-off+stream2", {"url-ctrls-reject": 0}, stream=2),
               mkconf("hostnorm+dotseg-reject", {"host-strict": 0, "host-normalize": 1, "url-path-dotseg-reject": 1,
                                                 "url-path-dotseg-remove": 0, "url-query-20-plus": 1}),
               mkconf("lenient+stream2+maxka1", {"header-strict": 0}, stream=2, maxka=1),
               mkconf("keep-alive-off", kaidle=0),
               mkconf("error-handler+lenient+stream2", {"header-strict": 0}, stream=2, errh="all")]
    return cs


# ------------------------------------------------------------------ message grammar
BODY_ATOMS = [b"a", b"xyz", b"\r\n", b"\n", b"\r", b"\x00", b"0\r\n\r\n", b"GET /a.txt HTTP/1.1\r\nHost: evil\r\n\r\n",
              b"POST /echo.pl HTTP/1.1\r\nHost: evil\r\nContent-Length: 3\r\n\r\nabc", b"\xff\xfe", b"5\r\nhello\r\n",
              b"Content-Length: 0\r\n", b" ", b";"]
SAFE_FIELDS = [(b"Accept", b"*/*"), (b"User-Agent", b"x/1.0"), (b"Cookie", b"a=1"), (b"X-Foo", b"a b"),
               (b"If-None-Match", b"\"zzz\""), (b"Content-Type", b"a/b"), (b"Accept-Encoding", b"gzip"),
               (b"X-Forwarded-For", b"1.2.3.4"), (b"Connection", b"keep-alive"), (b"Connection", b"Keep-Alive, foo")]


def rand_body(rng, big):
    r = rng.random()
    if r < 0.1:
        return b""
    if big and r < 0.16:
        n = rng.choice([5000, 17000, 66000, 70000])
        return bytes(rng.getrandbits(8) for _ in range(64)) * (n // 64)
    out = b""
    for _ in range(rng.randint(1, 6)):
        out += rng.choice(BODY_ATOMS)
    if rng.random() < 0.3:
        out += bytes(rng.getrandbits(8) for _ in range(rng.randint(1, 200)))
    return out


def enchunk(rng, body, ok=True):
    out = b""
    i = 0
    while i < len(body):
        n = min(len(body) - i, rng.choice([1, 2, 3, 5, 16, 17, 100, 1000]))
        size = (b"%x" % n) if rng.random() < 0.7 else (b"%X" % n if rng.random() < 0.5 else b"0" * rng.randint(1, 3) + b"%x" % n)
        ext = rng.choice([b"", b"", b"", b";a=b", b" ;x", b"\t", b";"])
        out += size + ext + b"\r\n" + body[i:i + n] + b"\r\n"
        i += n
    out += rng.choice([b"0", b"0", b"00", b"0;x"]) + b"\r\n"
    out += rng.choice([b"", b"", b"", b"Foo: bar\r\n", b"A: b\r\nC: d\r\n"]) + b"\r\n"
    return out


TARGET_CLASSES = {       # who consumes the request body
    "cgi": [b"/echo.pl", b"/echo.pl", b"/echo.pl?x=1&y=2", b"/./echo.pl", b"/echo.pl/info"],   # reads and echoes it
    "noread": [b"/noread.pl"],                           # CGI that never reads its stdin (lighttpd has read it)
    "static": [b"/index.html", b"/a.txt", b"/a.txt?q", b"/dir/../a.txt", b"//index.html"],    # nobody
    "missing": [b"/nope", b"/nope/x?y", b"/index.htm"],  # nobody: 404 (error handlers!)
    "deny": [b"/x.deny"],                                # nobody: 403 from mod_access
    "dir": [b"/sub"],                                    # nobody: 301
    "dirslash": [b"/sub/"],                              # nobody: 403 / 501
    "star": [b"*"]}


def wchoice(rng, pairs):
    tot = sum(w for _, w in pairs)
    x = rng.random() * tot
    for v, w in pairs:
        x -= w
        if x < 0:
            return v
    return pairs[-1][0]


def conn_message(rng, big=False, stream=0):
    """a well-formed message (head, body, kind): target class x method x body framing"""
    tclass = wchoice(rng, [("cgi", 36), ("static", 20), ("missing", 15), ("deny", 6), ("dir", 4), ("dirslash", 3),
                           ("noread", 0 if stream else 8), ("star", 2)])
    m = wchoice(rng, [(b"GET", 30), (b"POST", 36), (b"PUT", 10), (b"HEAD", 8), (b"DELETE", 7), (b"OPTIONS", 4),
                      (b"PROPFIND", 5)])
    if tclass == "star":
        m = b"OPTIONS"
    if m in (b"GET", b"HEAD", b"OPTIONS"):
        framing = "none" if rng.random() < 0.96 else "cl"
    else:
        framing = wchoice(rng, [("cl", 45), ("ck", 35), ("cl0", 10), ("none", 10)])
    v10 = rng.random() < 0.15 and framing != "ck"
    ver = b"HTTP/1.0" if v10 else b"HTTP/1.1"
    fl = []
    if not v10 or rng.random() < 0.5:
        fl.append((rng.choice([b"Host", b"host", b"HOST"]), rng.choice([b"example.org", b"a.b:8080", b"127.0.0.1"])))
    if v10 and rng.random() < 0.75:
        fl.append((b"Connection", b"keep-alive"))
    elif rng.random() < 0.04:
        fl.append((b"Connection", b"close"))
    for _ in range(rng.randint(0, 3)):
        fl.append(rng.choice(SAFE_FIELDS))
    t = rng.choice(TARGET_CLASSES[tclass])
    body = b""
    if framing in ("cl", "cl0"):
        body = b"" if framing == "cl0" else rand_body(rng, big and tclass == "cgi")
        if framing == "cl" and not body and tclass != "cgi":
            body = b"x"
        if tclass == "noread":
            body = body[:2000]
        fl.append((rng.choice([b"Content-Length", b"content-length"]), b"%d" % len(body)))
    elif framing == "ck":
        fl.append((rng.choice([b"Transfer-Encoding", b"transfer-encoding"]), rng.choice([b"chunked", b"Chunked", b"CHUNKED"])))
        body = enchunk(rng, rand_body(rng, False)[:2000 if tclass == "noread" else 3000])
    rng.shuffle(fl)
    head = m + b" " + t + b" " + ver + b"\r\n"
    for k, val in fl:
        head += k + rng.choice([b": ", b": ", b":", b":\t "]) + val + b"\r\n"
    head += b"\r\n"
    return head, body, "%s-%s-%s" % (m.decode().lower(), tclass, framing)


def break_message(rng, head, body, kind):
    """turn a well-formed message into one of the ambiguous / invalid class"""
    lines = head.split(b"\r\n")[:-2]
    how = rng.choice(["dup-cl", "dup-cl-same", "cl-nonnum", "te-other", "te-10", "te-cl", "ctl-target", "ctl-value",
                      "ws-colon", "bare-lf", "nul", "no-host", "bad-chunk", "corrupt", "grammar", "cl-short",
                      "ctl-frag", "bare-lf-term", "te-empty", "te-dup", "chunk-ext-ctl"])
    if how in ("dup-cl", "dup-cl-same"):
        n = len(body)
        lines.insert(rng.randint(1, len(lines)), b"Content-Length: %d" % (n if how == "dup-cl-same" else n + 1))
        if not any(l.lower().startswith(b"content-length") for l in lines[1:-1] + lines[-1:]) or kind.startswith("get"):
            lines.insert(1, b"Content-Length: %d" % n)
    elif how == "cl-nonnum":
        lines = [l for l in lines if not l.lower().startswith((b"content-length", b"transfer-encoding"))]
        # (not the largest valid value: a CGI told to expect 2^63-1 bytes misbehaves in timing-dependent ways)
        lines.append(b"Content-Length: " + rng.choice([v for v in CLV[4:] if v != b"9223372036854775807"]))
    elif how == "te-other":
        lines = [l for l in lines if not l.lower().startswith((b"content-length", b"transfer-encoding"))]
        lines.append(b"Transfer-Encoding: " + rng.choice(TEV[4:7] + TEV[8:]))
    elif how == "te-10":
        lines[0] = lines[0][:-1] + b"0"
        lines = [l for l in lines if not l.lower().startswith((b"content-length", b"transfer-encoding"))]
        lines.append(b"Transfer-Encoding: chunked")
        body = b"3\r\nabc\r\n0\r\n\r\n"
    elif how == "te-cl":
        lines = [l for l in lines if not l.lower().startswith((b"content-length", b"transfer-encoding"))]
        body = enchunk(rng, b"abc")
        two = [b"Transfer-Encoding: chunked", b"Content-Length: %d" % rng.choice([0, 3, len(body)])]
        rng.shuffle(two)
        lines += two
        lines[0] = lines[0][:-1] + b"1"
        if not any(l.lower().startswith(b"host") for l in lines):
            lines.append(b"Host: a")
    elif how == "ctl-target":
        p = lines[0].split(b" ")
        i = rng.randrange(1, len(p[1]) + 1)
        p[1] = p[1][:i] + bytes([rng.choice([1, 8, 9, 11, 12, 13, 27, 31, 127, 0])]) + p[1][i:]
        lines[0] = b" ".join(p)
    elif how == "ctl-frag":
        # control character / NUL / SP / DEL behind a '#' (URL normalisation drops the fragment unread)
        p = lines[0].split(b" ")
        p[1] = p[1] + rng.choice([b"#", b"#x", b"?q#", b"#a#"]) + bytes([rng.choice([0, 1, 9, 13, 27, 31, 32, 127])]) + rng.choice([b"", b"y"])
        lines[0] = b" ".join(p)
    elif how == "bare-lf-term":
        return b"\r\n".join(lines) + b"\r\n\n", body, how
    elif how in ("te-empty", "te-dup"):
        lines = [l for l in lines if not l.lower().startswith((b"content-length", b"transfer-encoding"))]
        lines[0] = b"POST /echo.pl HTTP/1.1"
        if not any(l.lower().startswith(b"host") for l in lines):
            lines.append(b"Host: a")
        if how == "te-empty":
            body = b"abc"
            two = [b"Transfer-Encoding:" + rng.choice([b"", b" ", b"\t "]), b"Content-Length: 3"]
        else:
            body = enchunk(rng, b"abc")
            two = [b"Transfer-Encoding: chunked", rng.choice([b"Transfer-Encoding: chunked", b"transfer-encoding: CHUNKED"])]
        rng.shuffle(two)
        lines += two
    elif how == "chunk-ext-ctl":
        lines = [l for l in lines if not l.lower().startswith((b"content-length", b"transfer-encoding"))]
        lines.append(b"Transfer-Encoding: chunked")
        lines[0] = b"POST /echo.pl HTTP/1.1"
        if not any(l.lower().startswith(b"host") for l in lines):
            lines.append(b"Host: a")
        body = b"5" + rng.choice([b"\rXYZ", b";\x01", b";a\rb", b" ;\x7f", b";a=\"\x0b\""]) + b"\r\nhello\r\n0\r\n\r\n"
    elif how == "ctl-value":
        lines.insert(rng.randint(1, len(lines)), b"X-Bar: a" + bytes([rng.choice([1, 8, 11, 12, 13, 27, 31, 127, 0])]) + b"b")
    elif how == "ws-colon":
        i = rng.randrange(1, len(lines)) if len(lines) > 1 else None
        if i is None:
            lines.append(b"X-Bar : a")
        else:
            k, v = lines[i].split(b":", 1)
            lines[i] = k + rng.choice([b" ", b"\t"]) + b":" + v
    elif how == "bare-lf":
        i = rng.randrange(len(lines))
        out = b""
        for j, l in enumerate(lines):
            out += l + (b"\n" if j == i else b"\r\n")
        return out + b"\r\n", body, how
    elif how == "nul":
        blk = b"\r\n".join(lines) + b"\r\n\r\n"
        i = rng.randrange(len(blk))
        blk = blk[:i] + b"\x00" + (blk[i:] if rng.random() < 0.5 else blk[i + 1:])
        return blk, body, how
    elif how == "no-host":
        lines = [l for l in lines if not l.lower().startswith(b"host")]
        lines[0] = lines[0][:-1] + b"1"
    elif how == "bad-chunk":
        lines = [l for l in lines if not l.lower().startswith((b"content-length", b"transfer-encoding"))]
        lines.append(b"Transfer-Encoding: chunked")
        lines[0] = b"POST /echo.pl HTTP/1.1"
        if not any(l.lower().startswith(b"host") for l in lines):
            lines.append(b"Host: a")
        body = chunk_stream(rng, False)
    elif how == "corrupt":
        blk = b"\r\n".join(lines) + b"\r\n\r\n" + body
        blk = corrupt1(blk, rng.randrange(len(blk)), rng.choice(CORRUPT + [rng.randint(0, 255)]), rng.randint(0, 2))
        return blk, b"", how
    elif how == "grammar":
        return build(rng, 0.0), rng.choice([b"", b"abc"]), how
    elif how == "cl-short":
        # declared length shorter than what is sent: the rest is (mis)read as the next request -- legal framing,
        # the "next request" is garbage
        body = body + b"XYZ" if body else b"XYZ"
        lines = [l for l in lines if not l.lower().startswith((b"content-length", b"transfer-encoding"))]
        lines.append(b"Content-Length: %d" % (len(body) - 3))
        lines[0] = b"POST /echo.pl HTTP/1.1"
        if not any(l.lower().startswith(b"host") for l in lines):
            lines.append(b"Host: a")
    return b"\r\n".join(lines) + b"\r\n\r\n", body, how


def conn_pipeline(rng, big=False, stream=0):
    """(stream bytes incl. sentinel, list of (offset, kind) marks)"""
    n = rng.choice([1, 2, 2, 3, 3, 4, 5, 6])
    out, marks = b"", []
    bad_at = rng.randrange(n) if rng.random() < 0.45 else -1
    for i in range(n):
        head, body, kind = conn_message(rng, big, stream)
        if i == bad_at or (bad_at >= 0 and i > bad_at and rng.random() < 0.2):
            head, body, kind = break_message(rng, head, body, kind)
        if i and rng.random() < 0.15:
            marks.append((len(out), "blank"))
            out += rng.choice([b"\r\n", b"\r\n", b"\r\n", b"\n", b"\r\n\r\n"])
        marks.append((len(out), kind))
        out += head
        marks.append((len(out), "body"))
        out += body
    marks.append((len(out), "sentinel"))
    return out + SENTINEL, marks


LOOKALIKE = b"GET /a.txt HTTP/1.1\r\nHost: evil\r\n\r\n"


def gen_body_owner(ctx, confs):
    """systematic cross product: who consumes the body (target class, configuration) x method x body framing,
    the body being two complete look-alike requests; followed by a distinguishable request and the sentinel"""
    out = []
    for ci, cf in enumerate(confs):
        for tclass in ("cgi", "noread", "static", "missing", "deny", "dir", "dirslash"):
            if tclass == "noread" and cf["stream"]:
                continue
            for m in (b"POST", b"PUT", b"DELETE"):
                for framing in ("cl", "ck"):
                    if ctx.quick and (ci * 7 + len(out)) % 2 and cf["errh"] is None:
                        continue
                    t = TARGET_CLASSES[tclass][0]
                    payload = LOOKALIKE * 2
                    head = m + b" " + t + b" HTTP/1.1\r\nHost: a\r\n"
                    if framing == "cl":
                        msg = head + b"Content-Length: %d\r\n\r\n" % len(payload) + payload
                    else:
                        msg = head + b"Transfer-Encoding: chunked\r\n\r\n%x\r\n" % len(payload) + payload + b"\r\n0\r\n\r\n"
                    data = msg + b"GET /index.html HTTP/1.1\r\nHost: a\r\n\r\n" + SENTINEL
                    hl = msg.index(b"\r\n\r\n") + 4
                    out.append((ci, data, [(hl, "body-owner:%s" % tclass)], [("one", [data], 0.0),
                                                                            ("body-later", [data[:hl], data[hl:]], 0.02)]))
    return out


def gen_align(ctx, confs):
    """read-buffer alignment: lighttpd reads a burst into a first buffer of 8191 bytes and the rest into a second
    chunkqueue chunk.  Bursts (ONE segment) in which padding -- the body of a preceding request, or the data of a first
    chunk -- places EVERY byte boundary of a message (head, chunk-size line, chunk data, its CRLF, last-chunk line,
    trailers, final CRLF, blank line, next request line) on the buffer boundary"""
    nxt = b"GET /index.html HTTP/1.1\r\nHost: a\r\n\r\n"
    ck = b"POST /echo.pl HTTP/1.1\r\nHost: a\r\nTransfer-Encoding: chunked\r\n\r\n"
    structs = [("ck", ck + b"5\r\nhello\r\n0\r\n\r\n" + nxt),
               ("ck-trailer", ck + b"3;x\r\nabc\r\n0\r\nX-T: v\r\n\r\n" + nxt),
               ("cl", b"POST /echo.pl HTTP/1.1\r\nHost: a\r\nContent-Length: 5\r\n\r\nhello" + nxt),
               ("blank", b"GET /a.txt HTTP/1.1\r\nHost: a\r\n\r\n\r\n" + nxt)]
    out = []
    B = 8191
    cis = [0] if ctx.quick else [0, 1, 3, 7]
    for ci in cis:
        for name, interest in structs:
            lo, hi = -2, len(interest) - len(nxt) + 18
            if ctx.quick and name in ("cl", "blank"):
                lo = interest.index(b"\r\n\r\n") - 2
            for k in range(lo, hi):
                # (A) padding = Content-Length body of a preceding request
                for P in range(B - k - 80, B - k - 40):
                    pre = b"POST /echo.pl HTTP/1.1\r\nHost: a\r\nContent-Length: %d\r\n\r\n" % P
                    if len(pre) + P + k == B:
                        data = pre + b"p" * P + interest + SENTINEL
                        out.append((ci, data, [(B, "align:%s" % name)], [("burst", [data], 0.0)]))
                        break
        # (B) padding = data of the first chunk of the same chunked request
        tail = b"\r\n0\r\n\r\n" + nxt
        # (quadratic in the chunk length for the byte automaton: few positions in the quick tier -- behind the data,
        #  behind its CRLF, behind the last-chunk line, inside and behind the final CRLF --, one configuration)
        if ci != cis[0]:
            continue
        for k in ((0, 2, 5, 6, 7) if ctx.quick else range(-3, len(tail) - 8)):
            for N in range(B - k - 90, B - k - 50):
                pre = ck + b"%x\r\n" % N
                if len(pre) + N + k == B:
                    data = pre + b"q" * N + tail + SENTINEL
                    out.append((ci, data, [(B, "align:ck-data")], [("burst", [data], 0.0)]))
                    break
    return out


def gen_trailer_overflow(ctx, confs):
    """chunked bodies whose trailer section is longer than max-request-field-size and whose end looks like a request,
    cut so that the terminating empty line arrives in a later segment"""
    out = []
    for ci, cf in enumerate(confs):
        if cf["name"] not in ("default", "stream1", "limits", "lenient", "error-handler"):
            continue
        mf = cf["maxfield"]
        # (the byte automaton is quadratic in the length of a trailer section: in the quick tier the 8 KiB sections
        #  go to the default configuration only, the other configurations are covered by the 512-byte limit)
        big = mf > 1024
        if ctx.quick and big and cf["name"] != "default":
            continue
        for extra in ((0, 300) if ctx.quick and big else (-40, 0, 300)):
            for tailreq in ((LOOKALIKE,) if ctx.quick and big else (LOOKALIKE, b"X-End: 1\r\n\r\n")):
                head = b"POST /echo.pl HTTP/1.1\r\nHost: a\r\nTransfer-Encoding: chunked\r\n\r\n3\r\nabc\r\n0\r\n"
                trl = b"X-T: " + b"t" * (mf + extra) + b"\r\n"
                data = head + trl + tailreq + b"GET /index.html HTTP/1.1\r\nHost: a\r\n\r\n" + SENTINEL
                c1 = len(head) + len(trl)                   # right before the look-alike request / last field
                c2 = c1 + len(tailreq) - 2                  # before the final CRLF
                segl = [("one", [data], 0.0), ("tov-tail", cut(data, [c1]), 0.08), ("tov-crlf", cut(data, [c2]), 0.08),
                        ("tov-mid", cut(data, [len(head) + mf - 3, c1]), 0.08)]
                if not ctx.quick:
                    segl += [("tov-3", cut(data, [len(head) + 100, len(head) + mf // 2, c1]), 0.05),
                             ("tov-limit", cut(data, [len(head) + mf - 4]), 0.08),
                             ("tov-limit1", cut(data, [len(head) + mf - 2]), 0.08)]
                out.append((ci, data, [(c1, "trailer-overflow")], segl))
    return out


def cut(data, points):
    pts = sorted(set(p for p in points if 0 < p < len(data)))
    return [data[a:b] for a, b in zip([0] + pts, pts + [len(data)])]


def segmentations(rng, data, marks, quick):
    """list of (kind, segments, gap seconds)"""
    n = len(data)
    out = [("one", [data], 0.0)]
    crlf = [i + 1 for i in range(n - 1) if data[i] == 13 and data[i + 1] == 10]
    if n <= 700:
        out.append(("bytewise", [data[i:i + 1] for i in range(n)], 0.0006))
    k = rng.randint(1, 8)
    out.append(("random", cut(data, [rng.randrange(1, n) for _ in range(k)]), 0.003))
    if crlf:
        pts = crlf if len(crlf) <= 40 else rng.sample(crlf, 40)
        out.append(("crlf", cut(data, pts), 0.003))
    mk = [o for o, _ in marks]
    pts = []
    for o in mk:
        pts += [o + d for d in (-2, -1, 0, 1, 2) if rng.random() < 0.5]
    # inside chunk-size lines / right after them
    for m in re.finditer(rb"\r\n[0-9a-fA-F]{1,4}[;\t ]?[^\r\n]{0,6}\r\n", data):
        if rng.random() < 0.5:
            pts.append(m.start() + 2 + rng.randint(0, m.end() - m.start() - 2))
    if pts:
        out.append(("marks", cut(data, pts), 0.003))
    if not quick:
        out.append(("random2", cut(data, [rng.randrange(1, n) for _ in range(rng.randint(2, 20))]), 0.001))
    return out


# ------------------------------------------------------------------ reference framer (oracle side)
def ref_head(data, i, strict, first):
    """independent RFC 9112 reading of one request head starting at data[i:].
    returns dict(kind=ok|reject|incomplete|other, why, method, version, framing, cl, end)"""
    # one empty line before a request-line is skipped (RFC 9112 2.2), not on the first request
    if not first and data[i:i + 2] == b"\r\n":
        i += 2
    elif not first and data[i:i + 1] == b"\n":
        i += 1
    if i >= len(data):
        return dict(kind="incomplete")
    j = i
    lines = []
    while True:
        k = data.find(b"\n", j)
        if k < 0:
            return dict(kind="incomplete")
        ln = data[j:k + 1]
        j = k + 1
        if ln in (b"\n", b"\r\n"):
            term = ln
            break
        lines.append(ln)
    end = j
    if not lines:
        return dict(kind="other", why="empty line where a request line is expected")
    block = data[i:end]
    if b"\x00" in block:
        return dict(kind="reject", why="NUL byte in the request line / header section")
    bare_lf = any(not l.endswith(b"\r\n") for l in lines + [term])
    rl = lines[0].rstrip(b"\r\n")
    parts = rl.split(b" ")
    if len(parts) != 3 or parts[2] not in (b"HTTP/1.0", b"HTTP/1.1") or not parts[0] or not parts[1]:
        return dict(kind="other", why="request line not of the form method SP target SP HTTP/1.x")
    method, target, version = parts
    v11 = version == b"HTTP/1.1"
    why = None
    if strict and bare_lf:
        why = "bare LF line end (strict mode)"
    if strict and (target[:1] == b"/" or target == b"*") and any(c < 32 or c == 127 for c in target):
        why = why or "control character in the request-target (strict mode)"
    # unfold
    fields = []
    for l in lines[1:]:
        body = l.rstrip(b"\n")
        if body.endswith(b"\r"):
            body = body[:-1]
        if l[:1] in (b" ", b"\t"):
            if not fields:
                return dict(kind="other", why="continuation line without a field")
            fields[-1][1] += b" " + body.strip(b" \t")
            fields[-1][2] = True
            continue
        if b":" not in body:
            return dict(kind="other", why="field line without colon")
        k, v = body.split(b":", 1)
        fields.append([k, v.strip(b" \t"), False])
    for k, v, folded in fields:
        if strict and k[-1:] in (b" ", b"\t"):
            why = why or "whitespace before the field colon (strict mode)"
        if strict and any((c < 32 and c != 9) or c == 127 for c in v):
            why = why or "control character in a field value (strict mode)"
    name = lambda k: k.strip(b" \t").lower()
    cl = [(v, f) for k, v, f in fields if name(k) == b"content-length"]
    te = [(v, f) for k, v, f in fields if name(k) == b"transfer-encoding"]
    host = [v for k, v, f in fields if name(k) == b"host"]
    if any(f for _, f in cl + te):
        return dict(kind="other", why="folded framing field")
    if len(cl) >= 2:
        why = why or "repeated Content-Length"
    elif cl and (not re.fullmatch(rb"[0-9]+", cl[0][0]) or int(cl[0][0]) > 2 ** 63 - 1):
        why = why or "non-numeric / overflowing Content-Length"
    te_vals = [v for v, _ in te if v]
    if len(te) != len(te_vals) or len(te_vals) > 1:
        why = why or "Transfer-Encoding other than exactly chunked (empty or repeated field)"
    if te_vals and te_vals[0].lower() != b"chunked":
        why = why or "Transfer-Encoding other than chunked"
    if te_vals and not v11:
        why = why or "Transfer-Encoding on HTTP/1.0"
    if te_vals and cl and strict:
        why = why or "Content-Length together with Transfer-Encoding (strict mode)"
    if v11 and not host and not re.match(rb"(?i)https?://", target):
        why = why or "HTTP/1.1 request without Host"
    if why:
        return dict(kind="reject", why=why)
    framing = "chunked" if te_vals else ("cl" if cl and int(cl[0][0]) > 0 else "none")
    return dict(kind="ok", method=method, target=target, version=version, framing=framing, cl=int(cl[0][0]) if cl else 0,
                te_cl=bool(te_vals and cl), end=end)


def ref_frame(data, strict):
    """split the client stream into messages the RFC way; stops at the first message that is not well-formed.
    returns (messages, stop, why) with stop in (None, 'reject', 'incomplete-head', 'incomplete-body', 'other')"""
    msgs, i, first = [], 0, True
    while i < len(data):
        h = ref_head(data, i, strict, first)
        if h["kind"] != "ok":
            return msgs, ("incomplete-head" if h["kind"] == "incomplete" else h["kind"]), h.get("why", "")
        j = h["end"]
        if h["framing"] == "cl":
            if len(data) < j + h["cl"]:
                return msgs, "incomplete-body", h["method"]
            body = data[j:j + h["cl"]]
            j += h["cl"]
        elif h["framing"] == "chunked":
            r = dechunk_ref(data[j:], 0)
            if r[0] == "bad":
                return msgs, "reject", "malformed chunk framing"
            if r[0] == "more":
                return msgs, "incomplete-body", h["method"]
            body = r[1]
            j += r[2]
        else:
            body = b""
        h["body"] = body
        h["stop"] = j
        msgs.append(h)
        i = j
        first = False
    return msgs, None, ""


REJECT_STATUSES = (400, 411, 413, 431, 505)


def conn_oracle(conf, data, obs):
    """independent statement of the property on what the server did on one connection.
    obs = dict(resps=[(status, echo|None)], closed=bool, error=str|None)"""
    if obs.get("error"):
        return obs["error"]
    resps = obs["resps"]
    msgs, stop, why = ref_frame(data, conf["strict"])
    n_ok = len(msgs)
    if stop != "other":
        # a message whose body has not arrived completely may be answered early -- then the connection must close
        limit = n_ok + (1 if stop in ("reject", "incomplete-body") else 0)
        if len(resps) > limit:
            return "more responses (%d) than messages sent (%d)" % (len(resps), limit)
        if stop == "incomplete-body" and len(resps) == limit and not obs["closed"]:
            return "connection kept open after answering a request whose body was not received completely"
    for i, (status, echo) in enumerate(resps):
        if echo is not None and i < n_ok:
            m = msgs[i]
            if echo["M"] != m["method"]:
                return "response %d echoes method %r, message %d is %r" % (i, echo["M"], i, m["method"])
            if echo["B"] != m["body"]:
                return "request body not delivered byte-identically (message %d: %d bytes sent, %d echoed)" % (
                    i, len(m["body"]), len(echo["B"]))
            if echo["CL"] != b"%d" % len(m["body"]):
                return "CONTENT_LENGTH %r differs from the body length %d of message %d" % (echo["CL"], len(m["body"]), i)
            if b"echo.pl" not in m["target"]:
                return "response %d is the CGI's echo, message %d asks for %r" % (i, i, m["target"][:40])
        if i < n_ok and echo is None and status == 200 and msgs[i]["method"] == b"GET" and "bodies" in obs:
            # response i must answer message i: a known static resource is served with its own content
            want = STATIC.get(msgs[i]["target"].split(b"?")[0].decode("latin-1"))
            if want is not None and obs["bodies"][i] != want:
                return "response %d does not answer message %d (GET %s): other content" % (
                    i, i, msgs[i]["target"].decode("latin-1")[:30])
        if echo is not None and i == n_ok and stop == "reject":
            return "message in the rejected class was accepted and handled (%s)" % why
        if i < n_ok and msgs[i].get("te_cl") and status < 400 and (i != len(resps) - 1 or not obs["closed"]):
            return "connection kept open after a request with both Content-Length and Transfer-Encoding"
        if status in REJECT_STATUSES and (i != len(resps) - 1 or not obs["closed"]):
            return "connection not closed after a %d rejection (response %d of %d)" % (status, i + 1, len(resps))
    if stop == "reject" and len(resps) == n_ok + 1:
        status, echo = resps[-1]
        # a handler that does not read the request body (static file, error page) answers before the chunked
        # body is looked at: legitimate if nothing of the body was consumed (no echo) and the connection closes
        early = why == "malformed chunk framing" and echo is None and obs["closed"]
        if not 400 <= status < 600 and not early:
            return "message in the rejected class answered with %d (%s)" % (status, why)
        if not obs["closed"]:
            return "connection not closed after rejecting a message (%s)" % why
    return None


# ------------------------------------------------------------------ client
def conn_exchange(port, segs, gap, expect_open, expect_n, head_flags, timeout=24.0):
    """send the segments, read to EOF.  When the model expects the server to keep waiting for input
    (expect_open), half-close once the expected number of final responses has arrived."""
    from .. import e2e
    s = socket.create_connection(("127.0.0.1", port), timeout=5)
    s.setsockopt(socket.IPPROTO_TCP, socket.TCP_NODELAY, 1)
    buf, closed, err = b"", False, None
    try:
        for seg in segs:
            try:
                s.sendall(seg)
            except OSError:
                break
            if gap:
                time.sleep(gap)
        end = time.time() + timeout
        shut = False
        while True:
            if expect_open and not shut:
                try:
                    done = sum(1 for r in e2e.parse_responses(buf, head_for=head_flags, closed=False)
                               if r["status"] >= 200 or r["status"] == 101) >= expect_n
                except e2e.RespParseError:
                    done = False
                if done or time.time() > end - timeout / 2:
                    try:
                        s.shutdown(socket.SHUT_WR)
                    except OSError:
                        pass
                    shut = True
            r, _, _ = select.select([s], [], [], 0.05 if (expect_open and not shut) else max(0.0, end - time.time()))
            if not r:
                if time.time() > end:
                    break
                continue
            try:
                d = s.recv(262144)
            except OSError:
                closed = True
                break
            if not d:
                closed = True
                break
            buf += d
    finally:
        s.close()
    return buf, closed


def head_flags_of(data, strict):
    """which responses answer a HEAD request (no body), per the reference framer; the message the framer stops at
    is undecided (the server may fail before or after it has read the method): (flags, undecided index | None)"""
    msgs, stop, _ = ref_frame(data, strict)
    flags = [m["method"] == b"HEAD" for m in msgs]
    und = None
    if stop in ("reject", "other", "incomplete-body"):
        i = msgs[-1]["stop"] if msgs else 0
        while data[i:i + 1] in (b"\r", b"\n"):
            i += 1
        if data[i:i + 5] == b"HEAD ":
            und = len(flags)
    if stop == "other":
        # the reference cannot frame the stream beyond this point (e.g. a request line with extra spaces, which
        # lighttpd reads leniently when header-strict is off): it does not know which of the following requests
        # are HEAD, so the response parser may not assume that a later bodiless response is malformed
        und = -1 - len(flags)
    return flags, und


def observe(data, closed, head_flags):
    from .. import e2e
    flags, und = head_flags
    rs, err = None, None
    # a rejection issued before the method was read (431, 400 on the request line) carries a body even if the
    # request was HEAD: such a response is the last one, so try un-flagging one HEAD at a time
    if und is not None and und < 0:
        import itertools
        cands = [flags + list(t) for k in range(1, 5) for t in itertools.product([False, True], repeat=k)]
    else:
        cands = [flags + [False]] + ([flags + [True]] if und is not None else []) + \
            [flags[:i] + [False] * (len(flags) - i + 1) for i, f in enumerate(flags) if f]
    for fl in cands:
        try:
            rs = e2e.parse_responses(data, head_for=fl, closed=closed)
            break
        except e2e.RespParseError as ex:
            err = err or ex
    if rs is None:
        return dict(resps=[], closed=closed, error="response stream is not well-formed HTTP/1.x: %s" % err)
    out, bodies = [], []
    for r in rs:
        if r["status"] < 200 and r["status"] != 101:
            continue
        echo = None
        b = r["body"]
        m = re.match(rb"M=([^\n]*)\nCL=([^\n]*)\nB=", b) if r["status"] == 200 else None
        if m:
            echo = {"M": m.group(1), "CL": m.group(2), "B": b[m.end():]}
        out.append((r["status"], echo))
        bodies.append(b)
    return dict(resps=out, bodies=bodies, closed=closed, error=None)


def static_status(method, path, conf):
    """status of a request that is not handled by a CGI, for the paths the generators use (None: not compared)"""
    if method == b"OPTIONS" and path == b"*":
        return 200
    if path in (b"/index.html", b"/a.txt"):
        return 200 if method in (b"GET", b"HEAD", b"POST", b"OPTIONS") else 501
    if path == b"/x.deny":
        return 403
    if path == b"/sub":
        return 301
    if path == b"/sub/":
        return 403 if method in (b"GET", b"HEAD", b"POST") else (501 if method in (b"PUT", b"DELETE", b"PROPFIND") else None)
    if path.startswith(b"/nope") or path == b"/index.htm":
        if conf.get("errh") == "404":       # error-handler-404: the handler page is served in place (200)
            return 200 if method in (b"GET", b"HEAD", b"POST") else (501 if method in (b"PUT", b"DELETE", b"PROPFIND") else None)
        return 404
    return None


def model_expect(mo):
    """model output line -> (items, final phase); item = dict(kind=req|rej, ...)"""
    items, phase = [], "?"
    skip = False
    for tok in mo.split(" "):
        if tok.startswith("end:"):
            phase = tok.split(":")[1]
            continue
        body, _, idx = tok.rpartition("@")
        a = body.split(":")
        if a[0] == "req":
            items.append(dict(kind="req", status=int(a[1]), method=C.unhx(a[2]), path=C.unhx(a[3]),
                              framing=a[4], body=C.unhx(a[5]), tov="tov" in a[6:], at=int(idx)))
        elif a[0] == "rej":
            alt = [int(x[3:]) for x in a[2:] if x.startswith("alt")]
            items.append(dict(kind="rej", status=int(a[1]), alt=alt[0] if alt else None, ck="ck" in a[2:], at=int(idx)))
        elif a[0] == "skip":
            skip = True
    return items, phase, skip


def conn_compare(conf, items, phase, obs):
    """None if the server's behaviour equals the model's prediction (within the documented tolerances)"""
    resps = obs["resps"]
    exp_closed = phase == "closed"
    for i, it in enumerate(items):
        if i >= len(resps):
            return "response %d missing (model: %s)" % (i, it["kind"] + str(it["status"]))
        status, echo = resps[i]
        if it["kind"] == "rej":
            if conf["stream"] and it["ck"] and status == 411 and i == len(resps) - 1 and obs["closed"]:
                return None            # documented: 411 from mod_cgi before the chunk error is reached
            if status != it["status"] and status != it.get("alt"):
                return "response %d: status %d, model rejects with %d" % (i, status, it["status"])
            continue
        if it["status"] == 200:        # echoing CGI
            if conf["stream"] and it["framing"] == "ck" and status == 411 and i == len(resps) - 1 and obs["closed"]:
                return None            # documented: mod_cgi answers 411 to a chunked body it would have to stream
            if it["method"] == b"HEAD":
                if status != 200 or echo is not None:
                    return "response %d: status %d, model: HEAD handled by the CGI" % (i, status)
                continue
            if echo is None:
                return "response %d: status %d without echo, model: request handled by the CGI" % (i, status)
            if echo["M"] != it["method"] or echo["B"] != it["body"] or echo["CL"] != b"%d" % len(it["body"]):
                return "response %d: echoed method/body/CONTENT_LENGTH differ from the model's request" % i
            if it.get("tov"):
                # documented: the trailer section outgrew max-request-field-size.  The automaton closes here; the C
                # decides per read buffer (keep-alive stays if the terminator is in the buffer it examines).  What
                # follows is judged by the oracle alone.
                return None
        else:
            if echo is not None:
                return "response %d is a CGI echo, model: not a CGI request" % i
            want = it["status"] if it["status"] else static_status(it["method"], it["path"], conf)
            if want is not None and status != want:
                return "response %d: status %d, expected %d" % (i, status, want)
    if len(resps) > len(items):
        return "%d responses, model predicts %d" % (len(resps), len(items))
    if obs["closed"] != True:
        return "server did not close the connection (model final state: %s)" % phase
    return None


def lone_cr_cut(data, segs, items):
    """a segment boundary falls between the CR and the LF of an empty line that directly follows a message the
    model answers (i.e. precedes the next request on a kept-alive connection)"""
    starts = set(it["at"] + 1 for it in items)
    o = 0
    for sg in segs[:-1]:
        o += len(sg)
        if data[o - 1:o] == b"\r" and data[o:o + 1] == b"\n" and (o - 1) in starts:
            return True
    return False


def sig_of(obs):
    return " ".join(("E" if e else "S") + str(s) for s, e in obs["resps"][:6]) + (" C" if obs["closed"] else " O")


def gen_conn(ctx, confs):
    rng = ctx.rng
    cases = []           # (conf index, data, marks)
    n = 420 if ctx.quick else 8000
    for _ in range(n):
        ci = rng.randrange(len(confs))
        data, marks = conn_pipeline(rng, big=not ctx.quick or rng.random() < 0.3, stream=confs[ci]["stream"])
        if confs[ci]["maxfield"] < 8192 and rng.random() < 0.5:
            data = data.replace(b"\r\n\r\n", b"\r\nX-Pad: " + b"p" * rng.choice([300, 440, 470, 480, 500]) + b"\r\n\r\n", 1)
            marks = [(0, "padded")]
        cases.append((ci, data, marks))
    # every single-byte corruption of two base pipelines (one segment each)
    bases = [b"POST /echo.pl HTTP/1.1\r\nHost: a\r\nContent-Length: 5\r\n\r\nhello"
             b"POST /echo.pl HTTP/1.1\r\nHost: a\r\nTransfer-Encoding: chunked\r\n\r\n3\r\nabc\r\n0\r\n\r\n",
             b"GET /index.html HTTP/1.1\r\nHost: a\r\n\r\n\r\nGET /a.txt HTTP/1.0\r\nConnection: keep-alive\r\n\r\n"]
    sweep = []
    for bi, base in enumerate(bases):
        for i in range(len(base)):
            for b in ([0, 10, 13, 32, 58, 0x61] if ctx.quick else CORRUPT):
                if base[i] != b:
                    sweep.append((0 if (i + b) % 3 else 3, corrupt1(base, i, b, 0) + SENTINEL, [(0, "sweep%d" % bi)]))
            sweep.append((0, corrupt1(base, i, 0, 2) + SENTINEL, [(0, "sweep%d" % bi)]))
    if ctx.quick:
        sweep = rng.sample(sweep, 500)
    return cases, sweep


def model_lines(lines):
    """the model on all case lines, round-robin over the cores (the byte-at-a-time automaton is quadratic in the
    length of a chunk or trailer section, and the long cases are generated next to each other)"""
    n = max(1, min(C.NCPU, len(lines) // 8))
    parts = [lines[i::n] for i in range(n)]
    with ThreadPoolExecutor(n) as ex:
        res = list(ex.map(lambda p: C.run_lines([C.ltmodel_path(), "h1"], p), parts))
    out = [None] * len(lines)
    for i, (o, rc, err) in enumerate(res):
        if rc != 0 or len(o) != len(parts[i]):
            return [], rc or 1, err
        out[i::n] = o
    return out, 0, ""


def run_conn(ctx):
    from .. import e2e
    t0 = time.time()
    bd, err = e2e.build_server()
    if bd is None:
        ctx.broken.append({"kind": "server-build", "names": ["lighttpd"], "log": err[-3000:]})
        return
    confs = conn_confs(ctx)
    cases, sweep = gen_conn(ctx, confs)
    jobs = []            # (case index, conf index, seg kind, segs, gap)
    allc = cases + sweep
    for k, (ci, data, marks) in enumerate(allc):
        segl = segmentations(ctx.rng, data, marks, ctx.quick) if k < len(cases) else [("one", [data], 0.0)]
        for kind, segs, gap in segl:
            jobs.append((k, ci, kind, segs, gap))
    # structured streams: body ownership cross product, read-buffer alignment sweep, trailer overflow
    for name, gen in (("body-owner", gen_body_owner), ("align", gen_align), ("trailer-overflow", gen_trailer_overflow)):
        for ci, data, marks, segl in gen(ctx, confs):
            k = len(allc)
            allc.append((ci, data, marks))
            for kind, segs, gap in segl:
                jobs.append((k, ci, kind, segs, gap))
                ctx.dist["conn:stream:" + name] += 1
    # exhaustive small scope: EVERY segmentation of the bytes around two message boundaries
    # (end of a chunked body | empty line | next request line; head | Content-Length body | next request)
    ex_n, ex_k = 0, []
    for base, centre in ((b"POST /echo.pl HTTP/1.1\r\nHost: a\r\nTransfer-Encoding: chunked\r\n\r\n3\r\nabc\r\n0\r\n\r\n"
                          b"\r\nGET /a.txt HTTP/1.1\r\nHost: a\r\n\r\n", b"0\r\n\r\n\r\nGE"),
                         (b"POST /echo.pl HTTP/1.1\r\nHost: a\r\nContent-Length: 3\r\n\r\nGET"
                          b"GET /a.txt HTTP/1.1\r\nHost: a\r\n\r\n", b"3\r\n\r\nGETGE"),
                         (b"GET /index.html HTTP/1.1\r\nHost: a\r\n\r\n"
                          b"\r\nGET /a.txt HTTP/1.1\r\nHost: a\r\n\r\n", b"a\r\n\r\n\r\nGET")):
        lo = base.index(centre)
        width = len(centre) - (3 if ctx.quick else 0)
        ex_k.append(width + 1)
        k = len(allc)
        allc.append((0, base + SENTINEL, [(lo, "window")]))
        for mask in range(1 << (width + 1)):
            pts = [lo + i for i in range(width + 1) if mask >> i & 1]
            jobs.append((k, 0, "exhaustive", cut(base + SENTINEL, pts), 0.004))
            ex_n += 1
    ctx.exhaustive = {"e2e-conn": "all 2^k segmentations (k = %s cut points, %d connections) of the bytes around three "
                                  "message boundaries (chunked body | empty line | request; head | Content-Length body | request; "
                                  "GET | empty line | request)" % ("/".join(map(str, ex_k)), ex_n)}
    lines = ["conn %d %d %d %d %d %s" % (confs[ci]["bits"], confs[ci]["maxfield"], confs[ci]["maxka"],
                                         confs[ci]["kaidle"], confs[ci]["maxsize"], C.hx(data)) for ci, data, _ in allc]
    if not ctx.model_ok:
        return
    mo, rc, merr = model_lines(lines)
    if rc != 0 or len(mo) != len(lines):
        ctx.broken.append({"kind": "model-run", "names": ["h1 conn"], "log": merr[-2000:]})
        return
    expects = [model_expect(o) for o in mo]
    servers = []
    for cf in confs:
        srv = make_server(bd, cf)
        srv.start()
        servers.append(srv)

    def one(job):
        k, ci, kind, segs, gap = job
        data = allc[k][1]
        items, phase, skip = expects[k]
        head_flags = head_flags_of(data, confs[ci]["strict"])
        try:
            buf, closed = conn_exchange(servers[ci].port, segs, gap, phase != "closed", len(items), head_flags[0])
        except OSError as ex:
            return dict(resps=[], closed=False, error="connect/send failed: %s" % ex, connfail=True)
        return observe(buf, closed, head_flags)

    try:
        with ThreadPoolExecutor(24) as ex:
            obs = list(ex.map(one, jobs))
        dead = [i for i, s in enumerate(servers) if not s.alive()]
    finally:
        for s in servers:
            s.stop()
    for i, s in enumerate(servers):
        rep = s.sanitizer_report()
        if rep or i in dead:
            ctx.violation("crash:e2e-conn:" + (rep or "")[:60],
                          "server crashed / sanitizer report while serving request pipelines (config %s)" % confs[i]["name"],
                          {"property": ctx.pid, "kind": "sanitizer-or-crash", "correspondence": "e2e-conn",
                           "conf": confs[i]["name"], "stderr": (rep or s.logs())[-4000:]}, found=False)
            return
    ndis = nor = 0
    by_case = collections.defaultdict(list)
    one_ok = {}
    LONE_CR = ("outcome depends on TCP segmentation: the CRLF of an empty line before a keep-alive request, cut "
               "between CR and LF, is answered 400 + close (uncut or cut elsewhere: skipped)")
    # shortest streams first, so that the replay recorded for a violation is the smallest failing input
    # (stable: the uncut stream of a case stays in front of its other segmentations)
    for job, ob in sorted(zip(jobs, obs), key=lambda jo: len(allc[jo[0][0]][1])):
        k, ci, kind, segs, gap = job
        data = allc[k][1]
        items, phase, skip = expects[k]
        ctx.evaluations += 1
        ctx.keys["conn:%s:%s:%s" % (confs[ci]["name"], kind, sig_of(ob))] += 1
        ctx.dist["conn:seg:" + kind] += 1
        rep = {"property": ctx.pid, "correspondence": "e2e-conn", "input": lines[k], "conf": ci,
               "conf_name": confs[ci]["name"], "seg_lens": [len(x) for x in segs],
               "segmentation": kind, "gap": gap, "impl_obs": sig_of(ob), "model_obs": mo[k][:600]}
        v = conn_oracle(confs[ci], data, ob)
        if v:
            nor += 1
            ctx.violation("oracle:e2e-conn:" + re.sub(r"[0-9]+", "N", v)[:70], v,
                          dict(rep, kind="property-oracle", oracle_verdict=v), found=True)
            continue
        lone = lone_cr_cut(data, segs, items)
        by_case[k].append((kind, ob, segs, gap, lone))
        if skip:
            ctx.dist["conn:skipped-ipv6-literal-host"] += 1
            continue
        d = conn_compare(confs[ci], items, phase, ob)
        if len(segs) == 1:
            one_ok[k] = d is None
        if d and lone and one_ok.get(k):     # (the uncut stream of a case is always its first job)
            nor += 1
            ctx.violation("oracle:e2e-conn:segmentation:lone-CR-before-keep-alive-request", LONE_CR,
                          dict(rep, kind="property-oracle", oracle_verdict=LONE_CR, detail=d), found=True)
        elif d:
            ndis += 1
            ctx.violation("corr:e2e-conn:" + re.sub(r"[0-9]+", "N", d)[:50],
                          "model/implementation correspondence e2e-conn broken: " + d,
                          dict(rep, kind="correspondence", detail=d,
                               oracle_verdict="accepted by the reference framer oracle"), found=False)
    # oracle: the outcome must not depend on the segmentation.  Not compared where the status of a rejection
    # legitimately depends on what is buffered (head starting with a control byte: 400 or the parser's status;
    # chunked bodies under request streaming: 411 from mod_cgi)
    for k, lst in by_case.items():
        ci = allc[k][0]
        items = expects[k][0]
        if any(it["kind"] == "rej" and (it.get("alt") or (confs[ci]["stream"] and it.get("ck"))) for it in items) or \
                (confs[ci]["stream"] and any(it["kind"] == "req" and it["framing"] == "ck" for it in items)) or \
                any(it.get("tov") for it in items):
            continue
        ref = None
        for kind, ob, segs, gap, lone in lst:
            key = (tuple((s, None if e is None else (e["M"], e["CL"], e["B"])) for s, e in ob["resps"]), ob["closed"])
            if ref is None:
                ref = (key, kind, ob)
            elif key != ref[0]:
                nor += 1
                v = LONE_CR if lone else "outcome depends on TCP segmentation (%s vs %s)" % (ref[1], kind)
                ctx.violation("oracle:e2e-conn:segmentation" + (":lone-CR-before-keep-alive-request" if lone else ""), v,
                              {"property": ctx.pid, "kind": "property-oracle", "correspondence": "e2e-conn",
                               "input": lines[k], "conf": ci, "conf_name": confs[ci]["name"],
                               "seg_lens": [len(x) for x in segs], "segmentation": kind,
                               "gap": gap, "impl_obs": sig_of(ob), "other_obs": sig_of(ref[2]),
                               "oracle_verdict": v}, found=True)
                break
    for i in range(0, len(jobs), max(1, len(jobs) // 4)):
        ctx.sample({"stream": "e2e-conn", "conf": confs[jobs[i][1]]["name"], "segmentation": jobs[i][2],
                    "input": lines[jobs[i][0]][:300], "impl": sig_of(obs[i])})
    ctx.streams.append({"name": "e2e-conn", "cases": len(jobs), "pipelines": len(allc), "disagreements": ndis,
                        "oracle_hits": nor, "wall_s": round(time.time() - t0, 2)})


def run(ctx):
    ex1, err = C.build_harness("h_request")
    if ex1 is None:
        ctx.broken.append({"kind": "harness-build", "names": ["h_request"], "log": err[-3000:]})
        return
    ex2, err = C.build_harness("h_h1body")
    if ex2 is None:
        ctx.broken.append({"kind": "harness-build", "names": ["h_h1body"], "log": err[-3000:]})
        return

    def canon(o):
        return o

    req = gen_req(ctx)
    # IPv6-literal host normalisation is not modelled: drop cases either side marks skip-v6
    impl, rc, e = C.parallel_lines([ex1], req)
    keep = [l for l, o in zip(req, impl) if o != "skip-v6"] if rc == 0 and len(impl) == len(req) else req
    ctx.dist["req:skipped-ipv6-literal-host"] = len(req) - len(keep)
    ctx.differential("request-head(h_request)", [ex1], "h1", keep, oracle, classify)
    ctx.differential("chunked-body(h_h1body)", [ex2], "h1", gen_chunked(ctx), oracle, classify)
    run_conn(ctx)
    ctx.rule = ("request heads from a grammar (75% valid) with single-byte corruptions, every single-byte "
                "corruption of 5 base requests, limit cases; chunked streams with all segmentations of short "
                "ones; end-to-end: pipelines of 1-6 well-formed / broken messages (+ sentinel) against the real "
                "server under 9-14 configurations (parse options, request streaming, limits, error handlers), each "
                "under one-segment / bytewise / random / CR|LF / boundary segmentations, single-byte corruption sweep of "
                "two base pipelines, cross product body owner x method x framing, read-buffer alignment sweep (every "
                "byte boundary of a message on the 8191-byte buffer boundary of a burst), trailer sections beyond "
                "max-request-field-size; chunked streams also with one read buffer per segment; distinct = (stream, "
                "parseopts or configuration, segmentation, status/framing/version/keep-alive or response-sequence "
                "class) tuples")
    ctx.assumptions += ["IPv6-literal Host values under host-normalize are skipped (inet_pton not modelled)",
                        "trailer sections longer than max-request-field-size: the C decides per read buffer (overflow "
                        "with keep-alive off only if the terminator is not in the buffer it examines); in-process they "
                        "are exercised where the data ends exactly at the limit, end-to-end with the model's close as "
                        "one admissible outcome and the oracle judging what follows",
                        "e2e tolerances: a head beginning with a byte < 0x20 may be answered 400 or with the "
                        "parser's status (depends on how much of the head is buffered; both reject + close); "
                        "mod_cgi answers 411 + close to a chunked body under server.stream-request-body 1/2 unless "
                        "the whole body arrived with the head; 1xx interim responses are ignored"]


def replay_conn(ctx, rep):
    from .. import e2e
    bd, err = e2e.build_server()
    confs = conn_confs(ctx)
    ctx.tier = "thorough"
    confs = conn_confs(ctx)
    cf = confs[rep["conf"]]
    line = rep["input"]
    data = C.unhx(line.split(" ")[-1])
    segs, o = [], 0
    for ln in rep.get("seg_lens") or [len(data)]:
        segs.append(data[o:o + ln])
        o += ln
    mo, _, _ = C.run_model("h1", [line])
    items, phase, skip = model_expect(mo[0])
    srv = make_server(bd, cf)
    head_flags = head_flags_of(data, cf["strict"])
    outs = []
    with srv:
        for sg, gap in ((segs, rep.get("gap", 0.003)), ([data], 0.0)):
            buf, closed = conn_exchange(srv.port, sg, gap, phase != "closed", len(items), head_flags[0])
            outs.append(observe(buf, closed, head_flags))
    print("config:", cf["name"])
    print("stream:", data)
    print("model :", mo[0][:1000])
    rc = 0
    for name, ob in zip(("recorded segmentation", "one segment"), outs):
        v = conn_oracle(cf, data, ob)
        d = None if skip else conn_compare(cf, items, phase, ob)
        print("impl (%s):" % name, sig_of(ob), "| oracle:", v, "| vs model:", d)
        if v or d:
            rc = 1
    if sig_of(outs[0]) != sig_of(outs[1]):
        print("oracle: outcome depends on TCP segmentation")
        rc = 1
    if rc:
        print("VIOLATION property=%s replay=(replayed)" % ctx.pid)
    return rc


def replay_line(ctx, rep):
    line = rep["input"]
    if line.startswith("conn"):
        return replay_conn(ctx, rep)
    name = "h_request" if line.startswith("req ") else "h_h1body"
    exe, err = C.build_harness(name)
    o, rc, e = C.run_lines([exe], [line])
    m, _, _ = C.run_model("h1", [line])
    print("input:", line)
    print("impl :", o, rc)
    print("model:", m)
    v = oracle(line, o[0]) if o else "crash"
    print("oracle:", v)
    if v or (o != m):
        print("VIOLATION property=%s replay=(replayed)" % ctx.pid)
        return 1
    return 0
